------------------------------ MODULE PrecTrace -----------------------------
(* Trace validation for C09.  Two kinds of recorded events:                   *)
(*  "gram"  spec <-> CPython: the harness rendered slot x child with and      *)
(*          without parentheses and logged what `ast.parse` made of each;     *)
(*          the clauses say that Valid / NeedsPars / NeedsInner /             *)
(*          NeedsParentPars / NeedsParsML of Prec.tla describe exactly that.  *)
(*          A failing Gram.* clause is a bug of the *specification*.          *)
(*  "put"   pfst <-> spec: the real replace / put / attribute assignment was  *)
(*          executed; logged are the parse of the source before and after     *)
(*          (hash-consed ids), the path, the id of the replacement, and token *)
(*          facts about parentheses.  Clauses: Regroup.parse, Regroup.at,     *)
(*          Regroup.rest, ParsWhenNeeded, NeededParsKept, Carried.            *)
(* Verdicts are total (see PfstTrace.tla).                                    *)
EXTENDS NodeTab, Prec, TLC

VARIABLES tid, l, bad, seen
vars == <<tid, l, bad, seen>>

Cl(name, ok) == [c |-> name, ok |-> ok]
Steps(t) == Traces[t].steps

(* y is x with the subtree at `path` replaced by `new`; every other subtree keeps its id, every label on   *)
(* the path is unchanged.  `dep` names the field of the parent that is a function of the operand's source   *)
(* (Prec!Dependent): "debugtext" - the Constant right before the FormattedValue in JoinedStr.values (the     *)
(* path ends ... values[i] . value, so it is met with two steps left); "simple" - AnnAssign.simple (one     *)
(* step left).  A dependent field may change, but only into a node of the same kind.                        *)
RECURSIVE ReplacedAtD(_, _, _, _, _)
ReplacedAtD(x, y, path, new, dep) ==
  IF path = <<>> THEN y = new
  ELSE IF x = 0 \/ y = 0 THEN FALSE
  ELSE
  /\ STab[x].k = STab[y].k /\ STab[x].v = STab[y].v /\ Len(STab[x].f) = Len(STab[y].f)
  /\ \A i \in 1..Len(STab[x].f) :
       LET fx == STab[x].f[i]  fy == STab[y].f[i] IN
       /\ fx.n = fy.n
       /\ IF fx.n # path[1].n
          THEN \/ fx.c = fy.c
               \/ /\ dep = "simple" /\ Len(path) = 1 /\ fx.n = "simple"
                  /\ Len(fx.c) = 1 /\ Len(fy.c) = 1 /\ Kind(fx.c[1]) = Kind(fy.c[1])
          ELSE /\ Len(fx.c) = Len(fy.c) /\ path[1].i \in 1..Len(fx.c)
               /\ \A j \in 1..Len(fx.c) :
                    IF j = path[1].i THEN ReplacedAtD(fx.c[j], fy.c[j], Tail(path), new, dep)
                    ELSE \/ fx.c[j] = fy.c[j]
                         \/ /\ dep = "debugtext" /\ Len(path) = 2 /\ j = path[1].i - 1
                            /\ Kind(fx.c[j]) = "Constant" /\ Kind(fy.c[j]) = "Constant"
ReplacedAt(x, y, path, new) == ReplacedAtD(x, y, path, new, "none")

Known(e) == IsSlot(e.slot) /\ e.child \in KindsFor(e.slot)
Is(pre, r, e, new) == r > 0 /\ ReplacedAtD(pre, r, e.path, new, Dependent(e.slot))

(* ---- spec <-> CPython ---------------------------------------------------- *)
(* J = Judge(slot, child) of Prec.tla.                                                                       *)
(* r[cp][pp]: rendering with the child (or, for `*a or b`, the star's operand) parenthesised iff cp and the  *)
(* parent parenthesised iff pp (only for fill slots); 0 = does not parse, -1 = rendering does not exist      *)
ChildNeed(J)  == J.needs \/ J.inner \/ J.blank
ExpectOk(J, cp, pp) == /\ J.valid /\ (cp \/ ~ChildNeed(J)) /\ (pp \/ ~J.parent)
                       /\ (cp => J.parok) /\ ~J.dbl
GramRender(e, J, name, r, cp, pp) ==
  IF r = -1 THEN {} ELSE {Cl(name, Is(e.preS, r, e, e.newS) = ExpectOk(J, cp, pp))}
GramClauses(e) ==
  IF ~Known(e) THEN {Cl("UnknownCase", FALSE)} ELSE
  LET J == Judge(e.slot, e.child) IN
  GramRender(e, J, "Gram.bare", e.r00, FALSE, FALSE) \cup GramRender(e, J, "Gram.childpar", e.r10, TRUE, FALSE)
  \cup GramRender(e, J, "Gram.parentpar", e.r01, FALSE, TRUE) \cup GramRender(e, J, "Gram.bothpar", e.r11, TRUE, TRUE)
  \cup (IF e.rblank = -1 THEN {} ELSE      \* a blank in front of the operand instead of parentheses (f-string fields)
        {Cl("Gram.blank", Is(e.preS, e.rblank, e, e.newS) = (J.valid /\ ~J.needs /\ ~J.inner /\ ~J.dbl))})
  \cup (IF e.r20 = -1 THEN {} ELSE {Cl("Gram.doublepar", Is(e.preS, e.r20, e, e.newS) = (J.valid /\ J.parok))})
  \cup (IF e.comp00 = -1 \/ ~Is(e.preS, e.r00, e, e.newS) THEN {} ELSE {Cl("Gram.compile", (e.comp00 = 1) = J.comp)})
  \cup (IF e.comp10 = -1 \/ ~Is(e.preS, e.r10, e, e.newS) THEN {} ELSE {Cl("Gram.compile", (e.comp10 = 1) = J.comp)})
  \cup (IF e.mlS = -1 THEN {} ELSE
        {Cl("Gram.ml", Is(e.preS, e.mlS, e, e.mlNewS) =
                         (ExpectOk(J, FALSE, FALSE) /\ ~NeedsParsML(e.depth, TRUE, e.selfEnc)))})

(* ---- pfst <-> spec ------------------------------------------------------- *)
(* In a fill slot the recorded token range is the *parent* (`<child> as name`), so there the clause speaks   *)
(* about the parentheses of the parent; the child's own grouping is judged by Regroup alone.               *)
Need(e, J) == IF IsFill(e.slot) THEN J.parent
              ELSE J.needs \/ NeedsParsML(e.depth, e.ml, e.selfEnc)
(* sequence_pattern: '[' maybe_sequence_pattern? ']' | '(' open_sequence_pattern? ')' -- brackets delimit an *)
(* open sequence pattern as well as parentheses do                                                          *)
(* a starred expression is never parenthesised itself (a parenthesised star does not exist): its operand is               *)
Delimited(e) == \/ e.outerPars >= 1
                \/ (e.child = "OpenSeq" /\ e.outerBr >= 1)
                \/ (e.child \in {"Starred", "StarredOr"} /\ e.innerPars >= 1)
(* named deviation RefuseArglikeSource: the *text* `*a or b` is an expression only in an argument position; *)
(* handed over as source for any other slot pfst parses it in that slot's own mode and refuses it           *)
(* (as AST / FST node the same request is carried out with the operand parenthesised)                       *)
RefuseArglikeSource(e, J) == J.inner /\ e.form = "src"
(* where the grammar has no parenthesised form (NAME ':=', name_or_attr '(') a request that comes in        *)
(* parentheses or that would need them for its line breaks cannot be represented                           *)
Unrepresentable(e, J) == ~J.parok /\ (e.clay = "cpar" \/ NeedsParsML(e.depth, e.ml, e.selfEnc))
(* named deviation RefuseParenthesisedPatternExpr: in `case (7):` the parentheses are a group_pattern, not  *)
(* part of the value expression; pfst refuses source that comes in parentheses for a pattern expression    *)
(* ("cannot put parenthesized ... to pattern expression") instead of moving them to the pattern             *)
RefuseParenthesisedPatternExpr(e, J) == J.nt \in {"literal_value", "literal_key"} /\ e.clay = "cpar"
Domain(e, J) == /\ J.valid /\ J.comp /\ ~RefuseArglikeSource(e, J) /\ ~Unrepresentable(e, J)
                /\ ~RefuseParenthesisedPatternExpr(e, J)
(* the refusal side: in a strict slot (closed list of literal forms / annotation targets) a request for any *)
(* other kind must raise and leave the source exactly as it was                                            *)
MustRefuse(e, J) == J.strict /\ ~J.valid
PutClauses(e) ==
  IF ~Known(e) THEN {Cl("UnknownCase", FALSE)} ELSE
  LET J == Judge(e.slot, e.child) IN
  IF MustRefuse(e, J) THEN {Cl("RefusedCleanly", e.outcome # "ok" /\ e.postS = e.preS /\ e.sameText)}
  ELSE IF ~Domain(e, J) THEN {}       \* outside the domain: not a request the property speaks about
  ELSE IF e.outcome # "ok" THEN {Cl("Carried", FALSE)}
  ELSE {Cl("Carried", TRUE), Cl("Regroup.parse", e.postS # 0)}
       \cup (IF e.postS = 0 THEN {} ELSE
             { Cl("Regroup.at", NodeAt(e.postS, e.path) = e.newS),
               Cl("Regroup.rest", ReplacedAtD(e.preS, e.postS, e.path, e.newS, J.dep)) })
       \cup (IF Need(e, J) THEN {Cl("ParsWhenNeeded", Delimited(e))} ELSE {})
       \cup {Cl("NeededParsKept", e.ctxSub)}

Clauses(e) == CASE e.call = "gram" -> GramClauses(e)
                [] e.call = "put" -> PutClauses(e)
                [] OTHER -> {Cl("UnknownEvent", FALSE)}
ClassOf(e) == e.cls

Init == tid \in 1..Len(Traces) /\ l = 1 /\ bad = {} /\ seen = {}
Next == /\ l <= Len(Steps(tid))
        /\ LET e == Steps(tid)[l]  cs == TLCEval(Clauses(e)) IN
             /\ bad' = bad \cup {<<l, r.c, ClassOf(e)>> : r \in {q \in cs : ~q.ok}}
             /\ seen' = seen \cup {r.c : r \in cs}
        /\ l' = l + 1 /\ UNCHANGED tid
Spec == Init /\ [][Next]_vars
Report == (l = Len(Steps(tid)) + 1) => PrintT(<<"VERDICT", Traces[tid].id, bad, seen>>)
=============================================================================
