------------------------------ MODULE Registry ------------------------------
(* The modification registry of pfst (`_MODIFYING : root -> (node, count)`)   *)
(* and the bracket protocol every structured edit follows:                    *)
(*     Enter ; body steps (each may fault) ; Success | Fail                    *)
(* Nested brackets on the same node are counted, nested brackets on another   *)
(* node of the same tree are refused unless forced, and an exception unwinds  *)
(* through every open bracket of the call (context-manager use) -- or through *)
(* the explicit try/except of the one manual user (`unpar`).                   *)
(* Every thread edits only trees it owns (C20); the registry is shared.       *)
(*                                                                            *)
(* Properties: Balanced, Quiescent (no entry outlives the outermost call,     *)
(* whether it returned or raised), NextEditEnabled, OwnerOnly.                *)
EXTENDS Integers, Sequences, FiniteSets, TLC

CONSTANTS Threads, Roots, Nodes, MaxDepth, Owner   \* Owner : Roots -> Threads

None == [node |-> "none", count |-> 0]

VARIABLES reg,      \* Roots -> None | [node, count]
          stack,    \* Threads -> Seq([root, node])   open brackets, innermost last
          mode,     \* Threads -> "idle" | "run" | "unwind"
          touched   \* history: set of <<thread, root>> registry writes (hidden by VIEW)
vars == <<reg, stack, mode, touched>>

Init == /\ reg = [r \in Roots |-> None]
        /\ stack = [t \in Threads |-> <<>>]
        /\ mode = [t \in Threads |-> "idle"]
        /\ touched = {}

Mine(t) == {r \in Roots : Owner[r] = t}

(* a public call starts, or a nested helper opens another bracket            *)
Enter(t, r, n, force) ==
  /\ mode[t] \in {"idle", "run"} /\ r \in Mine(t) /\ Len(stack[t]) < MaxDepth
  /\ (stack[t] # <<>> => stack[t][Len(stack[t])].root = r)     \* one call works on one tree
  /\ IF reg[r] # None /\ reg[r].node # n /\ ~force
     THEN \* RuntimeError('nested modification of different nodes not allowed'): raised before anything is written
          /\ mode' = [mode EXCEPT ![t] = IF stack[t] = <<>> THEN "idle" ELSE "unwind"]
          /\ UNCHANGED <<reg, stack, touched>>
     ELSE /\ reg' = [reg EXCEPT ![r] = IF reg[r] = None THEN [node |-> n, count |-> 1]
                                        ELSE [node |-> reg[r].node, count |-> reg[r].count + 1]]
          /\ stack' = [stack EXCEPT ![t] = Append(@, [root |-> r, node |-> n])]
          /\ mode' = [mode EXCEPT ![t] = "run"]
          /\ touched' = touched \cup {<<t, r>>}

Release(t) ==
  LET fr == stack[t][Len(stack[t])]  r == fr.root IN
  /\ reg' = [reg EXCEPT ![r] = IF reg[r].count > 1 THEN [node |-> reg[r].node, count |-> reg[r].count - 1]
                                ELSE None]
  /\ stack' = [stack EXCEPT ![t] = SubSeq(@, 1, Len(@) - 1)]
  /\ touched' = touched \cup {<<t, r>>}

(* innermost bracket completes normally                                      *)
Success(t) ==
  /\ mode[t] = "run" /\ stack[t] # <<>>
  /\ Release(t)
  /\ mode' = [mode EXCEPT ![t] = IF Len(stack[t]) = 1 THEN "idle" ELSE "run"]

(* a body step raises (any step may): the exception starts to unwind         *)
Fault(t) ==
  /\ mode[t] = "run" /\ stack[t] # <<>>
  /\ mode' = [mode EXCEPT ![t] = "unwind"]
  /\ UNCHANGED <<reg, stack, touched>>

(* __exit__ with an exception / explicit fail() in an except clause          *)
Fail(t) ==
  /\ mode[t] = "unwind" /\ stack[t] # <<>>
  /\ Release(t)
  /\ mode' = [mode EXCEPT ![t] = IF Len(stack[t]) = 1 THEN "idle" ELSE "unwind"]

(* an exception may also be caught by an enclosing helper (e.g. raw='auto'    *)
(* fallback) which then continues normally                                    *)
Catch(t) ==
  /\ mode[t] = "unwind" /\ stack[t] # <<>>
  /\ mode' = [mode EXCEPT ![t] = "run"]
  /\ UNCHANGED <<reg, stack, touched>>

Next == \E t \in Threads :
          \/ \E r \in Roots, n \in Nodes, f \in BOOLEAN : Enter(t, r, n, f)
          \/ Success(t) \/ Fault(t) \/ Fail(t) \/ Catch(t)

Spec == Init /\ [][Next]_vars

View == <<reg, stack, mode>>

(* ---- properties -------------------------------------------------------- *)
Frames(r) == LET t == Owner[r] IN Cardinality({i \in 1..Len(stack[t]) : stack[t][i].root = r})

Balanced == \A r \in Roots : reg[r].count = Frames(r)

Quiescent == \A t \in Threads : mode[t] = "idle" => (stack[t] = <<>> /\ \A r \in Mine(t) : reg[r] = None)

NextEditEnabled == \A t \in Threads : mode[t] = "idle" =>
                     \A r \in Mine(t), n \in Nodes : reg[r] = None \/ reg[r].node = n

OwnerOnly == \A p \in touched : Owner[p[2]] = p[1]

NoStuck == \A t \in Threads : mode[t] = "unwind" => stack[t] # <<>>

=============================================================================
