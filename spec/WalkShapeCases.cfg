CONSTANTS
  MaxArgs = 6
  MaxPar = 2
  MaxKwOnly = 2
  MaxDict = 4
  MaxGens = 3
