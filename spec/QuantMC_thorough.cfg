SPECIFICATION Spec
CONSTANTS
  MCItems = {1, 2, 3, 4, 5, 8, 9, 12, 13, 16, 17, 19, 20, 27, 30, 31, 45, 48, 49, 52, 53, 59, 62, 63, 66, 81, 84, 85, 96, 110, 205, 474, 475, 1000, 2035, 3000, 4001, 5555, 6002, 7003, 8000}
  MCItems3 = {1, 3, 4, 5, 48}
  MCWords = {0, 1, 2, 3, 4, 5, 6, 7, 8, 9, 10, 11, 12, 13, 14, 15, 16, 17, 18, 19, 20, 21, 22, 23, 24, 25, 26, 27, 28, 29, 30, 31, 32, 33, 34, 35, 36, 37, 38, 39, 40, 41, 42, 43, 44, 45, 46, 47, 48, 49, 50, 51, 52, 53, 54, 55, 56, 57, 58, 59, 60, 61, 62, 63, 64, 65, 66, 67, 68, 69, 70, 71, 72, 73, 74, 75, 76, 77, 78, 79, 80, 81, 82, 83, 84, 85, 86, 87, 88, 89, 90, 91, 92, 93, 94, 95, 96, 97, 98, 99, 100, 101, 102, 103, 104, 105, 106, 107, 108, 109, 110, 111, 112, 113, 114, 115, 116, 117, 118, 119, 120}
INVARIANT LexFirst
INVARIANT GreedyLang
INVARIANT Tiles
INVARIANT AtomicSound
INVARIANT ElemOnlySub
INVARIANT AtomicNoopFlat
INVARIANT WalkIsSpec
CHECK_DEADLOCK FALSE
