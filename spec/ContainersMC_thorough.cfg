SPECIFICATION Spec
CONSTANTS
  MaxLen = 4
  MaxNew = 2
  MaxIdx = 6
  MaxFresh = 7
CONSTRAINT Constraint
INVARIANT Distinct
INVARIANT SliceIsPython
INVARIANT NegativeEquiv
INVARIANT OneIsSlice
INVARIANT IndexErrorLikeList
INVARIANT GetPutBack
INVARIANT EntryAlgebra
PROPERTY Conserve
