SPECIFICATION Spec
CONSTANTS
  NStmt = 2
  Patterns <- PatQuick
  TailPatterns <- TailQuick
  LeadModes <- LeadInts
  TrailModes <- TrailInts
INVARIANTS Accept Reject AllClausesSeen
CHECK_DEADLOCK FALSE
