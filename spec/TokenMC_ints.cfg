SPECIFICATION Spec
CONSTANTS
  NStmt = 2
  Patterns <- PatThorough
  TailPatterns <- TailThorough
  JoinOpts <- JoinAll
  EatOpts <- EatThorough
  LeadModes <- LeadInts
  TrailModes <- TrailInts
INVARIANTS Accept Reject AllClausesSeen
CHECK_DEADLOCK FALSE
