SPECIFICATION Spec
CONSTANTS
  MaxNodes = 3
  MaxTmpl = 2
  Emit = FALSE
INVARIANTS InvStaticNN InvStaticN InvIdentity InvCounts InvFunctional InvFunctionalN InvStepLocal InvEmit
CHECK_DEADLOCK FALSE
