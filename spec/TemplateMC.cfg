SPECIFICATION Spec
CONSTANTS
  MaxNodes = 3
  MaxTmpl = 2
  Family = "all"
  Emit = 1
INVARIANTS InvStaticNN InvStaticN InvIdentity InvCounts InvFunctional InvFunctionalN InvStepLocal InvEmit
CHECK_DEADLOCK FALSE
