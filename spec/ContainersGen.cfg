SPECIFICATION Spec
