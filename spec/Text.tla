-------------------------------- MODULE Text ---------------------------------
(* Source text as the specification sees it (C04 and the other text-level     *)
(* properties): a token stream is a sequence of hash-consed token ids (one id *)
(* per distinct (token type, token text) pair), a file is a sequence of       *)
(* hash-consed physical-line ids.  Equality of tokens / lines is therefore    *)
(* integer equality; the operators below are the sequence algebra the laws    *)
(* are written in: framing (common prefix + common suffix that do not         *)
(* overlap), longest common prefix / suffix, infix search, order-preserving   *)
(* embedding, and bags of tokens.  All operators are total on sequences.      *)
EXTENDS Integers, Sequences, FiniteSets, Bags

TMax(a, b) == IF a >= b THEN a ELSE b
TMin(a, b) == IF a <= b THEN a ELSE b

(* SubSeq that never fails: indices are clipped to the sequence               *)
Sub(s, a, b) == LET lo == TMax(a, 1)  hi == TMin(b, Len(s))
                IN IF lo > hi THEN <<>> ELSE SubSeq(s, lo, hi)

IsPrefixOf(p, s) == Len(p) <= Len(s) /\ Sub(s, 1, Len(p)) = p
IsSuffixOf(x, s) == Len(x) <= Len(s) /\ Sub(s, Len(s) - Len(x) + 1, Len(s)) = x

(* s = p \o (something) \o x with the two frames disjoint                     *)
Frames(p, x, s) == Len(p) + Len(x) <= Len(s) /\ IsPrefixOf(p, s) /\ IsSuffixOf(x, s)
Middle(p, x, s) == Sub(s, Len(p) + 1, Len(s) - Len(x))

(* longest common prefix / suffix lengths (early exit, depth = length found)  *)
RECURSIVE LcpFrom(_, _, _)
LcpFrom(a, b, i) == IF i > Len(a) \/ i > Len(b) \/ a[i] # b[i] THEN i - 1 ELSE LcpFrom(a, b, i + 1)
Lcp(a, b) == LcpFrom(a, b, 1)
RECURSIVE LcsFrom(_, _, _)
LcsFrom(a, b, i) == IF i >= Len(a) \/ i >= Len(b) \/ a[Len(a) - i] # b[Len(b) - i] THEN i ELSE LcsFrom(a, b, i + 1)
Lcs(a, b) == IF a = <<>> \/ b = <<>> THEN 0 ELSE LcsFrom(a, b, 0)
(* the changed region of a w.r.t. b: what lies between the common prefix and  *)
(* the (non-overlapping) common suffix                                        *)
ChangedLo(a, b) == Lcp(a, b) + 1
ChangedHi(a, b) == Len(a) - TMin(Lcs(a, b), TMin(Len(a), Len(b)) - Lcp(a, b))

(* positions >= from at which nd occurs contiguously in hay                   *)
PosOf(nd, hay, from) == {o \in TMax(from, 1)..(Len(hay) - Len(nd) + 1) : Sub(hay, o, o + Len(nd) - 1) = nd}
(* a occurs, and after it b occurs (contiguous blocks, in this order)         *)
InfixThen(a, b, hay) == \E o \in PosOf(a, hay, 1) : PosOf(b, hay, o + Len(a)) # {}

(* the arithmetic sequence a, a+1, .., b                                      *)
Iota(a, b) == IF b < a THEN <<>> ELSE [i \in 1..(b - a + 1) |-> a + i - 1]
(* elements of s at the (ascending) index sequence idx                        *)
At(s, idx) == [j \in DOMAIN idx |-> s[idx[j]]]

RangeOf(s) == {s[i] : i \in DOMAIN s}
BagOfSeq(s) == [x \in RangeOf(s) |-> Cardinality({i \in DOMAIN s : s[i] = x})]
SubBagOf(a, b) == \A x \in DOMAIN a : x \in DOMAIN b /\ a[x] <= b[x]

SetMin(S) == CHOOSE x \in S : \A y \in S : x <= y
SetMax(S) == CHOOSE x \in S : \A y \in S : x >= y
=============================================================================
