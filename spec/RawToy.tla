------------------------------- MODULE RawToy -------------------------------
(* "Flat Python": the fragment of Python over the alphabet                     *)
(*    a (97)   space (32)   ; (59)   # (35)   newline                          *)
(* i.e. modules made of expression statements that are names a, aa, aaa ...,   *)
(* separated by newlines or semicolons, with comments and blank lines.  Small  *)
(* as it is, it has the three phenomena that make a statement-local reparse    *)
(* differ from a whole-file parse: an edit inside one statement can split it   *)
(* (newline, ';'), merge it with its neighbour (deleting a separator, or '#'   *)
(* swallowing the rest of the line) or change its indentation (a leading       *)
(* space before code makes the whole file invalid).                            *)
(* ToyValid/ToyParse are cross-checked against ast.parse by the harness for    *)
(* every row of the generated table, so this oracle is CPython's on the        *)
(* fragment.                                                                   *)
EXTENDS RawText, FiniteSets, SequencesExt

CONSTANTS MaxFlat,       \* texts explored: flat length (characters incl. newlines) <= MaxFlat
          MaxRepl        \* replacement texts: flat length <= MaxRepl

A == 97  SP == 32  SEMI == 59  HASH == 35
Alphabet == {A, SP, SEMI, HASH, NL}

(* ----- flat Python: one line -> [ok, names : Seq(<<col, ecol>>)] ---------- *)
RECURSIVE CutHash(_)
CutHash(l) == IF l = <<>> \/ Head(l) = HASH THEN <<>> ELSE <<Head(l)>> \o CutHash(Tail(l))

(* scanner states: "start" | "indent" | "name" | "afterName" | "afterSemi"     *)
RECURSIVE Scan(_, _, _, _, _)
Scan(code, i, st, from, acc) ==
  IF i > Len(code)
  THEN [ok |-> TRUE, names |-> IF st = "name" THEN Append(acc, <<from, i - 1>>) ELSE acc]
  ELSE LET c == code[i] IN
    CASE st = "start" ->
           (IF c = A THEN Scan(code, i + 1, "name", i - 1, acc)
            ELSE IF c = SP THEN Scan(code, i + 1, "indent", 0, acc)
            ELSE [ok |-> FALSE, names |-> <<>>])
      [] st = "indent" ->
           (IF c = SP THEN Scan(code, i + 1, "indent", 0, acc) ELSE [ok |-> FALSE, names |-> <<>>])
      [] st = "name" ->
           (IF c = A THEN Scan(code, i + 1, "name", from, acc)
            ELSE IF c = SP THEN Scan(code, i + 1, "afterName", 0, Append(acc, <<from, i - 1>>))
            ELSE Scan(code, i + 1, "afterSemi", 0, Append(acc, <<from, i - 1>>)))
      [] st = "afterName" ->
           (IF c = SP THEN Scan(code, i + 1, "afterName", 0, acc)
            ELSE IF c = SEMI THEN Scan(code, i + 1, "afterSemi", 0, acc)
            ELSE [ok |-> FALSE, names |-> <<>>])
      [] OTHER ->   \* afterSemi
           (IF c = SP THEN Scan(code, i + 1, "afterSemi", 0, acc)
            ELSE IF c = A THEN Scan(code, i + 1, "name", i - 1, acc)
            ELSE [ok |-> FALSE, names |-> <<>>])

ScanLine(line) == Scan(CutHash(line), 1, "start", 0, <<>>)

ToyValid(t) == \A i \in 1..Len(t) : ScanLine(t[i]).ok

RECURSIVE StmtsFrom(_, _)
StmtsFrom(t, i) ==
  IF i > Len(t) THEN <<>>
  ELSE LET ns == ScanLine(t[i]).names
       IN [k \in 1..Len(ns) |-> <<i - 1, ns[k][1], ns[k][2]>>] \o StmtsFrom(t, i + 1)

(* tree = Module(body=[Expr(Name('a'*n)) ...]); s = the name lengths, p = the   *)
(* spans <<ln, col, end_col>> (Expr and Name share their span)                  *)
ToyParse(t) == LET st == StmtsFrom(t, 1)
               IN [s |-> [k \in 1..Len(st) |-> st[k][3] - st[k][2]], p |-> st]

ToyNodeRects(tr) == {<<tr.p[k][1], tr.p[k][2], tr.p[k][1], tr.p[k][3]>> : k \in 1..Len(tr.p)}

(* ----- the finite universe ------------------------------------------------ *)
FlatsUpTo(n) == UNION {[1..k -> Alphabet] : k \in 0..n}

TextsUpTo(n) == {Unflat(f, <<>>) : f \in FlatsUpTo(n)}
ValidTexts   == {t \in TextsUpTo(MaxFlat) : ToyValid(t)}
ToyRepls     == TextsUpTo(MaxRepl)

(* all in-range rectangles as 'int' quadruples, plus a few quadruples that     *)
(* need clipping: 'end' bounds, negative bounds, out of range, inverted        *)
RectsOf(t) == {r \in {<<l1, c1, l2, c2>> : l1 \in 0..Len(t) - 1, l2 \in 0..Len(t) - 1,
                                            c1 \in 0..MaxFlat, c2 \in 0..MaxFlat} : ValidRect(t, r)}
ToyQuads(t) == {<<IntC(r[1]), IntC(r[2]), IntC(r[3]), IntC(r[4])>> : r \in RectsOf(t)}
               \cup {<<IntC(0), IntC(0), EndC, EndC>>, <<EndC, EndC, EndC, EndC>>, <<IntC(0), IntC(-1), IntC(-1), EndC>>,
                     <<IntC(0), IntC(1), IntC(0), IntC(0)>>, <<IntC(1), IntC(0), IntC(0), IntC(0)>>,
                     <<IntC(0), IntC(MaxFlat + 2), IntC(MaxFlat + 2), IntC(MaxFlat + 2)>>}

=============================================================================
