SPECIFICATION Spec
CONSTANTS
  GenNodes = 3
  GenLines = 2
  GenCols = 8
  GenWrapNodes = 3
