---------------------------- MODULE ReconcilePrim ----------------------------
(* The primitive-value part of property C13 as a finite table: "changing      *)
(* primitive values" of a node, for every primitive field that admits several *)
(* values, every ordered pair old -> new of the value lattice, and every      *)
(* origin of the node that carries the field.                                  *)
(*                                                                             *)
(* Law (PrimLaw): whatever the pair and the origin, the reconciled tree has    *)
(* the NEW value at the node (it is judged through StructEqualsUserAst / Sync  *)
(* / Untouched of ReconcileTrace on the replayed row); the class of a row only *)
(* names the case.                                                             *)
(* Values are labels; the harness maps them to Python values:                  *)
(*   None False True 0 1 0.0 1.0 0j s='' sx='x' b=b'' bx=b'x' ...=Ellipsis     *)
(*   a, b : identifiers                                                        *)
EXTENDS Integers, Sequences, FiniteSets, TLC, Json, SequencesExt

ConstVals == {"None", "False", "True", "0", "1", "0.0", "1.0", "0j", "s", "sx", "b", "bx", "..."}
NameVals  == {"None", "a", "b"}

FieldVals ==
  ("Constant.value"       :> ConstVals) @@
  ("MatchSingleton.value" :> {"None", "True", "False"}) @@
  ("ImportFrom.level"     :> {"0", "1", "2"}) @@
  ("AnnAssign.simple"     :> {"0", "1"}) @@
  ("alias.asname"         :> NameVals) @@
  ("ExceptHandler.name"   :> NameVals) @@
  ("keyword.arg"          :> NameVals) @@
  ("MatchAs.name"         :> NameVals) @@
  ("MatchStar.name"       :> NameVals) @@
  ("MatchMapping.rest"    :> NameVals)

(* where the node that carries the field comes from when the value is set     *)
Origins == {"inplace", "moved", "dup", "other"}

Truthy(v)  == v \notin {"None", "False", "0", "0.0", "0j", "s", "b"}
(* Python equality classes of the labels: False == 0 == 0.0 == 0j, True == 1 == 1.0 *)
EqClass(v) == CASE v \in {"False", "0", "0.0", "0j"} -> "zero"
                [] v \in {"True", "1", "1.0"}        -> "one"
                [] OTHER                             -> v

PairClass(o, n) ==
  CASE EqClass(o) = EqClass(n)      -> "eqval"             \* equal-valued, different type
    [] n = "None" /\ ~Truthy(o)     -> "falsy2none"
    [] n = "None"                   -> "truthy2none"
    [] o = "None" /\ ~Truthy(n)     -> "none2falsy"
    [] o = "None"                   -> "none2truthy"
    [] ~Truthy(o) /\ ~Truthy(n)     -> "falsy2falsy"
    [] OTHER                        -> "other"

Rows == UNION { { [f |-> f, old |-> pr[1], new |-> pr[2], org |-> g, cls |-> PairClass(pr[1], pr[2])]
                  : pr \in {q \in FieldVals[f] \X FieldVals[f] : q[1] # q[2]}, g \in Origins }
                : f \in DOMAIN FieldVals }

(* sanity of the table: every ordered pair of distinct values of every field, *)
(* for every origin, exactly once                                              *)
ASSUME \A f \in DOMAIN FieldVals :
         Cardinality({r \in Rows : r.f = f}) =
           Cardinality(FieldVals[f]) * (Cardinality(FieldVals[f]) - 1) * Cardinality(Origins)
ASSUME \E r \in Rows : r.cls = "falsy2none" /\ r.org = "inplace"
ASSUME \E r \in Rows : r.cls = "eqval"

ASSUME PrintT(<<"PRIMTAB", ToJson(SetToSeq(Rows))>>)

(* ------------------------------------------------------------------------ *)
(* Second table: membership / order of the (key, value) pairs of a Dict of   *)
(* the marked tree whose entries are `k: v` ("k") or `**v` ("s", key None).   *)
(* Law: the result has exactly the pairs the Python list operations give.     *)
DictShapes == UNION {[1..n -> {"k", "s"}] : n \in 1..3}
DictOps(sh) ==
  {[op |-> "delete", i |-> i, j |-> 0] : i \in 1..Len(sh)}
  \cup {[op |-> o, i |-> i, j |-> 0] : o \in {"insert_k", "insert_s"}, i \in 1..(Len(sh) + 1)}
  \cup {[op |-> "swap", i |-> ij[1], j |-> ij[2]] : ij \in {q \in (1..Len(sh)) \X (1..Len(sh)) : q[1] < q[2]}}
  \cup {[op |-> "dup", i |-> ij[1], j |-> ij[2]] : ij \in (1..Len(sh)) \X (1..(Len(sh) + 1))}
DictRows == UNION {{[shape |-> sh, op |-> d.op, i |-> d.i, j |-> d.j] : d \in DictOps(sh)} : sh \in DictShapes}

ASSUME PrintT(<<"DICTTAB", ToJson(SetToSeq(DictRows))>>)

VARIABLE x
Init == x = 0
Next == UNCHANGED x
Spec == Init /\ [][Next]_x
=============================================================================
