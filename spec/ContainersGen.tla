---------------------------- MODULE ContainersGen ---------------------------
(* (G) The systematic part of C03/C01: TLC enumerates every abstract container *)
(* request within the bounds and emits it, with the result the specification   *)
(* expects, as a JSON table.  The harness (i) checks that Python's own list    *)
(* gives the same result (binds the spec to Python semantics) and (ii)         *)
(* concretises each row on every container kind of the catalogue and replays   *)
(* it into pfst through every equivalent entry point; the recorded events are  *)
(* then validated by PfstTrace like any other history.                         *)
(*                                                                            *)
(* Elements of the old list are 1..len, new elements 101, 102, ...            *)
EXTENDS Containers, TLC, Json, IOUtils, SequencesExt

MaxLen == 4
MaxK   == 2
Ints   == (0 - MaxLen - 2)..(MaxLen + 2)
Bnds   == {IntB(i) : i \in Ints} \cup {EndB}

Old(n) == [i \in 1..n |-> i]
New(k) == [i \in 1..k |-> 100 + i]

SliceRows ==
  UNION { { [form |-> "slice", len |-> n, lo |-> lo, start |-> s, stop |-> t, k |-> k,
             inverted |-> Inverted(n, lo, s, t),
             result |-> IF Inverted(n, lo, s, t) THEN <<>> ELSE PutSlice(Old(n), lo, s, t, New(k))]
            : lo \in 0..Min(1, n), s \in Bnds, t \in Bnds, k \in 0..MaxK }
          : n \in 0..MaxLen }

OneRows ==
  UNION { { [form |-> f, len |-> n, lo |-> lo, idx |-> IntB(i), k |-> IF f = "one" THEN 1 ELSE 0,
             indexError |-> NormIndex(n, lo, IntB(i)) = -1,
             result |-> IF NormIndex(n, lo, IntB(i)) = -1 THEN <<>>
                        ELSE IF f = "one" THEN PutOne(Old(n), lo, IntB(i), 101) ELSE DelOne(Old(n), lo, IntB(i))]
            : f \in {"one", "del"}, lo \in 0..Min(1, n), i \in Ints }
          : n \in 0..MaxLen }

AllRows == SliceRows \cup OneRows

(* arglike category sequences (Call._args / ClassDef._bases) and their order rule *)
Cats == {"pos", "star", "kw", "dstar"}
CatOk(seq) == \A i \in 1..Len(seq), j \in 1..Len(seq) : i < j =>
                 /\ ~(seq[j] = "pos" /\ seq[i] \in {"kw", "dstar"})
                 /\ ~(seq[j] = "star" /\ seq[i] = "dstar")
CatSeqs(n) == {s \in [1..n -> Cats] : CatOk(s)}
ArgRows ==
  UNION { { [old |-> o, at |-> i, put |-> c, ok |-> CatOk([j \in 1..Len(o) |-> IF j = i THEN c ELSE o[j]])]
            : i \in 1..Len(o), c \in Cats }
          : o \in UNION {CatSeqs(n) : n \in 1..4} }

ASSUME JsonSerialize(IOEnv.OUT_FILE, [rows |-> SetToSeq(AllRows), argrows |-> SetToSeq(ArgRows)])
ASSUME PrintT(<<"ROWS", Cardinality(AllRows), Cardinality(ArgRows)>>)

VARIABLE dummy
Init == dummy = 0
Next == UNCHANGED dummy
Spec == Init /\ [][Next]_dummy
=============================================================================
