----------------------------- MODULE RawHdrGen ------------------------------
(* Direction G, second table: raw edits confined to block HEADERS.             *)
(*                                                                             *)
(* TLC enumerates  block kind x tail configuration x nesting depth x target    *)
(* header (the leading one or one of the tail headers) x rectangle inside the  *)
(* header x replacement, and builds the program text and the rectangle itself  *)
(* (code points).  Replacements are every block keyword (so the header changes *)
(* kind: if/while/for/async for/with/async with/def/async def/class/try/       *)
(* except/except*/elif/else/finally), every complete header text, and the      *)
(* empty text; rectangles cover the keyword, the keyword and its blank, a      *)
(* prefix or suffix of the keyword, and the header up to 2 / 1 / 0 characters  *)
(* before the colon and including it.                                          *)
(*                                                                             *)
(* The law is the one of Raw.tla: the call succeeds exactly when the new whole *)
(* text is valid, and then the tree is its full parse (judged by RawTrace on   *)
(* the recorded execution, oracle ast.parse).  In addition the spec predicts,  *)
(* from the block grammar below, rows that MUST be invalid: a leading header   *)
(* whose keyword is replaced by another keyword that does not admit the tail   *)
(* blocks that follow (an `if` with an `elif` cannot become a `while`, a `try` *)
(* cannot become anything else, `elif`/`else`/`except`/`finally` cannot lead).  *)
(* The harness cross-checks that prediction against ast.parse (a mismatch is a  *)
(* machinery failure, never a verdict on pfst).                                *)
EXTENDS RawText, FiniteSets, Json, IOUtils, TLC

CONSTANTS Depths,        \* nesting depths of the block (0 = module level, 1 = inside a def, 2 = inside def + class)
          SampleK, SampleN \* keep a row iff its ordinal modulo SampleN equals SampleK  (0, 1 = all rows)

SPC == 32  COLON == 58

(* keywords as code points *)
Kw(k) ==
  CASE k = "if" -> <<105, 102>>   \* if
    [] k = "while" -> <<119, 104, 105, 108, 101>>   \* while
    [] k = "for" -> <<102, 111, 114>>   \* for
    [] k = "asyncfor" -> <<97, 115, 121, 110, 99, 32, 102, 111, 114>>   \* async for
    [] k = "with" -> <<119, 105, 116, 104>>   \* with
    [] k = "asyncwith" -> <<97, 115, 121, 110, 99, 32, 119, 105, 116, 104>>   \* async with
    [] k = "def" -> <<100, 101, 102>>   \* def
    [] k = "asyncdef" -> <<97, 115, 121, 110, 99, 32, 100, 101, 102>>   \* async def
    [] k = "class" -> <<99, 108, 97, 115, 115>>   \* class
    [] k = "try" -> <<116, 114, 121>>   \* try
    [] k = "except" -> <<101, 120, 99, 101, 112, 116>>   \* except
    [] k = "exceptstar" -> <<101, 120, 99, 101, 112, 116, 42>>   \* except*
    [] k = "elif" -> <<101, 108, 105, 102>>   \* elif
    [] k = "else" -> <<101, 108, 115, 101>>   \* else
    [] k = "finally" -> <<102, 105, 110, 97, 108, 108, 121>>   \* finally
    [] k = "withas" -> <<119, 105, 116, 104>>   \* with
    [] k = "classbare" -> <<99, 108, 97, 115, 115>>   \* class
    [] k = "exceptas" -> <<101, 120, 99, 101, 112, 116>>   \* except
    [] k = "exceptbare" -> <<101, 120, 99, 101, 112, 116>>   \* except
    [] OTHER -> <<>>
(* what follows the keyword in a header of that kind, without the colon *)
Rest(k) ==
  CASE k = "if" -> <<32, 97>>   \* " a"
    [] k = "while" -> <<32, 97>>   \* " a"
    [] k = "elif" -> <<32, 97>>   \* " a"
    [] k = "for" -> <<32, 116, 32, 105, 110, 32, 97>>   \* " t in a"
    [] k = "asyncfor" -> <<32, 116, 32, 105, 110, 32, 97>>   \* " t in a"
    [] k = "with" -> <<32, 97>>   \* " a"
    [] k = "withas" -> <<32, 97, 32, 97, 115, 32, 116>>   \* " a as t"
    [] k = "asyncwith" -> <<32, 97>>   \* " a"
    [] k = "def" -> <<32, 110, 40, 112, 41>>   \* " n(p)"
    [] k = "asyncdef" -> <<32, 110, 40, 112, 41>>   \* " n(p)"
    [] k = "class" -> <<32, 110, 40, 112, 41>>   \* " n(p)"
    [] k = "classbare" -> <<32, 110>>   \* " n"
    [] k = "try" -> <<>>   \* ""
    [] k = "else" -> <<>>   \* ""
    [] k = "finally" -> <<>>   \* ""
    [] k = "except" -> <<32, 97>>   \* " a"
    [] k = "exceptas" -> <<32, 97, 32, 97, 115, 32, 116>>   \* " a as t"
    [] k = "exceptbare" -> <<>>   \* ""
    [] k = "exceptstar" -> <<32, 97>>   \* " a"
    [] OTHER -> <<>>

BodyStmt(i) == <<98>> \o <<48 + i>> \o <<32, 61, 32, 49>>        \* b<i> = 1
FirstLine == <<102, 105, 114, 115, 116, 32, 61, 32, 48>>
LastLine  == <<108, 97, 115, 116, 32, 61, 32, 49>>
HostDef   == <<100, 101, 102, 32, 104, 111, 115, 116, 40, 41, 58>>
HostADef  == <<97, 115, 121, 110, 99, 32, 100, 101, 102, 32, 104, 111, 115, 116, 40, 41, 58>>
HostClass == <<99, 108, 97, 115, 115, 32, 72, 111, 115, 116, 58>>
HostLead  == <<108, 101, 97, 100, 32, 61, 32, 48>>


Keywords  == {"if", "while", "for", "asyncfor", "with", "asyncwith", "def", "asyncdef", "class", "try", "except",
              "exceptstar", "elif", "else", "finally"}
HeadKinds == Keywords \cup {"withas", "classbare", "exceptas", "exceptbare"}
Header(k) == Kw(k) \o Rest(k) \o <<COLON>>

(* leading block kinds and the tails (sequences of tail header kinds) they are written with *)
Leading == {"if", "while", "for", "asyncfor", "with", "withas", "asyncwith", "def", "asyncdef", "class", "classbare", "try"}
Tails(k) ==
  CASE k = "if" -> {<<>>, <<"elif">>, <<"else">>, <<"elif", "else">>, <<"elif", "elif">>}
    [] k \in {"while", "for", "asyncfor"} -> {<<>>, <<"else">>}
    [] k = "try" -> {<<"except">>, <<"exceptbare">>, <<"finally">>, <<"except", "else">>, <<"exceptas", "finally">>,
                     <<"except", "exceptas", "else", "finally">>, <<"exceptstar">>}
    [] OTHER -> {<<>>}

(* block grammar: which tails a leading keyword admits                       *)
IsHandler(t) == t \in {"except", "exceptas", "exceptbare", "exceptstar"}
RECURSIVE AllIn(_, _)
AllIn(s, S) == s = <<>> \/ (Head(s) \in S /\ AllIn(Tail(s), S))
Admits(kw, tail) ==
  CASE kw = "if" -> \/ tail = <<>>
                    \/ AllIn(tail, {"elif"})
                    \/ (tail[Len(tail)] = "else" /\ AllIn(SubSeq(tail, 1, Len(tail) - 1), {"elif"}))
    [] kw \in {"while", "for", "asyncfor"} -> tail \in {<<>>, <<"else">>}
    [] kw \in {"with", "asyncwith", "def", "asyncdef", "class"} -> tail = <<>>
    [] kw = "try" -> tail # <<>>            \* the tails above are all well-formed try tails
    [] OTHER -> FALSE                       \* elif / else / except / except* / finally never lead a statement

Ind(d) == [i \in 1..(4 * d) |-> SPC]
RECURSIVE TailLines(_, _, _)
TailLines(tail, d, i) ==
  IF tail = <<>> THEN <<>>
  ELSE << Ind(d) \o Header(Head(tail)), Ind(d + 1) \o BodyStmt(i) >> \o TailLines(Tail(tail), d, i + 1)

NeedsAsync(k, tail) == k \in {"asyncfor", "asyncwith"}
HostLines(d, k, tail) ==
  IF d = 0 THEN <<>>
  ELSE IF d = 1 THEN << IF NeedsAsync(k, tail) THEN HostADef ELSE HostDef, Ind(1) \o HostLead >>
  ELSE << HostClass, Ind(1) \o (IF NeedsAsync(k, tail) THEN HostADef ELSE HostDef), Ind(2) \o HostLead >>

Program(k, tail, d) ==
  <<FirstLine>> \o HostLines(d, k, tail)
    \o << Ind(d) \o Header(k), Ind(d + 1) \o BodyStmt(0) >> \o TailLines(tail, d, 1) \o <<LastLine, <<>> >>

(* 0-based line of the target header: 0 = the leading header, j = the j-th tail header *)
HeaderLine(d, j) == 1 + (IF d = 0 THEN 0 ELSE d + 1) + 2 * j
TargetKind(k, tail, j) == IF j = 0 THEN k ELSE tail[j]

(* rectangles inside a header of kind hk at column c0: offsets from the header start *)
Offsets(hk) ==
  LET kl == Len(Kw(hk))  hl == Len(Header(hk))
  IN {<<0, kl>>, <<0, kl + 1>>, <<1, kl>>, <<0, 1>>, <<kl, kl>>, <<0, hl - 3>>, <<0, hl - 2>>, <<0, hl - 1>>, <<0, hl>>,
      <<kl, hl - 1>>}
     \cap {o \in (0..hl) \X (0..hl) : o[1] <= o[2]}

Repls == {Kw(k) : k \in Keywords} \cup {Kw(k) \o Rest(k) : k \in HeadKinds} \cup {<<>>}

Cases == {<<k, tail, d, j>> : k \in Leading, tail \in UNION {Tails(k2) : k2 \in Leading}, d \in Depths, j \in 0..4}
RealCases == {c \in Cases : c[2] \in Tails(c[1]) /\ c[4] <= Len(c[2])}

(* predicted: the row must be invalid (one-directional)                        *)
MustBeInvalid(k, tail, j, o, p) ==
  /\ j = 0 /\ o = <<0, Len(Kw(k))>>
  /\ \E k2 \in Keywords : p = Kw(k2) /\ Kw(k2) # Kw(k) /\ ~Admits(k2, tail)

Row(c, o, p) ==
  LET k == c[1]  tail == c[2]  d == c[3]  j == c[4]
      ln == HeaderLine(d, j)  c0 == 4 * d
  IN << Program(k, tail, d), <<ln, c0 + o[1], ln, c0 + o[2]>>, <<p>>, MustBeInvalid(k, tail, j, o, p),
        <<k, tail, d, j, o>> >>

AllRows == UNION {{Row(c, o, p) : o \in Offsets(TargetKind(c[1], c[2], c[4])), p \in Repls} : c \in RealCases}

(* deterministic sample: rows are numbered by a hash of their case coordinates *)
RECURSIVE SumSeq(_)
SumSeq(s) == IF s = <<>> THEN 0 ELSE (Head(s) + 7 * SumSeq(Tail(s))) % 10007
Ord(r) == SumSeq(r[2]) + 13 * SumSeq(r[3][1]) + 31 * Len(r[1]) + 3 * SumSeq(r[1][Len(r[1]) - 2])
Rows == {r \in AllRows : Ord(r) % SampleN = SampleK}

ASSUME JsonSerialize(IOEnv.OUT_FILE, [rows |-> Rows])
=============================================================================
