------------------------------ MODULE OffsetGen ------------------------------
(* C11, direction G: TLC emits every instance of Offset.tla that has a        *)
(* concrete Python rendering, with all its trivia splices, as a JSON table    *)
(* (environment variable C11_OUT).  harness/c11_offset.py renders each row    *)
(* (leaf -> identifier, "brk" -> list display, "bare" -> binary operator /    *)
(* comparison chain, "pre" -> unary minus, "post" -> call; gap columns ->     *)
(* spaces, wrap "pars" -> own grouping parentheses, gap line break ->          *)
(* backslash continuation outside brackets,                                   *)
(* comment + newline or newline inside), replays it through the public        *)
(* put_src(action='offset') and OffsetTrace.tla judges the outcome.           *)
EXTENDS OffsetCore, Json, IOUtils, SequencesExt

CONSTANTS GenNodes, GenLines, GenCols, GenWrapNodes   \* wrapped nodes only in trees <= GenWrapNodes

VARIABLE x

GGapAlpha  == {<<0>>, <<0, 0>>}
GRichAlpha == {<<1>>, <<2>>, <<1, 0>>, <<0, 1>>, <<1, 1>>}
GInsAlpha  == {<<0>>, <<1>>, <<2>>, <<0, 0>>, <<1, 0>>, <<0, 1>>}

NKids(T, k) == Cardinality(KidSet(T, k))
FirstKid(T, k) == KidsSeq(T, k)[1]

(* Concretisable: the tree has a Python expression with exactly this shape   *)
(* (operator precedence must not regroup it; zero-width nodes and children    *)
(* without separators have no rendering)                                      *)
Conc(T) == \A k \in 1..T.n :
  LET nk == NKids(T, k)  kd == T.kind[k]  pk == T.par[k] IN
  /\ (nk >= 2) = T.sep[k]
  /\ kd \in (IF nk = 0 THEN {"tok", "brk"} ELSE {"brk", "bare", "pre", "post"})
  /\ (kd = "bare") =>
        /\ nk >= 2
        /\ (nk >= 3) => /\ (pk = 0 \/ T.kind[pk] = "brk" \/ (T.kind[pk] = "post" /\ FirstKid(T, pk) # k))
                        /\ \A c \in KidSet(T, k) : ~(T.kind[c] = "bare" /\ NKids(T, c) >= 3)
  /\ (kd = "pre") => nk = 1 /\ T.kind[FirstKid(T, k)] \in {"tok", "brk", "pre", "post"}
  /\ (kd = "post") => nk >= 2 /\ T.kind[FirstKid(T, k)] \in {"tok", "brk", "post"}

Kinds == {"tok", "brk", "bare", "pre", "post"}

(* at most one node (not the root) in its own pair of grouping parentheses    *)
Wraps(m) == {f \in [1..m -> {"none", "pars"}] : f[1] = "none" /\ Cardinality({k \in 1..m : f[k] = "pars"}) <= (IF m <= GenWrapNodes THEN 1 ELSE 0)}

Trees == UNION {
  { T \in [n : {m}, par : {f \in [1..m -> 0..(m - 1)] : ValidPar(m, f)}, kind : [1..m -> Kinds], sep : [1..m -> BOOLEAN],
           wrap : Wraps(m)] :
      Conc(T) } : m \in 1..GenNodes }

Breaks(G) == Cardinality({i \in DOMAIN G : Len(G[i]) > 1})
GapSets(m) ==
  LET Base == {G \in [1..m -> GGapAlpha] : Breaks(G) < GenLines}
  IN Base \cup {[G EXCEPT ![i] = r] : G \in Base, i \in 1..m, r \in GRichAlpha}

Splices(G) == {s \in UNION {{<<gi, p, q, i>> : p \in Pts(G[gi]), q \in Pts(G[gi]), i \in GInsAlpha} : gi \in 1..Len(G)} :
                 /\ Le(s[2], s[3])
                 /\ ~(s[2] = s[3] /\ s[4] = <<0>>)}

RowsOf(T) ==
  LET I == MkInst(T) IN
  { [n |-> T.n, par |-> T.par, kind |-> T.kind, sep |-> T.sep, wrap |-> T.wrap, gaps |-> G, sp |-> SetToSeq(Splices(G))] :
      G \in {G \in GapSets(Len(I.A) - 1) : OnGrid(Scan(I, G), GenLines, GenCols) /\ Len(G) > 0} }

Rows == UNION {RowsOf(T) : T \in Trees}

ASSUME JsonSerialize(IOEnv.C11_OUT, SetToSeq(Rows))
ASSUME PrintT(<<"C11GEN", Cardinality(Trees), Cardinality(Rows)>>)

Init == x = 0
Next == x' = 1 - x
Spec == Init /\ [][Next]_x
=============================================================================
