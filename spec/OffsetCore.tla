----------------------------- MODULE OffsetCore ------------------------------
(* C11 - operators of the offset core of pfst (pure; the state machine is     *)
(* Offset.tla, recorded executions are judged by OffsetTrace.tla):            *)
(* `put_src(code, ln, col, end_ln, end_col, action='offset')` on span trees   *)
(* over a small text grid.                                                    *)
(*                                                                            *)
(* Text.  A text is a sequence of ATOMS (tokens, width 1; zero-width atoms    *)
(* for zero-width nodes) separated by GAPS.  A gap is a sequence of naturals  *)
(* <<a1, ..., ak>>: a1 trivia columns, line break, a2 trivia columns, ...; a  *)
(* line break in a gap stands for a backslash continuation, a comment +       *)
(* newline or a bare newline inside brackets (the characters of the line tail *)
(* carry no node, so only the break is modelled).                             *)
(*                                                                            *)
(* Tree.  Nodes 1..n in pre-order, par[k] < k; syntax-ordered children are    *)
(* the children by increasing id.  kind[k]:                                   *)
(*   "tok"  leaf, one token                                                   *)
(*   "brk"  own opening and closing token around the children (list)          *)
(*   "pre"  own opening token only (unary operator)                           *)
(*   "post" own closing token only (call, subscript)                          *)
(*   "bare" no own tokens at the ends (binary operator, tuple, compare);      *)
(*          a "bare" LEAF is a zero-width node.                               *)
(* sep[k]: own separator tokens between consecutive children.                 *)
(* The span of a node is what a from-scratch scan of the text gives: from the *)
(* start of the first atom to the end of the last atom of its subtree (Scan). *)
(*                                                                            *)
(* Transition.  TriviaSplice replaces [p, q) inside ONE gap (so it is pure    *)
(* trivia for the innermost node containing both neighbouring atoms, `self`)  *)
(* by the gap text `ins`, and moves the spans with the head/tail rule table   *)
(* of FST._offset (OffNode/WalkList: transcribed from fst_core.py `_offset`   *)
(* and its docstring diagrams, including the two early `break`s and the       *)
(* `continue`), composed exactly as put_src(action='offset') does:            *)
(*   pass 1  root._offset(q, dln, dcol, tail=True,  head=False, exclude=self) *)
(*   pass 2  self._offset(q, dln, dcol, tail=False, head=True,  self_=False)  *)
EXTENDS OffsetLaw, FiniteSets, TLC

(* ------------------------------------------------------------------------ *)
(* trees                                                                     *)
RECURSIVE ChainOf(_, _)
ChainOf(f, k) == IF k = 0 THEN {} ELSE {k} \cup ChainOf(f, f[k])       \* k and its ancestors

ValidPar(m, f) == f[1] = 0 /\ \A k \in 2..m : f[k] \in ChainOf(f, k - 1)   \* ids are a pre-order

KidSet(T, k)  == {m \in 1..T.n : T.par[m] = k}
KidsSeq(T, k) == LET S == KidSet(T, k)
              IN [i \in 1..Cardinality(S) |-> CHOOSE m \in S : Cardinality({x \in S : x < m}) = i - 1]
IsLeaf(T, k)  == KidSet(T, k) = {}
Desc(T, k)    == {m \in 1..T.n : k \in ChainOf(T.par, m)}
LCA(T, a, b)  == LET C == ChainOf(T.par, a) \cap ChainOf(T.par, b) IN CHOOSE c \in C : \A d \in C : d <= c


(* ------------------------------------------------------------------------ *)
(* atoms and layout                                                          *)
Tok(k)  == <<[o |-> k, w |-> 1, x |-> 0]>>
Zero(k) == <<[o |-> k, w |-> 0, x |-> 0]>>

(* Derived extent.  A child c may be WRAPPED: T.wrap[c] = "pars" puts an own   *)
(* pair of grouping parentheses around it, "trail" a trailing comment after    *)
(* it.  The wrapping atoms are text of the PARENT (a gap next to them is       *)
(* trivia of the parent, the span of c that a parser reports excludes them),   *)
(* but they belong to the derived extent of c: what pfst answers for           *)
(* `c.pars()` / `c.bloc` and caches per node.  x = the node whose extent the   *)
(* atom closes/opens (0 for ordinary atoms).                                    *)
WrapOf(T, c)  == IF "wrap" \in DOMAIN T THEN T.wrap[c] ELSE "none"
WrapAtom(k, c) == <<[o |-> k, w |-> 1, x |-> c]>>
WrapOpen(T, k, c)  == IF WrapOf(T, c) = "pars" THEN WrapAtom(k, c) ELSE <<>>
WrapClose(T, k, c) == IF WrapOf(T, c) \in {"pars", "trail"} THEN WrapAtom(k, c) ELSE <<>>

RECURSIVE AtomsOf(_, _), JoinKids(_, _, _, _)
AtomsOf(T, k) ==
  LET ks    == KidsSeq(T, k)
      kind  == T.kind
      open  == IF kind[k] \in {"brk", "pre"} THEN Tok(k) ELSE <<>>
      close == IF kind[k] \in {"brk", "post"} THEN Tok(k) ELSE <<>>
      inner == IF Len(ks) = 0
               THEN (IF kind[k] = "tok" THEN Tok(k) ELSE IF kind[k] = "bare" THEN Zero(k) ELSE <<>>)
               ELSE JoinKids(T, k, ks, 1)
  IN open \o inner \o close
JoinKids(T, k, ks, i) ==
  WrapOpen(T, k, ks[i]) \o AtomsOf(T, ks[i]) \o WrapClose(T, k, ks[i]) \o (IF i < Len(ks) THEN (IF T.sep[k] THEN Tok(k) ELSE <<>>) \o JoinKids(T, k, ks, i + 1) ELSE <<>>)

Adv(pt, gap) == IF Len(gap) = 1 THEN <<pt[1], pt[2] + gap[1]>> ELSE <<pt[1] + Len(gap) - 1, gap[Len(gap)]>>

RECURSIVE StartsUpTo(_, _, _)
StartsUpTo(A, G, i) ==
  IF i = 1 THEN << <<1, 0>> >>
  ELSE LET S == StartsUpTo(A, G, i - 1)
           e == <<S[i - 1][1], S[i - 1][2] + A[i - 1].w>>
       IN S \o <<Adv(e, G[i - 1])>>

SetMin(S) == CHOOSE x \in S : \A y \in S : x <= y
SetMax(S) == CHOOSE x \in S : \A y \in S : y <= x

(* per instance, computed once: atoms, children, first/last atom of each node *)
MkInst(T) ==
  LET A == AtomsOf(T, 1)
      n == T.n
  IN [n    |-> n,
      par  |-> T.par,
      A    |-> A,
      kids |-> [k \in 1..n |-> KidsSeq(T, k)],
      lo   |-> [k \in 1..n |-> SetMin({i \in 1..Len(A) : A[i].o \in Desc(T, k)})],
      hi   |-> [k \in 1..n |-> SetMax({i \in 1..Len(A) : A[i].o \in Desc(T, k)})],
      elo  |-> [k \in 1..n |-> SetMin({i \in 1..Len(A) : A[i].o \in Desc(T, k) \/ A[i].x = k})],
      ehi  |-> [k \in 1..n |-> SetMax({i \in 1..Len(A) : A[i].o \in Desc(T, k) \/ A[i].x = k})]]

(* from-scratch scan: the span of every node in the text (atoms, G)          *)
Scan(I, G) ==
  LET A == I.A
      S == StartsUpTo(A, G, Len(A))
  IN [k \in 1..I.n |-> <<S[I.lo[k]][1], S[I.lo[k]][2], S[I.hi[k]][1], S[I.hi[k]][2] + A[I.hi[k]].w>>]

(* derived extents (span + own grouping parentheses / trailing comment)       *)
ExtScan(I, G) ==
  LET A == I.A
      S == StartsUpTo(A, G, Len(A))
  IN [k \in 1..I.n |-> <<S[I.elo[k]][1], S[I.elo[k]][2], S[I.ehi[k]][1], S[I.ehi[k]][2] + A[I.ehi[k]].w>>]

(* which nodes have their derived extent cached when the edit is made          *)
WarmSet(I, mode, slf) ==
  CASE mode = "none" -> {}
    [] mode = "all"  -> 1..I.n
    [] mode = "anc"  -> ChainOf(I.par, slf)                       \* self and its ancestors
    [] mode = "sib"  -> {k \in 1..I.n : I.par[k] = slf}           \* the children of self (around the spot)
    [] OTHER -> {}

OnGrid(P, maxLines, maxCols) == \A k \in DOMAIN P : P[k][3] <= maxLines /\ P[k][4] <= maxCols

(* ------------------------------------------------------------------------ *)
(* the rule table of FST._offset, one node                                   *)
(* prm = [lno, colo, dln, dcol, tail, head, excl]; tail/head in {"T","F","N"} *)
OffNode(s, prm) ==
  LET flno == s[1]  fcolo == s[2]  elno == s[3]  ecolo == s[4]
      lno == prm.lno  colo == prm.colo  dln == prm.dln  dcol == prm.dcol
      tail == prm.tail  head == prm.head
      fwd  == dln > 0 \/ (dln = 0 /\ dcol >= 0)
      zero == fcolo = ecolo /\ flno = elno
      endMoves ==
        \/ ecolo > colo
        \/ (tail = "T" /\ (fwd \/ head # "F" \/ ~zero))
        \/ (tail = "N" /\ head = "T" /\ fwd /\ zero)
      e1 == IF elno > lno THEN <<elno + dln, ecolo>>
            ELSE IF endMoves THEN <<elno + dln, ecolo + dcol>>
            ELSE <<elno, ecolo>>
      headMoves ==
        /\ flno = lno
        /\ \/ fcolo > colo
           \/ /\ fcolo = colo
              /\ \/ (head = "T" /\ (~fwd \/ tail # "F" \/ ~zero))
                 \/ (head = "N" /\ tail = "T" /\ ~fwd /\ zero)
  IN IF elno < lno THEN [s |-> s, ctl |-> "break"]
     ELSE IF elno = lno /\ ecolo < colo THEN [s |-> s, ctl |-> "break"]
     ELSE IF flno > lno
          THEN IF dln = 0 THEN [s |-> <<flno, fcolo, e1[1], e1[2]>>, ctl |-> "continue"]
               ELSE [s |-> <<flno + dln, fcolo, e1[1], e1[2]>>, ctl |-> "go"]
     ELSE IF headMoves THEN [s |-> <<flno + dln, fcolo + dcol, e1[1], e1[2]>>, ctl |-> "go"]
     ELSE [s |-> <<flno, fcolo, e1[1], e1[2]>>, ctl |-> "go"]

(* the walk: a stack popped from the end (last child first); `break` drops    *)
(* the rest of the current sibling list, `continue` skips the children        *)
RECURSIVE WalkList(_, _, _, _, _)
WalkList(I, seq, k, st, prm) ==
  IF k = 0 THEN st
  ELSE LET m   == seq[k]
           r   == OffNode(st.pos[m], prm)
           st1 == [pos |-> [st.pos EXCEPT ![m] = r.s], vis |-> st.vis \cup {m}]
       IN IF r.ctl = "break" THEN st1
          ELSE IF r.ctl = "continue" THEN WalkList(I, seq, k - 1, st1, prm)
          ELSE LET ks  == I.kids[m]
                   st2 == IF m = prm.excl THEN st1 ELSE WalkList(I, ks, Len(ks), st1, prm)
               IN WalkList(I, seq, k - 1, st2, prm)

(* put_src(action='offset') called on `slf`: offset point q, deltas from     *)
(* _params_offset                                                            *)
PutSrcOffset(I, pos, slf, Q, dln, dcol) ==
  IF dln = 0 /\ dcol = 0
  THEN [pos |-> pos, vis |-> 1..I.n]                      \* both calls only flush caches (_touchall)
  ELSE LET base == [lno |-> Q[1], colo |-> Q[2], dln |-> dln, dcol |-> dcol]
           p1 == WalkList(I, <<1>>, 1, [pos |-> pos, vis |-> {}],
                          base @@ [tail |-> "T", head |-> "F", excl |-> slf])
           ks == I.kids[slf]
       IN WalkList(I, ks, Len(ks), p1, base @@ [tail |-> "F", head |-> "T", excl |-> 0])

(* ------------------------------------------------------------------------ *)
(* splicing a gap                                                            *)
Pts(gap) == UNION {{<<s, o>> : o \in 0..gap[s]} : s \in 1..Len(gap)}
AbsPt(base, pt) == IF pt[1] = 1 THEN <<base[1], base[2] + pt[2]>> ELSE <<base[1] + pt[1] - 1, pt[2]>>

NewGap(gap, p, q, i) ==
  LET pre  == SubSeq(gap, 1, p[1] - 1)
      suf  == SubSeq(gap, q[1] + 1, Len(gap))
      rest == gap[q[1]] - q[2]
  IN IF Len(i) = 1 THEN pre \o <<p[2] + i[1] + rest>> \o suf
     ELSE pre \o <<p[2] + i[1]>> \o SubSeq(i, 2, Len(i) - 1) \o <<i[Len(i)] + rest>> \o suf

Result(I, gaps, gi, p, q, i) ==
  LET A    == I.A
      S    == StartsUpTo(A, gaps, Len(A))
      base == <<S[gi][1], S[gi][2] + A[gi].w>>
      P    == AbsPt(base, p)
      Q    == AbsPt(base, q)
      nl   == Len(i) - 1
      last == i[Len(i)]
      slf  == LCA(I, A[gi].o, A[gi + 1].o)
      pos  == Scan(I, gaps)
      out  == PutSrcOffset(I, pos, slf, Q, DLn(P, Q, nl), DCol(P, Q, nl, last))
  IN [g |-> gi, p |-> p, q |-> q, ins |-> i, self |-> slf, P |-> P, Q |-> Q, nl |-> nl, last |-> last,
      pos0 |-> pos, pos1 |-> out.pos, vis |-> out.vis,
      ext0 |-> ExtScan(I, gaps), extWant |-> ExtScan(I, [gaps EXCEPT ![gi] = NewGap(gaps[gi], p, q, i)]),
      want |-> Scan(I, [gaps EXCEPT ![gi] = NewGap(gaps[gi], p, q, i)])]

=============================================================================
