SPECIFICATION Spec
CONSTANTS
  t1 = t1
  t2 = t2
  o1 = o1
  o2 = o2
  v0 = v0
  v1 = v1
  c0 = c0
  c1 = c1
  cb = cb
  n1 = n1
  s0 = s0
  s1 = s1
  bad = bad
  unk = unk
  Threads = {t1, t2}
  Main = t1
  Opts = {o1}
  Vals = {v0, v1}
  Cells = {c0, c1, cb}
  Mutable = {}
  Heap0 <- HeapR
  Default <- DefR1
  Bad = bad
  Unknown = unk
  MaxNest <- NestR
  Nodes = {n1}
  Sources = {s0, s1}
  Uses = {o1}
  KeyMode = "argument"
VIEW View
INVARIANT ReadAnswer
INVARIANT CallIsolation
