------------------------------- MODULE RawMC --------------------------------
(* Small-constant instance of Raw.tla with the flat-Python oracle of RawToy,   *)
(* model-checked exhaustively: all valid texts of flat length <= MaxFlat, all   *)
(* rectangles (plus quadruples that need clipping), all replacement texts of   *)
(* flat length <= MaxRepl, any number of consecutive calls.                    *)
EXTENDS Raw, RawToy

Small == Len(Flat(text)) <= MaxFlat            \* state constraint

(* ----- properties of the text operators (every reachable text/rect/repl) -- *)
SpliceIsCharwise ==
  \A r \in RectsOf(text), p \in ToyRepls : SpliceText(text, r, p) = RefSplice(text, r, p)
SpliceRoundTrip ==
  \A r \in RectsOf(text) : SpliceText(text, r, RectText(text, r)) = text
ClipInRange ==
  \A q \in ToyQuads(text) : ClipError(text, q) \/ ValidRect(text, Clip(text, q))
FlatRoundTrip == Unflat(Flat(text), <<>>) = text

(* ----- vacuity guard without -coverage: count the calls per kind and outcome -- *)
(* (registers are per worker; the model is run with one worker)                *)
Reg(c, o) == CASE c = "put_src" /\ o = "ok" -> 1 [] c = "put_src" -> 2
               [] c = "raw_put" /\ o = "ok" -> 3 [] c = "raw_put" -> 4
               [] c = "reparse" /\ o = "ok" -> 5 [] c = "reparse" -> 6
               [] c = "put_none" -> 7 [] c = "clip_error" -> 8 [] OTHER -> 9
ASSUME \A i \in 1..9 : TLCSet(i, 0)
CountCalls == TLCSet(Reg(call', out'), TLCGet(Reg(call', out')) + 1)        \* ACTION_CONSTRAINT, always TRUE
AllKindsTaken == /\ PrintT(<<"CALLS", [i \in 1..8 |-> TLCGet(i)]>>)
                 /\ \A i \in 1..8 : TLCGet(i) > 0                          \* POSTCONDITION

=============================================================================
