------------------------------- MODULE RawMC --------------------------------
(* Small-constant instance of Raw.tla with the flat-Python oracle of RawToy,   *)
(* model-checked exhaustively: all valid texts of flat length <= MaxFlat, all   *)
(* rectangles (plus quadruples that need clipping), all replacement texts of   *)
(* flat length <= MaxRepl, any number of consecutive calls.                    *)
EXTENDS Raw, RawToy

Small == Len(Flat(text)) <= MaxFlat            \* state constraint

(* ----- properties of the text operators (every reachable text/rect/repl) -- *)
SpliceIsCharwise ==
  \A r \in RectsOf(text), p \in ToyRepls : SpliceText(text, r, p) = RefSplice(text, r, p)
SpliceRoundTrip ==
  \A r \in RectsOf(text) : SpliceText(text, r, RectText(text, r)) = text
ClipInRange ==
  \A q \in ToyQuads(text) : ClipError(text, q) \/ ValidRect(text, Clip(text, q))
FlatRoundTrip == Unflat(Flat(text), <<>>) = text

=============================================================================
