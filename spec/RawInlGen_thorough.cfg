CONSTANTS
  Depths = {0, 1}
  SampleK = 0
  SampleN = 1
