---------------------------- MODULE ExtractTrace ----------------------------
(* Trace validation for C07 / C08: every recorded extraction, cut, round trip  *)
(* and accessor call of the real pfst must satisfy the clauses of ExtractLaws. *)
(* Verdicts are total: Next is always enabled, failed clauses accumulate and   *)
(* are printed once per trace as <<"VERDICT", id, bad, seen>> with             *)
(* bad = {<<step, clause, case class>>}.                                       *)
(* An event flagged `fresh` ran on a fresh clone of the trace's program, so     *)
(* its pre-state is the init state; otherwise it continues the previous one.   *)
EXTENDS ExtractLaws, TLC

VARIABLES tid, l, st, bad, seen
vars == <<tid, l, st, bad, seen>>

Steps(t) == Traces[t].steps
Init0(t) == Traces[t].init

Pre(e) == IF e.fresh THEN Init0(tid) ELSE st

Clauses(s, e) ==
  CASE e.call = "extract"     -> ExtractClauses(s, e)
    [] e.call = "cut"         -> CutClauses(s, Init0(tid), e)
    [] e.call = "cutput"      -> RoundTripClauses(s, e)
    [] e.call = "replace"     -> ReplaceClauses(s, e)
    [] e.call = "ownsrc"      -> OwnSrcClauses(s, e)
    [] e.call = "put_docstr"  -> DocstrClauses(s, e)
    [] e.call = "put_line_comment" -> CommentClauses(s, e)
    [] OTHER -> {Cl("UnknownEvent", FALSE)}

ClassOf(s, e, clause) ==
  CASE e.call = "cut" /\ clause \in {"Conserve.comment", "Conserve.tokens"} -> CutClass(s, Init0(tid), e)
    [] e.call \in {"cutput", "replace"} /\ clause \in {"RoundTrip.struct", "ReplaceBy.struct"} ->
         BaseClass(s, e) \o IndentOnly(s, e)
    [] e.call \in {"extract", "cut", "cutput", "replace", "ownsrc"} -> BaseClass(s, e)
    [] e.call \in {"put_docstr", "put_line_comment"} -> e.call \o "/" \o e.kind \o "/" \o e.tclass
    [] OTHER -> "?"

Init == /\ tid \in 1..Len(Traces)
        /\ l = 1
        /\ st = Traces[tid].init
        /\ bad = {}
        /\ seen = {}

Next == /\ l <= Len(Steps(tid))
        /\ LET e  == Steps(tid)[l]
               s  == Pre(e)
               cs == Clauses(s, e)
           IN /\ bad' = bad \cup {<<l, r.c, ClassOf(s, e, r.c)>> : r \in {q \in cs : ~q.ok}}
              /\ seen' = seen \cup {r.c : r \in cs}
              /\ st' = e.post
        /\ l' = l + 1
        /\ UNCHANGED tid

Spec == Init /\ [][Next]_vars

Report == (l = Len(Steps(tid)) + 1) => PrintT(<<"VERDICT", Traces[tid].id, bad, seen>>)
=============================================================================
