CONSTANTS
  MaxFlat = 3
  MaxRepl = 2
