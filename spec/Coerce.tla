------------------------------- MODULE Coerce -------------------------------
(* C19 - coercion of a node to another kind: behaviour (object life-cycle).   *)
(* The data part (kinds, modes, KindsOf, embeddings, matrix, put slots) is in  *)
(* CoerceTables.tla, see the header there.                                    *)
EXTENDS CoerceTables

(* ------------------------------------------------------------------------ *)
(* Part 2: object life-cycle.                                                 *)
(* An object is [kind, content, root, fits, st]; `content` stands for the      *)
(* in-order leaf sequence, `fits[m]` for "its own text parses in mode m".      *)
CONSTANTS MKinds, MModes, Contents, MaxObjs

VARIABLES objs,     \* sequence of objects (index = identity)
          last      \* last call: [op, o, m, copy, out, r, pre]
cvars == <<objs, last>>

Obj(k, c, root, fits) == [kind |-> k, content |-> c, root |-> root, fits |-> fits, st |-> "valid"]

Fits(o, m)   == objs[o].kind \in KindsOf(m) /\ objs[o].fits
MustCopy(o, copy) == copy \/ ~objs[o].root

CInit == /\ \E k \in MKinds, c \in Contents, root \in BOOLEAN, fits \in BOOLEAN : objs = <<Obj(k, <<c>>, root, fits)>>
         /\ last = [op |-> "init", o |-> 0, m |-> "", copy |-> FALSE, out |-> "ok", r |-> 0, pre |-> <<>>]

Consume(o) == [objs EXCEPT ![o].st = "consumed"]

(* the requested kind already: identity, or a plain copy                      *)
CoerceSame(o, m, copy) ==
  /\ objs[o].st = "valid" /\ Fits(o, m)
  /\ IF MustCopy(o, copy)
     THEN /\ Len(objs) < MaxObjs
          /\ objs' = objs \o <<[objs[o] EXCEPT !.root = TRUE]>>
          /\ last' = [op |-> "coerce", o |-> o, m |-> m, copy |-> copy, out |-> "ok", r |-> Len(objs) + 1, pre |-> objs]
     ELSE /\ objs' = objs
          /\ last' = [op |-> "coerce", o |-> o, m |-> m, copy |-> copy, out |-> "ok", r |-> o, pre |-> objs]

(* conversion: a new standalone object of a kind the mode admits, same content *)
CoerceConvert(o, m, copy) ==
  /\ objs[o].st = "valid" /\ ~Fits(o, m) /\ Len(objs) < MaxObjs
  /\ \E k2 \in KindsOf(m) \cap MKinds :
       /\ objs' = (IF MustCopy(o, copy) THEN objs ELSE Consume(o))
                    \o <<[kind |-> k2, content |-> objs[o].content, root |-> TRUE, fits |-> TRUE, st |-> "valid"]>>
       /\ last' = [op |-> "coerce", o |-> o, m |-> m, copy |-> copy, out |-> "ok", r |-> Len(objs) + 1, pre |-> objs]

CoerceRaise(o, m, copy) ==
  /\ objs[o].st = "valid" /\ ~Fits(o, m)
  /\ objs' = (IF MustCopy(o, copy) THEN objs ELSE Consume(o))
  /\ last' = [op |-> "coerce", o |-> o, m |-> m, copy |-> copy, out |-> "raise", r |-> 0, pre |-> objs]

Coerce(o, m, copy) == CoerceSame(o, m, copy) \/ CoerceConvert(o, m, copy) \/ CoerceRaise(o, m, copy)

(* put of node o into a slot of mode m of target t (a container object whose  *)
(* content becomes old \o put): the code node is consumed.         *)
PutNative(t, o, m) ==
  /\ objs[o].st = "valid" /\ objs[t].st = "valid" /\ t # o /\ objs[o].root /\ objs[t].root /\ Fits(o, m)
  /\ Len(objs[t].content) = 1
  /\ objs' = [objs EXCEPT ![t].content = objs[t].content \o objs[o].content, ![o].st = "consumed"]
  /\ last' = [op |-> "put", o |-> o, m |-> m, copy |-> FALSE, out |-> "ok", r |-> t, pre |-> objs]

PutCoerceOk(t, o, m) ==
  /\ objs[o].st = "valid" /\ objs[t].st = "valid" /\ t # o /\ objs[o].root /\ objs[t].root /\ ~Fits(o, m)
  /\ Len(objs[t].content) = 1
  /\ objs' = [objs EXCEPT ![t].content = objs[t].content \o objs[o].content, ![o].st = "consumed"]
  /\ last' = [op |-> "putc", o |-> o, m |-> m, copy |-> FALSE, out |-> "ok", r |-> t, pre |-> objs]

PutRaise(t, o, m, coerce) ==
  /\ objs[o].st = "valid" /\ objs[t].st = "valid" /\ t # o /\ objs[o].root /\ objs[t].root /\ ~Fits(o, m)
  /\ objs' = [objs EXCEPT ![o].st = "consumed"]
  /\ last' = [op |-> IF coerce THEN "putc" ELSE "putn", o |-> o, m |-> m, copy |-> FALSE, out |-> "raise", r |-> t,
              pre |-> objs]

DoCoerceSame    == \E o \in 1..Len(objs), m \in MModes, copy \in BOOLEAN : CoerceSame(o, m, copy)
DoCoerceConvert == \E o \in 1..Len(objs), m \in MModes, copy \in BOOLEAN : CoerceConvert(o, m, copy)
DoCoerceRaise   == \E o \in 1..Len(objs), m \in MModes, copy \in BOOLEAN : CoerceRaise(o, m, copy)
DoPutNative     == \E o, t \in 1..Len(objs), m \in MModes : PutNative(t, o, m)
DoPutCoerce     == \E o, t \in 1..Len(objs), m \in MModes : PutCoerceOk(t, o, m)
DoPutRaise      == \E o, t \in 1..Len(objs), m \in MModes, c \in BOOLEAN : PutRaise(t, o, m, c)

CNext == DoCoerceSame \/ DoCoerceConvert \/ DoCoerceRaise \/ DoPutNative \/ DoPutCoerce \/ DoPutRaise

CSpec == CInit /\ [][CNext]_cvars

(* ---- what the property says, as invariants over the last call ------------ *)
IsCoerceOk == last.op = "coerce" /\ last.out = "ok"
Pre(o)     == last.pre[o]

TypeOK == /\ \A i \in 1..Len(objs) : objs[i].kind \in MKinds /\ objs[i].st \in {"valid", "consumed"}
          /\ last.out \in {"ok", "raise"}

ResultKind      == IsCoerceOk => objs[last.r].kind \in KindsOf(last.m) /\ objs[last.r].st = "valid" /\ objs[last.r].root
ResultLeaves    == IsCoerceOk => objs[last.r].content = Pre(last.o).content
SameKindIdentity ==
  (last.op = "coerce" /\ Pre(last.o).kind \in KindsOf(last.m) /\ Pre(last.o).fits /\ Pre(last.o).root /\ ~last.copy)
    => last.out = "ok" /\ last.r = last.o /\ objs = last.pre
CopyLeavesOperand ==
  (last.op = "coerce" /\ (last.copy \/ ~Pre(last.o).root))
    => /\ objs[last.o] = Pre(last.o)
       /\ (last.out = "ok" => last.r # last.o)
OthersUntouched == last.op = "coerce" => \A i \in 1..Len(last.pre) : i # last.o => objs[i] = last.pre[i]
(* put with coercion == explicit coercion followed by a native put            *)
PutCoerceEquiv ==
  (last.op = "putc" /\ last.out = "ok")
    => objs[last.r].content = Pre(last.r).content \o Pre(last.o).content
CoerceDisabledRaises ==
  (last.op = "putn") => /\ last.out = "raise" /\ ~(Pre(last.o).kind \in KindsOf(last.m) /\ Pre(last.o).fits)
                        /\ objs[last.r] = Pre(last.r)
PutFailAtomic == (last.op \in {"putc", "putn"} /\ last.out = "raise") => objs[last.r] = Pre(last.r)
=============================================================================
