INIT Init
NEXT Next
