----------------------------- MODULE TemplateMC ------------------------------
(* C18 (M): the walk-driven substitution algorithm of subn() (implementation  *)
(* shaped: pre/post-order walk over an EVOLVING tree, dirty set of template   *)
(* nodes and re-inserted matches, count / loop / nested / on / back) against  *)
(* the declarative reference transformer Template!TemplateRel, on ALL         *)
(* abstract trees with <= MaxNodes nodes over Labels, all label-set patterns, *)
(* all templates with <= MaxTmpl nodes and slots                              *)
(*    S_  whole match   S_a  single-node capture (first child, may be absent) *)
(*    S_s slice capture (all children)   S_z  a tag the pattern never sets.   *)
(* Every terminal state is also emitted as a row (case + expected result)     *)
(* which checks/c18.py concretises (A = List, B = Tuple) and replays into the *)
(* real pfst (direction G).                                                   *)
EXTENDS Integers, Sequences, FiniteSets, TLC, SequencesExt

CONSTANTS MaxNodes, MaxTmpl, Family, Emit   \* Emit = 0: no rows; n > 0: every row whose size key is divisible by n

Labels == {"A", "B"}
SlotKs == {"S_", "S_a", "S_s", "S_z"}
N(k, c) == [k |-> k, c |-> c]
None    == N("None", <<>>)

MKind(x)   == x.k
MVal(x)    == ""
MFields(x) == IF x.k \in Labels THEN <<[n |-> "c", c |-> x.c]>> ELSE <<>>
MSlotTag(x) == CASE x.k = "S_" -> "" [] x.k = "S_a" -> "a" [] x.k = "S_s" -> "s" [] x.k = "S_z" -> "z" [] OTHER -> "-"
MIsList(k, f) == TRUE
MKindCat(k)   == "expr"
MDots(x)      == FALSE

G == INSTANCE Template WITH NKind <- MKind, NVal <- MVal, NFields <- MFields, NoNode <- None,
                            SlotTag <- MSlotTag, IsListField <- MIsList, KindCat <- MKindCat, Dots <- MDots

(* ------------------------------------------------------------------------ *)
(* universe                                                                   *)
RECURSIVE TreesOf(_, _), Forests(_, _)
Forests(n, leaf) == IF n = 0 THEN {<<>>}
                    ELSE UNION {{<<t>> \o r : t \in TreesOf(j, leaf), r \in Forests(n - j, leaf)} : j \in 1..n}
TreesOf(n, leaf) == IF n = 0 THEN {}
                    ELSE {N(l, cs) : l \in Labels, cs \in Forests(n - 1, leaf)}
                           \cup (IF n = 1 THEN {N(l, <<>>) : l \in leaf} ELSE {})
(* Family = "all": every tree / template within the bounds.                    *)
(* Family = "peel": a non-matching root over 2-3 chains A(A(..B())) of          *)
(* DIFFERENT depth (up to 13 nodes), pattern {A}, templates that peel one       *)
(* layer (S_a), relabel it (B(S_a)) or rebuild it (A(S_s)), loop in {2, 3}: a   *)
(* location keeps matching for a data-dependent number of rounds and every      *)
(* location starts with a fresh loop budget.                                    *)
RECURSIVE Chain(_)
Chain(d) == IF d = 0 THEN N("B", <<>>) ELSE N("A", <<Chain(d - 1)>>)
PeelTrees == {N("B", <<Chain(a), Chain(b)>>) : a, b \in 0..3}
               \cup {N("B", <<Chain(a), Chain(b), Chain(c)>>) : a, b, c \in {0, 1, 3}}
PeelTemplates == {N("S_a", <<>>), N("B", <<N("S_a", <<>>)>>), N("A", <<N("S_s", <<>>)>>)}
Trees     == IF Family = "peel" THEN PeelTrees ELSE UNION {TreesOf(n, {}) : n \in 1..MaxNodes}
Templates == IF Family = "peel" THEN PeelTemplates
             ELSE UNION {TreesOf(n, SlotKs) : n \in 1..MaxTmpl} \ {N("S_s", <<>>), N("S_z", <<>>)}
Patterns  == IF Family = "peel" THEN {{"A"}} ELSE SUBSET Labels \ {{}}
Loops     == IF Family = "peel" THEN {2, 3} ELSE {0, 2}

(* paths and tree surgery                                                     *)
Step(i) == [n |-> "c", i |-> i]
RECURSIVE At(_, _)
At(t, p) == IF p = <<>> THEN t ELSE At(t.c[p[1].i], Tail(p))
RECURSIVE Put(_, _, _)
Put(t, p, r) == IF p = <<>> THEN r ELSE N(t.k, [t.c EXCEPT ![p[1].i] = Put(t.c[p[1].i], Tail(p), r)])
RECURSIVE PathsOf(_)
PathsOf(t) == {<<>>} \cup UNION {{<<Step(i)>> \o q : q \in PathsOf(t.c[i])} : i \in 1..Len(t.c)}
RECURSIVE PathLess(_, _)
PathLess(p, q) == IF p = <<>> THEN q # <<>> ELSE IF q = <<>> THEN FALSE
                  ELSE p[1].i < q[1].i \/ (p[1].i = q[1].i /\ PathLess(Tail(p), Tail(q)))
RECURSIVE Enc(_)
RECURSIVE EncS(_)
EncS(s) == IF s = <<>> THEN "" ELSE Enc(Head(s)) \o EncS(Tail(s))
Enc(t)  == t.k \o "(" \o EncS(t.c) \o ")"

(* ------------------------------------------------------------------------ *)
VARIABLES cs,      \* the case: [t0, pat, tmpl, nested, count, loop, on, back]
          tree, stack, dirty, left, uniq, total, lp, ev, done
vars == <<cs, tree, stack, dirty, left, uniq, total, lp, ev, done>>

NoEv == [p |-> <<>>, pre |-> None, post |-> None, is |-> FALSE]
NoLp == [p |-> <<>>, n |-> 0]

Matches(n) == n.k \in cs.pat

(* what `M(a=...)` / `M(s=...)` capture of a matched node at path p          *)
CapsOf(n, p) ==
  (IF Len(n.c) >= 1 THEN <<[tag |-> "a", t |-> "node", cat |-> "expr",
                            el |-> <<<<[s |-> n.c[1], p |-> Append(p, Step(1)), h |-> TRUE]>>>>]>> ELSE <<>>)
  \o <<[tag |-> "s", t |-> "seq", cat |-> "expr",
        el |-> [i \in 1..Len(n.c) |-> <<[s |-> n.c[i], p |-> Append(p, Step(i)), h |-> TRUE]>>]]>>

(* the filled template: [kids, dirty] for a sequence of template nodes.       *)
(* dirty = relative paths (first step = index in kids) of nodes that are      *)
(* never substituted again: every template node, and the root of a re-        *)
(* inserted whole match.                                                      *)
RECURSIVE FillKids(_, _, _)
FillOne(u, n, off) ==   \* -> [kids, dirty]
  CASE u.k = "S_"  -> [kids |-> <<n>>, dirty |-> {<<Step(off + 1)>>}]
    [] u.k = "S_a" -> [kids |-> IF Len(n.c) >= 1 THEN <<n.c[1]>> ELSE <<>>, dirty |-> {}]
    [] u.k = "S_s" -> [kids |-> n.c, dirty |-> {}]
    [] u.k = "S_z" -> [kids |-> <<>>, dirty |-> {}]
    [] OTHER -> LET r == FillKids(u.c, n, 0)
                IN [kids |-> <<N(u.k, r.kids)>>,
                    dirty |-> {<<Step(off + 1)>>} \cup {<<Step(off + 1)>> \o d : d \in r.dirty}]
FillKids(us, n, off) ==
  IF us = <<>> THEN [kids |-> <<>>, dirty |-> {}]
  ELSE LET a == FillOne(Head(us), n, off)
           b == FillKids(Tail(us), n, off + Len(a.kids))
       IN [kids |-> a.kids \o b.kids, dirty |-> a.dirty \cup b.dirty]

Filled(n) == LET r == FillKids(<<cs.tmpl>>, n, 0)   \* the template's top is one node here (see CaseOk)
             IN [node |-> r.kids[1], dirty |-> {Tail(d) : d \in r.dirty}]

Kids(p, n) == LET k == [i \in 1..Len(n.c) |-> Append(p, Step(i))]
              IN IF cs.back THEN Reverse(k) ELSE k

(* the top of the template must stay one node: `S_a` alone needs a child      *)
RECURSIVE AllHaveKids(_, _)
AllHaveKids(t, pat) == (t.k \in pat => Len(t.c) >= 1) /\ \A i \in 1..Len(t.c) : AllHaveKids(t.c[i], pat)
CaseOk(c) == /\ (c.tmpl.k = "S_a" => AllHaveKids(c.t0, c.pat))
             /\ (c.back => c.count > 0 \/ c.nested)            \* `back` only matters for count / order
             /\ (c.on = "leave" => ~c.nested)                  \* nested is ignored with on='leave'
             (* documented hazard ("improper usage ... can lead to infinite looping"): with loop and nested a   *)
             (* template whose own top matches is substituted again and its re-inserted captures are fresh      *)
             (* copies, so the walk never ends (pfst does run away: `[a]`.sub(MList, '[__FST_]', True, loop=2)) *)
             /\ (c.loop > 0 /\ c.nested => c.tmpl.k \notin c.pat)

CasesOf(t0) == {c \in [t0 : {t0}, pat : Patterns, tmpl : Templates, nested : BOOLEAN, count : 0..2, loop : Loops,
                        on : {"enter", "leave"}, back : BOOLEAN] : CaseOk(c)}
NoCase(t0) == [t0 |-> t0, pat |-> {}, tmpl |-> None, nested |-> FALSE, count |-> 0, loop |-> 0, on |-> "none",
               back |-> FALSE]

Frame(p, ph) == [p |-> p, ph |-> ph]
(* TLC computes initial states with one worker: start from the tree only and  *)
(* let the first action pick pattern, template and settings                   *)
Init == /\ cs \in {NoCase(t) : t \in Trees}
        /\ tree = cs.t0
        /\ stack = <<>>
        /\ dirty = {} /\ left = cs.count /\ uniq = 0 /\ total = 0
        /\ lp = NoLp /\ ev = NoEv /\ done = FALSE

(* one substitution at p (first or loop iteration)                            *)
SubAt(p, first) ==
  LET n == At(tree, p)
      r == Filled(n)
      t2 == Put(tree, p, r.node)
      rem == (IF first THEN cs.loop ELSE lp.n) - 1
      again == cs.loop > 0 /\ rem > 0 /\ Matches(r.node)        \* replaced.match(pat): dirty is not consulted
  IN /\ tree' = t2
     /\ dirty' = {d \in dirty : ~G!IsPrefix(p, d)} \cup {p \o d : d \in r.dirty}
     /\ total' = total + 1
     /\ uniq' = uniq + (IF first THEN 1 ELSE 0)
     /\ ev' = [p |-> p, pre |-> tree, post |-> t2, is |-> TRUE]
     /\ IF again THEN /\ lp' = [p |-> p, n |-> rem] /\ UNCHANGED <<stack, left, done>>
        ELSE /\ lp' = NoLp
             /\ IF left = 1 THEN /\ done' = TRUE /\ stack' = <<>> /\ left' = 0
                ELSE /\ left' = (IF left > 1 THEN left - 1 ELSE 0)
                     /\ done' = FALSE
                     /\ stack' = (IF cs.on = "enter" /\ cs.nested
                                   THEN [i \in 1..Len(r.node.c) |-> Frame(Kids(p, r.node)[i], "visit")]
                                   ELSE <<>>) \o Tail(stack)

Pick == /\ cs.on = "none"
        /\ cs' \in CasesOf(cs.t0)
        /\ stack' = <<Frame(<<>>, IF cs'.on = "enter" THEN "visit" ELSE "down")>>
        /\ left' = cs'.count
        /\ UNCHANGED <<tree, dirty, uniq, total, lp, ev, done>>

Top == Head(stack)
Eligible(p) == Matches(At(tree, p)) /\ p \notin dirty

(* on='leave': first go down, substitute on the way back                      *)
Descend == /\ ~done /\ lp = NoLp /\ stack # <<>> /\ Top.ph = "down"
           /\ stack' = [i \in 1..Len(At(tree, Top.p).c) |-> Frame(Kids(Top.p, At(tree, Top.p))[i], "down")]
                         \o <<Frame(Top.p, "visit")>> \o Tail(stack)
           /\ ev' = NoEv /\ UNCHANGED <<cs, tree, dirty, left, uniq, total, lp, done>>

SkipNode == /\ ~done /\ lp = NoLp /\ stack # <<>> /\ Top.ph = "visit" /\ ~Eligible(Top.p)
            /\ stack' = (IF cs.on = "enter"
                         THEN [i \in 1..Len(At(tree, Top.p).c) |-> Frame(Kids(Top.p, At(tree, Top.p))[i], "visit")]
                         ELSE <<>>) \o Tail(stack)
            /\ ev' = NoEv /\ UNCHANGED <<cs, tree, dirty, left, uniq, total, lp, done>>

Subst == /\ ~done /\ lp = NoLp /\ stack # <<>> /\ Top.ph = "visit" /\ Eligible(Top.p)
         /\ SubAt(Top.p, TRUE)
         /\ UNCHANGED cs

LoopSubst == /\ ~done /\ lp # NoLp
             /\ SubAt(lp.p, FALSE)
             /\ UNCHANGED cs

Stop == /\ ~done /\ lp = NoLp /\ stack = <<>> /\ cs.on # "none"
        /\ done' = TRUE /\ ev' = NoEv
        /\ UNCHANGED <<cs, tree, stack, dirty, left, uniq, total, lp>>

Next == Pick \/ Descend \/ SkipNode \/ Subst \/ LoopSubst \/ Stop
Spec == Init /\ [][Next]_vars

(* ------------------------------------------------------------------------ *)
(* the reference transformer on the ORIGINAL tree                             *)
MatchSeq(t) == LET ps == SetToSeq({p \in PathsOf(t) : At(t, p).k \in cs.pat})
               IN [i \in 1..Len(ps) |-> [p |-> ps[i], x |-> At(t, ps[i]), caps |-> CapsOf(At(t, ps[i]), ps[i])]]

Rank(M, cands, m) == 1 + Cardinality({o \in cands : IF cs.back THEN PathLess(M[m].p, M[o].p)
                                                       ELSE PathLess(M[o].p, M[m].p)})
KStatic == LET M == MatchSeq(cs.t0)  O == G!Outermost(M)
           IN [T |-> <<cs.tmpl>>, M |-> M, nested |-> FALSE,
               Sel |-> G!FirstN(O, LAMBDA m : Rank(M, O, m), cs.count)]
KNested == LET M == MatchSeq(cs.t0) IN [T |-> <<cs.tmpl>>, M |-> M, nested |-> TRUE, Sel |-> DOMAIN M]
KEvent(e) == [T |-> <<cs.tmpl>>, nested |-> FALSE, Sel |-> {1},
              M |-> <<[p |-> e.p, x |-> At(e.pre, e.p), caps |-> CapsOf(At(e.pre, e.p), e.p)]>>]

StaticNN == ~cs.nested /\ cs.on = "enter" /\ cs.loop = 0
StaticN  == cs.nested /\ cs.on = "enter" /\ cs.loop = 0 /\ cs.count = 0 /\ ~G!TopCapture(KNested)
Flat     == G!Antichain(MatchSeq(cs.t0)) /\ cs.loop = 0

(* nested = False: simultaneous replacement of the first `count` outermost    *)
(* matches of the original tree                                               *)
InvStaticNN == done /\ (StaticNN \/ Flat) =>
                 /\ G!TemplateRel(KStatic, cs.t0, tree)
                 /\ total = Cardinality(KStatic.Sel) /\ uniq = total
(* nested = True: all matches of the original tree, captures transformed too  *)
InvStaticN  == done /\ StaticN =>
                 /\ G!TemplateRel(KNested, cs.t0, tree)
                 /\ total = G!ExpCount(KNested, cs.t0)
(* the whole-match slot alone leaves the structure unchanged                  *)
InvIdentity == done /\ cs.tmpl.k = "S_" => tree = cs.t0
InvCounts   == /\ uniq <= total
               /\ (cs.count > 0 => uniq <= cs.count)
               /\ (cs.loop = 0 => uniq = total)
               /\ (cs.loop > 0 => total <= uniq * cs.loop)
(* TemplateRel is functional: no neighbour of the result is related           *)
Mutants(t) == {Put(t, p, N(IF At(t, p).k = "A" THEN "B" ELSE "A", At(t, p).c)) : p \in PathsOf(t)}
              \cup {Put(t, p, N(At(t, p).k, Tail(At(t, p).c))) : p \in {q \in PathsOf(t) : At(t, q).c # <<>>}}
              \cup {Put(t, p, N(At(t, p).k, <<N("A", <<>>)>> \o At(t, p).c)) : p \in PathsOf(t)}
InvFunctional == done /\ StaticNN => \A y \in Mutants(tree) : ~G!TemplateRel(KStatic, cs.t0, y)
InvFunctionalN == done /\ StaticN => \A y \in Mutants(tree) : ~G!TemplateRel(KNested, cs.t0, y)
(* every single substitution (any mode) is locally the template with its      *)
(* slots filled, and changes nothing else                                     *)
InvStepLocal == ev.is => G!TemplateRel(KEvent(ev), ev.pre, ev.post)

Row == <<"CASE", Enc(cs.t0), cs.pat, Enc(cs.tmpl), cs.nested, cs.count, cs.loop, cs.on, cs.back,
         Enc(tree), uniq, total>>
InvEmit == (done /\ Emit > 0 /\ total > 0
              /\ (Len(Enc(tree)) + Len(Enc(cs.tmpl)) + Len(Enc(cs.t0)) + uniq + total + cs.count) % Emit = 0)
             => PrintT(ToString(Row))
=============================================================================
