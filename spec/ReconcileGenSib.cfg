\* direction G, focused: complete set of histories made of SiblingCopy / ForeignPair mutations only
SPECIFICATION SpecSib
CONSTANTS
  MaxObj = 34
  MaxPos = 26
  MaxMut = 2
  MaxRounds = 2
  MaxFst = 0
  InitShapes <- ShapesSib
CHECK_DEADLOCK FALSE
INVARIANT Emit
