------------------------------ MODULE ExtractMC -----------------------------
(* Model of extraction from one list-like field, rendered to tokens by the     *)
(* separator rules of four container shapes.  It checks that the laws which    *)
(* ExtractTrace applies to recorded executions of pfst (ExtractBags:            *)
(* conservation up to the tokens the move itself requires, comment             *)
(* conservation, the window class of a loss) are                               *)
(*   - satisfied by an implementation that moves elements with their comments  *)
(*     and repairs separators / delimiters (no false alarm by construction,    *)
(*     including singleton-tuple commas and emptied containers),               *)
(*   - violated by each of three defective extractions (comment dropped,       *)
(*     element dropped, element duplicated),                                   *)
(* and that copy leaves the container unchanged, cut = copy + delete, and      *)
(* cut followed by put-back at the same index is the identity, for all         *)
(* containers with <= MaxLen elements, all slices, all comment placements.     *)
(* It also checks that the embedding table of ExtractEmbed is total and emits  *)
(* it for the harness (environment variable C07_TABLE).                        *)
EXTENDS ExtractBags, ExtractEmbed, TLC, Json, IOUtils, SequencesExt

CONSTANTS MaxLen, Shapes

(* an element = [id, c] : a name token n<id>, followed (c = 1) by its own trailing line comment *)
Elem(i, c) == [id |-> i, c |-> c]

VARIABLES cont, shape, clip, clipAt, last
vars == <<cont, shape, clip, clipAt, last>>

(* --- tokens: ids are small integers; classification by table ------------- *)
(* 1 ","  2 "("  3 ")"  4 "["  5 "]"  6 NEWLINE  10+i name of element i  20+i comment of element i *)
TComma == 1  TLp == 2  TRp == 3  TLb == 4  TRb == 5  TNl == 6
NameTok(i) == 10 + i
CmtTok(i)  == 20 + i
IsCmt(t)   == t > 20
IsExact(t) == t > 10 /\ t <= 20
MustExact(t) == IsExact(t)

RECURSIVE Flat(_)
Flat(ss) == IF ss = <<>> THEN <<>> ELSE Head(ss) \o Flat(Tail(ss))

ElemToks(e) == <<NameTok(e.id)>>
CmtToks(e)  == IF e.c = 1 THEN <<CmtTok(e.id), TNl>> ELSE <<>>

(* comma-separated: name , [comment NL] name ...; the comment of the last element follows it directly *)
CommaBody(es, trailingComma) ==
  Flat([i \in 1..Len(es) |->
          ElemToks(es[i]) \o (IF i < Len(es) \/ trailingComma THEN <<TComma>> ELSE <<>>) \o CmtToks(es[i])])

Render(sh, es) ==
  CASE sh = "list"  -> <<TLb>> \o CommaBody(es, FALSE) \o <<TRb>>
    [] sh = "tuple" -> <<TLp>> \o CommaBody(es, Len(es) = 1) \o <<TRp>>      \* (a,) needs its comma, () its parentheses
    [] sh = "bare"  -> IF es = <<>> THEN <<TLp, TRp>>                        \* an empty unparenthesised tuple is ()
                       ELSE IF es[Len(es)].c = 1 \/ Len(es) = 1 \/ (\E i \in 1..Len(es) : es[i].c = 1)
                            THEN <<TLp>> \o CommaBody(es, Len(es) = 1) \o <<TRp>>   \* comments force parentheses
                            ELSE CommaBody(es, FALSE)
    [] sh = "stmts" -> Flat([i \in 1..Len(es) |-> ElemToks(es[i]) \o (IF es[i].c = 1 THEN <<CmtTok(es[i].id)>> ELSE <<>>) \o <<TNl>>])
    [] OTHER -> <<>>

(* --- multisets relative to the original ---------------------------------- *)
Ids(ts) == {ts[i] : i \in 1..Len(ts)}
SortedIds(S) == SetToSortSeq(S, LAMBDA a, b : a < b)
BaseOf(ts) == LET ids == SortedIds(Ids(ts)) IN [ids |-> ids, cnt |-> [i \in 1..Len(ids) |-> CountIn(ts, ids[i])]]
Rel(base, ts) == LET extra == SortedIds(Ids(ts) \ Ids(base.ids)) IN
  [v |-> [i \in 1..Len(base.ids) |-> CountIn(ts, base.ids[i])],
   x |-> [j \in 1..Len(extra) |-> <<extra[j], CountIn(ts, extra[j])>>]]

Conserved(orig, rem, piece) ==
  LET b == BaseOf(orig) IN
  /\ Aligned(b, Rel(b, rem), Rel(b, piece))
  /\ ConservedWhere(b, Rel(b, rem), Rel(b, piece), MustExact)
  /\ ConservedWhere(b, Rel(b, rem), Rel(b, piece), IsCmt)

(* --- the reference extraction and three defective ones -------------------- *)
Rest(es, s, t)  == SubSeq(es, 1, s) \o SubSeq(es, t + 1, Len(es))
Piece(es, s, t) == SubSeq(es, s + 1, t)
DropCmt(es)  == [i \in 1..Len(es) |-> IF i = Len(es) THEN Elem(es[i].id, 0) ELSE es[i]]
Insert(es, s, new) == SubSeq(es, 1, s) \o new \o SubSeq(es, s + 1, Len(es))

Slices(n) == {<<s, t>> : s \in 0..n, t \in 0..n} \cap {p \in (0..n) \X (0..n) : p[1] <= p[2]}

(* --- invariants (evaluated in every reachable state, for every slice) ----- *)
LawAcceptsReference ==
  \A p \in Slices(Len(cont)) :
    Conserved(Render(shape, cont), Render(shape, Rest(cont, p[1], p[2])), Render(shape, Piece(cont, p[1], p[2])))

LawRejectsLostComment ==
  \A p \in Slices(Len(cont)) :
    LET pc == Piece(cont, p[1], p[2]) IN
    (pc # <<>> /\ pc[Len(pc)].c = 1) =>
      ~Conserved(Render(shape, cont), Render(shape, Rest(cont, p[1], p[2])), Render(shape, DropCmt(pc)))

LawRejectsLostElement ==
  \A p \in Slices(Len(cont)) :
    p[2] > p[1] => ~Conserved(Render(shape, cont), Render(shape, Rest(cont, p[1], p[2])),
                              Render(shape, Tail(Piece(cont, p[1], p[2]))))

LawRejectsDuplicate ==
  \A p \in Slices(Len(cont)) :
    p[2] > p[1] => ~Conserved(Render(shape, cont), Render(shape, cont), Render(shape, Piece(cont, p[1], p[2])))

(* the class of a comment loss: lost only the trailing comment of the last removed element = inside the window *)
WindowClass ==
  \A p \in Slices(Len(cont)) :
    LET pc == Piece(cont, p[1], p[2])
        o  == Render(shape, cont)
        b  == BaseOf(o)
    IN (pc # <<>> /\ pc[Len(pc)].c = 1) =>
         /\ LostWithin(b, Rel(b, Render(shape, Rest(cont, p[1], p[2]))), Rel(b, Render(shape, DropCmt(pc))), IsCmt,
                       <<CmtTok(pc[Len(pc)].id)>>)
         /\ ~LostWithin(b, Rel(b, Render(shape, Rest(cont, p[1], p[2]))), Rel(b, Render(shape, DropCmt(pc))), IsCmt, <<>>)

PutBackRestores ==
  \A p \in Slices(Len(cont)) : Insert(Rest(cont, p[1], p[2]), p[1], Piece(cont, p[1], p[2])) = cont

TypeOK == Len(cont) <= MaxLen /\ shape \in Shapes

(* --- behaviour: build containers, copy, cut, put back --------------------- *)
Init == cont = <<>> /\ shape \in Shapes /\ clip = <<>> /\ clipAt = 0 /\ last = "init"

Grow == /\ Len(cont) < MaxLen /\ clipAt = 0
        /\ \E c \in {0, 1} : cont' = Append(cont, Elem(Len(cont) + 1, c))
        /\ UNCHANGED <<shape, clip, clipAt>> /\ last' = "grow"

DoCopy == /\ clipAt = 0
          /\ \E p \in Slices(Len(cont)) : clip' = Piece(cont, p[1], p[2])
          /\ UNCHANGED <<cont, shape, clipAt>> /\ last' = "copy"

DoCut == /\ clipAt = 0 /\ Len(cont) > 0
         /\ \E p \in Slices(Len(cont)) :
              /\ clip' = Piece(cont, p[1], p[2]) /\ cont' = Rest(cont, p[1], p[2]) /\ clipAt' = p[1] + 1
         /\ UNCHANGED shape /\ last' = "cut"

DoPutBack == /\ clipAt > 0
             /\ cont' = Insert(cont, clipAt - 1, clip) /\ clip' = <<>> /\ clipAt' = 0
             /\ UNCHANGED shape /\ last' = "putback"

Next == Grow \/ DoCopy \/ DoCut \/ DoPutBack
Spec == Init /\ [][Next]_vars

(* copy never changes the container; cut = copy + delete; put-back after cut restores (action properties) *)
CopyUndisturbed == [][last' = "copy" => cont' = cont]_vars
CutThenPutBack  == [][(last = "cut" /\ last' = "putback") => \E p \in Slices(Len(cont')) :
                         cont = Rest(cont', p[1], p[2]) /\ clip = Piece(cont', p[1], p[2])]_vars

(* --- the embedding table -------------------------------------------------- *)
ASSUME \A k \in AllKinds : Len(EmbedOf(k)) >= 1
ASSUME \A k \in AllKinds : \A i \in 1..Len(EmbedOf(k)) :
         /\ EmbedOf(k)[i].mode \in {"exec", "eval"} /\ EmbedOf(k)[i].indent \in {0, 1}
         /\ (EmbedOf(k)[i].path = <<>>) = (k = "Module")
ASSUME \A k \in Specials : SpecialField(k) # ""
ASSUME \A k \in AllKinds \ Specials : SpecialField(k) = ""
ASSUME Stmts \cap Exprs = {} /\ Exprs \cap Patterns = {} /\ Specials \cap (Stmts \cup Exprs \cup Patterns) = {}
ASSUME ("C07_TABLE" \in DOMAIN IOEnv) =>
         JsonSerialize(IOEnv.C07_TABLE, [k \in AllKinds |-> EmbedOf(k)])
=============================================================================
