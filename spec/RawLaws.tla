------------------------------ MODULE RawLaws -------------------------------
(* C10, clause by clause.  A state is [text, tree |-> [s, p], root]: the       *)
(* source text, the live tree (s = structure, p = structure with positions;    *)
(* hash-consed ids in recorded traces, explicit values in the model) and the   *)
(* identity of the root object.                                                *)
(*   s = state before the call, t = state after, new = the whole text the      *)
(*   call requested (splice of the replacement into s.text), v = CPython's     *)
(*   judgement of new for the root's kind, pr = CPython's tree of new.         *)
EXTENDS RawText

St(tx, tr, ro) == [text |-> tx, tree |-> tr, root |-> ro]

TextIsSplice(t, new)           == t.text = new
TreeIsFullParseStruct(t, pr)   == t.tree.s = pr.s
TreeIsFullParsePos(t, pr)      == t.tree.p = pr.p
AcceptedOnlyIfValid(v)         == v                 \* evaluated when the call returned
RefusedOnlyIfInvalid(v)        == ~v                \* evaluated when the call raised
AtomicOnRaise(s, t)            == t.text = s.text /\ t.tree = s.tree
RootIdentity(s, t)             == t.root = s.root

ReparseLaw(s, t, outcome, new, v, pr) ==
  IF outcome = "ok"
  THEN /\ AcceptedOnlyIfValid(v) /\ TextIsSplice(t, new)
       /\ TreeIsFullParseStruct(t, pr) /\ TreeIsFullParsePos(t, pr) /\ RootIdentity(s, t)
  ELSE /\ RefusedOnlyIfInvalid(v) /\ AtomicOnRaise(s, t) /\ RootIdentity(s, t)

=============================================================================
