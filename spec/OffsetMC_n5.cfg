SPECIFICATION Spec
CONSTANTS
  MaxNodes = 5
  MaxLines = 2
  MaxCols = 8
  AllowZero = FALSE
  AllowNoSep = FALSE
  AllowWrap = FALSE
  WarmModes <- MCWarmAll
  GapAlpha <- MCGapAlpha
  RichAlpha <- MCRichAlpha5
  InsAlpha <- MCInsAlpha5
CHECK_DEADLOCK FALSE
INVARIANT OnText
INVARIANT LawBefore
INVARIANT LawAfter
INVARIANT LawContains
INVARIANT LawTotal
INVARIANT SelfContains
INVARIANT ChangedVisited
INVARIANT CacheFresh
INVARIANT FlushesAllMoved
INVARIANT ZeroWidthLaw
