SPECIFICATION Spec
CONSTANTS
  MaxLen = 4
  MaxNew = 2
  MaxViews = 2
  InitLens = {0, 2, 4}
  ThLen = 5
  ThIdx = 7
VIEW StateView
INVARIANT Distinct
INVARIANT ExtentOK
INVARIANT FullViewIsField
INVARIANT DirtyIsLive
PROPERTY BaseIsPythonList
PROPERTY ViewExtent
PROPERTY SubviewComposes
PROPERTY OnlyUseMoves
PROPERTY UseReclips
PROPERTY BasePutIsPython
CHECK_DEADLOCK FALSE
