---------------------------- MODULE TemplateTrace ----------------------------
(* C18 (V): recorded executions of the real sub()/subn() validated against    *)
(* Template.tla.  One trace = one subn() call on one program:                 *)
(*   init   projected state before the call                                   *)
(*   S      the match set of the ORIGINAL tree (from pfst `search`, C17)       *)
(*   steps  one "subst" step per substitution (public callback /              *)
(*          callback_after of subn) and one final "done" step.                *)
(* The harness supplies observations and stdlib facts only: paths of matches  *)
(* and captures, projections (sid/pid) of live tree and of CPython's parse of *)
(* the source, token / line ids.  Every judgement is made here.               *)
(* Verdicts are total (PfstTrace.tla format).                                 *)
(* Traces concretised from a terminal state of TemplateMC (direction G) carry *)
(* the model's result (gexp, guniq, gtotal) next to the observed one (gobs).  *)
EXTENDS NodeTab, TLC

ListF == Batch.listf       \* kind -> list fields        (ast grammar)
KCat  == Batch.kcat        \* kind -> category           (ast class hierarchy)

SeqSet(s) == {s[i] : i \in 1..Len(s)}
TagOf(v) == IF Len(v) >= 9 /\ SubSeq(v, 1, 8) = "s'__FST_" THEN SubSeq(v, 9, Len(v) - 1) ELSE "-"
Prim1(x, fn) == LET c == FieldSeq(x, fn) IN IF Len(c) = 1 THEN Val(c[1]) ELSE ""
TSlotTag(x) == IF Kind(x) = "Name" THEN TagOf(Prim1(x, "id"))
               ELSE IF Kind(x) = "arg" /\ FieldSeq(x, "annotation") = <<0>> THEN TagOf(Prim1(x, "arg"))   \* parameter slot
               ELSE "-"
TIsList(kind, field) == kind \in DOMAIN ListF /\ field \in SeqSet(ListF[kind])
TKindCat(kind) == IF kind \in DOMAIN KCat THEN KCat[kind] ELSE "other"
TDots(x) == /\ Kind(x) = "Constant"
            /\ LET c == FieldSeq(x, "value") IN Len(c) = 1 /\ Val(c[1]) = "s'...'"

G == INSTANCE Template WITH NKind <- Kind, NVal <- Val, NFields <- Fields, NoNode <- 0, SlotTag <- TSlotTag,
                            IsListField <- TIsList, KindCat <- TKindCat, Dots <- TDots

Cl(name, ok) == [c |-> name, ok |-> ok]

(* ------------------------------------------------------------------------ *)
(* facts -> case records                                                      *)
ResComp(root, e) == [s |-> IF e.h THEN NodeAt(root, e.p) ELSE 0, p |-> e.p, h |-> e.h]
ResCap(root, c)  == [tag |-> c.tag, t |-> c.t, cat |-> c.cat,
                     el |-> [a \in 1..Len(c.el) |-> [b \in 1..Len(c.el[a]) |-> ResComp(root, c.el[a][b])]]]
ResMatch(root, m) == [p |-> m.p, x |-> NodeAt(root, m.p), ml |-> m.ml, caps |-> [j \in 1..Len(m.caps) |-> ResCap(root, m.caps[j])]]
ResM(root, ms)    == [i \in 1..Len(ms) |-> ResMatch(root, ms[i])]

(* is the node at path p an element of a list field                           *)
ListAt(root, p) == p # <<>> /\ TIsList(Kind(NodeAt(root, SubSeq(p, 1, Len(p) - 1))), p[Len(p)].n)

(* domain: f-string internals and match patterns are outside every generator  *)
(* (DESIGN 2.6; sub() documents "very few expression forms are valid" there)  *)
ExclKinds == {"JoinedStr", "FormattedValue", "MatchValue", "MatchSingleton", "MatchSequence", "MatchMapping",
              "MatchClass", "MatchStar", "MatchAs", "MatchOr"}
Excluded(root, p) == \E n \in 0..Len(p) : Kind(NodeAt(root, SubSeq(p, 1, n))) \in ExclKinds

(* named deviation DocstrReindent (option docstr, default True, documented): a multi-line string that is an   *)
(* expression statement is re-indented with the block it moves into, which changes its value; matches that     *)
(* contain one (fact `ml`, from the ast positions) are judged only when the call passes docstr=False           *)
DocstrSafe(K, m) == ~K.docstr \/ ~K.M[m].ml
CaseFits(K, root) == \A m \in K.Sel : /\ ~Excluded(root, K.M[m].p) /\ DocstrSafe(K, m)
                                      /\ K.M[m].x # 0
                                      /\ G!SlotsFit(K, m, ListAt(root, K.M[m].p))

Sync(s) == s.srcOk /\ s.liveP = s.srcP

(* ------------------------------------------------------------------------ *)
(* text: C04's locality with the substituted node(s) as the window            *)
PosLE(a, b) == a[1] < b[1] \/ (a[1] = b[1] /\ a[2] <= b[2])
MaxS(S) == CHOOSE x \in S : \A y \in S : y <= x
MinS(S) == CHOOSE x \in S : \A y \in S : x <= y
(* token = <<id of (type, text), trivia flag, start line, start col, end line, end col>>                        *)
(* trivia flag 1 = COMMENT ( ) : the node's own grouping parentheses and the comments adjoining it belong to   *)
(* the window (C04: "own grouping parentheses and the trivia between neighbours")                               *)
(* layout tokens (flag 2: NL INDENT DEDENT ; and 3: NEWLINE) are erased before comparing: replacing a statement of a  *)
(* one-line block (`def g(): h = 6; return h`) re-lays the block out on lines of its own, which changes the     *)
(* line structure but no other token (C04 erases the container's own separators the same way); OutsideLines     *)
(* judges the lines.                                                                                            *)
Sig(toks) == SelectSeq(toks, LAMBDA t : t[2] < 2)
(* named deviation ElifCollapse (option elif_, default on): an `If` that becomes the only statement of an       *)
(* `else:` block is written `elif`, i.e. the `else` `:` tokens just before the window may go                    *)
PrefixKeep(toks, start) ==
  LET I == {i \in 1..Len(toks) : PosLE(<<toks[i][5], toks[i][6]>>, start)}
      n == IF I = {} THEN 0 ELSE MaxS(I)
      C == {i \in 1..n : toks[i][2] = 0}
      k == IF C = {} THEN 0 ELSE MaxS(C)
      C2 == {i \in 1..(k - 2) : toks[i][2] = 0}       \* ... and the comments that adjoined the `else:`
  IN IF k >= 2 /\ toks[k][1] = Batch.tokColon /\ toks[k - 1][1] = Batch.tokElse
     THEN (IF C2 = {} THEN 0 ELSE MaxS(C2)) ELSE k
SuffixKeep(toks, end) ==      \* number of tokens at the end that must be preserved
  LET N == Len(toks)
      J == {i \in 1..N : PosLE(end, <<toks[i][3], toks[i][4]>>)}
      j0 == IF J = {} THEN N + 1 ELSE MinS(J)
      C == {i \in j0..N : toks[i][2] = 0}
  IN IF C = {} THEN 0 ELSE N - MinS(C) + 1
OutsideTokens(s, t, start, end) ==
  LET ps == Sig(s.toks)  pt == Sig(t.toks)
      a == PrefixKeep(ps, start)  b == SuffixKeep(ps, end)
      N == Len(ps)  N2 == Len(pt) IN
  /\ a + b <= N2
  /\ \A i \in 1..a : ps[i][1] = pt[i][1]
  /\ \A d \in 0..(b - 1) : ps[N - d][1] = pt[N2 - d][1]

(* lines = <<id of the text, class>>, class 0 code, 1 blank, 2 comment only,   *)
(* 3 a line consisting of `else:`.                                            *)
(* Expression: the lines the node lies on.  Statement: the LOGICAL lines it    *)
(* lies on (a statement of a one-line block `if d: e = 4; f = 5` cannot be     *)
(* replaced by a compound statement without re-laying the block out), plus    *)
(* the comment block above it and adjoining blank lines, which may go with it *)
(* (C04 `Selected` trivia, `BlankLines`).                                     *)
LineBefore(toks, start) ==     \* last line of the previous logical line
  LET I == {i \in 1..Len(toks) : toks[i][2] = 3 /\ PosLE(<<toks[i][5], toks[i][6]>>, start)}
  IN IF I = {} THEN 0 ELSE toks[MaxS(I)][3]
LineAfter(toks, end, dflt) ==  \* last line of the logical line the node ends on
  LET J == {i \in 1..Len(toks) : toks[i][2] = 3 /\ PosLE(end, <<toks[i][3], toks[i][4]>>)}
  IN IF J = {} THEN dflt ELSE toks[MinS(J)][3]
(* expression: the lines from the first to the last token that lies between the neighbouring significant    *)
(* tokens, i.e. the node with its own grouping parentheses and the comments inside them                        *)
ExprLineBefore(toks, start) ==
  LET I == {i \in 1..Len(toks) : toks[i][2] = 0 /\ PosLE(<<toks[i][5], toks[i][6]>>, start)}
      k == IF I = {} THEN 0 ELSE MaxS(I)
  IN IF k + 1 <= Len(toks) THEN Min(toks[k + 1][3], start[1]) - 1 ELSE start[1] - 1
ExprLineAfter(toks, end) ==
  LET J == {i \in 1..Len(toks) : toks[i][2] = 0 /\ PosLE(end, <<toks[i][3], toks[i][4]>>)}
      j == IF J = {} THEN Len(toks) + 1 ELSE MinS(J)
  IN IF j - 1 >= 1 THEN Max(toks[j - 1][5], end[1]) ELSE end[1]
OutsideLines(s, t, start, end, stmt) ==
  LET N == Len(s.lines)  N2 == Len(t.lines)
      a0 == IF stmt THEN Min(LineBefore(s.toks, start), N) ELSE Min(ExprLineBefore(s.toks, start), N)
      a == IF stmt /\ a0 >= 1 /\ s.lines[a0][2] = 3 THEN a0 - 1 ELSE a0     \* ElifCollapse: the `else:` line above
      l1 == IF stmt THEN LineAfter(s.toks, end, end[1]) ELSE ExprLineAfter(s.toks, end)
      B == {i \in (l1 + 1)..N : ~stmt \/ s.lines[i][2] # 1}
      b == IF B = {} THEN 0 ELSE N - MinS(B) + 1
  IN /\ a + b <= N2
     /\ \A i \in 1..a : s.lines[i][1] = t.lines[i][1]
     /\ \A d \in 0..(b - 1) : s.lines[N - d][1] = t.lines[N2 - d][1]

NodePos(s, p) == PPos(PNodeAt(s.srcP, p))
Positioned(s, p) == Len(NodePos(s, p)) = 4

(* a decorated def / class begins at its first decorator line (the node position is that of `def` / `class`)    *)
WinStart(s, p) == LET d == PFieldSeq(PNodeAt(s.srcP, p), "decorator_list")
                  IN IF d # <<>> /\ Len(PPos(d[1])) = 4 THEN <<PPos(d[1])[1], 0>>
                     ELSE <<NodePos(s, p)[1], NodePos(s, p)[2]>>
TextClauses(pfx, s, t, paths, stmt) ==
  IF paths = {} \/ ~Sync(s) \/ ~t.srcOk \/ ~s.tokOk \/ ~t.tokOk \/ \E p \in paths : ~Positioned(s, p) THEN {}
  ELSE LET starts == {WinStart(s, p) : p \in paths}
           ends   == {<<NodePos(s, p)[3], NodePos(s, p)[4]>> : p \in paths}
           start  == CHOOSE a \in starts : \A b \in starts : PosLE(a, b)
           end    == CHOOSE a \in ends : \A b \in ends : PosLE(b, a)
       IN { Cl(pfx \o "OutsideTokens", OutsideTokens(s, t, start, end)),
            Cl(pfx \o "OutsideLines", OutsideLines(s, t, start, end, stmt)) }

(* ------------------------------------------------------------------------ *)
VARIABLES tid, l, st, bad, seen, nEv, nUniq, allValid, fits, run, pstill
vars == <<tid, l, st, bad, seen, nEv, nUniq, allValid, fits, run, pstill>>

Tr       == Traces[tid]
Steps(t) == Traces[t].steps
Cfg      == Tr.cfg

IsStmtAt(root, p) == TKindCat(Kind(NodeAt(root, p))) = "stmt"

(* --- one substitution (any mode): locally the template with its slots      *)
(* filled by what THIS match captured, nothing else changed                  *)
KEvent(s, e) == [T |-> Tr.T, M |-> ResM(s.liveS, <<e.m>>), nested |-> FALSE, Sel |-> {1}, docstr |-> Cfg.docstr]
EventFits(s, e) == Sync(s) /\ CaseFits(KEvent(s, e), s.liveS)

(* loop: "after each match is substituted check if it still matches the pattern, and if so substitute again,   *)
(* up to `loop` times" - per LOCATION: a run of events (first + loop continuations) ends only when its budget  *)
(* is used up or the new node no longer matches (`still` = replaced.match(pat), the question subn() itself asks) *)
(* `same` (observation): the callback got the very node the previous substitution returned.  Whether that is a  *)
(* loop continuation is decided HERE: it is one iff the location still has budget and its node still matched.   *)
(* Otherwise the node is visited as a NEW location, which only the nested walk can do (nested=True, on='enter': *)
(* the statements put in place of a match are searched, the first of them is the node returned).                *)
Cont(e, r, ps) == e.same /\ Cfg.loop # 0 /\ r >= 1 /\ (Cfg.loop < 0 \/ r < Cfg.loop) /\ ps     \* loop -1 = True: no bound
IsCont(e)  == Cont(e, run, pstill)
RunNow(e)  == IF IsCont(e) THEN run + 1 ELSE 1
LastOfRun(i, e) == LET nx == Steps(tid)[i + 1] IN nx.k # "subst" \/ ~Cont(nx, RunNow(e), e.still)
NextOk(i)    == LET nx == Steps(tid)[i + 1] IN nx.k = "subst" \/ nx.outcome = "ok"
LoopClauses(e) ==
  (IF e.same /\ ~IsCont(e) THEN {Cl("Loop.Bounded", Cfg.nested /\ Cfg.on = "enter")} ELSE {})
  \cup (IF Cfg.loop # 0 /\ l < Len(Steps(tid)) /\ LastOfRun(l, e) /\ NextOk(l)
        THEN {Cl("Loop.Complete", e.still => (Cfg.loop > 0 /\ RunNow(e) = Cfg.loop))} ELSE {})

SubstClauses(s, e) ==     \* s = state after the previous step, e.pre = state observed when the callback fired
  LET t == e.post  q == e.pre  K == KEvent(q, e) IN
  { Cl("Event.Chain", q.liveP = s.liveP /\ q.lines = s.lines),
    Cl("Event.MatchedNode", e.matchedOk) }
  \cup LoopClauses(e)
  \cup (IF EventFits(q, e) /\ e.matchedOk
        THEN { Cl("Event.TemplateRel", G!TemplateRel(K, q.liveS, t.liveS)) }
             \cup (IF e.hasRef THEN {Cl("Event.RefAgree", G!TemplateRel(K, q.liveS, e.expS))} ELSE {})
             \cup (IF e.hasRef /\ e.expValid /\ allValid THEN {Cl("Event.Sync", Sync(t))} ELSE {})
             \cup (IF e.hasRef /\ e.expValid /\ allValid
                   THEN TextClauses("Event.", q, t, {e.m.p}, IsStmtAt(q.liveS, e.m.p)) ELSE {})
        ELSE {})

(* --- the whole call                                                          *)
(* when the result is determined by the match set of the original tree:       *)
(*  StaticNN  nested=False, on='enter', no loop: the first `count` outermost   *)
(*  StaticFlat no match inside another match and the pattern looks at the      *)
(*            root's shape only: nested / on / back cannot matter              *)
(*  StaticN   nested=True, on='enter', no loop, no count: every match, the    *)
(*            captured nodes transformed as well                              *)
PosOf(m) == PPos(PNodeAt(Tr.init.liveP, Tr.S[m].p))
Rank(c, m) == 1 + Cardinality({o \in c : IF Cfg.back THEN PosLess(PosOf(m), PosOf(o)) ELSE PosLess(PosOf(o), PosOf(m))})

Static ==   \* [mode, K]: mode \in {"nn", "flat", "n", "step"}
  LET M0     == ResM(Tr.init.liveS, Tr.S)
      outer  == G!Outermost(M0)
      rankOK == \A m \in outer : Len(PosOf(m)) = 4
      cntOK  == Cfg.count = 0 \/ rankOK
      kst    == [T |-> Tr.T, M |-> M0, nested |-> FALSE, docstr |-> Cfg.docstr,
                 Sel |-> IF Cfg.count > 0 /\ rankOK THEN G!FirstN(outer, LAMBDA m : Rank(outer, m), Cfg.count) ELSE outer]
      kn     == [T |-> Tr.T, M |-> M0, nested |-> TRUE, Sel |-> DOMAIN M0, docstr |-> Cfg.docstr]
      nn     == ~Cfg.nested /\ Cfg.on = "enter" /\ Cfg.loop = 0 /\ cntOK
      flat   == outer = DOMAIN M0 /\ Cfg.shapeOnly /\ Cfg.loop = 0 /\ cntOK
      n      == Cfg.nested /\ Cfg.on = "enter" /\ Cfg.loop = 0 /\ Cfg.count = 0 /\ ~G!TopCapture(kn)
  IN IF nn THEN [mode |-> "nn", K |-> kst]
     ELSE IF flat THEN [mode |-> "flat", K |-> kst]
     ELSE IF n THEN [mode |-> "n", K |-> kn]
     ELSE [mode |-> "step", K |-> kst]

StaticFits(K) == /\ Sync(Tr.init) /\ CaseFits(K, Tr.init.liveS)
                 /\ (K.nested => \A m \in DOMAIN K.M : ~Excluded(Tr.init.liveS, K.M[m].p))

(* case class detail for known findings: a bare `yield` captured into a call argument slot                      *)
YieldArg(K, m) == \E o \in G!TopOccs(K, m) :
                    /\ o.k \in {"Call", "ClassDef"} /\ o.fn \in {"args", "bases"}
                    /\ G!CapKinds(K, m, o.g) \cap {"Yield", "YieldFrom"} # {}
MissingInBoolOp(K, m) == \E o \in G!TopOccs(K, m) : o.k = "BoolOp" /\ o.g # "" /\ G!CapOf(K, m, o.g).t = "missing"
NParams(x) == Len(FieldSeq(x, "posonlyargs")) + Len(FieldSeq(x, "args")) + Len(FieldSeq(x, "kwonlyargs"))
                + (IF FieldSeq(x, "vararg") = <<0>> THEN 0 ELSE 1) + (IF FieldSeq(x, "kwarg") = <<0>> THEN 0 ELSE 1)
WholeArgsOne(K, m) == /\ Kind(K.M[m].x) = "arguments" /\ NParams(K.M[m].x) = 1
                      /\ (TSlotTag(K.T[1]) = "" \/ \E o \in G!TopOccs(K, m) : o.g = "")
(* a slice capture over the REAL field Call.args / ClassDef.bases with a keyword written between two captured    *)
(* elements: not contiguous in the source                                                                       *)
ArgsNonContig(K, m, q0) ==
  \E i \in 1..Len(K.M[m].caps) :
    LET cap == K.M[m].caps[i]  n == Len(cap.el) IN
    /\ cap.t = "seq" /\ n >= 2 /\ cap.el[1][1].h /\ cap.el[n][1].h
    /\ (\E o \in G!TopOccs(K, m) : o.g = cap.tag)
    /\ LET p1 == cap.el[1][1].p  pn == cap.el[n][1].p IN
       /\ Len(p1) >= 1 /\ p1[Len(p1)].n \in {"args", "bases"} /\ pn[Len(pn)].n = p1[Len(p1)].n
       /\ LET par == PNodeAt(q0.liveP, SubSeq(p1, 1, Len(p1) - 1))
              kws == PFieldSeq(par, "keywords")
              a == PPos(PNodeAt(q0.liveP, p1))  b == PPos(PNodeAt(q0.liveP, pn))
          IN Len(a) = 4 /\ Len(b) = 4 /\
             \E k \in 1..Len(kws) : Len(PPos(kws[k])) = 4 /\ PosLess(a, PPos(kws[k])) /\ PosLess(PPos(kws[k]), b)
Detail(K, q0) == (IF \E m \in K.Sel : YieldArg(K, m) THEN "/yield-arg" ELSE "")
             \o (IF \E m \in K.Sel : MissingInBoolOp(K, m) THEN "/missing-in-boolop" ELSE "")
             \o (IF \E m \in K.Sel : WholeArgsOne(K, m) THEN "/whole-arguments-one" ELSE "")
             \o (IF K.nested /\ (Len(K.T) > 1 \/ (Cfg.replModule /\ Cfg.cat = "stmt")) THEN "/slice-template" ELSE "")
             \o (IF K.nested /\ \E m \in K.Sel : \E o \in G!TopOccs(K, m) : o.g = "" /\ o.flat THEN "/whole-flatten" ELSE "")
             \o (IF \E m \in K.Sel : ArgsNonContig(K, m, q0) THEN "/capture-args-noncontiguous" ELSE "")

(* nested=True: "all of them".  When the template brings no node of its own that the pattern matches (fact       *)
(* tmplM = 0, from pfst search on the template), has no whole-match slot, and a capture standing at the top of  *)
(* the template is a statement slice (put as a slice, so the statements put are searched themselves), nothing   *)
(* excuses a node from substitution: whatever loop does, the result must not contain a match any more.          *)
RECURSIVE HasWhole(_)
HasWhole(x) == TSlotTag(x) = "" \/ \E i \in 1..Len(Fields(x)) : \E j \in 1..Len(Fields(x)[i].c) : HasWhole(Fields(x)[i].c[j])
ExhDomain(K, e) ==
  /\ Cfg.nested /\ Cfg.on = "enter" /\ Cfg.count = 0 /\ Cfg.shapeOnly /\ e.outcome = "ok" /\ fits /\ allValid
  /\ Tr.tmplM = 0 /\ ~\E j \in 1..Len(Tr.T) : HasWhole(Tr.T[j])
  /\ (G!TopCapture(K) => Cfg.cat = "stmt")
  /\ \A m \in DOMAIN K.M : \A o \in G!TopOccs(K, m) : G!CapT(K, m, o.g) # "missing"   \* a dropped slot can make a template
                                                                                       \* node match (arity), tmplM is then no guide

DoneClauses(s, e) ==
  LET t  == e.post
      S0 == Static
      K  == S0.K
      stat == S0.mode # "step" /\ StaticFits(K)
  IN
  (IF e.outcome = "ok"
   THEN { Cl("Final.Chain", Cfg.cb => (t.liveP = s.liveP /\ t.lines = s.lines)),
          Cl("Counts.total", Cfg.cb => e.total = nEv),
          Cl("Counts.unique", Cfg.cb => e.uniq = nUniq),
          Cl("Counts.bounds", e.uniq <= e.total /\ (Cfg.count > 0 => e.uniq <= Cfg.count)
                                /\ (Cfg.loop = 0 => e.uniq = e.total)
                                /\ (Cfg.loop > 0 => e.total <= e.uniq * Cfg.loop)) }
        \cup (IF G!IdentityTemplate(K) /\ Sync(Tr.init) /\ fits
              THEN {Cl("Identity", t.liveS = Tr.init.liveS)} ELSE {})
   ELSE {})
  \cup (IF e.outcome = "diverged" /\ ~(Cfg.nested /\ Cfg.loop > 0) /\ Cfg.loop >= 0 THEN {Cl("Terminates", FALSE)} ELSE {})
  \cup (IF stat /\ e.hasRef /\ e.outcome # "diverged"
        THEN { Cl("RefAgree", G!TemplateRel(K, Tr.init.liveS, e.expS)) }
             \cup (IF e.expValid THEN {Cl("CarriedOut", e.outcome = "ok")} ELSE {})
             \cup (IF e.outcome = "ok"
                   THEN { Cl("TemplateRel", G!TemplateRel(K, Tr.init.liveS, t.liveS)),
                          Cl("Counts.static", e.total = (IF K.nested THEN G!ExpCount(K, Tr.init.liveS)
                                                        ELSE Cardinality(K.Sel))) }
                        \cup (IF e.expValid THEN {Cl("Sync", Sync(t))} ELSE {})
                        \cup (IF e.expValid /\ ~Cfg.cb /\ ~K.nested
                              THEN TextClauses("", Tr.init, t, {K.M[m].p : m \in K.Sel},
                                               \E m \in K.Sel : IsStmtAt(Tr.init.liveS, K.M[m].p))
                              ELSE {})
                   ELSE {})
        ELSE {})
  \cup (IF ExhDomain(K, e) /\ Sync(Tr.init)
        THEN {Cl("Nested.Exhaustive", \A i \in 1..Len(e.finalM) : Excluded(t.liveS, e.finalM[i]))} ELSE {})
  \cup (IF e.hasModel
        THEN { Cl("Model.Result", e.outcome = "ok" /\ e.gobs = e.gexp),
               Cl("Model.Counts", e.uniq = e.guniq /\ e.total = e.gtotal) }
        ELSE {})

Clauses(s, e) ==
  CASE e.k = "subst" -> SubstClauses(s, e)
    [] e.k = "done"  -> DoneClauses(s, e)
    [] OTHER -> {Cl("UnknownEvent", FALSE)}

ClassOf(s, e) ==
  CASE e.k = "subst" -> "subst/" \o Kind(NodeAt(e.pre.liveS, e.m.p)) \o (IF IsCont(e) THEN "/loop" ELSE "")
                           \o Detail(KEvent(e.pre, e), e.pre)
    [] e.k = "done"  -> "done/" \o e.outcome \o "/" \o e.exc \o "/" \o Static.mode
                           \o (IF Static.mode # "step" THEN Detail(Static.K, Tr.init) ELSE "")
    [] OTHER -> "?"

Init == /\ tid \in 1..Len(Traces)
        /\ l = 1
        /\ st = Traces[tid].init
        /\ bad = {} /\ seen = {}
        /\ nEv = 0 /\ nUniq = 0 /\ allValid = TRUE /\ fits = TRUE /\ run = 0 /\ pstill = FALSE

Next == /\ l <= Len(Steps(tid))
        /\ LET e == Steps(tid)[l]
               cs == Clauses(st, e)
           IN /\ bad' = bad \cup {<<l, r.c, ClassOf(st, e)>> : r \in {q \in cs : ~q.ok}}
              /\ seen' = seen \cup {r.c : r \in cs}
              /\ st' = e.post
              /\ nEv' = nEv + (IF e.k = "subst" THEN 1 ELSE 0)
              /\ nUniq' = nUniq + (IF e.k = "subst" /\ ~IsCont(e) THEN 1 ELSE 0)
              /\ allValid' = (allValid /\ (e.k = "subst" => e.hasRef /\ e.expValid))
              /\ fits' = (fits /\ (e.k = "subst" => EventFits(e.pre, e)))
              /\ run' = (IF e.k = "subst" THEN RunNow(e) ELSE 0)
              /\ pstill' = (e.k = "subst" /\ e.still)
        /\ l' = l + 1
        /\ UNCHANGED tid

Spec == Init /\ [][Next]_vars

Report == (l = Len(Steps(tid)) + 1) => PrintT(<<"VERDICT", Traces[tid].id, bad, seen>>)
=============================================================================
