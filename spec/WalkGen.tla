------------------------------- MODULE WalkGen -------------------------------
(* C15 - the walk generator of pfst (fst_traverse.py:walk) transcribed, running *)
(* against a consumer that edits the tree while the generator is parked at a  *)
(* yield.                                                                     *)
(*                                                                            *)
(* Tree: AST ids with kids[a] (source order), the two link maps fOf (a.f) and *)
(* aOf (f.a).  FST 1 is the walked node W.  _unmake_fst_tree = both links of  *)
(* every node of a detached subtree are cleared; a single-item replace keeps  *)
(* the FST object of the target and gives it the new AST (keep), a slice      *)
(* style replace makes a new FST object (~keep).                              *)
(*                                                                            *)
(* Walker (one action per internal step, pc names the program point):         *)
(*   start/yS/aS  self yield of on in {enter, both}   (lines 1367-1383)       *)
(*   setup        initial stack of children           (1392-1396, 1450-1452)  *)
(*   pop/yE/aE    the on='enter' loop (1404-1444) and the entering half of    *)
(*                the on='both' loop (1560-1592)                              *)
(*   pop/yL/aL    the on='leave' loop (1462-1511), leaving half of 'both'     *)
(*   tail/yT/aT   last yield of the walk root on leaving (1515, 1596)         *)
(* frames = the stack of generator frames: `yield from fst_.walk(..)` after a *)
(* send(True) under recurse=False pushes a frame with recurse=TRUE.           *)
(*                                                                            *)
(* Deliberate deviations (named): NoFilter (every node passes `all`),         *)
(* NoScope (scope=True is only bound through trace validation), NoLeaveSend   *)
(* (a send at a leaving yield is documented to walk the children AGAIN, the   *)
(* consumer here only sends at entering yields), MutateThenSend (within one   *)
(* park mutations precede sends: they touch disjoint variables and commute).  *)
EXTENDS WalkLaws, TLC, Json

CONSTANTS N,          \* initial trees have 1..N nodes
          MaxMut,     \* mutations per walk
          MaxPark,    \* mutations per park
          MaxSend,    \* send() calls per walk (at most 2 per park: "last value sent takes effect")
          Ons, Backs, Recs, Selfs,
          Shapes,     \* replacement shapes: 1 leaf, 2 node+child, 3 node+2 children, 4 chain of 3
          WRemovable, \* may the consumer remove / slice-replace the walked node itself (W is not the tree root)
          Logging     \* keep the action log (generation runs only)

MaxId == N + 3 * MaxMut
Ids   == 1..MaxId
ShapeSize(sh) == IF sh = 4 THEN 3 ELSE sh

VARIABLES kids, fOf, aOf, parA, nA, nF,           \* the tree and its FST objects
          cfg, frames, pc, cur, lv, rec, isSelf,   \* the generator
          muts, parkMuts, sends, nsend, lastSend, replacedCur, \* the consumer
          entered, stale, closed, opened, T0, exp, dbl, nyield, nins, log   \* history (property side)
tree == <<kids, fOf, aOf, parA, nA, nF>>
gen  == <<cfg, frames, pc, cur, lv, rec, isSelf>>
cons == <<muts, parkMuts, sends, nsend, lastSend, replacedCur>>
hist == <<entered, stale, closed, opened, T0, exp, dbl, nyield, nins, log>>
vars == <<tree, gen, cons, hist>>

Iota(n) == [k \in 1..n |-> k]
NoExp == [on |-> FALSE, clause |-> "", allowed |-> {}, mayStop |-> TRUE]

\* ---------------------------------------------------------------------------------------------- tree helpers
RECURSIVE SubA(_)
SubA(a) == {a} \cup UNION {SubA(kids[a][k]) : k \in 1..Len(kids[a])}

RECURSIVE Flat(_, _), FlatL(_, _)
Flat(a, d)   == <<[s |-> fOf[a], d |-> d, e |-> TRUE, v |-> TRUE]>> \o FlatL(kids[a], d + 1)
FlatL(ks, d) == IF ks = <<>> THEN <<>> ELSE Flat(Head(ks), d) \o FlatL(Tail(ks), d)
Snap == IF aOf[1] = 0 THEN <<>> ELSE Flat(aOf[1], 0)

Ordered(ks) == IF cfg.back THEN ks ELSE Rev(ks)      \* pushed so that pop() gives walk order
AEntries(ks) == [k \in 1..Len(ks) |-> [t |-> "a", v |-> ks[k]]]
Top == frames[Len(frames)]
SetTop(fr) == [frames EXCEPT ![Len(frames)] = fr]
Push(es) == SetTop([Top EXCEPT !.stk = @ \o es])

Log(r) == IF Logging THEN Append(log, r) ELSE log

\* ---------------------------------------------------------------------------------------------- initial states
RECURSIVE AncSelfP(_, _)
AncSelfP(p, j) == IF j = 1 THEN {1} ELSE {j} \cup AncSelfP(p, p[j])
PreOrdered(p, n) == \A i \in 2..n : p[i] \in AncSelfP(p, i - 1)

Init ==
  \E n \in 1..N : \E p \in [1..n -> 0..n] :
    /\ p[1] = 0 /\ \A i \in 2..n : p[i] \in 1..(i - 1)
    /\ PreOrdered(p, n)
    /\ kids = [a \in Ids |-> IF a <= n THEN SelectSeq(Iota(n), LAMBDA i : p[i] = a) ELSE <<>>]
    /\ parA = [a \in Ids |-> IF a <= n THEN p[a] ELSE 0]
    /\ fOf = [a \in Ids |-> IF a <= n THEN a ELSE 0]
    /\ aOf = [f \in Ids |-> IF f <= n THEN f ELSE 0]
    /\ nA = n /\ nF = n
    /\ \E o \in Ons, b \in Backs, r \in Recs, s \in Selfs :
         cfg = [on |-> o, back |-> b, recurse |-> r, self |-> s, scope |-> FALSE]
    /\ frames = <<[stk |-> <<>>, rec |-> cfg.recurse]>>
    /\ pc = "start" /\ cur = 0 /\ lv = FALSE /\ rec = "F" /\ isSelf = FALSE
    /\ muts = 0 /\ parkMuts = 0 /\ sends = 0 /\ nsend = 0 /\ lastSend = "none" /\ replacedCur = FALSE
    /\ entered = {} /\ stale = {} /\ closed = {} /\ opened = {} /\ T0 = <<>> /\ exp = NoExp /\ dbl = {}
    /\ nyield = 0 /\ nins = 0
    /\ log = IF Logging THEN <<[k |-> "I", n |-> n, p |-> p]>> ELSE <<>>

\* ---------------------------------------------------------------------------------------------- the generator
Yield(f, leaving, pcNew, r, selfY) ==
  /\ cur' = f /\ lv' = leaving /\ pc' = pcNew /\ rec' = r /\ isSelf' = selfY
  /\ LET reenter == ~(leaving /\ cfg.on = "both") IN
       /\ dbl' = dbl \cup (IF reenter /\ f \in entered THEN {"NoDoubleEnter"} ELSE {})
                     \cup (IF aOf[f] = 0 THEN {"YieldedAlive"} ELSE {})
                     \cup (IF f \notin Serials(Snap) THEN {"YieldedInTree"} ELSE {})
       /\ entered' = IF reenter THEN entered \cup {f} ELSE entered
  /\ nyield' = nyield + 1
  /\ T0' = Snap
  /\ parkMuts' = 0 /\ sends' = 0 /\ lastSend' = "none" /\ replacedCur' = FALSE
  /\ log' = Log([k |-> "Y", f |-> f, lv |-> leaving])
  /\ UNCHANGED <<tree, cfg, muts, nsend, stale, closed, opened, exp, nins>>

Silent(pcNew) == /\ pc' = pcNew /\ UNCHANGED <<tree, cfg, cur, lv, rec, isSelf, cons, hist>>

Start ==
  /\ pc = "start"
  /\ IF cfg.self /\ cfg.on # "leave"
     THEN Yield(1, FALSE, "yS", "one", TRUE) /\ UNCHANGED frames          \* `while (sent := (yield item))`
     ELSE Silent("setup") /\ UNCHANGED frames

AfterSelf ==
  /\ pc = "aS"
  /\ IF rec = "F" \/ aOf[1] = 0                                           \* `if not recurse_: return` / deleted
     THEN Silent("done") /\ UNCHANGED frames
     ELSE /\ frames' = IF rec = "T" THEN SetTop([Top EXCEPT !.rec = TRUE]) ELSE frames   \* user changed their mind
          /\ Silent("setup")

Setup ==
  /\ pc = "setup"
  /\ LET ch == Ordered(kids[aOf[1]]) IN
     frames' = SetTop([Top EXCEPT !.stk =
                  IF cfg.on = "leave" /\ ~Top.rec
                  THEN [k \in 1..Len(ch) |-> [t |-> "f", v |-> fOf[ch[k]]]]   \* `stack = [a.f for a in stack if a]`
                  ELSE AEntries(ch)])
  /\ Silent("pop")

PopStk == [Top EXCEPT !.stk = SubSeq(@, 1, Len(@) - 1)]

Pop ==
  /\ pc = "pop"
  /\ IF Top.stk = <<>>
     THEN IF Len(frames) > 1
          THEN frames' = SubSeq(frames, 1, Len(frames) - 1) /\ Silent("pop")     \* sub-generator exhausted
          ELSE UNCHANGED frames /\ Silent(IF cfg.on = "enter" THEN "done" ELSE "tail")
     ELSE LET x == Top.stk[Len(Top.stk)] IN
          IF x.t = "f"                                                           \* "leaving" marker
          THEN IF aOf[x.v] = 0                                                    \* removed during child processing
               THEN frames' = SetTop(PopStk) /\ Silent("pop")
               ELSE frames' = SetTop(PopStk) /\ Yield(x.v, TRUE, "yL", "F", FALSE)
          ELSE LET f == fOf[x.v] IN
               IF f = 0                                                           \* `if not (fst_ := ast.f): continue`
               THEN frames' = SetTop(PopStk) /\ Silent("pop")
               ELSE IF cfg.on = "leave"
                    THEN LET ch == Ordered(kids[x.v]) IN
                         IF ch # <<>>
                         THEN /\ frames' = SetTop([PopStk EXCEPT !.stk = @ \o <<[t |-> "f", v |-> f]>> \o AEntries(ch)])
                              /\ Silent("pop")
                         ELSE frames' = SetTop(PopStk) /\ Yield(f, TRUE, "yL", "F", FALSE)
                    ELSE frames' = SetTop(PopStk)
                         /\ Yield(f, FALSE, "yE", IF Top.rec THEN "T" ELSE "F", FALSE)

AfterEnter ==
  /\ pc = "aE"
  /\ LET a == aOf[cur]
         marker == IF cfg.on = "both" THEN <<[t |-> "f", v |-> cur]>> ELSE <<>>
     IN IF cfg.on = "enter" /\ rec = "F" THEN UNCHANGED frames                  \* `if not recurse_: continue`
        ELSE IF a = 0 THEN UNCHANGED frames                                      \* `if not (ast := fst_.a): continue`
        ELSE IF rec = "F" THEN frames' = Push(marker)                            \* both: marker, no recursion
        ELSE IF rec = "one" /\ ~Top.rec                                          \* send(True): `yield from fst_.walk(...)`
             THEN frames' = Append(Push(marker), [stk |-> AEntries(Ordered(kids[a])), rec |-> TRUE])
             ELSE frames' = Push(marker \o AEntries(Ordered(kids[a])))
  /\ Silent("pop")

AfterLeave == pc = "aL" /\ Silent("pop") /\ UNCHANGED frames                     \* NoLeaveSend: recurse_ stays False

TailYield ==
  /\ pc = "tail" /\ UNCHANGED frames
  /\ IF cfg.self /\ aOf[1] # 0 THEN Yield(1, TRUE, "yT", "F", TRUE) ELSE Silent("done")

AfterTail == pc = "aT" /\ Silent("done") /\ UNCHANGED frames

Walker == Start \/ AfterSelf \/ Setup \/ Pop \/ AfterEnter \/ AfterLeave \/ TailYield \/ AfterTail

\* ---------------------------------------------------------------------------------------------- the consumer
Parked == pc \in {"yS", "yE", "yL", "yT"}
CurIdx0 == IdxOf(T0, cur)

MarkStale(f, fnew) ==    \* f = FST of the replaced node, fnew = FST of its replacement (the same object if kept)
  IF CurIdx0 # 0 /\ IdxOf(T0, f) # 0 /\ IdxOf(T0, f) \in Frontier(T0, CurIdx0, cfg.back)
  THEN stale \cup {fnew} ELSE stale

Remove(a) ==
  /\ Parked /\ muts < MaxMut /\ parkMuts < MaxPark
  /\ fOf[a] # 0                                         \* a live node of the tree
  /\ parA[a] # 0 \/ WRemovable
  /\ LET S == SubA(a)  p == parA[a] IN
       /\ kids' = [x \in Ids |-> IF x = p THEN SelectSeq(kids[x], LAMBDA k : k # a) ELSE kids[x]]
       /\ fOf' = [x \in Ids |-> IF x \in S THEN 0 ELSE fOf[x]]
       /\ aOf' = [f \in Ids |-> IF aOf[f] \in S THEN 0 ELSE aOf[f]]
       /\ parA' = [parA EXCEPT ![a] = 0]
  /\ muts' = muts + 1 /\ parkMuts' = parkMuts + 1
  /\ log' = Log([k |-> "M", op |-> "remove", f |-> fOf[a], sh |-> 0, keep |-> FALSE])
  /\ UNCHANGED <<nA, nF, gen, sends, nsend, lastSend, replacedCur, entered, stale, closed, opened, T0, exp, dbl, nyield, nins>>

Replace(a, sh, keep) ==
  /\ Parked /\ muts < MaxMut /\ parkMuts < MaxPark
  /\ fOf[a] # 0
  /\ keep \/ parA[a] # 0 \/ WRemovable                  \* a slice put needs a parent container
  /\ LET S  == SubA(a)  p == parA[a]  f == fOf[a]
         r  == nA + 1  c1 == nA + 2  c2 == nA + 3
         fr == IF keep THEN f ELSE nF + 1               \* FST of the new node
         f1 == (IF keep THEN nF ELSE nF + 1) + 1
         f2 == f1 + 1
         nk == ShapeSize(sh)
     IN
       /\ kids' = [x \in Ids |->
                     IF x = p THEN [k \in 1..Len(kids[x]) |-> IF kids[x][k] = a THEN r ELSE kids[x][k]]
                     ELSE IF x = r THEN (CASE sh = 1 -> <<>> [] sh = 2 -> <<c1>> [] sh = 3 -> <<c1, c2>> [] sh = 4 -> <<c1>>)
                     ELSE IF x = c1 /\ sh = 4 THEN <<c2>>
                     ELSE kids[x]]
       /\ parA' = [x \in Ids |-> IF x = r THEN p ELSE IF x = c1 /\ nk >= 2 THEN r
                                 ELSE IF x = c2 /\ nk = 3 THEN (IF sh = 4 THEN c1 ELSE r)
                                 ELSE IF x = a THEN 0 ELSE parA[x]]
       /\ fOf' = [x \in Ids |-> IF x = r THEN fr ELSE IF x = c1 /\ nk >= 2 THEN f1 ELSE IF x = c2 /\ nk = 3 THEN f2
                                ELSE IF x \in S THEN 0 ELSE fOf[x]]
       /\ aOf' = [g \in Ids |-> IF g = fr THEN r ELSE IF g = f1 /\ nk >= 2 THEN c1 ELSE IF g = f2 /\ nk = 3 THEN c2
                                ELSE IF aOf[g] \in S THEN 0 ELSE aOf[g]]
       /\ nA' = nA + nk
       /\ nF' = nF + nk - (IF keep THEN 1 ELSE 0)
       /\ stale' = MarkStale(f, fr)
       /\ replacedCur' = IF f = cur THEN keep ELSE IF cur \in {fOf[x] : x \in S} THEN FALSE ELSE replacedCur
       /\ nins' = nins + nk
       /\ log' = Log([k |-> "M", op |-> "replace", f |-> f, sh |-> sh, keep |-> keep])
  /\ muts' = muts + 1 /\ parkMuts' = parkMuts + 1
  /\ UNCHANGED <<gen, sends, nsend, lastSend, entered, closed, opened, T0, exp, dbl, nyield>>

Send(v) ==
  /\ pc \in {"yS", "yE"} /\ sends < 2 /\ nsend < MaxSend                  \* NoLeaveSend; "last value sent takes effect"
  /\ rec' = IF pc = "yS" THEN (IF v THEN "T" ELSE "F") ELSE (IF v THEN "one" ELSE "F")
  /\ sends' = sends + 1 /\ nsend' = nsend + 1 /\ lastSend' = IF v THEN "T" ELSE "F"
  /\ log' = Log([k |-> "S", v |-> v])
  /\ UNCHANGED <<tree, cfg, frames, pc, cur, lv, isSelf, muts, parkMuts, replacedCur,
                 entered, stale, closed, opened, T0, exp, dbl, nyield, nins>>

Resume ==
  /\ Parked
  /\ pc' = CASE pc = "yS" -> "aS" [] pc = "yE" -> "aE" [] pc = "yL" -> "aL" [] pc = "yT" -> "aT"
  /\ LET T1 == Snap
         op1 == IF lastSend = "T" THEN opened \cup {cur} ELSE opened
         below == FirstBelow(T1, cur, cfg, op1, FALSE)
     IN /\ opened' = op1
        /\ closed' = IF lastSend = "F" THEN closed \cup {cur} ELSE closed
        /\ exp' = IF CurIdx0 = 0 THEN NoExp
                  ELSE IF cur \notin Serials(T1)
                  THEN [on |-> TRUE, clause |-> "RemovedContinues"]
                       @@ AfterDead(T0, [i |-> CurIdx0, lv |-> lv], T1, cfg, entered, op1, stale)
                  ELSE IF ~lv /\ lastSend # "F" /\ (replacedCur \/ lastSend = "T") /\ below # {}
                  THEN [on |-> TRUE, clause |-> IF replacedCur THEN "ReplacedChildrenNext" ELSE "SendHonoured",
                        allowed |-> below, mayStop |-> FALSE]
                  ELSE NoExp
  /\ log' = Log([k |-> "R", c |-> exp'.clause])
  /\ UNCHANGED <<tree, cfg, frames, cur, lv, rec, isSelf, cons, entered, stale, T0, dbl, nyield, nins>>

DoRemove  == sends = 0 /\ \E a \in Ids : Remove(a)                                  \* MutateThenSend
DoReplace == sends = 0 /\ \E a \in Ids, sh \in Shapes, keep \in BOOLEAN : Replace(a, sh, keep)
DoSend    == \E v \in BOOLEAN : Send(v)
Consumer  == Resume \/ DoRemove \/ DoReplace \/ DoSend

Finished == pc = "done" /\ UNCHANGED vars

Next == Walker \/ Consumer \/ Finished
Spec == Init /\ [][Next]_vars /\ WF_vars(Walker \/ Resume)
SpecG == Init /\ [][Walker \/ Consumer]_vars       \* generation runs: behaviours end at done (no stuttering step)

\* ---------------------------------------------------------------------------------------------- properties
YieldedAlive  == "YieldedAlive" \notin dbl       \* judged when the yield happens (Yield)
YieldedInTree == "YieldedInTree" \notin dbl
NoDoubleEnter == "NoDoubleEnter" \notin dbl
NextAsExpected(cl) ==
  (exp.on /\ exp.clause = cl) =>
     /\ Parked => [s |-> cur, lv |-> lv] \in exp.allowed
     /\ pc = "done" => exp.mayStop
RemovedContinues     == NextAsExpected("RemovedContinues")
ReplacedChildrenNext == NextAsExpected("ReplacedChildrenNext")
SendTrueHonoured     == NextAsExpected("SendHonoured")
SendFalseHonoured    == Parked => ~UnderClosed(T0, cur, closed)
Bounded == nyield <= YieldBound(N, nins)
Terminates == <>(pc = "done")

EmitLog == (Logging /\ pc = "done") => PrintT("BEHAVIOUR " \o ToJson([cfg |-> cfg, log |-> log]))
=============================================================================
