---------------------------- MODULE ReconcileMC -----------------------------
(* Model-checking / generation wrapper of Reconcile.tla.                      *)
(* Initial trees: <= 6 statements, nesting depth <= 2.                        *)
EXTENDS Reconcile

S0 == [b |-> 0, o |-> 0]
Blk(b, o) == [b |-> b, o |-> o]

ShapesOne   == { <<S0, Blk(1, 0)>> }
ShapesTwo   == { <<S0, Blk(1, 1)>> }
ShapesThor  == { <<S0, Blk(1, 1)>>, <<S0, Blk(2, 0), S0>> }
ShapesTiny  == { <<S0, Blk(1, 1)>>, <<S0, S0>> }
ShapesSmall == { <<S0, S0, S0>>, <<S0, Blk(2, 0), S0>>, <<Blk(1, 1), S0>> }
ShapesFull  == ShapesSmall \cup
               { <<S0, Blk(2, 1), S0>>, <<Blk(2, 0), Blk(1, 1)>>, <<S0, S0, Blk(1, 0), S0>>, <<Blk(2, 2), S0>>,
                 <<S0>>, <<Blk(1, 0)>> }

(* focused generation: only the alignment-sensitive mutations, on trees whose *)
(* compound statement has two blocks of >= 2 statements                       *)
ShapesSib == { <<Blk(2, 2), S0>>, <<Blk(2, 3)>> }
NextSib   == Mark \/ SiblingCopy \/ ForeignPair \/ ReconcileOk \/ ReconcileInvalid
SpecSib   == Init /\ [][NextSib]_vars

(* generation (G): every complete history is printed once; with hist part of *)
(* the state (no VIEW) distinct histories are distinct states                 *)
Emit == Done => PrintT(<<"HIST", ToJson(hist)>>)
=============================================================================
