----------------------------- MODULE ViewsTrace ------------------------------
(* Trace validation of behaviours replayed on real FSTViews                   *)
(* (harness/views_replay.py).  The trace re-executes the *actions* of         *)
(* Views.tla on the recorded arguments; the recorded observations of the real *)
(* code are compared with the state the specification reaches.                *)
(*                                                                            *)
(* trace = [id, kind, nviews, init : Seq(id), steps : Seq(Event)]             *)
(* Event = [op, v, w, a, b, new,         the action and its abstract arguments *)
(*          cls,                          "<container kind>:<op>" (class label) *)
(*          outcome,                      "ok" | exception class name           *)
(*          base, live,                   element ids of the field afterwards,  *)
(*                                        read from the re-parsed source and    *)
(*                                        from the live AST                     *)
(*          obs : [has, start, stop, len, elems],   the operating / used / new  *)
(*                                        view as the real code reports it      *)
(*          ret : [has, ids],             elements of the tree returned by cut  *)
(*                                        / of the copy taken at a use          *)
(*          m : [has, c, views]]          the generator's post-state (G)        *)
(*                                                                            *)
(* Clauses (total; a clause is only evaluated where it applies):              *)
(*   KnownEvent        the event is one of the specification's actions         *)
(*   Outcome           raised exactly where the specification refuses          *)
(*                     (IndexError for a bad single index / inverted slice)    *)
(*   BaseIsPythonList  the field after an operation through a view (or the     *)
(*                     node API) = the Python list operation on the denoted    *)
(*                     sub-list spliced back                                   *)
(*   BaseUnchanged     observing / creating views does not edit the field      *)
(*   LiveIsSource      live AST and re-parsed source agree on the field        *)
(*   ViewExtent        (start, stop) of the view the step went through / made  *)
(*   ReclipAfterForeignEdit   the same, when the field had been edited behind  *)
(*                     that view's back since its last use (re-clipping rule)  *)
(*   ViewLen           len(view) = stop - start                                *)
(*   ViewContents      the items of the view are base[start:stop]              *)
(*   FullViewIsField   a whole-field view reports (0, len(field))              *)
(*   SubviewComposes   view[a:b] denotes the Python slice of what view denotes *)
(*   CutReturns / CopyReturns   the returned tree holds what the view denoted  *)
(*   G.ModelAgree      state reached here = state the generator predicted      *)
EXTENDS Views, Json, IOUtils

Batch  == JsonDeserialize(IOEnv.TRACE_FILE)
Traces == Batch.traces

VARIABLES tid, l, bad, seen, sync
tvars == <<vars, tid, l, bad, seen, sync>>

Steps(t) == Traces[t].steps
Cl(name, ok) == [c |-> name, ok |-> ok]

IsBound(x) == x.k \in {"int", "end", "none"}
KnownOps == ThroughOps \cup {"use", "mkfull", "mksub", "baseput"}

(* can the specification take the recorded event at all?                     *)
Known(e) ==
  /\ e.op \in KnownOps /\ IsBound(e.a) /\ IsBound(e.b)
  /\ (e.op \in ThroughOps \cup {"use", "mksub"} => e.v \in Live)
  /\ (e.op \in {"mkfull", "mksub"} => e.w \in DOMAIN views)
  /\ (e.op \in {"setidx", "delidx"} => e.a.k = "int")
  /\ (e.op = "setidx" => Len(e.new) = 1)

Act(e) ==
  CASE e.op \in ThroughOps -> Through(e.v, e.op, e.a, e.b, e.new)
    [] e.op = "use"     -> Use(e.v)
    [] e.op = "mkfull"  -> MkFull(e.w)
    [] e.op = "mksub"   -> MkSub(e.v, e.w, e.a, e.b)
    [] e.op = "baseput" -> BasePut(e.a, e.b, e.new)

(* the view whose observation the event carries, in the post-state           *)
Target(e) == IF e.op \in {"mkfull", "mksub"} THEN e.w ELSE e.v

(* clauses, evaluated after Act(e): unprimed = before, primed = after        *)
Clauses(e) ==
  LET ok    == last'.ok
      edits == e.op \in ThroughOps \cup {"baseput"}
      stale == e.op \in ThroughOps \cup {"use", "mksub"} /\ e.v \in dirty
      hasT  == e.op # "baseput" /\ (e.op # "mksub" \/ ok)
      w     == views'[Target(e)]
      lo    == Lo(w, Len(c'))
      hi    == Hi(w, Len(c'))
  IN {Cl("Outcome", e.outcome = (IF ok THEN "ok" ELSE last'.exc))}
     \cup (IF e.outcome # (IF ok THEN "ok" ELSE last'.exc) THEN {}     \* what follows describes a different call
           ELSE
             {Cl(IF edits THEN "BaseIsPythonList" ELSE "BaseUnchanged", e.base = c'),
              Cl("LiveIsSource", e.live = e.base)}
             \cup (IF hasT /\ e.obs.has
                   THEN {Cl(IF stale THEN "ReclipAfterForeignEdit" ELSE "ViewExtent", e.obs.start = lo /\ e.obs.stop = hi),
                         Cl("ViewLen", e.obs.len = e.obs.stop - e.obs.start /\ e.obs.len = hi - lo),
                         Cl("ViewContents", e.obs.elems = SubSeq(c', lo + 1, hi))}
                        \cup (IF Pinned(w)
                              THEN {Cl("FullViewIsField", e.obs.start = 0 /\ e.obs.stop = Len(e.base) /\ e.obs.elems = e.base)}
                              ELSE {})
                        \cup (IF e.op = "mksub"
                              THEN {Cl("SubviewComposes",
                                       e.obs.elems = GetSlice(SubSeq(c, last'.lo + 1, last'.hi), 0, e.a, e.b))}
                              ELSE {})
                   ELSE {})
             \cup (IF e.ret.has /\ e.op = "cut" THEN {Cl("CutReturns", e.ret.ids = last'.ret)} ELSE {})
             \cup (IF e.ret.has /\ e.op = "use" THEN {Cl("CopyReturns", e.ret.ids = last'.ret)} ELSE {})
             \cup (IF e.m.has THEN {Cl("G.ModelAgree", e.m.c = c' /\ e.m.views = [u \in 1..Len(e.m.views) |-> views'[u]]
                                                        /\ Len(e.m.views) = Traces[tid].nviews)}
                   ELSE {}))

Init == /\ tid \in 1..Len(Traces)
        /\ l = 1 /\ bad = {} /\ seen = {} /\ sync = TRUE
        /\ InitWith(Traces[tid].init, Traces[tid].nviews)

(* after the first failed step the real object and the specification are no  *)
(* longer in the same state: the rest of the trace is not judged             *)
Next == /\ l <= Len(Steps(tid))
        /\ LET e == Steps(tid)[l] IN
           IF sync /\ Known(e)
           THEN /\ Act(e)
                /\ LET cs == Clauses(e) IN
                   /\ bad' = bad \cup {<<l, r.c, e.cls>> : r \in {q \in cs : ~q.ok}}
                   /\ seen' = seen \cup {r.c : r \in cs} \cup {"KnownEvent"}
                   /\ sync' = (\A q \in cs : q.ok)
           ELSE /\ UNCHANGED vars /\ sync' = FALSE
                /\ bad' = IF sync THEN bad \cup {<<l, "KnownEvent", e.cls>>} ELSE bad
                /\ seen' = seen \cup {"KnownEvent"}
        /\ l' = l + 1
        /\ UNCHANGED tid

Spec == Init /\ [][Next]_tvars

Report == (l = Len(Steps(tid)) + 1) => PrintT(<<"VERDICT", Traces[tid].id, bad, seen>>)
=============================================================================
