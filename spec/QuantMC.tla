------------------------------- MODULE QuantMC -------------------------------
(* Self-consistency of Quant.tla, model-checked over every instance           *)
(* <<i1, i2, i3, word>> with items from MCItems (0 = absent), words from      *)
(* MCWords.  One state per instance; the invariants say                       *)
(*   LexFirst     flat lists: the operational first match is the             *)
(*                lexicographically preferred valid vector of iteration      *)
(*                counts of an independent, declarative definition           *)
(*   Tiles        an accepted answer is a decomposition of the whole word    *)
(*   GreedyLang   flat lists: acceptance does not depend on greediness       *)
(*   AtomicSound  AtomicSubseq only removes matches, and is the identity     *)
(*                when no sub-sequence contains a quantifier                 *)
(*   ElemOnlySub  the ElemStepBack classifier equals the specification       *)
(*                unless a greedy sub-sequence quantifier is present         *)
(*   RegexShape   the emitted regular expression has one group per           *)
(*                quantifier                                                  *)
EXTENDS Quant

CONSTANTS MCItems, MCItems3, MCWords
VARIABLES id, ph, res
vars == <<id, ph, res>>

Answers(i) == LET p == PatsOf(i)  w == WordOf(i[4]) IN
              [s |-> FirstMatch(p, w), f |-> FirstFull(p, w), e |-> FirstElemStep(p, w), k |-> FirstWalk(p, w),
               flip |-> FirstMatch([k \in 1..Len(p) |-> IF p[k].k = "q" THEN [p[k] EXCEPT !.g = ~@] ELSE p[k]], w).acc]

(* three levels so that TLC's workers share the enumeration: first item, second item, then (third item, word) *)
Init == ph = "start" /\ id \in {<<a, 0, 0, 0>> : a \in MCItems \cup {0}} /\ res = 0
Second == ph = "start" /\ ph' = "two" /\ id' \in {<<id[1], b, 0, 0>> : b \in MCItems \cup {0}} /\ res' = 0
Insts == {i \in {<<id[1], id[2], c, wn>> : c \in MCItems3 \cup {0}, wn \in MCWords} : ValidId(i) /\ InDomain(PatsOf(i))}
PickFlat   == ph = "two" /\ ph' = "flat" /\ id' \in {i \in Insts : IsFlat(PatsOf(i))} /\ res' = Answers(id')
PickSubseq == ph = "two" /\ ph' = "sub"  /\ id' \in {i \in Insts : ~IsFlat(PatsOf(i))} /\ res' = Answers(id')
Next == Second \/ PickFlat \/ PickSubseq
Spec == Init /\ [][Next]_vars

-----------------------------------------------------------------------------
(* Declarative semantics of flat lists: a vector of iteration counts *)
Off(v, i) == LET RECURSIVE S(_) S(k) == IF k = 0 THEN 0 ELSE S(k - 1) + v[k] IN S(i - 1)
Kind(P, i) == IF P[i].k = "q" THEN P[i].body[1].k ELSE P[i].k
LitX(P, i) == IF P[i].k = "q" THEN P[i].body[1].x ELSE P[i].x
(* binding of u before item i: the last element covered by the capture site, if it lies before i and matched at least once *)
UBefore(P, v, i) == LET cs == {j \in 1..(i - 1) : Kind(P, j) = "cap" /\ v[j] > 0}
                    IN IF cs = {} THEN 0 ELSE LET j == CHOOSE j \in cs : \A k \in cs : k <= j IN Off(v, j) + v[j]
ValidVec(P, W, v) ==
  LET N == Len(P) IN
  /\ \A i \in 1..N : IF P[i].k = "q" THEN v[i] >= P[i].mn /\ v[i] <= P[i].mx ELSE v[i] = 1
  /\ Off(v, N + 1) = Len(W)
  /\ \A i \in 1..N : \A p \in (Off(v, i) + 1)..(Off(v, i) + v[i]) :
       CASE Kind(P, i) = "lit"  -> W[p] = LitX(P, i)
         [] Kind(P, i) = "back" -> UBefore(P, v, i) > 0 /\ W[p] = W[UBefore(P, v, i)]
         [] OTHER -> TRUE
(* v is preferred to v2: at the first item where they differ, greedy has more, non-greedy fewer *)
Preferred(P, v, v2) == \/ v = v2
                       \/ LET d == CHOOSE i \in 1..Len(P) : v[i] # v2[i] /\ \A j \in 1..(i - 1) : v[j] = v2[j]
                          IN IF P[d].g THEN v[d] > v2[d] ELSE v[d] < v2[d]
UnitIters(v, i) == [k \in 1..v[i] |-> <<Off(v, i) + k - 1, Off(v, i) + k>>]

LexFirst == (ph = "flat") =>
  LET P == PatsOf(id)  W == WordOf(id[4])  N == Len(P)  R == res.s
      valids == {v \in [1..N -> 0..Len(W)] : ValidVec(P, W, v)}
  IN IF valids = {} THEN ~R.acc
     ELSE LET best == CHOOSE v \in valids : \A v2 \in valids : Preferred(P, v, v2) IN
          /\ R.acc
          /\ R.u = UBefore(P, best, N + 1)
          /\ \A i \in 1..N : P[i].k = "q" => /\ Spans(Iters(R, 10 * i)) = UnitIters(best, i)
                                             /\ LastWhole(R, 10 * i) = <<Off(best, i), Off(best, i) + best[i]>>

GreedyLang == (ph = "flat") => res.s.acc = res.flip

-----------------------------------------------------------------------------
(* an accepted answer tiles the word: top-level spans are adjacent, iterations tile the quantifier, counts in bounds *)
Tiles == (ph \in {"flat", "sub"} /\ res.s.acc) =>
  LET P == PatsOf(id)  W == WordOf(id[4])  N == Len(P)  R == res.s
      TopSpan(i, pos) == IF P[i].k = "q" THEN LastWhole(R, 10 * i) ELSE <<pos, pos + 1>>
      RECURSIVE TilesFrom(_, _)
      TilesFrom(i, pos) == IF i > N THEN pos = Len(W)
                           ELSE LET sp == TopSpan(i, pos) IN sp[1] = pos /\ sp[2] >= pos /\ TilesFrom(i + 1, sp[2])
      IterTiles(i) == LET its == Spans(Iters(R, 10 * i))  sp == LastWhole(R, 10 * i) IN
                      /\ Len(its) >= P[i].mn /\ Len(its) <= P[i].mx
                      /\ Len(Wholes(R, 10 * i)) = 1
                      /\ IF its = <<>> THEN sp[1] = sp[2]
                         ELSE /\ its[1][1] = sp[1] /\ its[Len(its)][2] = sp[2]
                              /\ \A k \in 1..(Len(its) - 1) : its[k][2] = its[k + 1][1]
                              /\ \A k \in 1..Len(its) : its[k][2] > its[k][1] /\ (P[i].one => its[k][2] = its[k][1] + 1)
  IN TilesFrom(1, 0) /\ \A i \in 1..N : P[i].k = "q" => IterTiles(i)

HasInnerQ(P) == \E i \in 1..Len(P) : P[i].k = "q" /\ ~P[i].one /\ \E j \in 1..Len(P[i].body) : P[i].body[j].k = "q"
AtomicSound == (ph = "sub") => /\ res.s.acc => res.f.acc
                               /\ ~HasInnerQ(PatsOf(id)) => res.s = res.f
AtomicNoopFlat == (ph = "flat") => res.s = res.f
ElemOnlySub == (ph \in {"flat", "sub"} /\ ~HasGreedySub(PatsOf(id))) => res.e = res.s
(* KnownGiveBack with both classifiers off is the specification (the deterministic walk equals the backtracking order) *)
WalkIsSpec == (ph \in {"flat", "sub"}) => res.k = res.s

-----------------------------------------------------------------------------
(* Known answers: the examples of the documentation (d11_match.py, "MQ() quantifier pattern") *)
La == Leaf("lit", 1)  Lb == Leaf("lit", 2)  Lc == Leaf("lit", 3)  Dot == Leaf("any", 0)
Cap == Leaf("cap", 0)  Back == Leaf("back", 0)
Star(b, g) == QItem(<<b>>, TRUE, 0, Inf, g)
ASSUME FirstMatch(<<QItem(<<Dot>>, TRUE, 1, Inf, TRUE)>>, <<1, 2>>).acc                       \* MQ(tag=..., min=1, max=None) on [a, b]
ASSUME ~FirstMatch(<<QItem(<<Dot>>, TRUE, 3, Inf, TRUE)>>, <<1, 2>>).acc                      \* min=3 on [a, b]
ASSUME ~FirstMatch(<<QItem(<<Dot>>, TRUE, 1, 2, TRUE)>>, <<1, 2, 3>>).acc                     \* max=2 on [a, b, c]
ASSUME Spans(Iters(FirstMatch(<<QItem(<<Dot>>, TRUE, 1, 2, TRUE), Star(Dot, TRUE)>>, <<1, 2, 3>>), 10)) = <<<<0, 1>>, <<1, 2>>>>
ASSUME Spans(Iters(FirstMatch(<<QItem(<<Dot>>, TRUE, 1, 2, FALSE), Star(Dot, TRUE)>>, <<1, 2, 3>>), 10)) = <<<<0, 1>>>>
ASSUME Spans(Iters(FirstMatch(<<QItem(<<La, Lb>>, FALSE, 1, 2, TRUE)>>, <<1, 2, 1, 2>>), 10)) = <<<<0, 2>>, <<2, 4>>>>
ASSUME ~FirstMatch(<<QItem(<<Cap, Back>>, FALSE, 1, Inf, TRUE)>>, <<1, 2, 1, 2>>).acc          \* [M(u=...), MTAG('u')] on [a, b, a, b]
ASSUME FirstMatch(<<QItem(<<Cap, Back>>, FALSE, 1, Inf, TRUE)>>, <<1, 1, 2, 2>>).acc           \* ... on [a, a, b, b]
ASSUME FirstMatch(<<Star(Dot, FALSE), QItem(<<Lc>>, TRUE, 1, 2, TRUE), Star(Dot, TRUE)>>, <<1, 2, 3, 3>>).ev[3] = <<2, 10, 0, 2>>
\* AtomicSubseq makes a difference: [MQN([MQSTAR('a')], 1), 'a'] on [a, a] - atomic group rejects, plain group accepts
ASSUME LET p == <<QItem(<<Star(La, TRUE)>>, FALSE, 1, 1, TRUE), La>> IN ~FirstMatch(p, <<1, 1>>).acc /\ FirstFull(p, <<1, 1>>).acc
\* ElemStepBack differs from the specification: [MQ(['a','b'], 0, None), 'b'] on [a, b]
ASSUME LET p == <<QItem(<<La, Lb>>, FALSE, 0, Inf, TRUE), Lb>> IN ~FirstMatch(p, <<1, 2>>).acc /\ FirstElemStep(p, <<1, 2>>).acc
ASSUME Regex(<<Star(Dot, FALSE), QItem(<<La, Star(Lb, TRUE)>>, FALSE, 1, 2, TRUE), Cap, Back>>)
         = "(?P<q10>(?:.){0,}?)(?P<q20>(?:(?>a(?P<q22>(?:b){0,}))){1,2})(?P<u>.)(?P=u)"
=============================================================================
