----------------------------- MODULE MatchTrace -----------------------------
(* C17 (V): matching depends only on structure, is history-free, and          *)
(* search = filter of walk.  Validation of recorded executions of the real    *)
(* pfst.  One trace = one corpus program; targets are numbered nodes of the   *)
(* program (par[t] = number of the parent, 0 for the root); a pattern number  *)
(* denotes ONE Python pattern object that is reused for every call.           *)
(*                                                                            *)
(* Events                                                                     *)
(*  match  [p, t, form, src, exp, acc, exc, tags]                             *)
(*         form: "fmt" the program as written, "layN" a re-layout with the    *)
(*         same structure, "ast" the pure AST.  src: the pattern has a        *)
(*         source-text sub-pattern.  tags: canonical text of the tag values,  *)
(*         nodes named by their child path.                                   *)
(*         exp: "own" the pattern is the target's own AST, "mut" the own AST  *)
(*         with one leaf changed, "none" anything else.                       *)
(*  search [p, t, form, nested, on, scope, walk, lv, ci, acc, wtags, found,   *)
(*          flv, ftags]                                                       *)
(*         walk/lv: nodes (and leaving flags) of walk(True, on, ...) with the *)
(*         same parameters; acc/wtags: answer of an individual match() on     *)
(*         each of them; found/flv/ftags: what search() yielded.              *)
(* Clauses                                                                    *)
(*  NoException     no call raised                                            *)
(*  StructureOnly   ~src: same (p, t) on a different form => same answer      *)
(*  HistoryFree     same (p, t, form) again, whatever happened in between =>  *)
(*                  same answer                                               *)
(*  OwnMatches      exp = own => accepted                                     *)
(*  MutantRejected  exp = mut => rejected                                     *)
(*  SearchIsFilter  found = the walked nodes that match() accepts, in walk    *)
(*                  order (nested = FALSE: PruneNested - below an accepted    *)
(*                  node nothing is visited)                                  *)
(*  SearchTags      each yielded match carries the tags of the individual     *)
(*                  match of that node                                        *)
EXTENDS Integers, Sequences, FiniteSets, TLC, Json, IOUtils

Batch  == JsonDeserialize(IOEnv.TRACE_FILE)
Traces == Batch.traces

VARIABLES tid, l, memo, bad, seen
vars == <<tid, l, memo, bad, seen>>

Steps(t) == Traces[t].steps
Par(t)   == Traces[t].par
Cl(c, ok, class) == [c |-> c, ok |-> ok, class |-> class]

Ans(e) == <<e.acc, e.tags>>

MatchClauses(e) ==
  LET same  == {m \in memo : m.p = e.p /\ m.t = e.t /\ m.form = e.form}
      other == {m \in memo : m.p = e.p /\ m.t = e.t /\ m.form # e.form}
      class == e.cls \o "/" \o e.form
  IN {Cl("NoException", e.exc = "", class)}
     \cup (IF same # {} THEN {Cl("HistoryFree", \A m \in same : m.ans = Ans(e), class)} ELSE {})
     \cup (IF ~e.src /\ other # {} THEN {Cl("StructureOnly", \A m \in other : m.ans = Ans(e), class)} ELSE {})
     \cup (IF e.exp = "own" THEN {Cl("OwnMatches", e.acc, class)} ELSE {})
     \cup (IF e.exp = "mut" THEN {Cl("MutantRejected", ~e.acc, class)} ELSE {})

(* ancestors by the parent table of the trace *)
RECURSIVE IsAnc(_, _, _)
IsAnc(par, a, b) == b # 0 /\ par[b] # 0 /\ (par[b] = a \/ IsAnc(par, a, par[b]))

(* indices of the walk that search must yield *)
RECURSIVE Keep(_, _, _, _)
Keep(e, par, i, kept) ==        \* kept: sequence of walk indices already selected
  IF i > Len(e.walk) THEN kept
  ELSE LET pruned == ~e.nested /\ \E k \in 1..Len(kept) : IsAnc(par, e.walk[kept[k]], e.walk[i])    \* PruneNested
       IN Keep(e, par, i + 1, IF e.acc[i] /\ ~pruned THEN Append(kept, i) ELSE kept)

(* Classification only (known finding): with scope = TRUE the only disagreement is that search omits nodes lying in  *)
(* the first iterator of a comprehension (e.ci, an oracle fact computed from the child path), nothing else differs.     *)
OnlyCompIterOmitted(e, kept) ==
  LET miss == {k \in 1..Len(kept) : ~\E j \in 1..Len(e.found) : e.found[j] = e.walk[kept[k]] /\ e.flv[j] = e.lv[kept[k]]}
      rest == SelectSeq(kept, LAMBDA i : \E j \in 1..Len(e.found) : e.found[j] = e.walk[i] /\ e.flv[j] = e.lv[i])
  IN /\ e.scope /\ miss # {}
     /\ \A k \in miss : e.ci[kept[k]]
     /\ Len(rest) = Len(e.found) /\ \A k \in 1..Len(rest) : e.found[k] = e.walk[rest[k]]

SearchClauses(e, par) ==
  LET kept == Keep(e, par, 1, <<>>)
      filt == /\ Len(e.found) = Len(kept)
              /\ \A k \in 1..Len(kept) : e.found[k] = e.walk[kept[k]] /\ e.flv[k] = e.lv[kept[k]]
      class == e.cls \o "/" \o e.form \o "/" \o e.on \o (IF e.nested THEN "" ELSE "/flat")
                 \o (IF ~filt /\ OnlyCompIterOmitted(e, kept) THEN "/scope-compiter" ELSE IF e.scope THEN "/scope" ELSE "") IN
  {Cl("NoException", e.exc = "", class),
   Cl("SearchIsFilter", filt, class)}
  \cup (IF Len(e.found) = Len(kept)
        THEN {Cl("SearchTags", \A k \in 1..Len(kept) : e.ftags[k] = e.wtags[kept[k]], class)} ELSE {})

Clauses(e, par) ==
  CASE e.k = "match"  -> MatchClauses(e)
    [] e.k = "search" -> SearchClauses(e, par)
    [] OTHER -> {Cl("UnknownEvent", FALSE, "harness")}

Init == /\ tid \in 1..Len(Traces)
        /\ l = 1
        /\ memo = {}
        /\ bad = {}
        /\ seen = {}

Next == /\ l <= Len(Steps(tid))
        /\ LET e == Steps(tid)[l]
               cs == Clauses(e, Par(tid))
           IN /\ bad' = bad \cup {<<l, c.c, c.class>> : c \in {q \in cs : ~q.ok}}
              /\ seen' = seen \cup {c.c : c \in cs}
              /\ memo' = IF e.k = "match" THEN memo \cup {[p |-> e.p, t |-> e.t, form |-> e.form, ans |-> Ans(e)]} ELSE memo
        /\ l' = l + 1
        /\ UNCHANGED tid

Spec == Init /\ [][Next]_vars

Report == (l = Len(Steps(tid)) + 1) => PrintT(<<"VERDICT", Traces[tid].id, bad, seen>>)
=============================================================================
