------------------------------- MODULE RawGen -------------------------------
(* Direction G: the complete case table of the flat-Python instance, with the   *)
(* expectation computed by the specification (requested text, validity, tree). *)
EXTENDS RawToy, Json, IOUtils, TLC

(* row = <<text, rect, repl, valid, requested text, names of its tree>>         *)
Row(t, r, p) ==
  LET new == SpliceText(t, r, p)  v == ToyValid(new)
  IN <<t, r, p, v, new, IF v THEN ToyParse(new).p ELSE <<>> >>
Rows == UNION {{Row(t, r, p) : r \in RectsOf(t), p \in ToyRepls} : t \in ValidTexts}
ASSUME JsonSerialize(IOEnv.OUT_FILE, [rows |-> Rows])
=============================================================================
