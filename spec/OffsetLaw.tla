------------------------------ MODULE OffsetLaw ------------------------------
(* Geometry of a trivia splice, shared by the model (Offset.tla) and by the   *)
(* trace module (OffsetTrace.tla).  Written from the text geometry only - it  *)
(* does not look at pfst.                                                     *)
(*                                                                            *)
(* A point is <<line, col>>, a span <<line, col, end_line, end_col>>.  The    *)
(* spot is the half-open range [p, q) of the OLD text; it is replaced by a    *)
(* text with `nl` line breaks whose last line is `last` columns long.         *)
(* Columns are in whatever unit the spans use (grid cells in the model, UTF-8 *)
(* bytes in recorded traces).                                                 *)
EXTENDS Integers, Sequences

Lt(a, b) == a[1] < b[1] \/ (a[1] = b[1] /\ a[2] < b[2])
Le(a, b) == a = b \/ Lt(a, b)

SStart(s) == <<s[1], s[2]>>
SEnd(s)   == <<s[3], s[4]>>
Span(a, b) == <<a[1], a[2], b[1], b[2]>>

(* size of the change: line delta for everything at or after q, column delta  *)
(* for everything on q's line at or after q                                   *)
DLn(p, q, nl)         == nl - (q[1] - p[1])
DCol(p, q, nl, last)  == last + (IF nl = 0 THEN p[2] ELSE 0) - q[2]

(* where a point at or after q lies in the new text                           *)
ShiftPt(x, p, q, nl, last) ==
  <<x[1] + DLn(p, q, nl), IF x[1] = q[1] THEN x[2] + DCol(p, q, nl, last) ELSE x[2]>>

(* the three classes of the property statement                                *)
Before(s, p)      == Le(SEnd(s), p)               \* "nodes before the spot"
After(s, q)       == Le(q, SStart(s))             \* "nodes after it"
Contains(s, p, q) == Lt(SStart(s), p) /\ Lt(q, SEnd(s))   \* "the containing nodes" (strictly)

(* what the property demands of a node with old span s (new span t)           *)
KeepsPlace(s, t)              == t = s
MovesBy(s, t, p, q, nl, last) == t = Span(ShiftPt(SStart(s), p, q, nl, last), ShiftPt(SEnd(s), p, q, nl, last))
GrowsBy(s, t, p, q, nl, last) == t = Span(SStart(s), ShiftPt(SEnd(s), p, q, nl, last))
=============================================================================
