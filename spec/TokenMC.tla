------------------------------- MODULE TokenMC -------------------------------
(* Model for C04: the line-level *reference editor* of TokenRef.tla (written   *)
(* from the documentation of the trivia option, on lines) and a family of      *)
(* single-fault damages, checked against the clauses of TokenLaws.tla (written *)
(* on token indices).                                                          *)
(* Invariants: Accept - every reference edit (delete / replace / insert of a   *)
(* statement under every leading x trailing trivia mode, with or without an    *)
(* adjacent blank line eaten / added) on every layout within the constants     *)
(* satisfies every clause;  Reject - every damaged result is rejected by the   *)
(* clause the property names for that kind of damage.                          *)
EXTENDS TokenRef

(* ---- state ------------------------------------------------------------------ *)
VARIABLES phase, lay, req, post, dmg
vars == <<phase, lay, req, post, dmg>>

NoReq == [op |-> "none", i |-> 0, lm |-> "none", tm |-> "none", el |-> 0, et |-> 0]
Init == /\ phase = "layout" /\ lay \in Layouts /\ req = NoReq /\ post = <<>> /\ dmg = "none"

Pre == LinesOf(lay)

(* e = <<eatL, eatT>>: the space counts of the option, i.e. how many empty lines *)
(* next to the removed region go with it                                        *)
DoDelete == /\ phase = "layout"
            /\ \E i \in 1..NStmt, lm \in LeadModes, tm \in TrailModes, e \in EatOpts :
                 /\ req' = [op |-> "delete", i |-> i, lm |-> lm, tm |-> tm, el |-> e[1], et |-> e[2]]
                 /\ post' = RefRemove(Pre, i, lm, tm, <<>>, e[1], e[2], FALSE)
            /\ phase' = "edited" /\ UNCHANGED <<lay, dmg>>
DoReplace == /\ phase = "layout"
             /\ \E i \in 1..NStmt, lm \in LeadModes, tm \in TrailModes, e \in EatOpts, add \in BOOLEAN :
                  /\ req' = [op |-> "replace", i |-> i, lm |-> lm, tm |-> tm, el |-> e[1], et |-> e[2]]
                  /\ post' = RefRemove(Pre, i, lm, tm, <<NewId>>, e[1], e[2], add)
             /\ phase' = "edited" /\ UNCHANGED <<lay, dmg>>
DoInsert == /\ phase = "layout"
            /\ \E i \in 1..(NStmt + 1), add \in BOOLEAN :       \* (an insertion selects no trivia: one option value)
                 /\ req' = [op |-> "insert", i |-> i, lm |-> "block", tm |-> "line", el |-> 0, et |-> 0]
                 /\ post' = RefInsert(Pre, i, add)
            /\ phase' = "edited" /\ UNCHANGED <<lay, dmg>>

SpOf(n) == [n |-> n, sg |-> IF n > 0 THEN "+" ELSE ""]
CaseNow == CaseOf(Pre, post,
                  IF req.op = "insert" THEN req.i - 1 ELSE req.i - 1,
                  IF req.op = "insert" THEN req.i - 1 ELSE req.i,
                  IF req.op = "insert" THEN TvOf(Pre, 1, "block", "line", [lead |-> NoSpace, trail |-> NoSpace])
                  ELSE TvOf(Pre, req.i, req.lm, req.tm, [lead |-> SpOf(req.el), trail |-> SpOf(req.et)]),
                  req.op = "delete")

(* ---- damages: one fault in the post text, far from or next to the element --- *)
(* statements whose physical line the request touches: the statements that     *)
(* share the line of the edited one; for an insertion the two neighbours when  *)
(* they share a line (it is broken there)                                      *)
IdsOf(x) == {x.ids[q] : q \in DOMAIN x.ids}
Touched == IF req.op = "insert"
           THEN (IF req.i > 1 /\ req.i <= NStmt /\ PosOfStmt(Pre, req.i - 1) = PosOfStmt(Pre, req.i)
                 THEN IdsOf(Pre[PosOfStmt(Pre, req.i)]) ELSE {})
           ELSE IdsOf(Pre[PosOfStmt(Pre, req.i)])
(* lines of the post text that come unchanged from a region the window does    *)
(* not cover: the line of other statements, and the trivia above statement j   *)
(* for j < the edited statement (comment ids are 10 * j + position)            *)
FirstAffected == req.i                          \* trivia above statement FirstAffected may be in the window
FarStmt(x) == x.k = "stmt" /\ NewId \notin IdsOf(x) /\ IdsOf(x) \cap Touched = {}
FarCmt(x)  == x.k = "cmt" /\ x.id < 100 /\ x.id \div 10 < FirstAffected
NearCmt(x) == x.k = "cmt" /\ ~FarCmt(x)        \* a comment of the window that the reference edit kept

Drop(s, p)      == Seg(s, 1, p - 1) \o Seg(s, p + 1, Len(s))
Dup(s, p)       == Seg(s, 1, p) \o Seg(s, p, Len(s))
Put(s, p, x)    == [s EXCEPT ![p] = x]

Step(name, res) == phase = "edited" /\ post' = res /\ dmg' = name /\ phase' = "damaged" /\ UNCHANGED <<lay, req>>

DropFarComment  == \E p \in DOMAIN post : FarCmt(post[p])  /\ Step("drop-far-comment", Drop(post, p))
DropNearComment == \E p \in DOMAIN post : NearCmt(post[p]) /\ Step("drop-near-comment", Drop(post, p))
DupComment      == \E p \in DOMAIN post : post[p].k = "cmt" /\ Step("dup-comment", Dup(post, p))
DropLineComment == \E p \in DOMAIN post : FarStmt(post[p]) /\ post[p].tr # 0
                                           /\ Step("drop-line-comment", Put(post, p, StmtLine(post[p].ids, 0, 0)))
ReindentFarLine == \E p \in DOMAIN post : FarStmt(post[p])
                                           /\ Step("reindent-far-line", Put(post, p, StmtLine(post[p].ids, post[p].tr, 1)))
SwapFarStatements == \E p \in DOMAIN post : FarStmt(post[p]) /\ p < Len(post) /\ FarStmt(post[p + 1])
                                           /\ Step("swap-far-statements", Put(Put(post, p, post[p + 1]), p + 1, post[p]))
DropFarBlank    == \E p \in DOMAIN post : /\ post[p].k = "blank" /\ p > 1 /\ FarCmt(post[p - 1])
                                           /\ p < Len(post) /\ FarCmt(post[p + 1])
                                           /\ Step("drop-far-blank", Drop(post, p))
DropNearBlank   == \E p \in DOMAIN post : /\ post[p].k = "blank" /\ p > 1 /\ p < Len(post) /\ req.op # "insert"
                                           /\ NearCmt(post[p - 1]) /\ NearCmt(post[p + 1])
                                           /\ post[p - 1].id < 100 /\ post[p + 1].id < 100
                                           /\ post[p - 1].id \div 10 = post[p + 1].id \div 10
                                           /\ post[p - 1].id \div 10 \in {req.i, req.i + 1}     \* inside the window
                                           /\ Step("drop-near-blank", Drop(post, p))
GlueComment     == \E p \in DOMAIN post : /\ post[p].k = "cmt" /\ p > 1 /\ FarStmt(post[p - 1]) /\ post[p - 1].tr = 0
                                           /\ Step("glue-comment", Drop(Put(post, p - 1, StmtLine(post[p - 1].ids, post[p].id, 0)), p))

Damage == \/ DropFarComment \/ DropNearComment \/ DupComment \/ DropLineComment \/ ReindentFarLine
          \/ SwapFarStatements \/ DropFarBlank \/ DropNearBlank \/ GlueComment

Next == \/ DoDelete \/ DoReplace \/ DoInsert
        \/ DropFarComment \/ DropNearComment \/ DupComment \/ DropLineComment \/ ReindentFarLine
        \/ SwapFarStatements \/ DropFarBlank \/ DropNearBlank \/ GlueComment
Spec == Init /\ [][Next]_vars

(* ---- properties --------------------------------------------------------------- *)
Failed == {q.c : q \in {z \in TL!TokenClauses(CaseNow) : ~z.ok}}
Seen   == {q.c : q \in TL!TokenClauses(CaseNow)}

Accept == phase = "edited" => Failed = {}

Expected(d) ==
  CASE d = "drop-far-comment"    -> {"Comments.lost", "OutsideTokens.in", "OutsideLines"}
    [] d = "drop-near-comment"   -> {"Comments.lost"}
    [] d = "dup-comment"         -> {"Comments.dup"}
    [] d = "drop-line-comment"   -> {"Comments.lost", "OutsideTokens.in", "OutsideLines"}
    [] d = "reindent-far-line"   -> {"OutsideLines"}
    [] d = "swap-far-statements" -> {"OutsideTokens.in", "OutsideLines"}
    [] d = "drop-far-blank"      -> {"OutsideLines"}
    [] d = "glue-comment"        -> {"Comments.lost"}
    [] d = "drop-near-blank"     -> {"BlankLines"}
    [] OTHER -> {}
Reject == phase = "damaged" => Expected(dmg) \subseteq Failed

(* vacuity: the clause set is the full one in edited states                      *)
AllClausesSeen == phase = "edited" =>
  /\ {"Facts", "OutsideTokens.out", "OutsideTokens.in", "Comments.lost", "Comments.dup", "OutsideLines"} \subseteq Seen
  /\ (req.op # "insert" => "BlankLines" \in Seen)
=============================================================================
