----------------------------- MODULE ParseCases ------------------------------
(* C05 - spec-side case generation (direction G).                             *)
(*                                                                            *)
(* Shapes(m): the syntactic forms an element of mode m can take, plus the     *)
(* near misses of the neighbouring modes (written from the grammar).  The     *)
(* first two entries of every sequence are valid, self-contained elements     *)
(* (used as <valid element> of the escape family).                            *)
(* Bridges: <closer> <filler> <opener> triples of the escape family           *)
(*   <valid element> closer filler opener <valid element>                     *)
(* closers/openers = every bracket kind or none; fillers = nothing, an        *)
(* attribute, a line break, a comment, the statement-level continuations      *)
(* (`:` + new statement header, `=`, `,`, `as`, `if`, `for`, `in`, `->` ...). *)
(* MultiLine: the names of the multi-line layouts the harness applies at      *)
(* EVERY token boundary / bracket / separator column of every shape.          *)
(* TLC emits all three tables (ParseModesMC); the harness only concretises.   *)
EXTENDS ParseModes

ExprShapes == <<"a", "f(b)", "*a", "*not a", "*a or b", "*[a]", "*f(a)", "*not (a)", "a:b", "a:b:c", ":", "a, b", "a,",
                "*a,", "a:b, c", "*a, b", "(a, b)", "(a)", "[a, b]", "{a: b}", "{a}", "f(a, b=c)", "a.b", "a[b]",
                "a + b", "not a", "-a", "a or b", "a < b", "a is not b", "a if b else c", "lambda a: b", "a := b",
                "yield", "yield a", "yield from a", "await a", "[a for a in b]", "(a for a in b)", "'s'", "'s' 't'",
                "f'{a}'", "...", "a for a in b", "k=v", "**a">>
PatShapes  == <<"a", "C(b)", "1", "'s'", "-1", "a.b", "None", "_", "*a", "*_", "a, b", "a,", "*a,", "[a, b]", "(a, b)",
                "(a)", "{1: a}", "{**a}", "C(a, b=c)", "a | b", "a as b", "a if b">>
WithShapes == <<"a", "f(b) as c", "a as b", "(a)", "(a) as b", "a, b", "a as b, c", "(a, b)", "(a, b) as c", "a := b",
                "(a := b)", "yield", "*a", "a as (b, c)", "a as b.c", "a as b[c]", "a,">>
TParShapes == <<"T", "U: a", "*T", "**T", "T: (a, b)", "T, U", "T,", "*T, **U">>
ImpShapes  == <<"a", "b.c as d", "a.b", "a as b", "a, b", "a as b, c", "*", "(a)", "a,">>
FromShapes == <<"a", "b as c", "*", "a, b", "a as b, c", "a.b", "(a)", "a,">>
TgtShapes  == <<"a =", "b.c =", "a = b =", "a, b =", "a[b] =", "*a, b =", "(a) =", "a", "a = b">>
DecoShapes == <<"@a", "@b.c(d)", "@a.b", "@a\n@b", "@(a)", "a">>
CompShapes == <<"for a in b", "for c in d if e", "async for a in b", "for a, b in c", "for a in b for c in d",
                "for a in b if c if d", "if a", "if a if b">>
IfsShapes  == <<"if a", "if b if c", "if (a)", "if a or b", "a", "if a for b in c">>
ArgsShapes == <<"a", "b=c", "", "a, b", "a: b", "a: b = c", "*a", "**a", "a, /", "a, /, b", "*, a", "a, *, b=c",
                "*a: b", "*a: *b", "a, *b, c, **d", "a,">>
ArgShapes  == <<"a", "b: c", "a: *b", "a=b", "*a", "a, b", "a,">>
KwShapes   == <<"k=v", "**a", "k = v", "a", "*a", "k=v, l=w", "a, k=v", "*a, k=v", "k=v,">>
AttrShapes == <<"a", "k=b", "a, b", "a, k=b", "k=a, l=b", "a,">>
HndShapes  == <<"except: pass", "except a as b: pass", "except a: pass", "except* a: pass", "except (a, b): pass",
                "except a:\n pass", "except a: pass\nexcept b: pass">>
CaseShapes == <<"case a: pass", "case b if c: pass", "case a, b: pass", "case a:\n pass", "case a: pass\ncase b: pass",
                "case [a]: pass">>
StmtShapes == <<"a", "b = c", "a: b = c", "a += b", "if a: b", "if a:\n b\nelse:\n c", "def f(): pass",
                "@a\ndef f(): pass", "class A(b): pass", "for a in b: pass", "with a as b: pass", "try: a\nexcept b: c",
                "return a", "del a, b", "import a", "from a import b", "a; b", "a;", "pass", "match a:\n case b: pass",
                "type A = b", "global a", "assert a, b", "raise a from b", "while a: b", "lambda: a", "a, b">>
BoolShapes == <<"and", "or", "not", "&">>
BinShapes  == <<"+", "**", "-", "*", "@", "/", "%", "<<", ">>", "|", "^", "&", "//", "+=", "and">>
UnShapes   == <<"not", "-", "~", "+", "not not", "!">>
CmpShapes  == <<"is not", "not in", "==", "!=", "<", "<=", ">", ">=", "is", "in", "not", "=">>

Shapes(m) ==
  LET c == IF m \in NamedModes THEN m ELSE CategoryOf(m) IN
  CASE c \in {"expr", "expr_all", "expr_arglike", "expr_slice", "Tuple_elt", "Tuple", "_arglike", "_arglikes", "eval"} -> ExprShapes
    [] c \in {"pattern"}                       -> PatShapes
    [] c \in {"withitem", "_withitems"}        -> WithShapes
    [] c \in {"type_param", "_type_params"}    -> TParShapes
    [] c \in {"Import_name", "_Import_names", "alias", "_aliases"} -> ImpShapes
    [] c \in {"ImportFrom_name", "_ImportFrom_names"} -> FromShapes
    [] c = "_Assign_targets"                   -> TgtShapes
    [] c = "_decorator_list"                   -> DecoShapes
    [] c \in {"comprehension", "_comprehensions"} -> CompShapes
    [] c = "_comprehension_ifs"                -> IfsShapes
    [] c \in {"arguments", "arguments_lambda"} -> ArgsShapes
    [] c = "arg"                               -> ArgShapes
    [] c = "keyword"                           -> KwShapes
    [] c = "_pattern_attrlikes"                -> AttrShapes
    [] c \in {"ExceptHandler", "_ExceptHandlers"} -> HndShapes
    [] c \in {"match_case", "_match_cases"}    -> CaseShapes
    [] c \in {"stmt", "stmts", "exec", "single"} -> StmtShapes
    [] c = "boolop"                            -> BoolShapes
    [] c = "operator"                          -> BinShapes
    [] c = "unaryop"                           -> UnShapes
    [] c = "cmpop"                             -> CmpShapes
    [] OTHER -> <<>>

(* the separator that may follow an element of the mode inside its construct *)
Sep(m) ==
  LET c == IF m \in NamedModes THEN m ELSE CategoryOf(m) IN
  IF c \in {"stmt", "stmts", "exec", "single"} THEN ";"
  ELSE IF c \in {"_Assign_targets", "_decorator_list", "comprehension", "_comprehensions", "_comprehension_ifs",
                 "ExceptHandler", "_ExceptHandlers", "match_case", "_match_cases", "boolop", "operator", "unaryop",
                 "cmpop", "eval"} THEN ""
  ELSE ","

ShapesTotal == \A m \in Modes : Row(m).shape \in {"node", "op", "list"} => Len(Shapes(m)) >= 2

NS(n, s) == [n |-> n, s |-> s]
Closers == <<NS("rpar", ")"), NS("rsqb", "]"), NS("rbrace", "}"), NS("none", "")>>
Openers == <<NS("lpar", "("), NS("lsqb", "["), NS("lbrace", "{"), NS("none", "")>>
Fillers == <<NS("nil", ""), NS("attr", ".x"), NS("nl", "\n "), NS("comment", "  # c\n "), NS("def", ":\n def g"),
             NS("with", ":\n with "), NS("class", ":\n class C"), NS("ifstmt", ":\n if "), NS("eq", " = "),
             NS("comma", ", "), NS("as", " as "), NS("if", " if "), NS("for", " for x in "), NS("in", " in "),
             NS("arrow", " -> "), NS("plus", " + "), NS("colon", ": "), NS("semi", "; "), NS("lambda", ": lambda "),
             NS("else", " else "), NS("call", "(y)"), NS("sub", "[y]")>>
(* core bridges: a real closer re-opened by the same bracket kind *)
Matching(c, o) == <<c, o>> \in {<<"rpar", "lpar">>, <<"rsqb", "lsqb">>, <<"rbrace", "lbrace">>}
Bridges == {[name |-> c.n \o ":" \o f.n \o ":" \o o.n, text |-> c.s \o f.s \o o.s, core |-> Matching(c.n, o.n)] :
              c \in {Closers[i] : i \in 1..Len(Closers)}, f \in {Fillers[i] : i \in 1..Len(Fillers)},
              o \in {Openers[i] : i \in 1..Len(Openers)}}


(* ---- multi-line string dimension ------------------------------------------------------------------------------ *)
(* The wrappers of the block-level modes INDENT the fragment (a case lives inside `match`), except the continuation  *)
(* lines of multi-line strings, which must stay as they are.  The position law therefore has to be exercised with   *)
(* every kind of multi-line string x nodes in every relation to the string's lines x every slot of the mode:       *)
(*   MLStrings : triple-quoted (plain, bytes, f-string with an expression on a continuation line), implicit         *)
(*               concatenation across lines, backslash-continued string, concatenation across a continuation line  *)
(*   MLNodes   : templates around <S>: node starting on the string's last line and ending later / starting before    *)
(*               and ending after / entirely before / entirely after on the last line / between two strings         *)
(*   MLSlots(m): where an expression <E> can sit in a fragment of mode m (body, nested block, guard, header)         *)
MLStrings == <<NS("triple", "\"\"\"x\n  y\n\"\"\""), NS("triple-end-text", "'''x\ny z'''"),
               NS("bytes", "b\"\"\"x\ny\"\"\""), NS("fstr", "f\"\"\"x\n{a} {b + c}\ny\"\"\""),
               NS("fstr-call", "f'''x {a}\n{g(a,\n b)}\n'''"),
               NS("concat", "('x'\n 'y'\n   'z')"), NS("bs-string", "'x\\\ny'"), NS("bs-concat", "'x' \\\n 'y'"),
               NS("two-triples", "'''x\ny''' '''z\nw'''")>>
MLNodes == <<NS("alone", "<S>"),
             NS("mod-tuple", "<S> % (\n a,\n )"), NS("add-call", "<S> + foo(\n 1)"), NS("tuple-list", "<S>, [\n 1,\n ]"),
             NS("ifexp-call", "<S> if z else bar(\n 1)"), NS("method", "<S>.format(\n a, b)"), NS("sub", "<S>[\n 0]"),
             NS("cmp", "<S> == (a,\n b) != c"), NS("after-one-line", "<S> + foo(1) + bar"),
             NS("around-call", "foo(<S>, c,\n d)"), NS("around-list", "[a, <S>,\n b]"), NS("around-dict", "{a: <S>,\n b: c}"),
             NS("before", "foo(\n a) + <S>"), NS("between", "<S> + foo(\n a) + <S>"),
             NS("lambda", "lambda a=<S>: (a,\n b)"), NS("yield-par", "(yield <S>,\n a)")>>
MLSlots(m) ==
  LET c == IF m \in NamedModes THEN m ELSE CategoryOf(m) IN
  CASE c \in {"match_case", "_match_cases"} ->
         <<"case 1:\n x = <E>", "case a if <E>: pass", "case 1:\n if a:\n  b = <E>\n else:\n  c(<E>)\n d = 1",
           "case [a, b]:\n return <E>\ncase _:\n pass", "case 1: <E>; e = 2", "case 1:\n def f(a=<E>):\n  return a">>
    [] c \in {"ExceptHandler", "_ExceptHandlers"} ->
         <<"except A:\n x = <E>", "except (A, B) as e:\n if a:\n  b = <E>\n c(e)", "except A: <E>; e = 2",
           "except A:\n pass\nexcept B:\n return <E>">>
    [] c \in {"stmt", "stmts", "exec", "single"} ->
         <<"x = <E>", "if a:\n b = <E>\nelse:\n c(<E>)", "def f(a=<E>):\n return a", "for a in <E>:\n b",
           "class A:\n x = <E>\n y = 1", "with a:\n match b:\n  case 1:\n   c = <E>">>
    [] c = "_decorator_list" -> <<"@a(<E>)", "@a\n@b(<E>)">>
    [] c = "keyword" -> <<"k=<E>">>
    [] c = "comprehension" -> <<"for a in <E> if b">>
    [] c = "_comprehension_ifs" -> <<"if <E>">>
    [] c = "arguments" -> <<"a=<E>, *b">>
    [] c \in {"withitem", "_withitems"} -> <<"<E> as a">>
    [] c = "pattern" -> <<"'''x\ny''' | (\n 1) | [a,\n b]">>
    [] c \in {"expr", "expr_all", "expr_arglike", "expr_slice", "Tuple_elt", "_arglike", "_arglikes"} -> <<"<E>">>
    [] OTHER -> <<>>

(* multi-line layouts, applied by the harness at every position they name *)
MultiLine == <<"cont-after-token",      \* ` \` newline after token i, for every i
               "cont-after-token-flush",\* same, next line starts at column 0
               "break-after-open",      \* newline after every opening bracket
               "break-before-close",    \* newline before every closing bracket
               "sep-on-later-line",     \* element, newline, k blanks, separator - for every k up to the element's width
               "comment-then-sep-on-later-line">>
=============================================================================
