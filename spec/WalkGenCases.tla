---------------------------- MODULE WalkGenCases ----------------------------
(* C14, direction spec -> code: TLC computes, for EVERY ordered tree with at  *)
(* most MaxN nodes and EVERY filter set F, what Walk.tla says each traversal  *)
(* call must answer, and writes the table as JSON.  checks/c14_gen.py turns   *)
(* each tree into real source (three concrete shapes) and replays the calls   *)
(* into pfst.  No variables: the module is only a family of constants.        *)
EXTENDS WalkTrees, TLC, Json, IOUtils

CONSTANTS MaxN, Part, Parts      \* the table is computed in Parts slices (one JVM each)

Bools == <<FALSE, TRUE>>
Ons   == <<"enter", "leave", "both">>

SetSeq(S) == IncSeq(S)

Walks(T, F) ==
  Cat([x \in 1..T.n |-> Cat([o \in 1..3 |-> Cat([b \in 1..2 |->
     LET deep == Deep(T, x, Ons[o], Bools[b])
         shal == Shallow(T, x, Ons[o], Bools[b])
     IN Cat([r \in 1..2 |-> [s \in 1..2 |->
          LET evs == WalkSel(IF Bools[r] THEN deep ELSE shal, x, Bools[s], F)
          IN [x |-> x, on |-> Ons[o], back |-> Bools[b], rec |-> Bools[r], self |-> Bools[s],
              seq |-> NodesOf(evs), lv |-> [i \in 1..Len(evs) |-> evs[i].lv]] ]]) ])])])

Row(n, p, F) ==
  LET T == MkTree(n, p, FALSE)
      A == 1..n
  IN [n     |-> n,
      par   |-> p,
      inF   |-> [x \in A |-> x \in F],
      walks |-> Walks(T, F),
      next  |-> [x \in A |-> NextSib(T, x, F)],
      prev  |-> [x \in A |-> PrevSib(T, x, F)],
      first |-> [x \in A |-> FirstChild(T, x, F)],
      last  |-> [x \in A |-> LastChild(T, x, F)],
      sf    |-> [x \in A |-> StepFwd(T, x, F, TRUE, 0)],
      sfn   |-> [x \in A |-> StepFwd(T, x, F, FALSE, 0)],
      sb    |-> [x \in A |-> StepBack(T, x, F, TRUE, 0)],
      sbn   |-> [x \in A |-> StepBack(T, x, F, FALSE, 0)],
      sft   |-> [x \in A |-> StepFwd(T, x, F, TRUE, 1)],       \* bounded by the abstract root
      sbt   |-> [x \in A |-> StepBack(T, x, F, TRUE, 1)]]

Cases == {<<n, p, F>> : n \in 1..MaxN, p \in UNION {ParVecs(m) : m \in 1..MaxN}, F \in SUBSET (1..MaxN)}
RECURSIVE Mask(_)
Mask(F) == IF F = {} THEN 0 ELSE LET x == MaxOf(F) IN 2 ^ (x - 1) + Mask(F \ {x})
Valid == {c \in Cases : DOMAIN c[2] = 1..c[1] /\ c[3] \subseteq 1..c[1] /\ Mask(c[3]) % Parts = Part}

RECURSIVE SetToRows(_)
SetToRows(S) == IF S = {} THEN <<>> ELSE LET c == CHOOSE c \in S : TRUE IN <<Row(c[1], c[2], c[3])>> \o SetToRows(S \ {c})

Rows == SetToRows(Valid)

ASSUME PrintT(<<"ROWS", Len(Rows)>>)
ASSUME JsonSerialize(IOEnv.OUT_FILE, Rows)
=============================================================================
