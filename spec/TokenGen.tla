------------------------------- MODULE TokenGen ------------------------------
(* (G) for C04: the finite case table of the reference editor, emitted by TLC  *)
(* for replay into the real pfst.  One row per (layout, request): the abstract *)
(* lines of the layout, the request (delete / replace / insert, statement      *)
(* index, leading and trailing trivia mode) and the lines the reference editor *)
(* of TokenRef.tla produces for it.  The harness concretises a line           *)
(* [k, id, tr] as text (`# c<id>`, `s<id> = <id>  # t<id>`, empty), performs   *)
(* the request on the real library and TLC (TokenTrace.tla) judges the result: *)
(* the clauses of TokenLaws, and RefEdit.agree - the non-blank lines are       *)
(* exactly the ones the reference editor keeps (what the documentation of the  *)
(* trivia option says is removed, no more and no less).                        *)
EXTENDS TokenRef, Json, IOUtils, SequencesExt

Requests ==
  {[op |-> "delete", i |-> i, lm |-> lm, tm |-> tm] : i \in 1..NStmt, lm \in LeadModes, tm \in TrailModes}
  \cup {[op |-> "replace", i |-> i, lm |-> lm, tm |-> tm] : i \in 1..NStmt, lm \in LeadModes, tm \in TrailModes}
  \cup {[op |-> "insert", i |-> i, lm |-> "block", tm |-> "line"] : i \in 1..(NStmt + 1)}

Expect(lines, q) ==
  CASE q.op = "delete"  -> RefRemove(lines, q.i, q.lm, q.tm, <<>>, FALSE, FALSE)
    [] q.op = "replace" -> RefRemove(lines, q.i, q.lm, q.tm, <<StmtLine(NewId, 0, 0)>>, FALSE, FALSE)
    [] OTHER            -> RefInsert(lines, q.i, FALSE)

Row(lay, q) == [pre |-> LinesOf(lay), req |-> q, expect |-> Expect(LinesOf(lay), q)]
Rows == SetToSeq({Row(lay, q) : lay \in Layouts, q \in Requests})

ASSUME JsonSerialize(IOEnv.OUT_FILE, Rows)

VARIABLE done
Init == done = TRUE
Next == done' = done
Spec == Init /\ [][Next]_done
=============================================================================
