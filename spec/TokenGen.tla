------------------------------- MODULE TokenGen ------------------------------
(* (G) for C04: the finite case table of the reference editor, emitted by TLC  *)
(* for replay into the real pfst.  One row per (layout, request): the abstract *)
(* lines of the layout (comment / blank / line-continuation lines around the   *)
(* statements, statements on lines of their own or `;`-joined), the request    *)
(* (delete / replace / insert, statement index - first, middle or last of its  *)
(* line -, leading and trailing trivia mode incl. line numbers) and the lines  *)
(* the reference editor of TokenRef.tla produces for it; next to it the table  *)
(* of space counts ('+N' / '-N', N in 0..3, leading x trailing) of the option. *)
(*   The harness concretises a line           *)
(* [k, id, tr] as text (`# c<id>`, `s<id> = <id>  # t<id>`, empty), performs   *)
(* the request on the real library and TLC (TokenTrace.tla) judges the result: *)
(* the clauses of TokenLaws, and RefEdit.agree - the non-blank lines are       *)
(* exactly the ones the reference editor keeps (what the documentation of the  *)
(* trivia option says is removed, no more and no less).                        *)
EXTENDS TokenRef, Json, IOUtils, SequencesExt

Requests ==
  {[op |-> "delete", i |-> i, lm |-> lm, tm |-> tm] : i \in 1..NStmt, lm \in LeadModes, tm \in TrailModes}
  \cup {[op |-> "replace", i |-> i, lm |-> lm, tm |-> tm] : i \in 1..NStmt, lm \in LeadModes, tm \in TrailModes}
  \cup {[op |-> "insert", i |-> i, lm |-> "block", tm |-> "line"] : i \in 1..(NStmt + 1)}

(* (the space counts only move empty lines: the expected non-blank lines do not *)
(* depend on them, so they are a separate dimension - Spaces x Spaces below -   *)
(* that the harness combines with the rows in turn)                             *)
Expect(lines, q) ==
  CASE q.op = "delete"  -> RefRemove(lines, q.i, q.lm, q.tm, <<>>, 0, 0, FALSE)
    [] q.op = "replace" -> RefRemove(lines, q.i, q.lm, q.tm, <<NewId>>, 0, 0, FALSE)
    [] OTHER            -> RefInsert(lines, q.i, FALSE)

Row(lay, q) == [pre |-> LinesOf(lay), req |-> q, expect |-> Expect(LinesOf(lay), q)]
Rows == SetToSeq({Row(lay, q) : lay \in Layouts, q \in Requests})

(* a second, small table: edits that make pfst re-indent code it does not put -   *)
(* the `elif` <-> `else:` + `if` conversion (an insertion into an orelse that is  *)
(* an `elif`; the removal of the statement that kept an `else:` block from being *)
(* an `elif`) - over every value of the docstr option, which says which          *)
(* multi-line strings of the moved block may change their text, and over the     *)
(* indentation unit.  The moved block holds a plain expression string, a real    *)
(* docstring of a nested def, an assigned string and a string in a nested block  *)
(* (concretised by the harness); the clauses of TokenLaws judge the result       *)
(* (OutsideTokens.moved: every other token of the moved block is conserved).     *)
ElifCases ==
  {[form |-> "elif", op |-> o, docstr |-> d, ind |-> n] : o \in {"insert0", "insert1"}, d \in {"True", "False", "strict"}, n \in {2, 4}}
  \cup {[form |-> "elseif", op |-> "delete0", docstr |-> d, ind |-> n] : d \in {"True", "False", "strict"}, n \in {2, 4}}

ASSUME JsonSerialize(IOEnv.OUT_FILE, [rows |-> Rows, spaces |-> SetToSeq(SpacePairs), elifs |-> SetToSeq(ElifCases)])

VARIABLE done
Init == done = TRUE
Next == done' = done
Spec == Init /\ [][Next]_done
=============================================================================
