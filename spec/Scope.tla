-------------------------------- MODULE Scope --------------------------------
(* C16 - Python's scoping rules, written from the language reference          *)
(* (sections 4.2 "Naming and binding", 6.2.4 displays/comprehensions, 6.12    *)
(* assignment expressions, 8.7/8.8 function and class definitions, 8.10 type  *)
(* parameter lists), over ABSTRACT PROGRAMS:                                  *)
(*                                                                            *)
(*   P = [sc |-> Seq([kind, site]), st |-> Seq([c, k, n, ch])]                *)
(*                                                                            *)
(* sc[1] is the module; sc[s].site is the index of the site that holds the    *)
(* construct introducing scope s.  A site st[i] is an identifier occurrence   *)
(* (n # "-") or an expression position filled by a lambda / comprehension     *)
(* (ch # 0), written inside the construct of scope c at position kind k.      *)
(* `def` / `class` sites are both: they bind n in their owner and hold ch.    *)
(* (Site records may carry a builder weight w, and programs are handed around *)
(* as Memo(P) = P plus the owner tables op / of - pure memoisation.)          *)
(*                                                                            *)
(*   Owner(P, i, view)      which scope a site belongs to                     *)
(*   Use(k)                 what the site does to its name there              *)
(*   SymRow(P, r, n)        the flags CPython 3.12's symtable records         *)
(*   PfstCat(P, s, cat)     the documented answer of FST.scope_symbols()      *)
(*   PfstWalk(P, s)         the sites walk(scope=True) must yield             *)
(*                                                                            *)
(* Named deviations (documented behaviour of pfst, part of the spec):         *)
(*   TypeParamFold   pfst has no node for PEP 695 annotation scopes: type     *)
(*                   parameter names are attributed to the def/class that     *)
(*                   declares them, bounds / annotations / bases to the       *)
(*                   enclosing scope.                                         *)
(*   CompRootWalrus  a scope walk STARTED on a comprehension also yields the  *)
(*                   walrus targets inside it (walk() docstring: "on          *)
(*                   purpose"); scope_symbols() reports them as store + free, *)
(*                   not local (= symtable's assigned + nonlocal row).        *)
(*   PfstFree        'free' = read, never written/deleted, not declared       *)
(*                   (scope_symbols() docstring), i.e. symtable's             *)
(*                   referenced /\ ~assigned /\ ~declared - no resolution.    *)
(*   LocalByStore    'local' lists store nodes only (docstring); a name that  *)
(*                   is only deleted is local to Python and found under 'del'.*)
(* Not judged: GlobalAtModule ('local' of a name the module block declares    *)
(* global), AmbiguousInline (row copied from one of several inlined           *)
(* comprehensions with different flags - order dependent in CPython).         *)
(* CPython quirks that belong to the symtable mapping, not to the rules:      *)
(* GlobalEcho, module-level comprehension walrus = DEF_GLOBAL, `del` and      *)
(* augmented assignment = DEF_LOCAL without USE.                              *)
EXTENDS Integers, Sequences, FiniteSets, TLC

NoName == "-"

BodyKinds == {"module", "function", "class"}
CompKinds == {"listcomp", "genexpr"}          \* listcomp stands for list/set/dict (inlined by PEP 709), genexpr is not inlined
ExprScopeKinds == {"lambda"} \cup CompKinds
ScopeKinds == BodyKinds \cup ExprScopeKinds

(* ---- position kinds ------------------------------------------------------ *)
KindOrder == << "global", "nonlocal",
                "dec", "tpname", "tpbound", "param", "kwparam", "vararg", "kwarg", "default", "kwdefault",
                "argann", "retann", "base", "ckw",
                "target", "iter1", "iter1c", "iter2", "elt", "cond",
                "load", "store", "del", "aug", "ann", "annload",
                "import", "importas", "importdot", "from", "fromas",
                "exc", "mcap", "mstar", "mrest", "mas", "mcls", "with", "for", "walrus",
                "def", "class" >>
AllPos == {KindOrder[j] : j \in 1..Len(KindOrder)}
RankF == [k \in AllPos |-> CHOOSE j \in 1..Len(KindOrder) : KindOrder[j] = k]
Rank(k) == RankF[k]

StmtPos == {"load", "store", "del", "aug", "ann", "annload", "global", "nonlocal",
            "import", "importas", "importdot", "from", "fromas",
            "exc", "mcap", "mstar", "mrest", "mas", "mcls", "with", "for", "walrus", "def", "class"}
ParamPos == {"param", "kwparam", "vararg", "kwarg"}
FunHdr == {"dec", "default", "kwdefault", "argann", "retann", "tpname", "tpbound"} \cup ParamPos
ClsHdr == {"dec", "base", "ckw", "tpname", "tpbound"}
LamPos == ParamPos \cup {"default", "kwdefault", "load", "walrus"}
CompPos == {"target", "iter1", "iter1c", "iter2", "elt", "cond", "walrus"}

PosOf(kind) ==
  CASE kind = "module"   -> StmtPos \ {"nonlocal"}
    [] kind = "function" -> StmtPos \cup FunHdr
    [] kind = "class"    -> StmtPos \cup ClsHdr
    [] kind = "lambda"   -> LamPos
    [] OTHER             -> CompPos

(* positions that hold an expression: an identifier load or a lambda / comprehension *)
ExprPos == {"load", "annload", "dec", "default", "kwdefault", "argann", "retann", "base", "ckw", "tpbound",
            "iter1", "iter2", "elt", "cond"}

(* what a site does to its name in the scope that owns it (language reference 4.2.1: binding operations) *)
Use(k) ==
  CASE k \in {"load", "annload", "dec", "default", "kwdefault", "argann", "retann", "base", "ckw", "tpbound",
              "iter1", "iter1c", "iter2", "elt", "cond", "mcls"} -> {"load"}
    [] k = "aug"      -> {"load", "store"}        \* 7.2.1: evaluates the target, then binds it
    [] k = "del"      -> {"del"}
    [] k = "global"   -> {"global"}
    [] k = "nonlocal" -> {"nonlocal"}
    [] OTHER          -> {"store"}                \* assignment, annotated assignment, import forms, except-as, pattern
                                                  \* captures, with-as, for target, walrus, def/class name, parameters,
                                                  \* type parameter names, comprehension targets

(* ---- structure ----------------------------------------------------------- *)
NSc(P) == Len(P.sc)
NSt(P) == Len(P.st)
KindS(P, s) == P.sc[s].kind
Holder(P, s) == P.sc[s].site
IsComp(P, s) == KindS(P, s) \in CompKinds
Named(P) == {i \in 1..NSt(P) : P.st[i].n # NoName}
SitesIn(P, c) == {i \in 1..NSt(P) : P.st[i].c = c}
HasTP(P, c) == \E i \in SitesIn(P, c) : P.st[i].k = "tpname"

RECURSIVE Depth(_, _)
Depth(P, s) == IF s = 1 THEN 0 ELSE 1 + Depth(P, P.st[Holder(P, s)].c)

(* scope references: real scopes and the PEP 695 annotation scopes of a generic def/class *)
Ref(s)    == [t |-> "s",   s |-> s, j |-> 0]
TP(s)     == [t |-> "tp",  s |-> s, j |-> 0]     \* type parameter scope of def/class s
TPB(s, j) == [t |-> "tpb", s |-> s, j |-> j]     \* lazily evaluated bound of the j-th type parameter
Outside   == [t |-> "out", s |-> 0, j |-> 0]

TpBoundIndex(P, i) == Cardinality({m \in SitesIn(P, P.st[i].c) : P.st[m].k = "tpbound" /\ m <= i})

(* OwnerRec(P, i, view): the scope site i belongs to. view = "py" (language reference) or "pfst" (TypeParamFold). *)
(* EnclRec(P, s, view): the scope in which the construct that introduces s is itself evaluated / bound.           *)
RECURSIVE OwnerRec(_, _, _), EnclRec(_, _, _), WalrusOwnerRec(_, _, _)
EnclRec(P, s, view) == IF s = 1 THEN Outside ELSE OwnerRec(P, Holder(P, s), view)
WalrusOwnerRec(P, c, view) ==         \* 6.12 / PEP 572: the target binds in the nearest enclosing non-comprehension scope
  LET e == EnclRec(P, c, view) IN IF e.t = "s" /\ IsComp(P, e.s) THEN WalrusOwnerRec(P, e.s, view) ELSE e
OwnerRec(P, i, view) ==
  LET t == P.st[i]  c == t.c IN
  CASE t.k \in {"dec", "default", "kwdefault"}       -> EnclRec(P, c, view)   \* 8.7: evaluated when the def is executed
    [] t.k \in {"argann", "retann", "base", "ckw"}   -> IF view = "py" /\ HasTP(P, c) THEN TP(c) ELSE EnclRec(P, c, view)
    [] t.k = "tpname"                                -> IF view = "py" THEN TP(c) ELSE Ref(c)
    [] t.k = "tpbound"                               -> IF view = "py" THEN TPB(c, TpBoundIndex(P, i)) ELSE EnclRec(P, c, view)
    [] t.k \in {"iter1", "iter1c"}                   -> EnclRec(P, c, view)   \* 6.2.4: leftmost iterable is evaluated outside
    [] t.k = "walrus" /\ IsComp(P, c)                -> WalrusOwnerRec(P, c, view)
    [] OTHER                                         -> Ref(c)

(* programs are handed around with their owner tables attached (pure memoisation: Memo(P).op[i] = OwnerRec(P, i, "py")) *)
Memo(P) == [sc |-> P.sc, st |-> P.st,
            op |-> [i \in 1..Len(P.st) |-> OwnerRec(P, i, "py")],
            of |-> [i \in 1..Len(P.st) |-> OwnerRec(P, i, "pfst")]]
Owner(P, i, view) == IF view = "py" THEN P.op[i] ELSE P.of[i]
Encl(P, s, view) == IF s = 1 THEN Outside ELSE Owner(P, Holder(P, s), view)

OwnedBy(P, r, view) == {i \in 1..NSt(P) : Owner(P, i, view) = r}

(* syntactic containment chain, for classes and well-formedness *)
RECURSIVE InIterable(_, _)
InIterable(P, c) == IF c = 1 THEN FALSE
                    ELSE LET h == P.st[Holder(P, c)] IN h.k \in {"iter1", "iter2"} \/ InIterable(P, h.c)

RECURSIVE SitePath(_, _)
SitePath(P, c) == IF c = 1 THEN "module"
                  ELSE LET h == P.st[Holder(P, c)] IN KindS(P, c) \o "@" \o h.k \o "/" \o SitePath(P, h.c)
SiteClass(P, i) == IF i \in 1..NSt(P) THEN P.st[i].k \o ":" \o SitePath(P, P.st[i].c) ELSE "alien"

(* ---- classification (language reference), per real or annotation scope ----- *)
NamesOf(P, S) == {P.st[i].n : i \in S \cap Named(P)}
Acc(P, r, a, view) == {i \in OwnedBy(P, r, view) \cap Named(P) : a \in Use(P.st[i].k)}

(* ---- mapping to CPython 3.12 symtable flags -------------------------------- *)
(* ref = USE, asg = DEF_LOCAL, par = DEF_PARAM, imp = DEF_IMPORT, glo = DEF_GLOBAL (is_declared_global),               *)
(* nl = DEF_NONLOCAL, loc = is_local().  `del` and augmented assignment are recorded as plain DEF_LOCAL by CPython.   *)
SymFlag(k) ==
  CASE "load" \in Use(k) /\ k # "aug" -> {"ref"}
    [] k \in ParamPos                 -> {"par"}
    [] k \in {"import", "importas", "importdot", "from", "fromas"} -> {"imp"}
    [] k = "global"                   -> {"glo"}
    [] k = "nonlocal"                 -> {"nl"}
    [] OTHER                          -> {"asg"}

IsFunLike(P, r) == r.t = "s" /\ KindS(P, r.s) \in {"function", "lambda"}
IsModule(r) == r.t = "s" /\ r.s = 1
DeclGlobal(P, r, n) == \E i \in OwnedBy(P, r, "py") : P.st[i].k = "global" /\ P.st[i].n = n

CompWalrus(P) == {i \in Named(P) : P.st[i].k = "walrus" /\ IsComp(P, P.st[i].c)}

(* flags a scope's own sites give name n (before inlining) *)
OwnFlags(P, r, n) ==
  UNION ( {IF i \in CompWalrus(P)
           THEN (IF IsModule(r) THEN {"glo"} ELSE {"asg"})     \* symtable_extend_namedexpr_scope: module gets DEF_GLOBAL
           ELSE SymFlag(P.st[i].k)
             : i \in {m \in OwnedBy(P, r, "py") \cap Named(P) : P.st[m].n = n}}
          \cup
          \* the innermost comprehension of a walrus records it as assigned + nonlocal (or global when the owner is the
          \* module or declares the name global)
          {LET o == Owner(P, i, "py") IN {"asg"} \cup (IF IsModule(o) \/ DeclGlobal(P, o, n) THEN {"glo"} ELSE {"nl"})
             : i \in {m \in CompWalrus(P) : r = Ref(P.st[m].c) /\ P.st[m].n = n}} )

(* GlobalEcho (symtable_add_def_inner): every DEF_GLOBAL recorded anywhere is also or-ed into the module block's row *)
CompWalrusGlobal(P, i) == LET o == Owner(P, i, "py") IN IsModule(o) \/ DeclGlobal(P, o, P.st[i].n)
EchoFlags(P, r, n) ==
  IF IsModule(r) /\ (\/ \E i \in Named(P) : P.st[i].k = "global" /\ P.st[i].n = n
                     \/ \E i \in CompWalrus(P) : P.st[i].n = n /\ CompWalrusGlobal(P, i))
  THEN {"glo"} ELSE {}

Inlined(P, s) == KindS(P, s) = "listcomp"                              \* PEP 709
IsTable(P, r) == r.t # "s" \/ ~Inlined(P, r.s)

(* scopes whose symbols end up in table r: r itself and, transitively, the inlined comprehensions nested in it *)
RECURSIVE InlinedInto(_, _)
InlinedInto(P, r) ==
  LET kids == {s \in 2..NSc(P) : Inlined(P, s) /\ Encl(P, s, "py") = r} IN
  {r} \cup UNION {InlinedInto(P, Ref(s)) : s \in kids}

(* PEP 709 merge: a name the table's own block mentions keeps the block's flags, otherwise the flags are copied from  *)
(* the inlined comprehension.  AmbiguousInline: two inlined blocks give different flags - order dependent, not judged *)
Contrib(P, r, n) == {OwnFlags(P, q, n) : q \in {x \in InlinedInto(P, r) \ {r} : OwnFlags(P, x, n) # {}}}
BlockFlags(P, r, n) == OwnFlags(P, r, n) \cup EchoFlags(P, r, n)
AmbiguousInline(P, r, n) == BlockFlags(P, r, n) = {} /\ Cardinality(Contrib(P, r, n)) > 1
RawRow(P, r, n) == IF BlockFlags(P, r, n) # {} THEN BlockFlags(P, r, n)
                   ELSE IF Contrib(P, r, n) = {} THEN {} ELSE CHOOSE f \in Contrib(P, r, n) : TRUE
SymRow(P, r, n) ==
  LET f == RawRow(P, r, n)
      bound == f \cap {"asg", "par", "imp"} # {}
  IN f \cup (IF bound /\ (IsModule(r) \/ f \cap {"glo", "nl"} = {}) THEN {"loc"} ELSE {})

TableNames(P, r) == {n \in NamesOf(P, Named(P)) : RawRow(P, r, n) # {}}

Tables(P) == {Ref(s) : s \in {x \in 1..NSc(P) : ~Inlined(P, x)}}
             \cup {TP(s) : s \in {x \in 1..NSc(P) : HasTP(P, x)}}
             \cup {Owner(P, i, "py") : i \in {m \in 1..NSt(P) : P.st[m].k = "tpbound"}}
(* the table a table is nested in *)
RECURSIVE TableOf(_, _)
TableOf(P, r) == IF r.t = "s" /\ r.s # 1 /\ Inlined(P, r.s) THEN TableOf(P, Encl(P, r.s, "py")) ELSE r
TableParent(P, r) ==
  CASE r.t = "tpb" -> TP(r.s)
    [] r.t = "tp"  -> TableOf(P, Encl(P, r.s, "py"))
    [] r.s = 1     -> Outside
    [] OTHER       -> IF HasTP(P, r.s) THEN TP(r.s) ELSE TableOf(P, Encl(P, r.s, "py"))

(* ---- the documented answers of pfst ---------------------------------------- *)
(* walrus targets reachable from comprehension s through comprehensions only (CompRootWalrus) *)
RECURSIVE CompChainHits(_, _, _)
CompChainHits(P, c, s) == c = s \/ (IsComp(P, c) /\ LET e == Encl(P, c, "pfst") IN e.t = "s" /\ IsComp(P, e.s) /\ CompChainHits(P, e.s, s))
RootWalrus(P, s) == IF IsComp(P, s) THEN {i \in CompWalrus(P) : CompChainHits(P, P.st[i].c, s)} ELSE {}

PfstWalk(P, s) == OwnedBy(P, Ref(s), "pfst") \cup RootWalrus(P, s)

PfstCat(P, s, cat) ==
  LET r == Ref(s)
      rw == RootWalrus(P, s)
      st == Acc(P, r, "store", "pfst") \cup rw
      decl == NamesOf(P, Acc(P, r, "global", "pfst") \cup Acc(P, r, "nonlocal", "pfst"))
  IN CASE cat = "load"     -> Acc(P, r, "load", "pfst")
       [] cat = "store"    -> st
       [] cat = "del"      -> Acc(P, r, "del", "pfst")
       [] cat = "global"   -> Acc(P, r, "global", "pfst")
       [] cat = "nonlocal" -> Acc(P, r, "nonlocal", "pfst")
       [] cat = "local"    -> {i \in st : P.st[i].n \notin decl \cup NamesOf(P, rw)}
       [] cat = "free"     -> {i \in Acc(P, r, "load", "pfst") :
                                 P.st[i].n \notin decl \cup NamesOf(P, (st \ rw) \cup Acc(P, r, "del", "pfst"))}
                              \cup {i \in rw : P.st[i].n \notin NamesOf(P, st \ rw)}
       [] OTHER            -> {}
Cats == {"load", "store", "del", "global", "nonlocal", "local", "free"}

(* the compiler assigns no LOCAL scope in a module block: symtable's is_local() there is the API convention           *)
(* `module /\ bound`, so 'local' of a name the module block itself declares `global` is not judged (GlobalAtModule)   *)
GlobalAtModule(P, s, i) == s = 1 /\ \E m \in OwnedBy(P, Ref(1), "pfst") : P.st[m].k = "global" /\ P.st[m].n = P.st[i].n

(* ---- well-formedness: the programs Python accepts -------------------------- *)
BindingKinds == {k \in AllPos : "store" \in Use(k) \/ "del" \in Use(k)}
BindsLocally(P, r, n) == /\ \E i \in OwnedBy(P, r, "py") \cap Named(P) : P.st[i].n = n /\ P.st[i].k \in BindingKinds
                         /\ ~DeclGlobal(P, r, n)
DeclNonlocal(P, r, n) == \E i \in OwnedBy(P, r, "py") : P.st[i].k = "nonlocal" /\ P.st[i].n = n

(* nearest function scope around def/class scope s (class blocks and annotation scopes are skipped, 4.2.2) *)
RECURSIVE Resolvable(_, _, _)
Resolvable(P, s, n) ==
  IF s = 1 THEN FALSE
  ELSE LET e == P.st[Holder(P, s)].c IN       \* def/class statements sit directly in the body of their parent
       IF e = 1 THEN FALSE
       ELSE IF KindS(P, e) = "class" THEN Resolvable(P, e, n)
       ELSE IF DeclGlobal(P, Ref(e), n) THEN FALSE
       ELSE IF BindsLocally(P, Ref(e), n) \/ DeclNonlocal(P, Ref(e), n) THEN TRUE
       ELSE Resolvable(P, e, n)

Count(P, c, ks) == Cardinality({i \in SitesIn(P, c) : P.st[i].k \in ks})

WellFormed(P) ==
  /\ \A c \in 1..NSc(P) :
       /\ Count(P, c, {"default"}) <= Count(P, c, {"param"})
       /\ Count(P, c, {"kwdefault"}) <= Count(P, c, {"kwparam"})
       /\ Count(P, c, {"argann"}) <= Count(P, c, ParamPos)
       /\ Count(P, c, {"tpbound"}) <= Count(P, c, {"tpname"})
       /\ Count(P, c, {"vararg"}) <= 1 /\ Count(P, c, {"kwarg"}) <= 1
       /\ Count(P, c, {"retann"}) <= 1
       /\ Count(P, c, {"iter1", "iter1c"}) <= 1      \* one leftmost iterable: a bare name, a call, or a lambda / comprehension
       \* parameter names are pairwise distinct
       /\ \A i, m \in SitesIn(P, c) : (i # m /\ P.st[i].k \in ParamPos /\ P.st[m].k \in ParamPos) => P.st[i].n # P.st[m].n
  /\ \A i \in Named(P) : LET t == P.st[i]  r == Owner(P, i, "py") IN
       /\ t.k = "global" =>
            /\ ~\E m \in OwnedBy(P, r, "py") : P.st[m].n = t.n /\ P.st[m].k \in ParamPos \cup {"nonlocal", "ann"}
       /\ t.k = "nonlocal" =>
            /\ Resolvable(P, t.c, t.n)
            /\ ~\E m \in OwnedBy(P, r, "py") : P.st[m].n = t.n /\ P.st[m].k \in ParamPos \cup {"ann"}
       /\ t.k = "walrus" =>
            /\ ~InIterable(P, t.c)
            /\ IsComp(P, t.c) =>
                 /\ r.t = "s" /\ KindS(P, r.s) # "class"
                 \* cannot rebind an iteration variable of any comprehension between the site and its owner
                 /\ \A m \in Named(P) : (P.st[m].k = "target" /\ P.st[m].n = t.n) => ~CompChainHits(P, t.c, P.st[m].c)
  \* global / nonlocal declarations precede uses in rendering; a name cannot be used in an annotation scope position
  \* that the renderer cannot produce: type parameter bounds need their parameter (checked above)
  /\ \A s \in 2..NSc(P) : LET h == P.st[Holder(P, s)] IN
       /\ KindS(P, s) \in ExprScopeKinds => h.k \in ExprPos
       /\ KindS(P, s) = "function" => h.k = "def"
       /\ KindS(P, s) = "class" => h.k = "class"

=============================================================================
