\* quick tier, part 1: one mutation per history, two mark/reconcile rounds, three initial trees
SPECIFICATION Spec
CONSTANTS
  MaxObj = 24
  MaxPos = 18
  MaxMut = 1
  MaxRounds = 2
  MaxFst = 1
  InitShapes <- ShapesSmall
VIEW View
CHECK_DEADLOCK FALSE
INVARIANT MarkNoAlias
INVARIANT NoChangeIffNoMut
INVARIANT UntouchedIntact
INVARIANT ResultUntouched
PROPERTY TouchedMonotone
PROPERTY InvalidatedRaises
PROPERTY ResultEqualsWork
PROPERTY NoChangeIdentity
