SPECIFICATION Spec
CONSTANTS
  t1 = t1
  t2 = t2
  r1 = r1
  r2 = r2
  r3 = r3
  a = a
  b = b
  Threads = {t1, t2}
  Roots = {r1, r2, r3}
  Nodes = {a, b}
  MaxDepth = 3
  Owner <- OwnerMap
VIEW View
INVARIANT Balanced
INVARIANT Quiescent
INVARIANT NextEditEnabled
INVARIANT OwnerOnly
INVARIANT NoStuck
