----------------------------- MODULE SearchAlgGen -----------------------------
(* (G) TLC emits the terms of the pattern algebra: complete products          *)
(* {c, o, m1, m2, m3} of contexts, operators and member numbers (enumerated   *)
(* by TLC) plus explicitly named ids (seeded sample), each with its decoded   *)
(* structure (for the concretisation) and its class.                          *)
EXTENDS SearchAlg, Json, IOUtils
In == JsonDeserialize(IOEnv.ALG_IN)
ProdIds(p) == {<<c, o, m1, m2, m3>> : c \in ToSet(p.c), o \in ToSet(p.o), m1 \in ToSet(p.m1), m2 \in ToSet(p.m2), m3 \in ToSet(p.m3)}
AllIds == UNION {ProdIds(In.prods[k]) : k \in 1..Len(In.prods)} \cup ToSet(In.ids)
Good == {id \in AllIds : ValidTid(id)}
ASSUME JsonSerialize(IOEnv.ALG_OUT,
                     [rows |-> SetToSeq({[id |-> id, cls |-> ClassOf(id), term |-> TermOf(id)] : id \in Good}),
                      asked |-> Cardinality(AllIds), na |-> NA, nmembers |-> NMembers, nctx |-> NCtx])
=============================================================================
