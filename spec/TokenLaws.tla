------------------------------ MODULE TokenLaws ------------------------------
(* C04 - "formatting and comments outside the edited element are preserved    *)
(* byte for byte", as clauses over one structured-edit case.                  *)
(*                                                                            *)
(* A case c is a record of facts about one successful edit, all of them from  *)
(* CPython's tokenizer / parser (never from pfst):                            *)
(*   T, U        pre / post token streams (ids into KTab)                     *)
(*   ts, te, tf  pre tokens: start line, end line, first-on-its-line (0/1)    *)
(*   us, ue, uf  post tokens: start line, end line, first-on-its-line         *)
(*   L, M        pre / post physical lines (ids into LTab)                    *)
(*   cLo, cHi    token extent of the container node whose field is edited     *)
(*               (statement-like containers: with the trivia that trails it)  *)
(*   kids        positioned children of the container in source order         *)
(*               [lo, hi, hx, r, blk]  (hx: statement through its NEWLINE)    *)
(*   E           extents [lo, hi, blk] of the elements of the edited field    *)
(*   valid, ns, nt   the request resolves to the elements E[ns+1..nt]         *)
(*               (0-based half-open, Python list semantics; ns = nt: insert)  *)
(*   r           source-order rank of the edited field among kids[..].r       *)
(*   own, uown   own tokens of the container (in none of its children),       *)
(*               pre / post stream; uoOk: post facts available                *)
(*   newc, newk  COMMENT ids / all other token ids of the new code            *)
(*   stmt, kind, field, form, deleting   what is edited and how               *)
(*   tv          the trivia option value, syntactically decomposed            *)
(*   docstr      the docstr option value ("True" | "False" | "strict");        *)
(*   ds1, ds2    STRING tokens of expression statements in / not in a          *)
(*               docstring position (pre stream)                               *)
(*   elifPre, elifPost, soleGen, dependent   grammar-forced situations       *)
(*                                                                            *)
(* Three regions of the pre stream (DESIGN 4-C04):                            *)
(*   Out = outside [cLo, cHi];  W = window [W.lo, W.hi] from the end of the   *)
(*   previous child to the start of the next child (the element(s), adjoining *)
(*   separator, own grouping parentheses, trivia between the neighbours);     *)
(*   In = inside the container but outside W.                                 *)
(* Deliberate deviations from "nothing but W changes" are the named           *)
(* operators OneLineBlock, SeqDelims (singleton comma / optional delimiters), *)
(* ElifChange, SoleGenexp, DependentField, EmptiedBlock: each is forced by    *)
(* Python's grammar.                                                          *)
EXTENDS Text

CONSTANTS KTab,   \* token table: KTab[id] = [t |-> type name, s |-> text]
          LTab    \* line table:  LTab[id] = [b |-> the line is empty space (blank, or a lone `\`), c |-> a lone `\`]

Cl(name, ok) == [c |-> name, ok |-> ok]

Typ(id) == KTab[id].t
Str(id) == KTab[id].s
IsComment(id) == Typ(id) = "COMMENT"
IsTrivia(id)  == Typ(id) \in {"COMMENT", "NL", "NEWLINE", "INDENT"}
Blank(l)      == LTab[l].b
LoneCont(l)   == LTab[l].c

N(c) == Len(c.T)
NumE(c) == Len(c.E)

(* ---- the recorded facts are usable (total operators: a malformed recording *)
(* fails the clause "Facts" instead of crashing the evaluation)               *)
FactsOk(c) ==
  /\ c.cLo >= 1 /\ c.cHi <= N(c) /\ c.cLo <= c.cHi + 1
  /\ Len(c.ts) = N(c) /\ Len(c.te) = N(c) /\ Len(c.tf) = N(c)
  /\ Len(c.uf) = Len(c.U) /\ Len(c.us) = Len(c.U) /\ Len(c.ue) = Len(c.U)
  /\ \A i \in DOMAIN c.kids : c.cLo <= c.kids[i].lo /\ c.kids[i].lo <= c.kids[i].hi
                               /\ c.kids[i].hi <= c.kids[i].hx /\ c.kids[i].hx <= c.cHi
  /\ \A i \in DOMAIN c.E : c.cLo <= c.E[i].lo /\ c.E[i].lo <= c.E[i].hi /\ c.E[i].hi <= c.cHi
  /\ c.valid => (0 <= c.ns /\ c.ns <= c.nt /\ c.nt <= NumE(c))

(* ------------------------------------------------------------------------ *)
(* the window                                                                *)
HasElem(c) == c.valid /\ c.nt > c.ns
ELo(c) == c.E[c.ns + 1].lo
EHi(c) == c.E[c.nt].hi

Kids(c) == DOMAIN c.kids
PrevKids(c) ==
  IF HasElem(c) THEN {k \in Kids(c) : c.kids[k].hi < ELo(c)}
  ELSE IF c.ns >= 1 THEN {k \in Kids(c) : c.kids[k].hi <= c.E[c.ns].hi}
  ELSE IF NumE(c) > 0 THEN {k \in Kids(c) : c.kids[k].hi < c.E[1].lo /\ c.kids[k].r < c.r}
  ELSE {k \in Kids(c) : c.kids[k].r < c.r}
NextKids(c) ==
  IF HasElem(c) THEN {k \in Kids(c) : c.kids[k].lo > EHi(c)}
  ELSE IF c.ns < NumE(c) THEN {k \in Kids(c) : c.kids[k].lo >= c.E[c.ns + 1].lo}
  ELSE IF NumE(c) > 0 THEN {k \in Kids(c) : c.kids[k].lo > c.E[NumE(c)].hi /\ c.kids[k].r > c.r}
  ELSE {k \in Kids(c) : c.kids[k].r > c.r}
AfterKids(c, S)  == IF S = {} THEN c.cLo ELSE SetMax({c.kids[k].hx : k \in S}) + 1
BeforeKids(c, S) == IF S = {} THEN c.cHi ELSE SetMin({c.kids[k].lo : k \in S}) - 1

(* named deviations that widen the window                                    *)
(* ElifChange: `elif` <-> `else:` + indented `if` - the If that is the sole   *)
(* element of an If's orelse changes its header and indentation when the      *)
(* orelse gains / loses an element: the whole orelse region is the window     *)
ElifChange(c)     == c.kind = "If" /\ c.field = "orelse" /\ (c.elifPre \/ c.elifPost)
(* SoleGenexp: `f(x for x in y)` - the call's parentheses double as the       *)
(* generator's; any other argument forces parentheses of its own              *)
SoleGenexp(c)     == c.soleGen
(* DependentField: deleting Raise.exc deletes the `from` clause with it       *)
DependentField(c) == c.dependent
Whole(c) == ~c.valid \/ SoleGenexp(c) \/ DependentField(c)

W(c) ==
  IF Whole(c) THEN [lo |-> c.cLo, hi |-> c.cHi]
  ELSE IF ElifChange(c) THEN [lo |-> AfterKids(c, {k \in Kids(c) : c.kids[k].r < c.r}), hi |-> c.cHi]
  ELSE [lo |-> AfterKids(c, PrevKids(c)), hi |-> BeforeKids(c, NextKids(c))]

WOk(c) == LET w == W(c) IN c.cLo <= w.lo /\ w.lo <= w.hi + 1 /\ w.hi <= c.cHi

(* ------------------------------------------------------------------------ *)
(* OutsideTokens                                                             *)
OutPre(c) == Sub(c.T, 1, c.cLo - 1)
OutSuf(c) == Sub(c.T, c.cHi + 1, N(c))
OutOk(c)  == Frames(OutPre(c), OutSuf(c), c.U)
PostHi(c) == Len(c.U) - (N(c) - c.cHi)           \* extent of the container in the post stream: [cLo, PostHi]

(* OneLineBlock: the body sits on the line of its block header               *)
(* (`class C: a = 1; b = 2`); pfst has to break the line when a statement    *)
(* that cannot stay there is put: NEWLINE / INDENT / `;` of that block move   *)
OneLineBlock(c) == c.stmt /\ NumE(c) > 0 /\ c.tf[c.E[1].lo] = 0
(* singleton comma / optional delimiters: `(a, b)` -> `(b,)`, `a, b` -> `()`  *)
SeqDelims(c) == CASE c.kind = "Tuple" -> {",", "(", ")"}
                  [] c.kind = "MatchSequence" -> {",", "(", ")", "[", "]"}
                  [] OTHER -> {}
Erasable(c, id) ==
  \/ (OneLineBlock(c) /\ (Typ(id) \in {"NEWLINE", "NL", "INDENT"} \/ Str(id) = ";"))
  \/ (~c.stmt /\ Typ(id) = "OP" /\ Str(id) \in SeqDelims(c))

Erased(c, S, idx, own) == At(S, SelectSeq(idx, LAMBDA i : ~(i \in own /\ Erasable(c, S[i]))))
(* EncloseMultiline: an undelimited expression container (`a or b`, `x, y`,   *)
(* `a < b` at statement level) that receives code spanning several lines is   *)
(* put in parentheses as a whole - the container's own grouping parentheses   *)
InPost(c, lo, hi) == Erased(c, c.U, Iota(lo, hi), c.uown)
InOk(c, w) ==
  LET l == Erased(c, c.T, Iota(c.cLo, w.lo - 1), c.own)
      r == Erased(c, c.T, Iota(w.hi + 1, c.cHi), c.own)
  IN \/ Frames(l, r, InPost(c, c.cLo, PostHi(c)))
     \/ /\ ~c.stmt /\ c.cLo < PostHi(c) /\ Str(c.U[c.cLo]) = "(" /\ Str(c.U[PostHi(c)]) = ")"
        /\ Frames(l, r, InPost(c, c.cLo + 1, PostHi(c) - 1))
     \/ /\ ~c.stmt /\ c.cLo + 1 < PostHi(c) /\ Str(c.U[c.cLo]) = "(" /\ IsComment(c.U[PostHi(c)])   \* (a line comment
        /\ Str(c.U[PostHi(c) - 1]) = ")"                                                      \* trails the container)
        /\ Frames(l, r, InPost(c, c.cLo + 1, PostHi(c) - 2) \o <<c.U[PostHi(c)]>>)

(* ElifChange re-indents and re-heads the If that is / becomes the `elif`: the *)
(* elements of the orelse that the request does not remove must come through  *)
(* as they are, token for token - only the text of INDENT tokens, `elif` <->   *)
(* `if` at the head of the element, and the text of multi-line strings that    *)
(* the docstr option declares indentable may differ:                          *)
(*   docstr = True     every expression-statement string                      *)
(*   docstr = 'strict' those in a docstring position (first statement of a    *)
(*                     module / def / class body)                             *)
(*   docstr = False    none                                                   *)
Indentable(c, i) == /\ Typ(c.T[i]) = "STRING"
                    /\ \/ (i \in c.ds1 /\ c.docstr \in {"True", "strict"})
                       \/ (i \in c.ds2 /\ c.docstr = "True")
TokSame(c, first, i, j) ==
  \/ c.T[i] = c.U[j]
  \/ (Typ(c.T[i]) = "INDENT" /\ Typ(c.U[j]) = "INDENT")
  \/ (i = first /\ Str(c.T[i]) \in {"if", "elif"} /\ Str(c.U[j]) \in {"if", "elif"})
  \/ (Indentable(c, i) /\ Typ(c.U[j]) = "STRING")
MovedOk(c, el) ==
  LET len == el.hi - el.lo + 1
      cands == {o \in c.cLo..(PostHi(c) - len + 1) : TokSame(c, el.lo, el.lo, o)}
  IN \E o \in cands : \A k \in 0..(len - 1) : TokSame(c, el.lo, el.lo + k, o + k)
ConservedElems(c) == {k \in DOMAIN c.E : ~(HasElem(c) /\ c.ns < k /\ k <= c.nt)}
MovedApplies(c) == ElifChange(c) /\ c.valid
AllMovedOk(c) == \A k \in ConservedElems(c) : MovedOk(c, c.E[k])

(* ------------------------------------------------------------------------ *)
(* the trivia option (documentation: d06_slices "Trivia", FST.options())      *)
(*   scalar x       -> (x, 'line')        ()    -> (none, none)               *)
(*   (t,)           -> ('block', t)       (l,t) -> (l, t)                     *)
(*   True -> default ('block' leading, 'line' trailing), False -> 'none',     *)
(*   '+N' / '-N' suffixes only concern empty lines, '' word -> default,       *)
(*   int -> explicit line number (0-based)                                    *)
TrueP  == [k |-> "bool", b |-> TRUE, w |-> "", sg |-> "", hasn |-> FALSE, n |-> 0]
FalseP == [k |-> "bool", b |-> FALSE, w |-> "", sg |-> "", hasn |-> FALSE, n |-> 0]
LeadPart(tv)  == IF tv.n = -1 \/ tv.n = 2 THEN tv.a[1] ELSE IF tv.n = 0 THEN FalseP ELSE TrueP
TrailPart(tv) == IF tv.n = 2 THEN tv.a[2] ELSE IF tv.n = 1 THEN tv.a[1] ELSE IF tv.n = 0 THEN FalseP ELSE TrueP
Mode(p, dflt) == IF p.k = "bool" THEN [k |-> IF p.b THEN dflt ELSE "none", n |-> 0]
                 ELSE IF p.k = "int" THEN [k |-> "int", n |-> p.n]
                 ELSE [k |-> IF p.w = "" THEN dflt ELSE p.w, n |-> 0]
Lead(c)  == Mode(LeadPart(c.tv), "block")
Trail(c) == Mode(TrailPart(c.tv), "line")

(* which operations take trivia at all: statement-like elements always,       *)
(* expression-like elements in slice operations (a single element is removed  *)
(* as a one-element slice; elements of two-node virtual fields are always     *)
(* slices), not in single-element replacement; deleting arguments.vararg /     *)
(* kwarg is carried out as a one-element slice deletion of arguments._all      *)
UsesTrivia(c) == \/ c.stmt \/ c.form \in {"slice", "del"} \/ (c.form = "one" /\ c.field = "_all")
                 \/ (c.kind = "arguments" /\ c.field \in {"vararg", "kwarg"} /\ c.deleting)

(* leading trivia of the thing that starts at token `at`: comment lines above *)
(* it, within the window                                                      *)
LeadSel(c, w, at) ==
  IF c.tf[at] # 1 \/ Lead(c).k = "none" THEN {}
  ELSE LET fl   == c.ts[at]
           left == w.lo..(at - 1)
           cand == {i \in left : IsComment(c.T[i]) /\ c.tf[i] = 1}
           cl   == {c.ts[i] : i \in cand}
           code == UNION {{c.ts[i], c.te[i]} : i \in {j \in left : ~IsTrivia(c.T[j])}}
       IN {i \in cand :
             IF Lead(c).k = "block" THEN \A x \in c.ts[i]..(fl - 1) : x \in cl
             ELSE /\ \A x \in code : ~(c.ts[i] <= x /\ x < fl)
                  /\ (Lead(c).k = "int" => c.ts[i] - 1 >= Lead(c).n)}

(* trailing trivia of the thing that ends at token `at`: the comment that     *)
(* ends its last line (only separators in between), comment lines below       *)
TrailSel(c, w, at, blk) ==
  LET le    == c.te[at]
      right == (at + 1)..w.hi
      seps  == {j \in right : \A k \in (at + 1)..j : Str(c.T[k]) \in {",", ";"}}     \* the adjoining separator
      linec == {i \in right : /\ IsComment(c.T[i]) /\ c.ts[i] = le /\ c.tf[i] = 0
                              /\ \A j \in (at + 1)..(i - 1) : j \in seps}
      codeR == {c.ts[i] : i \in {j \in right \ seps : ~IsTrivia(c.T[j])}}
      nxt   == w.hi + 1
      endsLine == /\ le \notin codeR
                  /\ ~(nxt <= N(c) /\ c.ts[nxt] = le /\ ~IsTrivia(c.T[nxt]) /\ Typ(c.T[nxt]) # "ENDMARKER")
      lineSel == IF (Trail(c).k # "none" /\ ~(Trail(c).k = "int" /\ Trail(c).n < le - 1)) \/ (blk /\ c.stmt)
                 THEN linec ELSE {}
      cand  == {i \in right : IsComment(c.T[i]) /\ c.tf[i] = 1}
      cl    == {c.ts[i] : i \in cand}
      below == IF endsLine /\ Trail(c).k \notin {"none", "line"}
               THEN {i \in cand :
                       IF Trail(c).k = "block" THEN \A x \in (le + 1)..c.ts[i] : x \in cl
                       ELSE /\ \A x \in codeR : ~(le < x /\ x <= c.ts[i])
                            /\ (Trail(c).k = "int" => c.ts[i] - 1 <= Trail(c).n)}
               ELSE {}
  IN lineSel \cup below
(* EmptiedBlock: the last statement of an `else:` / `finally:` block goes, or  *)
(* the whole `else:` block of an If is replaced by a single If that is written *)
(* as `elif` - the header goes with it; the leading trivia is then taken at    *)
(* the header and the comments between the header and the first statement     *)
(* have no block left to be in                                                 *)
EmptiedBlock(c) == /\ c.stmt /\ c.field \in {"orelse", "finalbody"} /\ HasElem(c)
                   /\ c.ns = 0 /\ c.nt = NumE(c)
                   /\ (c.deleting \/ (c.kind = "If" /\ c.field = "orelse" /\ c.elifPost /\ ~c.elifPre))
Header(c, w) == IF ~EmptiedBlock(c) THEN 0
                ELSE LET hs == {i \in w.lo..(ELo(c) - 1) : i \in c.own /\ Str(c.T[i]) \in {"else", "finally"}}
                     IN IF hs = {} THEN 0 ELSE SetMin(hs)
LeadAt(c, w) == LET h == Header(c, w) IN IF h # 0 THEN h ELSE ELo(c)
HeaderGone(c, w) == LET h == Header(c, w) IN IF h = 0 THEN {} ELSE {i \in h..(ELo(c) - 1) : IsComment(c.T[i])}

(* comments the trivia option selects for the removed / replaced element(s)  *)
Selected(c, w) ==
  IF ~HasElem(c) \/ Whole(c) \/ ~UsesTrivia(c) THEN {}
  ELSE LeadSel(c, w, LeadAt(c, w)) \cup TrailSel(c, w, EHi(c), c.E[c.nt].blk)
(* comments that are part of the removed element(s)                          *)
InsideDeleted(c) == IF HasElem(c) THEN {i \in ELo(c)..EHi(c) : IsComment(c.T[i])} ELSE {}
AllGone(c, w) == Selected(c, w) \cup InsideDeleted(c) \cup HeaderGone(c, w)

CommentIdx(S) == SelectSeq(Iota(1, Len(S)), LAMBDA i : IsComment(S[i]))
MustIdx(c, gone) == SelectSeq(CommentIdx(c.T), LAMBDA i : i \notin gone)

(* a conserved comment is found again, in order; a comment that had a line   *)
(* of its own still has one, and a comment of the window that shared its     *)
(* line with code shares its new line only with code it shared a line with   *)
(* before or with the new code (it did not move into another statement)       *)
(* pre: the code of the comment's logical line (the statement text between two *)
(* NEWLINE tokens); post: the code on the comment's physical line that is not  *)
(* an own token of the container (field syntax pfst has to write: `->`, `**`)  *)
PreMates(c, i)  == LET a == SetMax({0} \cup {z \in 1..(i - 1) : Typ(c.T[z]) = "NEWLINE"})
                       b == SetMin({N(c)} \cup {z \in (i + 1)..N(c) : Typ(c.T[z]) = "NEWLINE"})
                   IN {c.T[q] : q \in {z \in (a + 1)..b : ~IsTrivia(c.T[z])}}
PostMates(c, j) == {c.U[q] : q \in {z \in 1..Len(c.U) : /\ c.us[z] <= c.us[j] /\ c.us[j] <= c.ue[z]
                                                         /\ ~IsTrivia(c.U[z]) /\ z \notin c.uown}}
Glue == {",", ";", "(", ")"}
SameCompany(c, i, j) ==
  LET pm == PreMates(c, i) IN
  \A t \in PostMates(c, j) : \/ t \in pm \/ t \in RangeOf(c.newk) \/ (Typ(t) = "OP" /\ Str(t) \in Glue)
                              \/ (ElifChange(c) /\ Str(t) \in {"if", "elif", "else", ":"})   \* the rewritten header
Matches(c, w, i, j) ==
  /\ c.T[i] = c.U[j]
  /\ c.tf[i] = 1 => c.uf[j] = 1
  /\ (c.tf[i] = 0 /\ w.lo <= i /\ i <= w.hi /\ c.uf[j] = 0) => SameCompany(c, i, j)
RECURSIVE LostFrom(_, _, _, _, _, _)
LostFrom(c, w, need, have, i, j) ==
  IF i > Len(need) THEN {}
  ELSE LET ks == {k \in j..Len(have) : Matches(c, w, need[i], have[k])}
       IN IF ks = {} THEN {need[i]} \cup LostFrom(c, w, need, have, i + 1, j)
          ELSE LostFrom(c, w, need, have, i + 1, SetMin(ks) + 1)
Lost(c, w) == LET gone == AllGone(c, w) IN LostFrom(c, w, MustIdx(c, gone), CommentIdx(c.U), 1, 1)

(* no comment is duplicated or invented: every comment of the result is a     *)
(* comment of the original or of the new code, with multiplicity               *)
NoDup(c) ==
  SubBagOf(BagOfSeq(At(c.U, CommentIdx(c.U))), BagOfSeq(At(c.T, CommentIdx(c.T))) (+) BagOfSeq(c.newc))

(* ------------------------------------------------------------------------ *)
(* lines                                                                     *)
TouchLo0(c, w) ==
  IF w.lo = 1 THEN 1
  ELSE IF Typ(c.T[w.lo - 1]) \in {"NEWLINE", "NL"} THEN c.te[w.lo - 1] + 1 ELSE c.te[w.lo - 1]
TouchHi0(c, w) == LET q == w.hi + 1 IN
  IF q > N(c) \/ Typ(c.T[q]) = "ENDMARKER" THEN Len(c.L)
  ELSE IF c.tf[q] = 1 /\ c.stmt THEN c.ts[q] - 1 ELSE c.ts[q]
   \* a new statement gets lines of its own; a new expression element may share the line of its neighbour
(* the optional delimiters / singleton comma of a Tuple or MatchSequence sit on *)
(* the first and last line of the container                                    *)
DelimLines(c) == ~c.stmt /\ SeqDelims(c) # {} /\ c.cLo <= c.cHi
TouchLo(c, w) == IF OneLineBlock(c) THEN TMin(TouchLo0(c, w), c.ts[c.E[1].lo])
                 ELSE IF DelimLines(c) THEN TMin(TouchLo0(c, w), c.ts[c.cLo]) ELSE TouchLo0(c, w)
TouchHi(c, w) == IF OneLineBlock(c) THEN TMax(TouchHi0(c, w), c.te[c.E[NumE(c)].hi])
                 ELSE IF DelimLines(c) THEN TMax(TouchHi0(c, w), c.te[c.cHi]) ELSE TouchHi0(c, w)

(* la, lb: first / last physical line of the touched range                   *)
LinesPre(c, la) == Sub(c.L, 1, la - 1)
LinesSuf(c, lb) == Sub(c.L, lb + 1, Len(c.L))
LinesOk(c, la, lb)  == Frames(LinesPre(c, la), LinesSuf(c, lb), c.M)
MidLines(c, la, lb) == Middle(LinesPre(c, la), LinesSuf(c, lb), c.M)

(* BlankLines (statement-level): the trivia lines of the touched range that   *)
(* are not selected stay as contiguous blocks - above and below the element - *)
(* byte for byte, interior blank lines included; only the blank lines         *)
(* directly next to the element (and its selected trivia) may come and go     *)
TrivLine(c, w, l) ==
  /\ (w.lo = 1 \/ c.te[w.lo - 1] < l) /\ (w.hi + 1 > N(c) \/ c.ts[w.hi + 1] > l)
  /\ \A i \in w.lo..w.hi : (c.ts[i] <= l /\ l <= c.te[i]) => (IsTrivia(c.T[i]) /\ Typ(c.T[i]) # "INDENT")
RunUp(c, w, la, x)   == LET tl == {l \in la..(x - 1) : TrivLine(c, w, l)}
                        IN SelectSeq(Iota(la, x - 1), LAMBDA l : \A l2 \in l..(x - 1) : l2 \in tl)
RunDown(c, w, lb, y) == LET tl == {l \in (y + 1)..lb : TrivLine(c, w, l)}
                        IN SelectSeq(Iota(y + 1, lb), LAMBDA l : \A l2 \in (y + 1)..l : l2 \in tl)
KeepUp(c, w, la, goneLines) ==
  LET run == SelectSeq(RunUp(c, w, la, c.ts[LeadAt(c, w)]), LAMBDA l : l \notin goneLines)
  IN SelectSeq(run, LAMBDA l : \E k \in DOMAIN run : run[k] >= l /\ ~Blank(c.L[run[k]]))     \* minus trailing blanks
KeepDown(c, w, lb, goneLines) ==
  LET run == SelectSeq(RunDown(c, w, lb, c.te[EHi(c)]), LAMBDA l : l \notin goneLines)
  IN SelectSeq(run, LAMBDA l : \E k \in DOMAIN run : run[k] <= l /\ ~Blank(c.L[run[k]]))     \* minus leading blanks
BlankApplies(c) == c.stmt /\ HasElem(c) /\ ~Whole(c) /\ ~ElifChange(c) /\ ~OneLineBlock(c)
BlankOk(c, w, la, lb, goneLines) ==
  InfixThen(At(c.L, KeepUp(c, w, la, goneLines)), At(c.L, KeepDown(c, w, lb, goneLines)), MidLines(c, la, lb))

(* ------------------------------------------------------------------------ *)
(* the clauses of one case                                                   *)
TokenClauses(c) ==
  IF ~FactsOk(c) \/ ~WOk(c) THEN {Cl("Facts", FALSE)}
  ELSE LET w  == W(c)
           la == TouchLo(c, w)
           lb == TouchHi(c, w)
           goneLines == {c.ts[i] : i \in Selected(c, w) \cup HeaderGone(c, w)}
           linesOk == LinesOk(c, la, lb)
       IN {Cl("Facts", TRUE), Cl("OutsideTokens.out", OutOk(c))}
          \cup (IF OutOk(c) /\ c.uoOk THEN {Cl("OutsideTokens.in", InOk(c, w))} ELSE {})
          \cup (IF OutOk(c) /\ MovedApplies(c) THEN {Cl("OutsideTokens.moved", AllMovedOk(c))} ELSE {})
          \cup {Cl("Comments.lost", Lost(c, w) = {}), Cl("Comments.dup", NoDup(c)), Cl("OutsideLines", linesOk)}
          \cup (IF BlankApplies(c) /\ linesOk THEN {Cl("BlankLines", BlankOk(c, w, la, lb, goneLines))} ELSE {})

(* ---- case class (narrow identification of known findings, DESIGN 2.6)      *)
(* TRAILING trivia a zero-length slice put would take if the insertion point  *)
(* were the end of an element: appending - the trailing trivia of the         *)
(* previous element; inserting at the head - what trails the opening          *)
(* delimiter.  (The leading trivia of the following element is NOT part of    *)
(* this class: losing it is reported.)                                        *)
InsertTrailingSel(c) ==
  IF HasElem(c) \/ Whole(c) \/ c.stmt \/ c.form # "slice" THEN {}
  ELSE LET w == W(c)
           pk == {k \in Kids(c) : w.lo <= c.kids[k].lo /\ c.kids[k].hi <= w.hi}       \* children of an interleaved field
           first == IF c.ns < NumE(c) THEN c.E[c.ns + 1].lo ELSE IF pk = {} THEN w.hi + 1 ELSE SetMin({c.kids[k].lo : k \in pk})
           opens == {i \in w.lo..(first - 1) : i \in c.own /\ Str(c.T[i]) \in {"(", "[", "{"}}
           \* inserting at the head of the sequence: the put location starts right after the opening delimiter
           head == IF c.ns = 0 /\ opens # {} THEN TrailSel(c, w, SetMax(opens), FALSE) ELSE {}
       IN head \cup
          (IF c.ns < NumE(c) THEN {}
           ELSE IF c.ns >= 1 THEN TrailSel(c, w, c.E[c.ns].hi, FALSE)
           ELSE IF pk = {} THEN {}
           ELSE TrailSel(c, w, SetMax({c.kids[k].hi : k \in pk}), FALSE))
(* (with repeated comment texts the greedy matching may blame other comments  *)
(* than the ones that went; the class is therefore decided by asking whether   *)
(* everything *but* the trailing trivia at the insertion point is conserved)   *)
(* operator-separated sequences (BoolOp values, Compare operands): comments   *)
(* of the window that lie outside the removed operand(s), i.e. between an     *)
(* adjoining operator and the operand                                         *)
OperatorGapComments(c) ==
  IF ~(c.kind \in {"BoolOp", "Compare"}) \/ ~HasElem(c) \/ Whole(c) THEN {}
  ELSE LET w == W(c) IN {i \in w.lo..w.hi : IsComment(c.T[i]) /\ (i < ELo(c) \/ i > EHi(c))}
LostClass(c) ==
  IF ~FactsOk(c) \/ ~WOk(c) THEN ""
  ELSE LET w == W(c)
           its == InsertTrailingSel(c)
           ogc == OperatorGapComments(c)
           conservedBut(S) == LostFrom(c, w, MustIdx(c, AllGone(c, w) \cup S), CommentIdx(c.U), 1, 1) = {}
       IN IF Lost(c, w) = {} THEN ""
          ELSE IF its # {} /\ conservedBut(its) THEN "/lost=insert-trailing-trivia"
          ELSE IF ogc # {} /\ conservedBut(ogc) THEN "/lost=between-operator-and-operand"
          ELSE ""

=============================================================================
