\* NOT part of the check: lets TLC refute FollowsElements (a view does not follow its elements
\* when the field is edited behind its back; the documentation promises truncation only).
SPECIFICATION Spec
CONSTANTS
  MaxLen = 3
  MaxNew = 1
  MaxViews = 1
  InitLens = {3}
  ThLen = 0
  ThIdx = 0
VIEW StateView
PROPERTY FollowsElements
CHECK_DEADLOCK FALSE
