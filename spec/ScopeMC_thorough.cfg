SPECIFICATION Spec
CONSTANTS
  MaxDepth = 3
  MaxScopes = 4
  MaxPerScope = 3
  MaxNamed = 3
  MaxWeight = 4
  Shared <- SharedP
  PosOn <- AllPos
CHECK_DEADLOCK FALSE
INVARIANT OwnerTotal
INVARIANT OwnerPartition
INVARIANT ViewsAgree
INVARIANT WalrusOwnerOk
INVARIANT HeaderOutside
INVARIANT CatAlgebra
INVARIANT FreeMapping
INVARIANT LocalMapping
INVARIANT TablesTree
