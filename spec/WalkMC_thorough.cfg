SPECIFICATION Spec
CONSTANTS
  MaxN = 6
  GenMaxN = 5
INVARIANT IterTheorems
INVARIANT GenTheorem
INVARIANT GenPrefix
INVARIANT ThmSetOnce
INVARIANT ThmParentChild
INVARIANT ThmSiblingOrder
INVARIANT ThmNumbering
INVARIANT ThmPostIsRevPre
INVARIANT ThmBoth
INVARIANT ThmNextPrevInverse
INVARIANT ThmChildInverse
INVARIANT ThmStepLocal
INVARIANT ThmStepViaSeq
INVARIANT ThmPath
CHECK_DEADLOCK FALSE
