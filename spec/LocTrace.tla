------------------------------ MODULE LocTrace -------------------------------
(* C06 trace validation.  One trace = one source snapshot (see LocLaws); its   *)
(* steps are one "node" step per node of the table, judged by the per-node     *)
(* clauses of LocLaws, followed by "find" steps, one per query rectangle,      *)
(* judged against the brute-force definitions of LocFind over the RECORDED     *)
(* node spans.  Verdicts are total: Next is always enabled, failing clauses    *)
(* accumulate as <<step, clause, class>> and are printed once per trace.       *)
EXTENDS LocLaws, LocFind, Batch, TLC

VARIABLES tid, l, bad, seen, tr       \* tr = the current trace with its memo tables (not fingerprinted: VIEW)
vars == <<tid, l, bad, seen, tr>>
view == <<tid, l, bad, seen>>

Tr == tr
Steps(t) == Traces[t].steps

(* ---- find steps -------------------------------------------------------------- *)
ParF(T) == T.m.par
SpF(T)  == T.m.sp

(* DebugFieldFree (named domain predicate): CPython 3.12 positions the text Constant of a   *)
(* self-documenting f-string field `{x = }` INSIDE the field although it is the field's       *)
(* previous sibling (LocLaws!DebugText), so the span tree is not well-formed there and the    *)
(* docstrings of find_* do not determine an answer; a rectangle is judged unless it cuts into *)
(* such a pair (it may lie beside it or reach beyond it on at least one side)                 *)
(* T.m.dbg: the regions <<lo, hi>> covered by such pairs, from CPython's positions (LocLaws!Memo) *)
DebugFieldFree(T, r) ==
  \A u \in T.m.dbg : r[2] <= u[1] \/ u[2] <= r[1] \/ (r[1] <= u[1] /\ u[2] <= r[2] /\ r # u)

QRect(q) == <<P(q.r[1], q.r[2]), P(q.r[3], q.r[4])>>
QDomain(T, q) == /\ q.frm \in 1..NN(T) /\ RLoc(T, q.frm) # NoSpan
                 /\ QRect(q)[1] <= QRect(q)[2] /\ DebugFieldFree(T, QRect(q))

FindClauses(T, q) ==
  IF ~QDomain(T, q) THEN {Cl("Find.outside_domain", TRUE)}
  ELSE
  LET par == ParF(T)  sp == SpF(T)  r == QRect(q)
      N == ScopePre(par, sp, q.frm)
      proper == r[1] < r[2]
      det == Determined(sp, N, r)
      cov == CovSet(sp, N, r, TRUE)
      weakest == FindLocWeakest(sp, N, r)
  IN {Cl("Find.in", Agrees(q.fin, FindIn(sp, N, r))),
      Cl("Find.contains", Agrees(q.cT, IF proper THEN FindContains(par, sp, N, r, "T") ELSE cov)),
      Cl("Find.contains_noexact",
         Agrees(q.cF, IF proper THEN FindContains(par, sp, N, r, "F") ELSE CovSet(sp, N, r, FALSE))),
      Cl("Find.contains_top", Agrees(q.cTop, IF proper THEN FindContains(par, sp, N, r, "top") ELSE cov)),
      Cl("Find.loc", Agrees(q.lF, IF det THEN FindLoc(par, sp, N, r, FALSE) ELSE weakest)),
      Cl("Find.loc_top", Agrees(q.lT, IF det THEN FindLoc(par, sp, N, r, TRUE) ELSE weakest))}

(* case class of a find step (descriptive only; no class is excused): the rectangle    *)
(* lies in the decorators of a node (inside its bounding location, before its `loc`),   *)
(* several nodes share it as location, or it is a plain proper / empty rectangle        *)
FindClass(T, q) ==
  IF ~QDomain(T, q) THEN "outside"
  ELSE LET sp == SpF(T)  r == QRect(q)
           N == ScopePre(ParF(T), sp, q.frm)
           D == {n \in N : LET b == RBloc(T, n) s == RLoc(T, n)
                           IN b # NoSpan /\ b[1] < s[1] /\ Covers(b, r) /\ r[1] < s[1]}
       IN (IF r[1] < r[2] THEN "proper" ELSE "empty")
          \o (IF D # {} THEN "/in-decorators" ELSE "")
          \o (IF Cardinality(ExactSet(sp, N, r)) > 1 THEN "/shared-location" ELSE "")

Clauses(e) ==
  CASE e.ev = "node" -> NodeClauses(Tr, e.n)
    [] e.ev = "find" -> FindClauses(Tr, e)
    [] OTHER -> {Cl("UnknownEvent", FALSE)}
ClassOf(e) ==
  CASE e.ev = "node" -> NodeClass(Tr, e.n)
    [] e.ev = "find" -> FindClass(Tr, e)
    [] OTHER -> "?"

(* one behaviour: the traces of the batch one after the other (a single initial  *)
(* state; TLC's cost per initial state grows with the size of the batch)         *)
Init == tid = 1 /\ l = 1 /\ bad = {} /\ seen = {} /\ tr = Memo(Traces[1])

Step == /\ l <= Len(Steps(tid))
        /\ LET e == Steps(tid)[l]
               cs == Clauses(e)
               failed == {q \in cs : ~q.ok}
           IN /\ bad' = (IF failed = {} THEN bad ELSE bad \cup {<<l, q.c, ClassOf(e)>> : q \in failed})
              /\ seen' = seen \cup {q.c : q \in cs}
        /\ l' = l + 1
        /\ UNCHANGED <<tid, tr>>

NextTrace == /\ l > Len(Steps(tid)) /\ tid < Len(Traces)
             /\ tid' = tid + 1 /\ l' = 1 /\ bad' = {} /\ seen' = {} /\ tr' = Memo(Traces[tid + 1])

Next == Step \/ NextTrace

Spec == Init /\ [][Next]_vars

Report == (l = Len(Steps(tid)) + 1) => PrintT(<<"VERDICT", Traces[tid].id, bad, seen>>)
=============================================================================
