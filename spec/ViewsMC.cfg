SPECIFICATION Spec
CONSTANTS
  MaxLen = 3
  MaxNew = 2
  MaxViews = 2
  InitLens = {0, 3}
  ThLen = 3
  ThIdx = 5
VIEW StateView
INVARIANT Distinct
INVARIANT ExtentOK
INVARIANT FullViewIsField
INVARIANT DirtyIsLive
PROPERTY BaseIsPythonList
PROPERTY ViewExtent
PROPERTY SubviewComposes
PROPERTY OnlyUseMoves
PROPERTY UseReclips
PROPERTY BasePutIsPython
CHECK_DEADLOCK FALSE
