----------------------------- MODULE ParseTrace ------------------------------
(* C05 trace validation: every recorded call  parse(mode, text)  of the real   *)
(* pfst must be the Parse action of ParseModes.tla.                            *)
(*                                                                            *)
(* Event (one per call):                                                       *)
(*   [call |-> "parse", api, mode, cat, text : ttab id, hasTok,                *)
(*    outcome : "tree" | "reject",                                             *)
(*    got : [hasSrc, src : ttab id, root : pid],                               *)
(*    alts : Seq([parses, full : pid, fullS : sid, phS : sid, straddle, balanced,*)
(*                region : <<l,c,el,ec>>, tok : <<l,c,el,ec>>, indLines])]     *)
(* `alts` are the oracle facts for the alternatives of Row(mode), in table     *)
(* order: CPython's parse of the embedding (projected to the hash-consed       *)
(* tables), CPython's parse of the placeholder embedding, tokenize's           *)
(* first/last non-trivia token of the fragment inside the embedding.           *)
(* Everything else - the path walk, the outside-structure comparison, the      *)
(* containment test, Unwrap, the shift, the comparison with what pfst          *)
(* returned - is evaluated here.                                               *)
(*   [call |-> "fromast", inS : sid, got : [src, root], srcOk, srcP : pid]     *)
EXTENDS ParseModes, NodeTab

VARIABLES tid, l, bad, seen
vars == <<tid, l, bad, seen>>

Cl(name, ok) == [c |-> name, ok |-> ok]
Steps(t) == Traces[t].steps

Tail2(s, n) == IF n >= Len(s) THEN <<>> ELSE SubSeq(s, n + 1, Len(s))

(* ---- walking / comparing the tables -------------------------------------- *)
RECURSIVE AllInside(_, _)
AllInside(y, R) ==
  IF y = 0 THEN TRUE
  ELSE /\ Inside(PPos(y), R)
       /\ \A i \in 1..Len(PTab[y].f) : \A j \in 1..Len(PTab[y].f[i].c) : AllInside(PTab[y].f[i].c[j], R)

ChildrenInside(y, R) ==
  y # 0 /\ \A i \in 1..Len(PTab[y].f) : \A j \in 1..Len(PTab[y].f[i].c) : AllInside(PTab[y].f[i].c[j], R)

(* structure off `path` identical (sids); at the end of the path the indexed element is free, its siblings and the *)
(* list length are not                                                                                             *)
RECURSIVE SameOutsideNode(_, _, _)
SameOutsideNode(x, y, path) ==
  IF path = <<>> THEN TRUE
  ELSE IF x = 0 \/ y = 0 THEN FALSE
  ELSE /\ STab[x].k = STab[y].k /\ STab[x].v = STab[y].v /\ Len(STab[x].f) = Len(STab[y].f)
       /\ \A i \in 1..Len(STab[x].f) :
            LET fx == STab[x].f[i]  fy == STab[y].f[i] IN
            /\ fx.n = fy.n
            /\ IF fx.n # path[1].n THEN fx.c = fy.c
               ELSE /\ Len(fx.c) = Len(fy.c) /\ path[1].i \in 1..Len(fx.c)
                    /\ \A j \in 1..Len(fx.c) :
                         IF j = path[1].i THEN SameOutsideNode(fx.c[j], fy.c[j], Tail(path)) ELSE fx.c[j] = fy.c[j]

(* list modes: the owner keeps kind, its other fields and the first `drop` (placeholder) elements of `fields` *)
OwnerSame(x, y, fields, drop, dropR) ==
  /\ x # 0 /\ y # 0 /\ STab[x].k = STab[y].k /\ Len(STab[x].f) = Len(STab[y].f)
  /\ \A i \in 1..Len(STab[x].f) :
       LET fx == STab[x].f[i]  fy == STab[y].f[i] IN
       /\ fx.n = fy.n
       /\ IF \E k \in 1..Len(fields) : fields[k] = fx.n
          THEN /\ Len(fx.c) >= drop + dropR /\ Len(fy.c) >= drop + dropR
               /\ SubSeq(fx.c, 1, drop) = SubSeq(fy.c, 1, drop)
               /\ SubSeq(fx.c, Len(fx.c) - dropR + 1, Len(fx.c)) = SubSeq(fy.c, Len(fy.c) - dropR + 1, Len(fy.c))
          ELSE fx.c = fy.c

SameOutsideList(x, y, path, fields, drop, dropR) ==
  /\ SameOutsideNode(x, y, path)
  /\ OwnerSame(NodeAt(x, path), NodeAt(y, path), fields, drop, dropR)

(* ---- the facts of one alternative ----------------------------------------- *)
OwnLines(a) == Len(a.pre) >= 2 /\ a.pre[Len(a.pre)] = "" /\ a.suf[1] = "" /\ Len(a.suf) >= 2
DelimSpan(a, f) == <<DLine(a), Len(a.pre[DLine(a)]) - 1, f.region[3] + 1, 1>>

Mid(s, dl, dr) == IF dl + dr >= Len(s) THEN <<>> ELSE SubSeq(s, dl + 1, Len(s) - dr)
Elems(row, a, owner, fl) == Mid(PFieldSeq(owner, fl), DropOf(row, a), DropROf(row, a))
ExpList(row, a, owner) ==
  IF row.merged THEN Mid(MergeByPos(PFieldSeq(owner, row.fields[1]), PFieldSeq(owner, row.fields[2])), DropOf(row, a), DropROf(row, a))
  ELSE <<>>

IsStarQuirk(y) ==
  /\ PKind(y) = "Tuple"
  /\ LET e == PFieldSeq(y, "elts") IN
     /\ Len(e) = 1 /\ PKind(e[1]) = "Starred" /\ Len(PPos(e[1])) = 4 /\ Len(PPos(y)) = 4
     /\ PPos(e[1])[3] = PPos(y)[3] /\ PPos(e[1])[4] = PPos(y)[4]

Facts(row, a, f) ==
  LET sub == IF f.parses THEN PNodeAt(f.full, a.path) ELSE 0
      phsub == NodeAt(f.phS, a.path)
      isList == row.shape = "list"
  IN [parses |-> f.parses, straddle |-> f.straddle, balanced |-> f.balanced, pathOk |-> sub # 0,
      outsideSame |-> IF ~f.parses THEN FALSE
                      ELSE IF isList THEN SameOutsideList(f.fullS, f.phS, a.path, row.fields, DropOf(row, a), DropROf(row, a))
                      ELSE SameOutsideNode(f.fullS, f.phS, a.path),
      kindOk |-> IF isList THEN TRUE ELSE PKind(sub) \in (IF a.only = {} THEN row.kinds ELSE a.only),
      contained |-> IF row.shape = "op" THEN TRUE
                    ELSE IF isList THEN \A k \in 1..Len(row.fields) : \A j \in 1..Len(Elems(row, a, sub, row.fields[k])) :
                                            AllInside(Elems(row, a, sub, row.fields[k])[j], f.region)
                    ELSE AllInside(sub, f.region),
      unwrapped |-> /\ ~isList /\ OwnLines(a) /\ PKind(sub) \in {"Tuple", "MatchSequence"}
                    /\ PPos(sub) = DelimSpan(a, f) /\ ChildrenInside(sub, f.region)
                    /\ Len(PFieldSeq(sub, IF PKind(sub) = "Tuple" THEN "elts" ELSE "patterns")) >= 1,
      starQuirk |-> IsStarQuirk(sub),
      sameAsPh |-> IF isList THEN \A k \in 1..Len(row.fields) :
                                     /\ [j \in 1..Len(PFieldSeq(sub, row.fields[k])) |-> PSid(PFieldSeq(sub, row.fields[k])[j])]
                                          = FieldSeq(phsub, row.fields[k])
                                     /\ \A j \in 1..Len(PFieldSeq(sub, row.fields[k])) : PPos(PFieldSeq(sub, row.fields[k])[j]) = f.tok
                   ELSE PSid(sub) = phsub /\ PPos(sub) = f.tok]

(* ---- expected tree = Shift(SubAt(full, path)) ----------------------------- *)
IndSet(f) == {f.indLines[i] : i \in 1..Len(f.indLines)}

RECURSIVE ShiftEq(_, _, _, _)
ShiftEq(g, x, a, f) ==
  IF g = 0 \/ x = 0 THEN g = x
  ELSE /\ PTab[g].s = PTab[x].s /\ PTab[g].x = PTab[x].x
       /\ PTab[g].p = ShiftPos(PTab[x].p, a, IndSet(f))
       /\ Len(PTab[g].f) = Len(PTab[x].f)
       /\ \A i \in 1..Len(PTab[g].f) :
            /\ Len(PTab[g].f[i].c) = Len(PTab[x].f[i].c)
            /\ \A j \in 1..Len(PTab[g].f[i].c) : ShiftEq(PTab[g].f[i].c[j], PTab[x].f[i].c[j], a, f)

(* Unwrap: the root's span is the fragment's first-to-last token, the children are shifted as usual *)
ShiftEqRoot(g, x, a, f, unwrapRoot) ==
  IF ~unwrapRoot THEN ShiftEq(g, x, a, f)
  ELSE /\ g # 0 /\ x # 0 /\ PTab[g].s = PTab[x].s /\ PTab[g].x = PTab[x].x
       /\ PTab[g].p = ShiftPos(f.tok, a, IndSet(f))
       /\ Len(PTab[g].f) = Len(PTab[x].f)
       /\ \A i \in 1..Len(PTab[g].f) :
            /\ Len(PTab[g].f[i].c) = Len(PTab[x].f[i].c)
            /\ \A j \in 1..Len(PTab[g].f[i].c) : ShiftEq(PTab[g].f[i].c[j], PTab[x].f[i].c[j], a, f)

SeqShiftEq(gs, xs, a, f) == Len(gs) = Len(xs) /\ \A j \in 1..Len(gs) : ShiftEq(gs[j], xs[j], a, f)
SeqSidEq(gs, xs) == Len(gs) = Len(xs) /\ \A j \in 1..Len(gs) : PSid(gs[j]) = PSid(xs[j])

(* comparison of what pfst returned (root pid g) with alternative a *)
StructEq(row, a, f, g) ==
  LET sub == PNodeAt(f.full, a.path) IN
  CASE row.shape = "list" /\ row.merged -> SeqSidEq(PFieldSeq(g, "arglikes"), ExpList(row, a, sub))
    [] row.shape = "list" -> \A k \in 1..Len(row.fields) : SeqSidEq(PFieldSeq(g, row.fields[k]), Elems(row, a, sub, row.fields[k]))
    [] OTHER -> PSid(g) = PSid(sub)

PosEq(row, a, f, g, fc) ==
  LET sub == PNodeAt(f.full, a.path) IN
  CASE row.shape = "list" /\ row.merged -> SeqShiftEq(PFieldSeq(g, "arglikes"), ExpList(row, a, sub), a, f)
    [] row.shape = "list" -> \A k \in 1..Len(row.fields) : SeqShiftEq(PFieldSeq(g, row.fields[k]), Elems(row, a, sub, row.fields[k]), a, f)
    [] row.shape = "op" -> PSid(g) = PSid(sub)
    [] OTHER -> ShiftEqRoot(g, sub, a, f, ~fc.contained)

EmptyGot(row, g) ==
  /\ g # 0
  /\ IF row.merged THEN PFieldSeq(g, "arglikes") = <<>> ELSE \A k \in 1..Len(row.fields) : PFieldSeq(g, row.fields[k]) = <<>>

(* ---- clauses of one event ------------------------------------------------- *)
ParseClauses(e) ==
  LET row == Row(e.mode)
      n   == Len(row.alts)
      ok  == Len(e.alts) = n
      fcs == [i \in 1..n |-> Facts(row, row.alts[i], e.alts[i])]
      val == [i \in 1..n |-> AltValid(row.alts[i], fcs[i])]
      alw == Allowed(row, val, e.hasTok, e.blank, e.leadTrivia)
      V   == {i \in 1..n : val[i]}
      emptyCase == row.shape = "list" /\ row.emptyOk /\ ~e.hasTok
      g   == e.got.root
  IN
  IF row.shape = "unknown" \/ ~ok THEN {Cl("ModeKnown", FALSE)}
  ELSE IF row.shape = "any" THEN {Cl("ModeKnown", TRUE)}
  ELSE IF e.outcome # "tree" THEN {Cl("ModeKnown", TRUE), Cl("RejectedOnlyIfInvalid", "reject" \in alw),
                                    (* a rejection is a SyntaxError (ParseError) / ValueError, never an internal crash *)
                                    Cl("CleanOutcome", e.outcome = "reject")}
  ELSE {Cl("ModeKnown", TRUE), Cl("AcceptedOnlyIfValid", "tree" \in alw),
        Cl("KindAdmitted", PKind(g) \in row.kinds)}
       \cup (IF e.got.hasSrc THEN {Cl("TextKept", e.got.src = e.text /\ TTab[e.got.src] = TTab[e.text])} ELSE {})
       \cup (IF "tree" \notin alw THEN {}
             ELSE IF V = {} THEN {Cl("TreeIsSubtree.struct", EmptyGot(row, g))}
             ELSE LET i == CHOOSE i \in V : \A j \in V : i <= j IN
                  {Cl("TreeIsSubtree.struct", StructEq(row, row.alts[i], e.alts[i], g)),
                   Cl("TreeIsSubtree.pos", PosEq(row, row.alts[i], e.alts[i], g, fcs[i])),
                   (* the alternatives are one definition: whenever two of them are valid they denote the same tree *)
                   Cl("AltsAgree", \A j \in V : StructEq(row, row.alts[j], e.alts[j], g) = StructEq(row, row.alts[i], e.alts[i], g)
                                                /\ PosEq(row, row.alts[j], e.alts[j], g, fcs[j]) = PosEq(row, row.alts[i], e.alts[i], g, fcs[i]))})

(* fromast(ast.parse(text)): the tree is structurally the given one and is exactly CPython's parse of the source *)
(* pfst generated for it                                                                                        *)
FromAstClauses(e) ==
  IF e.outcome = "reject" THEN {Cl("FromAst.accepts", FALSE)}
  ELSE {Cl("FromAst.accepts", TRUE), Cl("FromAst.struct", PSid(e.got.root) = e.inS),
        Cl("FromAst.sync", e.srcOk /\ e.got.root = e.srcP)}

Clauses(e) ==
  CASE e.call = "parse"   -> ParseClauses(e)
    [] e.call = "fromast" -> FromAstClauses(e)
    [] OTHER -> {Cl("UnknownEvent", FALSE)}

(* case class of a verdict = mode : how far the best alternative got : generator category *)
Level(a, fc) ==
  IF ~fc.parses THEN 1 ELSE IF fc.straddle \/ ~fc.balanced THEN 2 ELSE IF ~fc.pathOk THEN 3
  ELSE IF ~fc.outsideSame THEN 4 ELSE IF ~fc.kindOk THEN 5
  ELSE IF ~(fc.contained \/ (a.unwrap /\ fc.unwrapped)) THEN 6 ELSE IF ~AltValid(a, fc) THEN 7 ELSE 8
LevelName == <<"noparse", "unbalanced", "nopath", "outside", "kind", "uncontained", "quirk", "valid">>
Reason(e) ==
  LET row == Row(e.mode)  n == Len(row.alts) IN
  IF row.shape \notin {"node", "op", "list"} \/ Len(e.alts) # n \/ n = 0 THEN "noalt"
  ELSE LET lv == [i \in 1..n |-> Level(row.alts[i], Facts(row, row.alts[i], e.alts[i]))]
           best == CHOOSE i \in 1..n : \A j \in 1..n : lv[j] <= lv[i]
       IN IF ~e.hasTok THEN "empty" ELSE LevelName[lv[best]]
ClassOf(e) == IF e.call = "parse" THEN e.mode \o ":" \o Reason(e) \o ":" \o e.cat ELSE "fromast:" \o e.cat

Init == /\ tid \in 1..Len(Traces) /\ l = 1 /\ bad = {} /\ seen = {}

Next == /\ l <= Len(Steps(tid))
        /\ LET e == Steps(tid)[l] IN
           \E cs \in {Clauses(e)} :                       \* evaluated once per event
              /\ bad' = bad \cup {<<l, r.c, ClassOf(e)>> : r \in {q \in cs : ~q.ok}}
              /\ seen' = seen \cup {r.c : r \in cs}
        /\ l' = l + 1
        /\ UNCHANGED tid

Spec == Init /\ [][Next]_vars

Report == (l = Len(Steps(tid)) + 1) => PrintT(<<"VERDICT", Traces[tid].id, bad, seen>>)
=============================================================================
