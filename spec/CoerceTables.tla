---------------------------- MODULE CoerceTables ----------------------------
(* C19 - coercion of a node to another kind: the data part of the spec.       *)
(*                                                                            *)
(* Node kinds of the 3.12 grammar + pfst's special slices, the parse modes of  *)
(* fst.parsex.Mode (+ every kind name as a "class mode"), the kinds admitted   *)
(* per mode (KindsOf, written from Python.asdl / the Mode docs and             *)
(* docs/d08_coerce.py, not from the implementation), the embedding table that  *)
(* *defines* "parses in mode m" in terms of CPython's own parser, the          *)
(* (source kind x mode) matrix Cell, and the put-slot catalogue.               *)
(* Coerce.tla (behaviour: object life-cycle) and CoerceTrace.tla (judging      *)
(* recorded executions of the real pfst) extend this module; CoerceMC.tla      *)
(* checks totality and emits the tables as JSON for the harness.               *)
EXTENDS Integers, Sequences, FiniteSets

(* ------------------------------------------------------------------------ *)
(* Kinds                                                                      *)
ModKinds   == {"Module", "Interactive", "Expression"}
StmtKinds  == {"FunctionDef", "AsyncFunctionDef", "ClassDef", "Return", "Delete", "Assign", "TypeAlias", "AugAssign",
               "AnnAssign", "For", "AsyncFor", "While", "If", "With", "AsyncWith", "Match", "Raise", "Try", "TryStar",
               "Assert", "Import", "ImportFrom", "Global", "Nonlocal", "Expr", "Pass", "Break", "Continue"}
(* f-string internals are outside every generator (DESIGN 2.6): JoinedStr /   *)
(* FormattedValue are not source kinds of the matrix                          *)
ExprKinds  == {"BoolOp", "NamedExpr", "BinOp", "UnaryOp", "Lambda", "IfExp", "Dict", "Set", "ListComp", "SetComp",
               "DictComp", "GeneratorExp", "Await", "Yield", "YieldFrom", "Compare", "Call", "Constant", "Attribute",
               "Subscript", "Starred", "Name", "List", "Tuple", "Slice"}
PatKinds   == {"MatchValue", "MatchSingleton", "MatchSequence", "MatchMapping", "MatchClass", "MatchStar", "MatchAs",
               "MatchOr"}
TParKinds  == {"TypeVar", "ParamSpec", "TypeVarTuple"}
BoolOps    == {"And", "Or"}
BinOps     == {"Add", "Sub", "Mult", "MatMult", "Div", "Mod", "Pow", "LShift", "RShift", "BitOr", "BitXor", "BitAnd",
               "FloorDiv"}
UnaryOps   == {"Invert", "Not", "UAdd", "USub"}
CmpOps     == {"Eq", "NotEq", "Lt", "LtE", "Gt", "GtE", "Is", "IsNot", "In", "NotIn"}
MiscKinds  == {"ExceptHandler", "match_case", "comprehension", "arguments", "arg", "keyword", "alias", "withitem"}
SliceKinds == {"_ExceptHandlers", "_match_cases", "_Assign_targets", "_decorator_list", "_arglikes", "_comprehensions",
               "_comprehension_ifs", "_aliases", "_withitems", "_pattern_attrlikes", "_type_params"}
OpKinds    == BoolOps \cup BinOps \cup UnaryOps \cup CmpOps
Kinds      == ModKinds \cup StmtKinds \cup ExprKinds \cup PatKinds \cup TParKinds \cup OpKinds \cup MiscKinds
                \cup SliceKinds

(* ------------------------------------------------------------------------ *)
(* Modes: the string literals of fst.parsex.Mode, plus every kind name        *)
(* ("str(type[AST])": parse / coerce to exactly that class)                   *)
NamedModes == {"all", "strict", "exec", "eval", "single", "stmts", "stmt", "ExceptHandler", "_ExceptHandlers",
               "match_case", "_match_cases", "expr", "expr_all", "expr_arglike", "expr_slice", "Tuple_elt", "Tuple",
               "_Assign_targets", "_decorator_list", "_arglike", "_arglikes", "boolop", "operator", "unaryop", "cmpop",
               "comprehension", "_comprehensions", "_comprehension_ifs", "arguments", "arguments_lambda", "arg",
               "keyword", "alias", "_aliases", "Import_name", "_Import_names", "ImportFrom_name", "_ImportFrom_names",
               "withitem", "_withitems", "pattern", "_pattern_attrlikes", "type_param", "_type_params"}
Modes == NamedModes \cup Kinds

ExprNoSlice == ExprKinds \ {"Slice"}

(* kinds a result in mode m may have.                                         *)
(* Named deviation StrictIsExec: as a *parse* mode "strict" returns the        *)
(* minimal node (Module / stmt / expr); as a *coercion target* pfst treats it  *)
(* as "exec" (code.py mode table) - unwrapping is a property of parsing text,  *)
(* a node has no "minimal" form - so the requested kind is Module.             *)
KindsOf(m) ==
  CASE m = "all"               -> Kinds
    [] m \in {"exec", "stmts", "strict"} -> {"Module"}    \* StrictIsExec, see below
    [] m = "eval"              -> {"Expression"}
    [] m = "single"            -> {"Interactive"}
    [] m = "stmt"              -> StmtKinds
    [] m \in {"expr", "expr_arglike"} -> ExprNoSlice
    [] m \in {"expr_all", "expr_slice", "Tuple_elt"} -> ExprKinds
    [] m = "_arglike"          -> ExprNoSlice \cup {"keyword"}
    [] m = "boolop"            -> BoolOps
    [] m = "operator"          -> BinOps
    [] m = "unaryop"           -> UnaryOps
    [] m = "cmpop"             -> CmpOps
    [] m = "arguments_lambda"  -> {"arguments"}
    [] m \in {"Import_name", "ImportFrom_name"} -> {"alias"}
    [] m \in {"_Import_names", "_ImportFrom_names"} -> {"_aliases"}
    [] m = "pattern"           -> PatKinds
    [] m = "type_param"        -> TParKinds
    [] OTHER                   -> {m}          \* class modes and the named modes that are class names

(* the named mode whose *syntax* a mode follows (class modes parse like their *)
(* category and then demand the exact class)                                  *)
Category(m) ==
  CASE m \in NamedModes -> m
    [] m \in ModKinds   -> IF m = "Module" THEN "exec" ELSE IF m = "Expression" THEN "eval" ELSE "single"
    [] m \in StmtKinds  -> "stmt"
    [] m = "Slice"      -> "expr_slice"
    [] m = "Starred"    -> "expr_arglike"
    [] m \in ExprKinds  -> "expr"
    [] m \in PatKinds   -> "pattern"
    [] m \in TParKinds  -> "type_param"
    [] m \in BoolOps    -> "boolop"
    [] m \in BinOps     -> "operator"
    [] m \in UnaryOps   -> "unaryop"
    [] m \in CmpOps     -> "cmpop"
    [] OTHER            -> m

(* ------------------------------------------------------------------------ *)
(* Embeddings.  "src parses in mode m" means: for one of the alternatives     *)
(* below, CPython parses  pre \o indent(src) \o post,  the node at `path`     *)
(* exists, its host satisfies `sole` (it is the only element), and the node    *)
(* spans exactly the fragment's first..last token.  The live tree must equal  *)
(* that node with positions shifted by (dl lines; dc1 columns on the          *)
(* fragment's first line; dca columns on every line).  For special slices the *)
(* path leads to the host node and `cont` maps the slice's element field to   *)
(* the host's field(s) (two host fields = merged by source position).         *)
(* An unparenthesised Tuple is embedded as a subscript index (`x[a, b]`),     *)
(* the one place where CPython gives a bare tuple its own span.               *)
P(n, i) == [n |-> n, i |-> i]
Emb(id, pre, post, path, dl, dc1, dca, sole, cont) ==
  [id |-> id, pre |-> pre, post |-> post, path |-> path, dl |-> dl, dc1 |-> dc1, dca |-> dca, sole |-> sole,
   cont |-> cont, only |-> <<>>, bs |-> FALSE]
(* alternative admissible only for a result root of one of the given kinds    *)
Only(e, kinds) == [e EXCEPT !.only = kinds]
(* the fragment's end-of-line comments are blanked and its line breaks joined  *)
(* with backslash continuations (same positions): pfst keeps the source of a root fragment as if enclosed, CPython *)
(* has no enclosing syntax for `import a, b` / `case a, b:`                   *)
BS(e) == [e EXCEPT !.bs = TRUE, !.id = e.id \o "_bs"]
NoCont == <<>>
C1(sf, hf) == <<[sf |-> sf, hf |-> <<hf>>]>>

EIdentMod   == Emb("module", "", "", <<>>, 0, 0, 0, <<>>, NoCont)
EIdentStmt  == Emb("stmt", "", "", <<P("body", 1)>>, 0, 0, 0, <<"body">>, NoCont)
EParen      == Emb("paren", "(\n", "\n)", <<P("body", 1), P("value", 1)>>, 1, 0, 0, <<>>, NoCont)
EListElt    == Emb("listelt", "[\n", "\n]", <<P("body", 1), P("value", 1), P("elts", 1)>>, 1, 0, 0, <<"elts">>, NoCont)
ECallArg    == Emb("callarg", "f(\n", "\n)", <<P("body", 1), P("value", 1), P("args", 1)>>, 1, 0, 0,
                   <<"args", "keywords">>, NoCont)
ECallKw     == Emb("callkw", "f(\n", "\n)", <<P("body", 1), P("value", 1), P("keywords", 1)>>, 1, 0, 0,
                   <<"args", "keywords">>, NoCont)
ESubscript  == Emb("subscript", "x[\n", "\n]", <<P("body", 1), P("value", 1), P("slice", 1)>>, 1, 0, 0, <<>>, NoCont)
ETargets    == Emb("targets", "if 1: ", " _", <<P("body", 1), P("body", 1)>>, 0, 6, 0, <<>>, C1("targets", "targets"))
EDecos      == Emb("decos", "", "\nclass c: pass", <<P("body", 1)>>, 0, 0, 0, <<>>, C1("decorator_list", "decorator_list"))
EArglikes   == Emb("arglikes", "f(\n", "\n)", <<P("body", 1), P("value", 1)>>, 1, 0, 0, <<>>,
                   <<[sf |-> "arglikes", hf |-> <<"args", "keywords">>]>>)
EBoolop     == Emb("boolop", "_ ", " _", <<P("body", 1), P("value", 1), P("op", 1)>>, 0, 2, 0, <<>>, NoCont)
EBinop      == Emb("binop", "_ ", " _", <<P("body", 1), P("value", 1), P("op", 1)>>, 0, 2, 0, <<>>, NoCont)
EUnaryop    == Emb("unaryop", "", " _", <<P("body", 1), P("value", 1), P("op", 1)>>, 0, 0, 0, <<>>, NoCont)
ECmpop      == Emb("cmpop", "_ ", " _", <<P("body", 1), P("value", 1), P("ops", 1)>>, 0, 2, 0, <<"ops">>, NoCont)
EComp       == Emb("comp", "[_\n", "\n]", <<P("body", 1), P("value", 1), P("generators", 1)>>, 1, 0, 0,
                   <<"generators">>, NoCont)
EComps      == Emb("comps", "[_\n", "\n]", <<P("body", 1), P("value", 1)>>, 1, 0, 0, <<>>, C1("generators", "generators"))
ECompIfs    == Emb("compifs", "[_ for _ in _\n", "\n]", <<P("body", 1), P("value", 1), P("generators", 1)>>, 1, 0, 0,
                   <<>>, C1("ifs", "ifs"))
EArgs       == Emb("args", "def f(\n", "\n): pass", <<P("body", 1), P("args", 1)>>, 1, 0, 0, <<>>, NoCont)
EArgsLam    == Emb("argslam", "(lambda\n", "\n: 0)", <<P("body", 1), P("value", 1), P("args", 1)>>, 1, 0, 0, <<>>, NoCont)
EArg        == Emb("arg", "def f(\n", "\n): pass", <<P("body", 1), P("args", 1), P("args", 1)>>, 1, 0, 0,
                   <<"posonlyargs", "args", "vararg", "kwonlyargs", "kw_defaults", "kwarg", "defaults">>, NoCont)
EImport     == Emb("import", "import ", "", <<P("body", 1), P("names", 1)>>, 0, 7, 0, <<"names">>, NoCont)
EImports    == Emb("imports", "import ", "", <<P("body", 1)>>, 0, 7, 0, <<>>, C1("names", "names"))
EFromPar    == Emb("frompar", "from . import (\n", "\n)", <<P("body", 1), P("names", 1)>>, 1, 0, 0, <<"names">>, NoCont)
EFromPars   == Emb("frompars", "from . import (\n", "\n)", <<P("body", 1)>>, 1, 0, 0, <<>>, C1("names", "names"))
EFromStar   == Emb("fromstar", "from . import ", "", <<P("body", 1), P("names", 1)>>, 0, 14, 0, <<"names">>, NoCont)
EFromStars  == Emb("fromstars", "from . import ", "", <<P("body", 1)>>, 0, 14, 0, <<>>, C1("names", "names"))
EWithitem   == Emb("withitem", "with (\n", "\n): pass", <<P("body", 1), P("items", 1)>>, 1, 0, 0, <<"items">>, NoCont)
EWithitemB  == Emb("withitemb", "with ", ": pass", <<P("body", 1), P("items", 1)>>, 0, 5, 0, <<"items">>, NoCont)
EWithitems  == Emb("withitems", "with (\n", "\n): pass", <<P("body", 1)>>, 1, 0, 0, <<>>, C1("items", "items"))
EWithitemsB == Emb("withitemsb", "with ", ": pass", <<P("body", 1)>>, 0, 5, 0, <<>>, C1("items", "items"))
EPattern    == Emb("pattern", "match x:\n case ", ": pass", <<P("body", 1), P("cases", 1), P("pattern", 1)>>, 1, 6, 0,
                   <<>>, NoCont)
EPatAttrs   == Emb("patattrs", "match x:\n case c(\n", "\n ): pass", <<P("body", 1), P("cases", 1), P("pattern", 1)>>,
                   2, 0, 0, <<>>,
                   <<[sf |-> "patterns", hf |-> <<"patterns">>], [sf |-> "kwd_attrs", hf |-> <<"kwd_attrs">>],
                     [sf |-> "kwd_patterns", hf |-> <<"kwd_patterns">>]>>)
EPatElt     == Emb("patelt", "match x:\n case [\n", "\n ]: pass",
                   <<P("body", 1), P("cases", 1), P("pattern", 1), P("patterns", 1)>>, 2, 0, 0, <<"patterns">>, NoCont)
ETypeParam  == Emb("tparam", "type X[\n", "\n] = int", <<P("body", 1), P("type_params", 1)>>, 1, 0, 0,
                   <<"type_params">>, NoCont)
ETypeParams == Emb("tparams", "type X[\n", "\n] = int", <<P("body", 1)>>, 1, 0, 0, <<>>, C1("type_params", "type_params"))
EHandler    == Emb("handler", "try: pass\n", "", <<P("body", 1), P("handlers", 1)>>, 1, 0, 0, <<"handlers">>, NoCont)
EHandlers   == Emb("handlers", "try: pass\n", "", <<P("body", 1)>>, 1, 0, 0, <<>>, C1("handlers", "handlers"))
ECase       == Emb("case", "match x:\n", "", <<P("body", 1), P("cases", 1)>>, 1, 0, 1, <<"cases">>, NoCont)
ECases      == Emb("cases", "match x:\n", "", <<P("body", 1)>>, 1, 0, 1, <<>>, C1("cases", "cases"))
(* parsed with ast.parse(mode='eval') / (mode='single')                      *)
EEval       == Emb("eval", "", "", <<>>, 0, 0, 0, <<>>, NoCont)
ESingle     == Emb("single", "", "", <<>>, 0, 0, 0, <<>>, NoCont)

ETup == Only(ESubscript, <<"Tuple">>)

EmbedsCat(c) ==
  CASE c \in {"exec", "stmts"} -> <<EIdentMod>>
    [] c = "strict"        -> <<EIdentMod>>
    [] c = "eval"          -> <<EEval>>
    [] c = "single"        -> <<ESingle>>
    [] c = "stmt"          -> <<EIdentStmt>>
    [] c = "expr"          -> <<EParen, EListElt, ETup>>
    [] c = "expr_arglike"  -> <<EParen, EListElt, ECallArg, ETup>>
    [] c = "expr_slice"    -> <<ESubscript, EParen>>     \* Mode docs: "same as 'expr' except ..."
    [] c \in {"Tuple_elt", "expr_all"} -> <<EParen, ECallArg, ESubscript>>
    [] c = "Tuple"         -> <<EParen, ESubscript>>
    [] c = "_arglike"      -> <<EParen, EListElt, ECallArg, ECallKw, ETup>>
    [] c = "_Assign_targets" -> <<ETargets, BS(ETargets)>>
    [] c = "_decorator_list" -> <<EDecos>>
    [] c = "_arglikes"     -> <<EArglikes>>
    [] c = "boolop"        -> <<EBoolop>>
    [] c = "operator"      -> <<EBinop>>
    [] c = "unaryop"       -> <<EUnaryop>>
    [] c = "cmpop"         -> <<ECmpop>>
    [] c = "comprehension" -> <<EComp>>
    [] c = "_comprehensions" -> <<EComps>>
    [] c = "_comprehension_ifs" -> <<ECompIfs>>
    [] c = "arguments"     -> <<EArgs>>
    [] c = "arguments_lambda" -> <<EArgsLam>>
    [] c = "arg"           -> <<EArg>>
    [] c = "keyword"       -> <<ECallKw>>
    [] c = "alias"         -> <<EImport, EFromPar, EFromStar, BS(EImport)>>
    [] c = "Import_name"   -> <<EImport, BS(EImport)>>
    [] c = "ImportFrom_name" -> <<EFromPar, EFromStar>>
    [] c = "_aliases"      -> <<EImports, EFromPars, EFromStars, BS(EImports)>>
    [] c = "_Import_names" -> <<EImports, BS(EImports)>>
    [] c = "_ImportFrom_names" -> <<EFromPars, EFromStars>>
    [] c = "withitem"      -> <<EWithitem, EWithitemB, BS(EWithitemB)>>
    [] c = "_withitems"    -> <<EWithitems, EWithitemsB, BS(EWithitemsB)>>
    [] c = "pattern"       -> <<EPattern, EPatElt, BS(EPattern)>>      \* a MatchStar only parses inside a sequence
    [] c = "_pattern_attrlikes" -> <<EPatAttrs>>
    [] c = "type_param"    -> <<ETypeParam>>
    [] c = "_type_params"  -> <<ETypeParams>>
    [] c = "ExceptHandler" -> <<EHandler>>
    [] c = "_ExceptHandlers" -> <<EHandlers>>
    [] c = "match_case"    -> <<ECase>>
    [] c = "_match_cases"  -> <<ECases>>
    [] OTHER               -> <<>>

(* mode "all": anything some mode accepts; judged through the category of the *)
(* result's own kind (see CoerceTrace!SyncMode)                               *)
Embeds(m) == IF m = "all" THEN <<>> ELSE EmbedsCat(Category(m))

(* shape restrictions of a mode beyond the root kind (grammar: a Slice only   *)
(* occurs directly in a subscript or as an element of its index tuple)        *)
AllowsSliceElts(m) == Category(m) \in {"all", "expr_all", "expr_slice", "Tuple"}

(* ------------------------------------------------------------------------ *)
(* The matrix.  "same": the source kind is admitted by the mode - identity     *)
(* (subject to the operand's own text parsing in that mode, a per-operand      *)
(* fact).  "doc": docs/d08_coerce.py shows this conversion succeeding.         *)
(* "may": not the requested kind; coercion may convert or raise; with         *)
(* coercion disabled it must raise.                                           *)
DocCells == {<<"arg", "arguments">>, <<"keyword", "arguments">>, <<"withitem", "_withitems">>,
             <<"Tuple", "_Import_names">>, <<"List", "_decorator_list">>, <<"MatchMapping", "Dict">>,
             <<"Call", "pattern">>, <<"_comprehension_ifs", "_Assign_targets">>, <<"Module", "expr">>,
             <<"alias", "expr">>, <<"MatchSequence", "_decorator_list">>, <<"Name", "stmt">>, <<"Expr", "exec">>,
             <<"_comprehension_ifs", "expr">>, <<"MatchSequence", "expr">>, <<"MatchAs", "Name">>,
             <<"alias", "Name">>, <<"withitem", "Name">>, <<"Module", "Name">>, <<"arg", "expr">>}

Cell(k, m) == IF k \in KindsOf(m) THEN "same" ELSE IF <<k, m>> \in DocCells THEN "doc" ELSE "may"
CellValues == {"same", "doc", "may"}

(* ------------------------------------------------------------------------ *)
(* Put slots: where a put expects a node of a given mode (from the grammar:   *)
(* the field's type; for slice puts the container kind of docs d07/d08).      *)
(* tmpl is the target's source (parsed 'exec'), path leads to the node the    *)
(* put is called on, field / idx / slice say what is put.                     *)
(* strict: with coercion disabled a node of a kind outside KindsOf(mode) must  *)
(* be refused.  Not strict for element lists of Tuple/List/Set/Dict/           *)
(* MatchSequence/MatchMapping: docs d08 "their slice type is a normal Tuple" - *)
(* these sequences are each other's native slice type.                        *)
Slot(id, mode, tmpl, path, field, form) ==
  [id |-> id, mode |-> mode, tmpl |-> tmpl, path |-> path, field |-> field, form |-> form,
   strict |-> mode \notin {"List", "Set", "Tuple", "Dict", "MatchSequence", "MatchMapping"}]
(* kinds a slot takes as they are, no conversion involved: the kinds of its  *)
(* mode.  A statement list takes its elements (any stmt) and its containers:  *)
(*   StmtContainers: Module (the slice type of statements) and Interactive -   *)
(*   a `mod` whose body is a statement list exactly like Module's (pfst rule   *)
(*   "our own element / container type is always accepted", slice_stmtlike).   *)
(* Expression is NOT native: its body is an expr, putting it is a conversion.  *)
StmtContainers == {"Module", "Interactive"}
NativeKinds(mode) == IF mode \in {"stmt", "stmts"} THEN StmtKinds \cup StmtContainers ELSE KindsOf(mode)

Slots ==
  << Slot("Assign.value", "expr", "t = v", <<P("body", 1)>>, "value", "one"),
     Slot("Return.value", "expr", "return v", <<P("body", 1)>>, "value", "one"),
     Slot("BinOp.right", "expr", "l + r", <<P("body", 1), P("value", 1)>>, "right", "one"),
     Slot("Attribute.value", "expr", "o.a", <<P("body", 1), P("value", 1)>>, "value", "one"),
     Slot("Call.func", "expr", "f(x)", <<P("body", 1), P("value", 1)>>, "func", "one"),
     Slot("List.elts[0]", "expr", "[x]", <<P("body", 1), P("value", 1)>>, "elts", "elt"),
     Slot("Subscript.slice", "expr_slice", "v[i]", <<P("body", 1), P("value", 1)>>, "slice", "one"),
     Slot("Call.args[0]", "expr_arglike", "f(x)", <<P("body", 1), P("value", 1)>>, "args", "elt"),
     Slot("ClassDef.bases[0]", "expr_arglike", "class c(b): pass", <<P("body", 1)>>, "bases", "elt"),
     Slot("ClassDef.keywords[0]", "keyword", "class c(k=v): pass", <<P("body", 1)>>, "keywords", "elt"),
     Slot("MatchAs.pattern", "pattern", "match s:\n case p as n: pass", <<P("body", 1), P("cases", 1), P("pattern", 1)>>,
          "pattern", "one"),
     Slot("FunctionDef.args", "arguments", "def f(p): pass", <<P("body", 1)>>, "args", "one"),
     Slot("Lambda.args", "arguments_lambda", "lambda p: 0", <<P("body", 1), P("value", 1)>>, "args", "one"),
     Slot("match_case.pattern", "pattern", "match s:\n case p: pass", <<P("body", 1), P("cases", 1)>>, "pattern", "one"),
     Slot("With.items[0]", "withitem", "with w: pass", <<P("body", 1)>>, "items", "elt"),
     Slot("Import.names[0]", "Import_name", "import m", <<P("body", 1)>>, "names", "elt"),
     Slot("ImportFrom.names[0]", "ImportFrom_name", "from . import m", <<P("body", 1)>>, "names", "elt"),
     Slot("Call.keywords[0]", "keyword", "f(k=v)", <<P("body", 1), P("value", 1)>>, "keywords", "elt"),
     Slot("arguments.args[0]", "arg", "def f(p): pass", <<P("body", 1), P("args", 1)>>, "args", "elt"),
     Slot("ListComp.generators[0]", "comprehension", "[e for t in i]", <<P("body", 1), P("value", 1)>>, "generators", "elt"),
     Slot("TypeAlias.type_params[0]", "type_param", "type A[T] = v", <<P("body", 1)>>, "type_params", "elt"),
     Slot("Expr.stmt", "stmt", "s", <<>>, "body", "elt"),
     Slot("With.items", "_withitems", "with w: pass", <<P("body", 1)>>, "items", "slice"),
     Slot("Import.names", "_Import_names", "import m", <<P("body", 1)>>, "names", "slice"),
     Slot("ImportFrom.names", "_ImportFrom_names", "from . import m", <<P("body", 1)>>, "names", "slice"),
     Slot("Assign.targets", "_Assign_targets", "t = v", <<P("body", 1)>>, "targets", "slice"),
     Slot("ClassDef.decorator_list", "_decorator_list", "@d\nclass c: pass", <<P("body", 1)>>, "decorator_list", "slice"),
     Slot("ListComp.generators", "_comprehensions", "[e for t in i]", <<P("body", 1), P("value", 1)>>, "generators", "slice"),
     Slot("comprehension.ifs", "_comprehension_ifs", "[e for t in i if c]",
          <<P("body", 1), P("value", 1), P("generators", 1)>>, "ifs", "slice"),
     Slot("Call._args", "_arglikes", "f(x)", <<P("body", 1), P("value", 1)>>, "_args", "slice"),
     Slot("TypeAlias.type_params", "_type_params", "type A[T] = v", <<P("body", 1)>>, "type_params", "slice"),
     Slot("Module.body", "stmts", "s", <<>>, "body", "slice"),
     Slot("List.elts", "List", "[x]", <<P("body", 1), P("value", 1)>>, "elts", "slice"),
     Slot("Set.elts", "Set", "{x}", <<P("body", 1), P("value", 1)>>, "elts", "slice"),
     Slot("Tuple.elts", "Tuple", "(x,)", <<P("body", 1), P("value", 1)>>, "elts", "slice"),
     Slot("Dict._all", "Dict", "{k: v}", <<P("body", 1), P("value", 1)>>, "_all", "slice"),
     Slot("MatchSequence.patterns", "MatchSequence", "match s:\n case [p]: pass",
          <<P("body", 1), P("cases", 1), P("pattern", 1)>>, "patterns", "slice"),
     Slot("MatchMapping._all", "MatchMapping", "match s:\n case {1: p}: pass",
          <<P("body", 1), P("cases", 1), P("pattern", 1)>>, "_all", "slice") >>
=============================================================================
