------------------------------ MODULE WalkTrees ------------------------------
(* Enumeration of all ordered trees with n nodes (shared by WalkMC and        *)
(* WalkGenCases).  Nodes are numbered in pre-order, so a tree is a parent     *)
(* vector p with p[i] an ancestor-or-self of i-1: exactly the Catalan(n-1)    *)
(* ordered trees.  mirror = TRUE reverses every sibling list (source order    *)
(* then differs from the numbering / from the edge labels).                   *)
EXTENDS Walk

RECURSIVE AncSelf(_, _)
AncSelf(p, x) == {x} \cup (IF p[x] = 0 THEN {} ELSE AncSelf(p, p[x]))

ParVecs(n) == {p \in [1..n -> 0..(n - 1)] :
                 /\ p[1] = 0
                 /\ \A i \in 2..n : p[i] >= 1 /\ p[i] < i
                 /\ \A i \in 2..n : p[i] \in AncSelf(p, i - 1)}

RECURSIVE IncSeq(_)
IncSeq(S) == IF S = {} THEN <<>> ELSE <<MinOf(S)>> \o IncSeq(S \ {MinOf(S)})

MkTree(n, p, mirror) ==
  LET kids == [x \in 1..n |-> LET s == IncSeq({i \in 1..n : p[i] = x}) IN IF mirror THEN Rev(s) ELSE s]
  IN [n    |-> n,
      par  |-> p,
      kids |-> kids,
      lab  |-> [x \in 1..n |-> x],
      sp   |-> SpOf(kids, p),
      mirror |-> mirror]

=============================================================================
