SPECIFICATION Spec
CONSTANTS
  t1 = t1
  t2 = t2
  t3 = t3
  r1 = r1
  r2 = r2
  r3 = r3
  r4 = r4
  a = a
  b = b
  o1 = o1
  o2 = o2
  v0 = v0
  v1 = v1
  bad = bad
  unk = unk
  Threads = {t1, t2, t3}
  Main = t1
  Roots = {r1, r2, r3, r4}
  Nodes = {a, b}
  Owner <- OwnerMap
  MaxDepth = 2
  Opts = {o1, o2}
  Vals = {v0, v1}
  Cells = {v0, v1, bad}
  Mutable = {}
  Heap0 <- HeapId
  Default <- Def2
  Bad = bad
  Unknown = unk
  MaxNest <- Nest3
  ScriptPool <- Pool
  SharedStore = FALSE
VIEW View
CHECK_DEADLOCK FALSE
INVARIANT SerialEq
INVARIANT OwnerOnly
INVARIANT Balanced
INVARIANT Quiescent
INVARIANT ThreadIsolation
INVARIANT FreshThreadDefaults
INVARIANT Restore
INVARIANT RejectAtomic
INVARIANT CallIsolation
PROPERTY OptionLawsOnEveryStep
