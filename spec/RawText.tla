------------------------------ MODULE RawText -------------------------------
(* Source text as pfst holds it: a non-empty sequence of lines, each line a    *)
(* sequence of code points (no line contains 10).  Rectangles are pfst's:      *)
(* <<ln, col, end_ln, end_col>>, lines 0-based, columns in characters, end     *)
(* exclusive.  Everything is total: an ill-formed rectangle splices to the     *)
(* unchanged text, so a malformed recording fails a clause instead of raising  *)
(* a TLC evaluation error.                                                     *)
EXTENDS Integers, Sequences

NL == 10

Line(t, ln)     == IF ln \in 0..Len(t) - 1 THEN t[ln + 1] ELSE <<>>
ValidRect(t, r) == /\ Len(r) = 4 /\ Len(t) >= 1
                   /\ r[1] \in 0..Len(t) - 1 /\ r[3] \in r[1]..Len(t) - 1
                   /\ r[2] \in 0..Len(Line(t, r[1])) /\ r[4] \in 0..Len(Line(t, r[3]))
                   /\ (r[1] = r[3] => r[2] <= r[4])

(* the requested splice: text[rect] := repl, line-wise                        *)
SpliceText(t, r, p) ==
  IF ~ValidRect(t, r) \/ p = <<>> THEN t
  ELSE LET head == SubSeq(Line(t, r[1]), 1, r[2])
           tail == SubSeq(Line(t, r[3]), r[4] + 1, Len(Line(t, r[3])))
           mid  == IF Len(p) = 1 THEN << head \o p[1] \o tail >>
                   ELSE << head \o p[1] >> \o SubSeq(p, 2, Len(p) - 1) \o << p[Len(p)] \o tail >>
       IN SubSeq(t, 1, r[1]) \o mid \o SubSeq(t, r[3] + 2, Len(t))

(* text of a rectangle, as lines                                              *)
RectText(t, r) ==
  IF ~ValidRect(t, r) THEN << <<>> >>
  ELSE IF r[1] = r[3] THEN << SubSeq(Line(t, r[1]), r[2] + 1, r[4]) >>
  ELSE << SubSeq(Line(t, r[1]), r[2] + 1, Len(Line(t, r[1]))) >>
         \o SubSeq(t, r[1] + 2, r[3]) \o << SubSeq(Line(t, r[3]), 1, r[4]) >>

(* ------------------------------------------------------------------------ *)
(* independent, character-wise reference: one flat string with NL separators *)
RECURSIVE Flat(_)
Flat(t) == IF Len(t) = 0 THEN <<>> ELSE IF Len(t) = 1 THEN t[1] ELSE t[1] \o <<NL>> \o Flat(Tail(t))

RECURSIVE Off(_, _, _)
Off(t, ln, col) == IF ln = 0 THEN col ELSE Len(t[1]) + 1 + Off(Tail(t), ln - 1, col)

RECURSIVE Unflat(_, _)
Unflat(f, cur) == IF f = <<>> THEN <<cur>>
                  ELSE IF Head(f) = NL THEN <<cur>> \o Unflat(Tail(f), <<>>)
                  ELSE Unflat(Tail(f), Append(cur, Head(f)))

RefSplice(t, r, p) ==
  LET f == Flat(t)  a == Off(t, r[1], r[2])  b == Off(t, r[3], r[4])
  IN Unflat(SubSeq(f, 1, a) \o Flat(p) \o SubSeq(f, b + 1, Len(f)), <<>>)

(* ------------------------------------------------------------------------ *)
(* coordinate clipping of get_src/put_src (fst_misc.clip_src_loc): bounds are  *)
(* [k |-> "int" | "end", v |-> Int]; negative values index from the end,       *)
(* everything is clipped into the text, and an end before the start is an      *)
(* IndexError (named deviation ClipError: such a call must raise and change    *)
(* nothing, whatever the replacement).                                         *)
IntC(v) == [k |-> "int", v |-> v]
EndC    == [k |-> "end", v |-> 0]
Max2(a, b) == IF a > b THEN a ELSE b
Min2(a, b) == IF a < b THEN a ELSE b

ClipLn0(t, b) == IF b.k = "end" THEN Len(t) - 1 ELSE IF b.v < 0 THEN b.v + Len(t) ELSE b.v
ClipLn(t, b)  == Max2(0, Min2(Len(t) - 1, ClipLn0(t, b)))
ClipCol(t, ln, b) == LET n == Len(Line(t, ln)) IN
                     IF b.k = "end" THEN n ELSE IF b.v < 0 THEN Max2(0, b.v + n) ELSE Min2(b.v, n)
ClipError(t, q) == \/ ClipLn0(t, q[1]) > ClipLn0(t, q[3])
                   \/ LET ln == ClipLn(t, q[1])  eln == ClipLn(t, q[3])
                      IN eln = ln /\ ClipCol(t, ln, q[2]) > ClipCol(t, eln, q[4])
Clip(t, q) == LET ln == ClipLn(t, q[1])  eln == ClipLn(t, q[3])
              IN <<ln, ClipCol(t, ln, q[2]), eln, ClipCol(t, eln, q[4])>>

(* ------------------------------------------------------------------------ *)
(* facts read off the text itself                                            *)
IsWs(c) == c \in {32, 9, 12}
RECURSIVE Indent(_)
Indent(line) == IF line = <<>> \/ ~IsWs(Head(line)) THEN 0 ELSE 1 + Indent(Tail(line))
Blank(line)  == Indent(line) = Len(line)
Has(line, c) == \E i \in 1..Len(line) : line[i] = c
HasAny(p, c) == \E i \in 1..Len(p) : Has(p[i], c)
AllBlank(p)  == \A i \in 1..Len(p) : Blank(p[i])
LastIs(line, c) == Len(line) > 0 /\ line[Len(line)] = c
PosLE(a, b, c, d) == a < c \/ (a = c /\ b <= d)     \* (a,b) <= (c,d)
PosLT(a, b, c, d) == a < c \/ (a = c /\ b < d)
=============================================================================
