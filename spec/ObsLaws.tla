------------------------------- MODULE ObsLaws ------------------------------
(* C02: an edited tree is observationally identical to a fresh parse of its   *)
(* own source, whatever read-only queries were made before the edits.         *)
(*                                                                            *)
(* The driver runs every edit in lock-step on several trees (run 1: no        *)
(* queries between edits; run k > 1: a cache-population pattern before each   *)
(* edit).  After the edit it records, per run, the hash-consed answer vector  *)
(* of every public query on every node (by node and by query) for the edited  *)
(* tree and for FST(source) built from scratch, the link invariant and the    *)
(* lengths of views created before the edit.                                  *)
EXTENDS EditLaws

Queries == Batch.queries

RunsOf(e) == 1..Len(e.obs)

ObsEq(e)   == \A r \in RunsOf(e) : e.obs[r].live = e.obs[r].fresh /\ e.obs[r].liveQ = e.obs[r].freshQ
LinksOk(e) == \A r \in RunsOf(e) : e.obs[r].links
ViewsFollow(e) == \A r \in RunsOf(e) : e.obs[r].viewLive = e.obs[r].viewFresh

(* same script, different query history => same text, same tree, same answers *)
HistoryIndependent(e) ==
  /\ \A r \in 1..Len(e.runs) : /\ e.runs[r].text = e.runs[1].text
                               /\ e.runs[r].liveP = e.runs[1].liveP
                               /\ e.runs[r].outcome = e.runs[1].outcome
  /\ \A r \in RunsOf(e) : e.obs[r].live = e.obs[1].live

RootsKept(s, e) == e.runs[1].rootObj = s.rootObj

ObsClauses(s, e) ==
  { Cl("HistoryIndependent.state", \A r \in 1..Len(e.runs) : /\ e.runs[r].text = e.runs[1].text
                                                              /\ e.runs[r].liveP = e.runs[1].liveP
                                                              /\ e.runs[r].outcome = e.runs[1].outcome),
    Cl("RootIdentity", RootsKept(s, e)) }
  \cup (IF e.hasObs
        THEN { Cl("ObsEq", ObsEq(e)), Cl("Links", LinksOk(e)), Cl("ViewsFollow", ViewsFollow(e)),
               Cl("HistoryIndependent.answers", \A r \in RunsOf(e) : e.obs[r].live = e.obs[1].live) }
        ELSE {})

(* case class: the first query whose answers differ from the fresh tree       *)
FirstDiffQuery(e) ==
  IF ~e.hasObs \/ e.obs = <<>> THEN "-"
  ELSE LET D == {<<r, q>> \in RunsOf(e) \X (1..Len(Queries)) :
                   q <= Len(e.obs[r].liveQ) /\ e.obs[r].liveQ[q] # e.obs[r].freshQ[q]}
       IN IF D = {} THEN "-"
          ELSE LET m == CHOOSE p \in D : \A p2 \in D : p[2] <= p2[2] IN Queries[m[2]]

ObsClass(s, e) == EditClass(s, e) \o "/q=" \o FirstDiffQuery(e)
=============================================================================
