SPECIFICATION Spec
INVARIANT Report
VIEW view
CHECK_DEADLOCK FALSE
