------------------------------- MODULE ScopeAst -------------------------------
(* C16 on real programs (V).  The same ownership rules as Scope.tla, stated    *)
(* over CPython AST node tables, and the sandwich between pfst's answer and    *)
(* CPython's symtable rows where names are shared between sites.              *)
(*                                                                            *)
(* step "ast":  N = e.nodes, N[n] = [k (class), p (parent, 0 = root), f (field *)
(*   of the parent), i (1-based index in a list field, else 0)]; ctx and       *)
(*   operator nodes are not part of the table.  e.yb[n] = the scope roots      *)
(*   whose walk(True, scope=True) yielded n.  Clause WalkAst: e.yb[n] is       *)
(*   exactly Yielders(N, n).                                                   *)
(* step "tab":  one symtable table F matched to a scope node; rows = its       *)
(*   symbols with flags, pf = scope_symbols(full=True) name sets, plus stdlib  *)
(*   facts delimiting where the two may legitimately differ.                   *)
EXTENDS Scope

ToSet(seq) == {seq[i] : i \in 1..Len(seq)}

FunDefs   == {"FunctionDef", "AsyncFunctionDef"}
CompNodes == {"ListComp", "SetComp", "DictComp", "GeneratorExp"}
TypeParams == {"TypeVar", "ParamSpec", "TypeVarTuple"}
ScopeNodes == FunDefs \cup CompNodes \cup {"ClassDef", "Lambda", "Module", "Expression", "Interactive"}

(* AOwn(N, n): the scope node that node n belongs to (0: outside the tree). Language reference 8.7 (decorators,     *)
(* defaults, annotations are evaluated when the def executes, in the enclosing scope), 8.8 (class: decorators and the *)
(* inheritance list likewise), 6.14 (lambda: defaults), 6.2.4 (the leftmost iterable of a comprehension is evaluated  *)
(* in the enclosing scope), 6.12 / PEP 572 (a walrus target in a comprehension binds in the nearest enclosing         *)
(* non-comprehension scope).  TypeParamFold: type parameter nodes belong to their def/class, their bounds to the      *)
(* scope around it.                                                                                                   *)
RECURSIVE AOwn(_, _), NonComp(_, _)
NonComp(N, s) == IF s # 0 /\ N[s].k \in CompNodes THEN NonComp(N, AOwn(N, s)) ELSE s
AOwn(N, n) ==
  LET p == N[n].p IN
  IF p = 0 THEN 0 ELSE
  LET pk == N[p].k
      f == N[n].f
      up(x) == IF x = 0 THEN 0 ELSE AOwn(N, x)
      gen ==
        CASE pk \in FunDefs        -> IF f \in {"body", "args", "type_params"} THEN p ELSE up(p)
          [] pk = "ClassDef"       -> IF f \in {"body", "type_params"} THEN p ELSE up(p)
          [] pk = "Lambda"         -> p
          [] pk \in {"Module", "Expression", "Interactive"} -> p
          [] pk = "arguments"      -> IF f \in {"defaults", "kw_defaults"} /\ N[p].p # 0 /\ N[N[p].p].k \in FunDefs \cup {"Lambda"}
                                      THEN up(N[p].p) ELSE up(p)
          [] pk = "arg"            -> IF f = "annotation" /\ N[p].p # 0 /\ N[N[p].p].k = "arguments" /\ N[N[p].p].p # 0
                                         /\ N[N[N[p].p].p].k \in FunDefs
                                      THEN up(N[N[p].p].p) ELSE up(p)
          [] pk \in TypeParams     -> IF N[p].p # 0 /\ N[N[p].p].k \in FunDefs \cup {"ClassDef"} THEN up(N[p].p) ELSE up(p)
          [] pk \in CompNodes      -> p
          [] pk = "comprehension"  -> IF N[p].p = 0 THEN up(p)
                                      ELSE IF f = "iter" /\ N[p].i = 1 THEN up(N[p].p) ELSE N[p].p
          [] OTHER                 -> up(p)
  IN IF N[n].k = "Name" /\ pk = "NamedExpr" /\ f = "target" THEN NonComp(N, gen) ELSE gen

(* the scope a node sits in syntactically, before the walrus rule *)
RECURSIVE CompChain(_, _)
CompChain(N, s) == IF s # 0 /\ N[s].k \in CompNodes THEN {s} \cup CompChain(N, AOwn(N, s)) ELSE {}
IsWalrusTarget(N, n) == N[n].k = "Name" /\ N[n].p # 0 /\ N[N[n].p].k = "NamedExpr" /\ N[n].f = "target"

(* which scope-restricted walks must yield n: the walk started on n itself, the walk of the scope n belongs to, and    *)
(* (CompRootWalrus) walks started on the comprehensions between a walrus target and its owner                          *)
Yielders(N, n) ==
  (IF N[n].k \in ScopeNodes THEN {n} ELSE {})
  \cup (IF AOwn(N, n) # 0 THEN {AOwn(N, n)} ELSE {})
  \cup (IF IsWalrusTarget(N, n) THEN CompChain(N, AOwn(N, N[n].p)) ELSE {})

RECURSIVE ScopePath(_, _, _)
ScopePath(N, s, d) == IF s = 0 \/ d = 0 THEN "" ELSE "<" \o N[s].k \o ScopePath(N, AOwn(N, s), d - 1)
NodeClass(N, n) == (IF N[n].p = 0 THEN "" ELSE N[N[n].p].k \o "." \o N[n].f \o ":") \o N[n].k
                   \o (IF IsWalrusTarget(N, n) THEN "@walrus" \o ScopePath(N, AOwn(N, N[n].p), 3) ELSE "")

AstClauses(t, e) ==
  LET N == e.nodes
      wrong == {n \in 1..Len(N) : ToSet(e.yb[n]) # Yielders(N, n)}
  IN {[c |-> "WalkAst.missing", k |-> "", ok |-> TRUE], [c |-> "WalkAst.extra", k |-> "", ok |-> TRUE]}
     \cup {[c |-> "WalkAst.missing", k |-> NodeClass(N, n), ok |-> FALSE] : n \in {m \in wrong : Yielders(N, m) \ ToSet(e.yb[m]) # {}}}
     \cup {[c |-> "WalkAst.extra", k |-> NodeClass(N, n), ok |-> FALSE] : n \in {m \in wrong : ToSet(e.yb[m]) \ Yielders(N, m) # {}}}

(* ---- the sandwich ---------------------------------------------------------------------------------------------- *)
(* table(F) minus the names that may come from inlined comprehensions  <=  pfst(F)  <=  table(F), flag by flag.       *)
(* Exemptions, each a stdlib fact recorded by the harness:                                                            *)
(*   compn  identifiers occurring inside list/set/dict comprehensions under F (PEP 709 merges their rows into F)      *)
(*   aug    augmented-assignment targets (CPython records no USE for them, pfst documents load + store)               *)
(*   fold   identifiers in annotation-scope positions of generic defs / type aliases under F (TypeParamFold)           *)
(*   tpn    F's own type parameter names (TypeParamFold)                                                              *)
(*   ann    identifiers in annotations when the module has `from __future__ import annotations`                       *)
(*   rw     walrus targets when F is a generator expression (CompRootWalrus)                                          *)
TabClauses(t, e) ==
  LET rows == ToSet(e.rows)
      names == {r.n : r \in rows}
      fl(n) == UNION {ToSet(r.f) : r \in {q \in rows : q.n = n}}
      S(x) == ToSet(x)
      pf(cat) == ToSet(e.pf[cat])
      isMod == e.kind = "module"
      isComp == e.kind = "genexpr"
      bound(n) == fl(n) \cap {"asg", "par", "imp"} # {}
      klass(n) == LET ks == {q \in ToSet(e.kinds) : q.n = n} IN IF ks = {} THEN "?" ELSE (CHOOSE q \in ks : TRUE).k
      own == names \ S(e.compn)                       \* rows that certainly stem from F's own block
      Lower(c, req, got) == {[c |-> "Table.lower." \o c, k |-> "", ok |-> TRUE]}
                            \cup {[c |-> "Table.lower." \o c, k |-> klass(n), ok |-> FALSE] : n \in req \ got}
      Upper(c, got, allowed) == {[c |-> "Table.upper." \o c, k |-> "", ok |-> TRUE]}
                                \cup {[c |-> "Table.upper." \o c, k |-> klass(n), ok |-> FALSE] : n \in got \ allowed}
      declared(n) == fl(n) \cap {"glo", "nl"} # {}
  IN
     Lower("load", {n \in own : "ref" \in fl(n)}, pf("load"))
     \cup Lower("store", {n \in own : bound(n)}, pf("store") \cup pf("del"))
     \cup Lower("global", {n \in own : "glo" \in fl(n) /\ ~isMod}, pf("global"))
     \cup Lower("nonlocal", {n \in own : "nl" \in fl(n) /\ ~isComp}, pf("nonlocal"))
     \cup Lower("local", {n \in own : "loc" \in fl(n) /\ ~(isMod /\ "glo" \in fl(n))}, pf("local") \cup pf("del"))
     \cup Lower("free", {n \in own \ S(e.tpn) : "ref" \in fl(n) /\ ~bound(n) /\ ~declared(n)}, pf("free"))
     \cup Upper("load", pf("load"), {n \in names : "ref" \in fl(n)} \cup S(e.aug) \cup S(e.fold) \cup S(e.ann))
     \cup Upper("store", pf("store"), {n \in names : bound(n) \/ (isMod /\ "glo" \in fl(n))} \cup S(e.tpn))
     \cup Upper("del", pf("del"), {n \in names : "asg" \in fl(n)})
     \cup Upper("global", pf("global"), {n \in names : "glo" \in fl(n)})
     \cup Upper("nonlocal", pf("nonlocal"), {n \in names : "nl" \in fl(n)})
     \cup Upper("local", pf("local"), {n \in names : "loc" \in fl(n) \/ (isMod /\ "glo" \in fl(n) /\ n \in S(e.compn))} \cup S(e.tpn))
     \cup Upper("free", pf("free"), {n \in names : ~bound(n) /\ "nl" \notin fl(n) /\ ("glo" \notin fl(n) \/ isMod)}
                                    \cup S(e.fold) \cup S(e.ann) \cup S(e.rw))
=============================================================================
