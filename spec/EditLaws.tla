------------------------------ MODULE EditLaws ------------------------------
(* Laws of structured edits (C01 Sync, C03 container semantics + locality,    *)
(* C12 atomicity of failed edits), as clause sets over one recorded event.    *)
(*                                                                            *)
(* State  s = [rootObj, liveS, liveP, srcOk, srcS, srcP, text, reg]           *)
(* Event  e = [call |-> "edit", op, form, path, field, start, stop, idx,      *)
(*             newS : Seq(element), expValid, expS, outcome, exc, opts, post] *)
(* form \in {"slice", "one", "opt"} is the abstract request the entry point   *)
(* op denotes.  Elements are tuples of sids (see NodeTab!VFieldSeq).          *)
EXTENDS NodeTab

Cl(name, ok) == [c |-> name, ok |-> ok]

Sync(s)          == s.srcOk /\ s.liveP = s.srcP
Unchanged(s, t)  == /\ t.liveP = s.liveP /\ t.liveS = s.liveS /\ t.text = s.text
                    /\ t.srcOk = s.srcOk /\ t.srcP = s.srcP /\ t.rootObj = s.rootObj

Target(s, e)     == NodeAt(s.liveS, e.path)
TKind(s, e)      == Kind(Target(s, e))
Merged(e)        == e.field \in {"_args", "_bases"} \/ (e.field = "_all" /\ FALSE)

OldSeq(s, e) ==
  IF e.field \in {"_args", "_bases"}
  THEN PVMerged(PNodeAt(s.liveP, e.path), IF e.field = "_args" THEN "args" ELSE "bases", "keywords")
  ELSE VFieldSeq(Target(s, e), e.field)
NewSeq(s, e) ==
  IF e.field \in {"_args", "_bases"}
  THEN PVMerged(PNodeAt(e.post.liveP, e.path), IF e.field = "_args" THEN "args" ELSE "bases", "keywords")
  ELSE VFieldSeq(NodeAt(e.post.liveS, e.path), e.field)

Lo(s, e)  == VLo(Target(s, e), e.field)
LenOld(s, e) == Len(OldSeq(s, e))

(* the abstract result the request denotes, by Python container semantics   *)
Expected(s, e) ==
  CASE e.form = "slice" -> PutSlice(OldSeq(s, e), Lo(s, e), e.start, e.stop, e.newS)
    [] e.form = "one"   -> PutOne(OldSeq(s, e), Lo(s, e), e.idx, e.newS[1])
    [] e.form = "del"   -> DelOne(OldSeq(s, e), Lo(s, e), e.idx)
    [] e.form = "opt"   -> e.newS          \* single-valued field: the field becomes exactly the new value
    [] OTHER -> <<>>

IndexErr(s, e)  == e.form \in {"one", "del"} /\ NormIndex(LenOld(s, e), Lo(s, e), e.idx) = -1
InvertedReq(s, e) == e.form = "slice" /\ Inverted(LenOld(s, e), Lo(s, e), e.start, e.stop)
WellFormed(s, e) == ~IndexErr(s, e) /\ ~InvertedReq(s, e)

BelowMin(s, e) == WellFormed(s, e) /\ Len(Expected(s, e)) < MinLen(TKind(s, e), e.field)

(* domain of the Sync judgement (C01): parenthesisation not disabled, and    *)
(* either normalisation on or the request respects the grammar's minimum     *)
(* lengths (the documentation allows temporarily invalid nodes otherwise)    *)
SyncDomain(s, e) == Sync(s) /\ e.opts.pars # "False" /\ e.expValid /\ ~BelowMin(s, e)

(* named action DeleteDependent / grammar-forced companions: fields that the   *)
(* grammar ties to the edited one (`raise X from Y` needs X, `except T as n`  *)
(* needs T, AnnAssign.simple is a function of the target's kind)              *)
Dependent(kind, field, deleting) ==
  CASE kind = "Raise" /\ field = "exc" /\ deleting          -> {"cause"}
    [] kind = "ExceptHandler" /\ field = "type" /\ deleting -> {"name"}
    [] kind = "AnnAssign" /\ field = "target"               -> {"simple"}
    [] OTHER -> {}

Deleting(e) == e.form = "opt" /\ e.newS = <<<<0>>>>

EditOk(s, e) ==
  LET t == e.post IN
  { Cl("RootIdentity", t.rootObj = s.rootObj),
    Cl("RegistryQuiescent", t.reg) }
  \cup (IF SyncDomain(s, e) THEN {Cl("Sync", Sync(t))} ELSE {})
  \cup (IF e.law /\ e.expValid /\ WellFormed(s, e) /\ ~BelowMin(s, e)
        THEN { Cl("SliceLaw", NewSeq(s, e) = Expected(s, e)),
               Cl("NothingElse", OnlyChangedAt(s.liveS, t.liveS, e.path,
                                               VReal(TKind(s, e), e.field)
                                                 \cup Dependent(TKind(s, e), e.field, Deleting(e)))) }
        ELSE {})
  \cup (IF e.law /\ e.expValid /\ e.expS # 0 /\ Sync(s) THEN {Cl("OracleAgree", t.liveS = e.expS)} ELSE {})
  \cup (IF e.law /\ ~WellFormed(s, e) THEN {Cl("IllFormedAccepted", FALSE)} ELSE {})

CutPieceBelowMin(s, e) ==
  /\ e.op = "cut_slice" /\ e.form = "slice" /\ e.opts.norm = "True" /\ WellFormed(s, e)
  /\ NormStop(LenOld(s, e), Lo(s, e), e.stop) - NormStart(LenOld(s, e), Lo(s, e), e.start)
       < MinLen(TKind(s, e), e.field)

(* refusals the documentation announces; everything else that is valid must  *)
(* be carried out                                                            *)
RefuseAllowed(s, e) ==
  \/ ~e.expValid
  \/ ~e.expCompiles            \* parses, but CPython's compiler rejects the result (e.g. `x = *a`)
  \/ ~WellFormed(s, e)          \* IndexError like a list / named deviation RefuseInverted
  \/ BelowMin(s, e)
  \/ CutPieceBelowMin(s, e)    \* norm_get: the *returned* slice would be shorter than the grammar allows
  \/ e.documented               \* harness-classified documented refusal (README TODO / ordering rules), see DESIGN 4-C03

EditRaise(s, e) ==
  LET t == e.post IN
  { Cl("AtomicOnRaise.tree", t.liveP = s.liveP /\ t.liveS = s.liveS),
    Cl("AtomicOnRaise.text", t.text = s.text),
    Cl("AtomicOnRaise.srcparse", t.srcOk = s.srcOk /\ t.srcP = s.srcP),
    Cl("RootIdentity", t.rootObj = s.rootObj),
    Cl("RegistryQuiescent", t.reg) }
  \cup (IF e.law THEN {Cl("CarriedOutNotRefused", RefuseAllowed(s, e))} ELSE {})

EditClauses(s, e) == IF e.outcome = "ok" THEN EditOk(s, e) ELSE EditRaise(s, e)

(* case class of an edit event, computed from logged facts only; used to     *)
(* identify known findings narrowly (DESIGN 2.6)                              *)
ArgsInterleaved(s, e) ==
  LET y == PNodeAt(s.liveP, e.path)
      a == PFieldSeq(y, IF TKind(s, e) = "Call" THEN "args" ELSE "bases")
      k == PFieldSeq(y, "keywords")
  IN TKind(s, e) \in {"Call", "ClassDef"} /\
     \E i \in 1..Len(a), j \in 1..Len(k) : PosLess(KwPos(k[j]), PPos(a[i]))

Shape(s, e) ==
  IF e.form = "slice" THEN
     (IF ~WellFormed(s, e) THEN "illformed"
      ELSE IF NormStart(LenOld(s, e), Lo(s, e), e.start) = NormStop(LenOld(s, e), Lo(s, e), e.stop)
           THEN (IF e.newS = <<>> THEN "noop" ELSE "insert")
      ELSE IF e.newS = <<>> THEN "delete" ELSE "replace")
  ELSE IF e.form = "opt" THEN (IF Deleting(e) THEN "delete" ELSE "set")
  ELSE e.form

PatternKinds == {"MatchValue", "MatchSingleton", "MatchSequence", "MatchMapping", "MatchClass", "MatchStar",
                 "MatchAs", "MatchOr"}
RECURSIVE InPattern(_, _)
InPattern(x, path) ==
  \/ Kind(x) \in PatternKinds
  \/ (path # <<>> /\ x # 0 /\ InPattern(NodeAt(x, <<path[1]>>), Tail(path)))

EditClass(s, e) == TKind(s, e) \o "." \o e.field \o "/" \o Shape(s, e)
                     \o (IF ArgsInterleaved(s, e) THEN "/interleaved" ELSE "")
                     \o (IF InPattern(s.liveS, e.path) THEN "/in-pattern" ELSE "")
                     \o (IF e.codePar THEN "/code-parenthesized" ELSE "")
=============================================================================
