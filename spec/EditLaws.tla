------------------------------ MODULE EditLaws ------------------------------
(* Laws of structured edits (C01 Sync, C03 container semantics + locality,    *)
(* C12 atomicity of failed edits), as clause sets over one recorded event.    *)
(*                                                                            *)
(* State  s = [rootObj, liveS, liveP, srcOk, srcS, srcP, text, reg]           *)
(* Event  e = [call |-> "edit", op, form, path, field, start, stop, idx,      *)
(*             newS : Seq(element), expValid, expS, outcome, exc, opts, post] *)
(* form \in {"slice", "one", "opt"} is the abstract request the entry point   *)
(* op denotes.  Elements are tuples of sids (see NodeTab!VFieldSeq).          *)
EXTENDS NodeTab

Cl(name, ok) == [c |-> name, ok |-> ok]

Sync(s)          == s.srcOk /\ s.liveP = s.srcP
Unchanged(s, t)  == /\ t.liveP = s.liveP /\ t.liveS = s.liveS /\ t.text = s.text
                    /\ t.srcOk = s.srcOk /\ t.srcP = s.srcP /\ t.rootObj = s.rootObj

Target(s, e)     == NodeAt(s.liveS, e.path)
TKind(s, e)      == Kind(Target(s, e))
Merged(e)        == e.field \in {"_args", "_bases"} \/ (e.field = "_all" /\ FALSE)

OldSeq(s, e) ==
  IF e.field \in {"_args", "_bases"}
  THEN PVMerged(PNodeAt(s.liveP, e.path), IF e.field = "_args" THEN "args" ELSE "bases", "keywords")
  ELSE VFieldSeq(Target(s, e), e.field)
NewSeq(s, e) ==
  IF e.field \in {"_args", "_bases"}
  THEN PVMerged(PNodeAt(e.post.liveP, e.path), IF e.field = "_args" THEN "args" ELSE "bases", "keywords")
  ELSE VFieldSeq(NodeAt(e.post.liveS, e.path), e.field)

Lo(s, e)  == VLo(Target(s, e), e.field)
LenOld(s, e) == Len(OldSeq(s, e))

(* a sub-view field[vlo:vhi] denotes the Python sub-list old[A:B]; requests   *)
(* made through it use indices relative to it                                 *)
ViewA(s, e) == NormStart(LenOld(s, e), Lo(s, e), e.vlo)
ViewB(s, e) == Max(ViewA(s, e), NormStop(LenOld(s, e), Lo(s, e), e.vhi))
ViewL(s, e) == SubSeq(OldSeq(s, e), ViewA(s, e) + 1, ViewB(s, e))
InView(s, e, L2) == Splice(OldSeq(s, e), ViewA(s, e), ViewB(s, e), L2)

(* the abstract result the request denotes, by Python container semantics   *)
Expected(s, e) ==
  CASE e.form = "one" /\ e.newS = <<>> -> OldSeq(s, e)   \* the new element has no abstract value (unparsable code):
                                                         \* no result is denoted, the refusal clauses judge the event
    [] e.form = "slice" /\ e.isView -> InView(s, e, PutSlice(ViewL(s, e), 0, e.start, e.stop, e.newS))
    [] e.form = "one" /\ e.isView   -> InView(s, e, PutOne(ViewL(s, e), 0, e.idx, e.newS[1]))
    [] e.form = "del" /\ e.isView   -> InView(s, e, DelOne(ViewL(s, e), 0, e.idx))
    [] e.form = "slice" -> PutSlice(OldSeq(s, e), Lo(s, e), e.start, e.stop, e.newS)
    [] e.form = "one"   -> PutOne(OldSeq(s, e), Lo(s, e), e.idx, e.newS[1])
    [] e.form = "del"   -> DelOne(OldSeq(s, e), Lo(s, e), e.idx)
    [] e.form = "opt"   -> e.newS          \* single-valued field: the field becomes exactly the new value
    [] OTHER -> <<>>

IndexErr(s, e)  == e.form \in {"one", "del"} /\
                   (IF e.isView THEN NormIndex(Len(ViewL(s, e)), 0, e.idx) = -1
                    ELSE NormIndex(LenOld(s, e), Lo(s, e), e.idx) = -1)
InvertedReq(s, e) == e.form = "slice" /\
                     (IF e.isView THEN Inverted(Len(ViewL(s, e)), 0, e.start, e.stop)
                      ELSE Inverted(LenOld(s, e), Lo(s, e), e.start, e.stop))
WellFormed(s, e) == ~IndexErr(s, e) /\ ~InvertedReq(s, e)

BelowMin(s, e) == WellFormed(s, e) /\ Len(Expected(s, e)) < MinLen(TKind(s, e), e.field)

(* domain of the Sync judgement (C01): parenthesisation not disabled, and    *)
(* either normalisation on or the request respects the grammar's minimum     *)
(* lengths (the documentation allows temporarily invalid nodes otherwise)    *)
SyncDomain(s, e) == Sync(s) /\ e.opts.pars # "False" /\ e.expValid /\ ~BelowMin(s, e)

(* arglike ordering (d07 "you can't break syntax ordering rules"): positional   *)
(* may not follow keyword or **, * may not follow **                           *)
ArgCat(x) == IF Kind(x) = "keyword" THEN (IF FieldSeq(x, "arg") = <<0>> THEN "dstar" ELSE "kw")
             ELSE IF Kind(x) = "Starred" THEN "star" ELSE "pos"
ArglikeOrderOk(seq) ==
  \A i \in 1..Len(seq), j \in 1..Len(seq) : i < j =>
     /\ ~(ArgCat(seq[j][1]) = "pos" /\ ArgCat(seq[i][1]) \in {"kw", "dstar"})
     /\ ~(ArgCat(seq[j][1]) = "star" /\ ArgCat(seq[i][1]) = "dstar")
(* MatchMapping._all: at most one `**rest` element (a 1-tuple) and only at the *)
(* end (d07); MatchClass._attrs: positional patterns (1-tuples) before keyword *)
(* ones (2-tuples)                                                             *)
RestLastOk(seq)  == \A i \in 1..Len(seq) : Len(seq[i]) = 1 => i = Len(seq)
PosBeforeKw(seq) == \A i \in 1..Len(seq), j \in 1..Len(seq) : (i < j /\ Len(seq[i]) = 2) => Len(seq[j]) = 2
OrderRuleBroken(s, e) ==
  /\ WellFormed(s, e)
  /\ \/ e.field \in {"_args", "_bases"} /\ ~ArglikeOrderOk(Expected(s, e))
     \/ e.field = "_all" /\ TKind(s, e) = "MatchMapping" /\ ~RestLastOk(Expected(s, e))
     \/ e.field = "_attrs" /\ ~PosBeforeKw(Expected(s, e))

(* Compare slices (d06): operators strictly left of the slice and strictly     *)
(* right of it are kept; which operator adjoins the slice is op_side's choice  *)
OpsLaw(s, e) ==
  LET o  == FieldSeq(Target(s, e), "ops")
      o2 == FieldSeq(NodeAt(e.post.liveS, e.path), "ops")
      n  == LenOld(s, e)
      s0 == IF e.form = "slice" THEN NormStart(n, 0, e.start) ELSE NormIndex(n, 0, e.idx)
      t0 == IF e.form = "slice" THEN NormStop(n, 0, e.stop) ELSE NormIndex(n, 0, e.idx) + 1
      keepR == IF n - 1 - t0 > 0 THEN n - 1 - t0 ELSE 0
  IN /\ Len(o2) = Len(Expected(s, e)) - 1
     /\ \A i \in 1..(s0 - 1) : i <= Len(o2) /\ i <= Len(o) /\ o2[i] = o[i]
     /\ \A i \in 1..keepR : Len(o2) - i + 1 >= 1 /\ o2[Len(o2) - i + 1] = o[Len(o) - i + 1]

(* named action DeleteDependent / grammar-forced companions: fields that the   *)
(* grammar ties to the edited one (`raise X from Y` needs X, `except T as n`  *)
(* needs T, AnnAssign.simple is a function of the target's kind)              *)
Dependent(kind, field, deleting) ==
  CASE kind = "Raise" /\ field = "exc" /\ deleting          -> {"cause"}
    [] kind = "ExceptHandler" /\ field = "type" /\ deleting -> {"name"}
    [] kind = "AnnAssign" /\ field = "target"               -> {"simple"}
    [] OTHER -> {}

Deleting(e) == e.form = "opt" /\ e.newS = <<<<0>>>>

EditOk(s, e) ==
  LET t == e.post IN
  { Cl("RootIdentity", t.rootObj = s.rootObj),
    Cl("RegistryQuiescent", t.reg) }
  \cup (IF SyncDomain(s, e) THEN {Cl("Sync", Sync(t))} ELSE {})
  \cup (IF e.law /\ e.expValid /\ WellFormed(s, e) /\ ~BelowMin(s, e)
        THEN { Cl("SliceLaw", NewSeq(s, e) = Expected(s, e)),
               Cl("NothingElse", OnlyChangedAt(s.liveS, t.liveS, e.path,
                                               VReal(TKind(s, e), e.field)
                                                 \cup Dependent(TKind(s, e), e.field, Deleting(e)))) }
        ELSE {})
  \cup (IF e.law /\ e.expValid /\ WellFormed(s, e) /\ ~BelowMin(s, e) /\ TKind(s, e) = "Compare" /\ e.field = "_all"
        THEN {Cl("OpsLaw", OpsLaw(s, e))} ELSE {})
  \cup (IF e.law /\ e.expValid /\ e.expS # 0 /\ Sync(s) THEN {Cl("OracleAgree", t.liveS = e.expS)} ELSE {})
  \cup (IF e.law /\ ~WellFormed(s, e) THEN {Cl("IllFormedAccepted", FALSE)} ELSE {})

CutPieceBelowMin(s, e) ==
  /\ e.op \in {"cut_slice", "sv_cut"} /\ e.form = "slice" /\ e.opts.norm = "True" /\ WellFormed(s, e)
  /\ LenOld(s, e) - Len(Expected(s, e)) < MinLen(TKind(s, e), e.field)      \* number of elements in the returned piece

(* refusals the documentation announces; everything else that is valid must  *)
(* be carried out                                                            *)
RefuseAllowed(s, e) ==
  \/ ~e.expValid
  \/ ~e.expCompiles            \* parses, but CPython's compiler rejects the result (e.g. `x = *a`)
  \/ ~WellFormed(s, e)          \* IndexError like a list / named deviation RefuseInverted
  \/ BelowMin(s, e)
  \/ OrderRuleBroken(s, e)      \* arglike syntax ordering rules
  \/ CutPieceBelowMin(s, e)    \* norm_get: the *returned* slice would be shorter than the grammar allows
  \/ e.documented               \* harness-classified documented refusal (README TODO / ordering rules), see DESIGN 4-C03

EditRaise(s, e) ==
  LET t == e.post IN
  { Cl("AtomicOnRaise.tree", t.liveP = s.liveP /\ t.liveS = s.liveS),
    Cl("AtomicOnRaise.text", t.text = s.text),
    Cl("AtomicOnRaise.srcparse", t.srcOk = s.srcOk /\ t.srcP = s.srcP),
    Cl("RootIdentity", t.rootObj = s.rootObj),
    Cl("RegistryQuiescent", t.reg) }
  \cup (IF e.law THEN {Cl("CarriedOutNotRefused", RefuseAllowed(s, e))} ELSE {})

EditClauses(s, e) == IF e.outcome = "ok" THEN EditOk(s, e) ELSE EditRaise(s, e)

(* case class of an edit event, computed from logged facts only; used to     *)
(* identify known findings narrowly (DESIGN 2.6)                              *)
ArgsInterleaved(s, e) ==
  LET y == PNodeAt(s.liveP, e.path)
      a == PFieldSeq(y, IF TKind(s, e) = "Call" THEN "args" ELSE "bases")
      k == PFieldSeq(y, "keywords")
  IN TKind(s, e) \in {"Call", "ClassDef"} /\
     \E i \in 1..Len(a), j \in 1..Len(k) : PosLess(KwPos(k[j]), PPos(a[i]))

Shape(s, e) ==
  IF e.form = "slice" THEN
     (IF ~WellFormed(s, e) THEN "illformed"
      ELSE IF (IF e.isView THEN NormStart(Len(ViewL(s, e)), 0, e.start) = NormStop(Len(ViewL(s, e)), 0, e.stop)
               ELSE NormStart(LenOld(s, e), Lo(s, e), e.start) = NormStop(LenOld(s, e), Lo(s, e), e.stop))
           THEN (IF e.newS = <<>> THEN "noop" ELSE "insert")
      ELSE IF e.newS = <<>> THEN "delete" ELSE "replace")
  ELSE IF e.form = "opt" THEN (IF Deleting(e) THEN "delete" ELSE "set")
  ELSE e.form

PatternKinds == {"MatchValue", "MatchSingleton", "MatchSequence", "MatchMapping", "MatchClass", "MatchStar",
                 "MatchAs", "MatchOr"}
RECURSIVE InPattern(_, _)
InPattern(x, path) ==
  \/ Kind(x) \in PatternKinds
  \/ (path # <<>> /\ x # 0 /\ InPattern(NodeAt(x, <<path[1]>>), Tail(path)))

EditClass(s, e) == TKind(s, e) \o "." \o e.field \o "/" \o Shape(s, e)
                     \o (IF ArgsInterleaved(s, e) THEN "/interleaved" ELSE "")
                     \o (IF InPattern(s.liveS, e.path) THEN "/in-pattern" ELSE "")
                     \o (IF e.codePar THEN "/code-parenthesized" ELSE "")
                     \o (IF e.isView THEN "/subview" ELSE "")
                     \o (IF e.form = "slice" /\ ~e.isView /\ NormStart(LenOld(s, e), Lo(s, e), e.start) = 0
                           /\ e.codePar0 THEN "/at0-first-parenthesized" ELSE "")
=============================================================================
