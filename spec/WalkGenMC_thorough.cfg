SPECIFICATION Spec
CONSTANTS
  N = 4
  MaxMut = 2
  MaxPark = 2
  MaxSend = 1
  Ons = {"enter", "leave", "both"}
  Backs = {FALSE, TRUE}
  Recs = {TRUE, FALSE}
  Selfs = {TRUE, FALSE}
  Shapes = {1, 3}
  WRemovable = TRUE
  Logging = FALSE
INVARIANT YieldedAlive
INVARIANT YieldedInTree
INVARIANT NoDoubleEnter
INVARIANT RemovedContinues
INVARIANT ReplacedChildrenNext
INVARIANT SendTrueHonoured
INVARIANT SendFalseHonoured
INVARIANT Bounded

