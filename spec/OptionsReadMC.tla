---------------------------- MODULE OptionsReadMC ----------------------------
(* Two threads, one consumed option with two values,                          *)
(* one shared node with two possible sources, one block per thread.          *)
EXTENDS OptionsRead
CONSTANTS t1, t2, o1, o2, v0, v1, c0, c1, cb, n1, s0, s1
HeapR == (c0 :> v0) @@ (c1 :> v1) @@ (cb :> Bad)
DefR  == (o1 :> c0) @@ (o2 :> c0)
DefR1 == (o1 :> c0)
NestR == (t1 :> 1) @@ (t2 :> 1)
=============================================================================
