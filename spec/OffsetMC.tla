------------------------------ MODULE OffsetMC ------------------------------
(* Model-checking wrapper of Offset.tla.  Two configurations:                 *)
(*   OffsetMC.cfg           trees <= 4 nodes, 2 x 8 grid   (quick tier)       *)
(*   OffsetMC_thorough.cfg  trees <= 4 nodes, 2 x 8 grid                      *)
(*   OffsetMC_cache.cfg / OffsetMC_cache_thorough.cfg  trees <= 3 nodes, one   *)
(*                          wrapped node (own grouping parentheses / trailing *)
(*                          comment), explicit cache state, warm modes        *)
(*   OffsetMC_n5.cfg        trees <= 5 nodes, 2 x 8 grid, nodes of non-zero   *)
(*                          width with separators only, reduced alphabets     *)
(* Gap texts: any gap may be empty (adjacent tokens) or a line break; at most *)
(* one gap per instance is taken from the rich alphabet (1-2 columns, with    *)
(* and without a line break, with trailing/leading columns around the break). *)
EXTENDS Offset

MCGapAlpha  == {<<0>>, <<0, 0>>}
MCRichAlpha == {<<1>>, <<2>>, <<1, 0>>, <<0, 1>>, <<1, 1>>}
MCInsAlpha  == {<<0>>, <<1>>, <<2>>, <<0, 0>>, <<1, 0>>, <<0, 1>>}

MCWarmAll   == {"all"}
MCWarmModes == {"none", "all", "anc", "sib"}
MCWarmTwo   == {"all", "sib"}

MCRichAlpha5 == {<<1>>, <<1, 1>>}
MCInsAlpha5  == {<<0>>, <<1>>, <<0, 1>>}
=============================================================================
