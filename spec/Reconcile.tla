------------------------------ MODULE Reconcile ------------------------------
(* mark() / pure-AST mutation / reconcile() of pfst (property C13) over        *)
(* abstract statement trees.                                                   *)
(*                                                                             *)
(* The user's AST is a heap of objects with identity (the same object may be   *)
(* linked at several places, exactly as Python lists allow):                   *)
(*   M module [body]; S simple statement [val, e]; B compound statement        *)
(*   [val, e, body, orelse]; E expression leaf [val].                          *)
(* org says where an object comes from: the marked tree ("own"), another FST   *)
(* tree ("other") or a constructor call ("new").                               *)
(*                                                                             *)
(* Actions: Mark, AstMutate (ReplaceStmt / ReplaceExpr by a new object, an     *)
(* object of the same tree or of another tree; Insert (incl. duplicate),       *)
(* Delete, Swap, Move of list elements; SetPrim; the named special cases       *)
(* SiblingCopy and ForeignPair), FstEditAfterMark (an                          *)
(* FST-native edit: documented to invalidate the mark), Reconcile.             *)
(*                                                                             *)
(* What the model establishes (checked exhaustively by TLC within the          *)
(* constants of ReconcileMC.cfg):                                              *)
(*   MarkNoAlias, NoChangeIffNoMut, UntouchedIntact, ResultUntouched           *)
(*   (invariants), TouchedMonotone, InvalidatedRaises, ResultEqualsWork,       *)
(*   NoChangeIdentity (action properties).                                     *)
(* i.e. the bookkeeping "touched" defined in ReconcileOps is *sufficient*:     *)
(* an untouched marked statement is still the same object at the same path     *)
(* with an unchanged subtree, so a reconcile that re-uses the marked text of   *)
(* every marked object (as documented) reproduces its lines.                   *)
(* The behaviours of this model are also the mutation histories replayed into  *)
(* the real code (hist, emitted by ReconcileMC!Emit).                          *)
EXTENDS ReconcileOps, TLC, Json, SequencesExt

CONSTANTS MaxObj,      \* heap size
          MaxPos,      \* positions (paths) in the working tree
          MaxMut,      \* AST mutations per history
          MaxRounds,   \* successful mark/reconcile rounds per history
          MaxFst,      \* FST-native edits per history
          InitShapes   \* set of initial trees: Seq([b : body length (0 = simple), o : orelse length])

VARIABLES heap, root, nextid,       \* the working AST (user visible), next unused object id
          mheap, mpos,              \* snapshot taken by Mark: heap and its positions [p : path, o : object]
          valid, open,              \* mark still valid; a Mark happened since the last successful Reconcile
          nmut, tmut, nfst, rounds, \* mutations since Mark / in total, FST edits, successful rounds
          touched,                  \* marked statement paths touched since Mark (ReconcileOps!TouchSites)
          out, prov,                \* outcome of the last Reconcile; provenance of the text of each result position
          lastact, hist             \* label of the last action; history (for replay into the real code)

vars == <<heap, root, nextid, mheap, mpos, valid, open, nmut, tmut, nfst, rounds, touched, out, prov, lastact, hist>>
View == <<heap, root, nextid, mheap, mpos, valid, open, nmut, tmut, nfst, rounds, touched, out, prov, lastact>>

Free == [t |-> "-", val |-> 0, e |-> 0, body |-> <<>>, orelse |-> <<>>, org |-> "-"]
Obj(t, val, e, body, orelse, org) == [t |-> t, val |-> val, e |-> e, body |-> body, orelse |-> orelse, org |-> org]

Fill(fr) == [i \in 1..MaxObj |-> IF i \in DOMAIN fr THEN fr[i] ELSE Free]
Over(h, fr) == [i \in 1..MaxObj |-> IF i \in DOMAIN fr THEN fr[i] ELSE h[i]]

(* ----------------------------- initial trees ----------------------------- *)
DSize(d) == 2 + 2 * (d.b + d.o)
RECURSIVE Base(_, _)
Base(sh, k) == IF k = 1 THEN 1 ELSE Base(sh, k - 1) + DSize(sh[k - 1])

StmtFrag(base, d) ==
  LET sid == base + 1
      eid == base + 2
      bodyIds == [c \in 1..d.b |-> base + 2 + 2 * c - 1]
      orIds   == [c \in 1..d.o |-> base + 2 + 2 * d.b + 2 * c - 1]
  IN (sid :> Obj(IF d.b = 0 THEN "S" ELSE "B", 0, eid, bodyIds, orIds, "own"))
       @@ (eid :> Obj("E", 0, 0, <<>>, <<>>, "own"))
       @@ [i \in {base + 2 + j : j \in 1..(2 * (d.b + d.o))} |->
             IF (i - base) % 2 = 1 THEN Obj("S", 0, i + 1, <<>>, <<>>, "own") ELSE Obj("E", 0, 0, <<>>, <<>>, "own")]

RECURSIVE Frags(_, _)
Frags(sh, k) == IF k > Len(sh) THEN <<>> ELSE StmtFrag(Base(sh, k), sh[k]) @@ Frags(sh, k + 1)

InitHeap(sh) ==
  Fill((1 :> Obj("M", 0, 0, [k \in 1..Len(sh) |-> Base(sh, k) + 1], <<>>, "own")) @@ Frags(sh, 1))
InitNext(sh) == Base(sh, Len(sh)) + DSize(sh[Len(sh)]) + 1

(* ------------------------------- positions ------------------------------- *)
Fields == {"body", "orelse", "e"}
Kids(h, o, f) == CASE f = "body" -> h[o].body [] f = "orelse" -> h[o].orelse
                   [] OTHER -> IF h[o].e = 0 THEN <<>> ELSE <<h[o].e>>

(* positions [p : path, o : object] of the tree hanging below Module object   *)
(* r0; statement nesting is at most 2 (Shaped), so they can be listed level   *)
(* by level                                                                    *)
StmtLists == {"body", "orelse"}
Level(h, par) ==
  UNION { UNION { {[p |-> t.p \o <<Elt(f, c)>>, o |-> Kids(h, t.o, f)[c]] : c \in 1..Len(Kids(h, t.o, f))}
                  : f \in StmtLists } : t \in par }
PosOf(h, r0) ==
  LET top == Level(h, {[p |-> <<>>, o |-> r0]})
      nst == Level(h, top)
      es  == {[p |-> x.p \o <<Elt("e", 1)>>, o |-> h[x.o].e] : x \in {y \in top \cup nst : h[y.o].e # 0}}
  IN {[p |-> <<>>, o |-> r0]} \cup top \cup nst \cup es

(* objects of the subtree of statement / expression o                         *)
SubObjs(h, o) ==
  LET kids == {h[o].body[c] : c \in 1..Len(h[o].body)} \cup {h[o].orelse[c] : c \in 1..Len(h[o].orelse)}
      all  == {o} \cup kids
  IN all \cup {h[x].e : x \in {y \in all : h[y].e # 0}}

ListFieldsOf(h, o) == IF h[o].t = "M" THEN {"body"} ELSE IF h[o].t = "B" THEN {"body", "orelse"} ELSE {}
SetList(h, o, f, s) == [h EXCEPT ![o] = IF f = "body" THEN [@ EXCEPT !.body = s] ELSE [@ EXCEPT !.orelse = s]]

(* size of the tree in positions, computed arithmetically                     *)
RECURSIVE SizeL(_, _)
SizeOne(h, o) == 2 + 2 * (Len(h[o].body) + Len(h[o].orelse))     \* S: itself + e; B: + its simple children
SizeL(h, s) == IF s = <<>> THEN 0 ELSE SizeOne(h, s[1]) + SizeL(h, Tail(s))
PosCount(h) == 1 + SizeL(h, h[root].body)

(* Shaped: statement nesting depth <= 2 (a compound statement only directly   *)
(* in the module), hence no cycles; bodies non-empty; bounded size.  Guard of *)
(* every mutation: x is put into list f of o                                  *)
MayHold(h, o, x) == h[o].t = "M" \/ (h[o].t = "B" /\ h[x].t = "S")
WellShaped(h) ==
  /\ PosCount(h) <= MaxPos
  /\ h[root].body # <<>>
  /\ \A k \in 1..Len(h[root].body) : LET x == h[root].body[k] IN h[x].t = "B" => h[x].body # <<>>

NoAlias(h, r0) == LET P == PosOf(h, r0) IN Cardinality({r.o : r \in P}) = Cardinality(P)

RECURSIVE AbsT(_, _, _)
AbsT(h, o, fuel) ==
  [t |-> h[o].t, val |-> h[o].val,
   e |-> IF h[o].e = 0 \/ fuel = 0 THEN <<>> ELSE <<AbsT(h, h[o].e, fuel - 1)>>,
   body   |-> IF fuel = 0 THEN <<>> ELSE [c \in 1..Len(h[o].body) |-> AbsT(h, h[o].body[c], fuel - 1)],
   orelse |-> IF fuel = 0 THEN <<>> ELSE [c \in 1..Len(h[o].orelse) |-> AbsT(h, h[o].orelse[c], fuel - 1)]]

RECURSIVE ShapeL(_, _)
ShapeOne(h, o) == IF h[o].t = "B" THEN "B(" \o ShapeL(h, h[o].body) \o "|" \o ShapeL(h, h[o].orelse) \o ")" ELSE "S"
ShapeL(h, s) == IF s = <<>> THEN "" ELSE ShapeOne(h, s[1]) \o (IF Len(s) > 1 THEN "," ELSE "") \o ShapeL(h, Tail(s))

(* --------------------------------- mark ---------------------------------- *)
IsMarked(o)  == \E q \in mpos : q.o = o
MPath(o)     == (CHOOSE q \in mpos : q.o = o).p
MObj(p)      == (CHOOSE q \in mpos : q.p = p).o
MarkedStmts  == {q.p : q \in {x \in mpos : mheap[x.o].t \in {"S", "B"}}}
SubEq(o)     == \A x \in SubObjs(mheap, o) : heap[x] = mheap[x]

MkSite(o, f, mode, i) ==
  [known |-> IsMarked(o), path |-> IF IsMarked(o) THEN MPath(o) ELSE <<>>, n |-> f, mode |-> mode, i |-> i]

Init ==
  /\ \E sh \in InitShapes :
       /\ heap = InitHeap(sh) /\ nextid = InitNext(sh)
       /\ hist = <<[a |-> "Init", shape |-> ShapeL(InitHeap(sh), InitHeap(sh)[1].body)]>>
  /\ root = 1 /\ mheap = heap /\ mpos = {} /\ valid = FALSE /\ open = FALSE
  /\ nmut = 0 /\ tmut = 0 /\ nfst = 0 /\ rounds = 0 /\ touched = {} /\ out = "none" /\ prov = <<>>
  /\ lastact = "Init"

(* mark(): only on a tree that is consistent (no pending pure-AST mutation)  *)
Mark ==
  /\ nmut = 0 /\ (~open \/ ~valid) /\ rounds < MaxRounds
  /\ ~(lastact = "Mark")
  /\ mheap' = heap /\ mpos' = PosOf(heap, root)
  /\ valid' = TRUE /\ open' = TRUE /\ touched' = {} /\ nmut' = 0
  /\ lastact' = "Mark" /\ hist' = Append(hist, [a |-> "Mark"])
  /\ UNCHANGED <<heap, root, nextid, tmut, nfst, rounds, out, prov>>

(* an FST-native edit after mark(): keeps tree and source consistent, but    *)
(* invalidates the mark (fst.py mark(): "the checkpoint will be invalidated") *)
(* domain restriction FstEditOnCleanTree: not on a tree with pending pure-AST *)
(* mutations (pfst's FST functions are undefined there)                       *)
FstEditAfterMark ==
  /\ open /\ valid /\ nmut = 0 /\ nfst < MaxFst
  /\ \E r \in PosOf(heap, root) :
       /\ heap[r.o].t = "S"
       /\ heap' = [heap EXCEPT ![r.o].val = 90 + nfst]
       /\ hist' = Append(hist, [a |-> "FstEdit", cur |-> r.p])
  /\ valid' = FALSE /\ nfst' = nfst + 1 /\ lastact' = "FstEdit"
  /\ UNCHANGED <<root, nextid, mheap, mpos, open, nmut, tmut, rounds, touched, out, prov>>

(* ------------------------------ AST mutations ----------------------------- *)
Need(t) == CASE t = "E" -> 1 [] t = "S" -> 2 [] OTHER -> 4
NewFrag(base, t, org) ==
  CASE t = "E" -> (base + 1 :> Obj("E", 10 + base, 0, <<>>, <<>>, org))
    [] t = "S" -> (base + 1 :> Obj("S", 10 + base, base + 2, <<>>, <<>>, org))
                    @@ (base + 2 :> Obj("E", 10 + base, 0, <<>>, <<>>, org))
    [] OTHER   -> (base + 1 :> Obj("B", 10 + base, base + 2, <<base + 3>>, <<>>, org))
                    @@ (base + 2 :> Obj("E", 10 + base, 0, <<>>, <<>>, org))
                    @@ (base + 3 :> Obj("S", 11 + base, base + 4, <<>>, <<>>, org))
                    @@ (base + 4 :> Obj("E", 11 + base, 0, <<>>, <<>>, org))

Reach == PosOf(heap, root)
(* sources for a slot: brand-new object, object of another tree, object of   *)
(* the same tree (by reference, no copy)                                      *)
SrcSet(stmt) ==
  {[k |-> "new", t |-> tt, o |-> 0, cur |-> <<>>] : tt \in (IF stmt THEN {"S", "B"} ELSE {"E"})}
  \cup {[k |-> "other", t |-> tt, o |-> 0, cur |-> <<>>] : tt \in (IF stmt THEN {"S"} ELSE {"E"})}
  \cup {[k |-> "same", t |-> heap[r.o].t, o |-> r.o, cur |-> r.p] :
          r \in {x \in Reach : heap[x.o].t \in (IF stmt THEN {"S", "B"} ELSE {"E"})}}

Put(src) ==   \* [h : heap with the source object present, o : its id, nid : next unused id]
  IF src.k = "same" THEN [h |-> heap, o |-> src.o, nid |-> nextid]
  ELSE [h |-> Over(heap, NewFrag(nextid - 1, src.t, src.k)), o |-> nextid, nid |-> nextid + Need(src.t)]
Fits(src) == src.k = "same" \/ nextid - 1 + Need(src.t) <= MaxObj

Mutated(h2, nid, sites, rec) ==
  /\ open /\ tmut < MaxMut
  /\ ~(lastact = "Reconcile" /\ out = "raise" /\ nmut > 0)     \* the history ended: irreconcilable
  /\ WellShaped(h2)
  /\ heap' = h2 /\ nextid' = nid /\ nmut' = nmut + 1 /\ tmut' = tmut + 1
  /\ touched' = touched \cup TouchSites(MarkedStmts, sites)
  /\ lastact' = "Mut" /\ hist' = Append(hist, rec @@ [a |-> "Mut", sites |-> sites])
  /\ UNCHANGED <<root, mheap, mpos, valid, open, nfst, rounds, out, prov>>

SrcRec(src) == [k |-> src.k, t |-> src.t, cur |-> src.cur]

ReplaceStmt ==
  \E src \in SrcSet(TRUE) : \E r \in Reach : \E f \in ListFieldsOf(heap, r.o) : \E i \in 1..Len(Kids(heap, r.o, f)) :
    /\ Fits(src) /\ src.o # Kids(heap, r.o, f)[i]
    /\ LET pt == Put(src) IN
       /\ MayHold(pt.h, r.o, pt.o)
       /\ Mutated(SetList(pt.h, r.o, f, [Kids(heap, r.o, f) EXCEPT ![i] = pt.o]), pt.nid,
               <<MkSite(r.o, f, "slot", i)>>,
               [kind |-> "replace_" \o src.k, cur |-> r.p, n |-> f, i |-> i, j |-> 0, src |-> SrcRec(src), cur2 |-> <<>>, n2 |-> ""])

ReplaceExpr ==
  \E src \in SrcSet(FALSE) : \E r \in Reach :
    /\ heap[r.o].t \in {"S", "B"} /\ heap[r.o].e # 0
    /\ Fits(src) /\ src.o # heap[r.o].e
    /\ LET pt == Put(src) IN
       Mutated([pt.h EXCEPT ![r.o].e = pt.o], pt.nid, <<MkSite(r.o, "e", "slot", 0)>>,
               [kind |-> "replace_" \o src.k, cur |-> r.p, n |-> "e", i |-> 0, j |-> 0, src |-> SrcRec(src), cur2 |-> <<>>, n2 |-> ""])

InsAt(s, i, x) == SubSeq(s, 1, i - 1) \o <<x>> \o SubSeq(s, i, Len(s))
DelAt(s, i)    == SubSeq(s, 1, i - 1) \o SubSeq(s, i + 1, Len(s))

Insert ==
  \E src \in SrcSet(TRUE) : \E r \in Reach : \E f \in ListFieldsOf(heap, r.o) : \E i \in 1..(Len(Kids(heap, r.o, f)) + 1) :
    /\ Fits(src)
    /\ LET pt == Put(src)
           lst == Kids(heap, r.o, f)
           dup == src.k = "same" /\ \E c \in 1..Len(lst) : lst[c] = src.o IN
       /\ MayHold(pt.h, r.o, pt.o)
       /\ Mutated(SetList(pt.h, r.o, f, InsAt(lst, i, pt.o)), pt.nid, <<MkSite(r.o, f, "list", i)>>,
               [kind |-> IF dup THEN "dup" ELSE "insert_" \o src.k, cur |-> r.p, n |-> f, i |-> i, j |-> 0,
                src |-> SrcRec(src), cur2 |-> <<>>, n2 |-> ""])

Delete ==
  \E r \in Reach : \E f \in ListFieldsOf(heap, r.o) : \E i \in 1..Len(Kids(heap, r.o, f)) :
    Mutated(SetList(heap, r.o, f, DelAt(Kids(heap, r.o, f), i)), nextid, <<MkSite(r.o, f, "list", i)>>,
            [kind |-> "delete", cur |-> r.p, n |-> f, i |-> i, j |-> 0, src |-> [k |-> "", t |-> "", cur |-> <<>>],
             cur2 |-> <<>>, n2 |-> ""])

Swap ==
  \E r \in Reach : \E f \in ListFieldsOf(heap, r.o) : \E i, j \in 1..Len(Kids(heap, r.o, f)) :
    /\ i < j /\ Kids(heap, r.o, f)[i] # Kids(heap, r.o, f)[j]
    /\ LET lst == Kids(heap, r.o, f) IN
       Mutated(SetList(heap, r.o, f, [lst EXCEPT ![i] = lst[j], ![j] = lst[i]]), nextid, <<MkSite(r.o, f, "list", i)>>,
               [kind |-> "swap", cur |-> r.p, n |-> f, i |-> i, j |-> j, src |-> [k |-> "", t |-> "", cur |-> <<>>],
                cur2 |-> <<>>, n2 |-> ""])

(* move a subtree: pop it from one list, insert it into another               *)
Move ==
  \E r1 \in Reach : \E r2 \in Reach : \E f1 \in ListFieldsOf(heap, r1.o) : \E i \in 1..Len(Kids(heap, r1.o, f1)) :
  \E f2 \in ListFieldsOf(heap, r2.o) :
    /\ ~(r1.o = r2.o /\ f1 = f2)
    /\ LET x  == Kids(heap, r1.o, f1)[i]
           h1 == SetList(heap, r1.o, f1, DelAt(Kids(heap, r1.o, f1), i)) IN
       \E j \in 1..(Len(Kids(h1, r2.o, f2)) + 1) :
         /\ MayHold(heap, r2.o, x)
         /\ Mutated(SetList(h1, r2.o, f2, InsAt(Kids(h1, r2.o, f2), j, x)), nextid,
                 <<MkSite(r1.o, f1, "list", i), MkSite(r2.o, f2, "list", j)>>,
                 [kind |-> "move", cur |-> r1.p, n |-> f1, i |-> i, j |-> j, src |-> [k |-> "", t |-> "", cur |-> <<>>],
                  cur2 |-> r2.p, n2 |-> f2])

SetPrim ==
  \E r \in Reach :
    /\ r.o # root
    /\ Mutated([heap EXCEPT ![r.o].val = 50 + tmut], nextid, <<MkSite(r.o, "val", "self", 0)>>,
               [kind |-> "setprim", cur |-> r.p, n |-> "val", i |-> 0, j |-> 0, src |-> [k |-> "", t |-> "", cur |-> <<>>],
                cur2 |-> <<>>, n2 |-> ""])

(* Two alignments that matter for an implementation that copies *runs* of    *)
(* neighbouring nodes (sub-cases of ReplaceStmt / Insert, named so that they  *)
(* can be generated on purpose, see ReconcileMC!SpecSib):                      *)
(* SiblingCopy: the k-th statement of one block of a compound statement is    *)
(* linked at the k-th place of - or inserted right behind the k-th place of - *)
(* a SIBLING block of the same statement, so that it is followed by a         *)
(* statement that has the next index in its own block;                        *)
(* ForeignPair: two statements of one compound statement of another tree,     *)
(* taken from two different blocks at consecutive indices, inserted side by   *)
(* side.                                                                      *)
SiblingCopy ==
  \E r \in Reach : \E f \in ListFieldsOf(heap, r.o) : \E g \in ListFieldsOf(heap, r.o) :
  \E k \in 1..Len(Kids(heap, r.o, g)) : \E ins \in BOOLEAN :
    /\ heap[r.o].t = "B" /\ f # g
    /\ LET F == Kids(heap, r.o, f)
           x == Kids(heap, r.o, g)[k]
           src == [k |-> "same", t |-> heap[x].t, cur |-> r.p \o <<Elt(g, k)>>] IN
       /\ k <= Len(F)
       /\ \/ /\ ~ins /\ F[k] # x
             /\ Mutated(SetList(heap, r.o, f, [F EXCEPT ![k] = x]), nextid, <<MkSite(r.o, f, "slot", k)>>,
                        [kind |-> "replace_same", cur |-> r.p, n |-> f, i |-> k, j |-> 0, src |-> src,
                         cur2 |-> <<>>, n2 |-> ""])
          \/ /\ ins
             /\ Mutated(SetList(heap, r.o, f, InsAt(F, k + 1, x)), nextid, <<MkSite(r.o, f, "list", k + 1)>>,
                        [kind |-> "insert_same", cur |-> r.p, n |-> f, i |-> k + 1, j |-> 0, src |-> src,
                         cur2 |-> <<>>, n2 |-> ""])

ForeignPair ==
  \E r \in Reach : \E f \in ListFieldsOf(heap, r.o) : \E i \in 1..(Len(Kids(heap, r.o, f)) + 1) :
    /\ nextid + 3 <= MaxObj
    /\ LET h1  == Over(heap, NewFrag(nextid - 1, "S", "other") @@ NewFrag(nextid + 1, "S", "other"))
           lst == Kids(heap, r.o, f) IN
       Mutated(SetList(h1, r.o, f, InsAt(InsAt(lst, i, nextid), i + 1, nextid + 2)), nextid + 4,
               <<MkSite(r.o, f, "list", i)>>,
               [kind |-> "insert_other", cur |-> r.p, n |-> f, i |-> i, j |-> 0,
                src |-> [k |-> "otherpair", t |-> "S", cur |-> <<>>], cur2 |-> <<>>, n2 |-> ""])

AstMutate == ReplaceStmt \/ ReplaceExpr \/ Insert \/ Delete \/ Swap \/ Move \/ SetPrim \/ SiblingCopy \/ ForeignPair

(* ------------------------------- reconcile ------------------------------- *)
ProvOf(o) == [src |-> IF IsMarked(o) THEN "mark" ELSE heap[o].org,
              mp  |-> IF IsMarked(o) THEN MPath(o) ELSE <<>>,
              clean |-> IsMarked(o) /\ SubEq(o)]

ReconcileOk ==
  /\ open /\ valid
  /\ LET P   == PosOf(heap, root)
         ord == SetToSeq(P)
         Idx(p) == CHOOSE k \in 1..Len(ord) : ord[k].p = p
         nh  == [k \in 1..MaxObj |->
                   IF k > Len(ord) THEN Free
                   ELSE LET r == ord[k]  o == r.o IN
                        [t |-> heap[o].t, val |-> heap[o].val,
                         e |-> IF heap[o].e = 0 THEN 0 ELSE Idx(r.p \o <<Elt("e", 1)>>),
                         body   |-> [c \in 1..Len(heap[o].body)   |-> Idx(r.p \o <<Elt("body", c)>>)],
                         orelse |-> [c \in 1..Len(heap[o].orelse) |-> Idx(r.p \o <<Elt("orelse", c)>>)],
                         org |-> "own"]]
     IN /\ heap' = nh /\ root' = Idx(<<>>) /\ nextid' = Len(ord) + 1
        /\ prov' = [p \in {r.p : r \in P} |-> ProvOf((CHOOSE r \in P : r.p = p).o)]
  /\ out' = "ok" /\ rounds' = rounds + 1 /\ open' = FALSE /\ valid' = FALSE /\ nmut' = 0
  /\ lastact' = "Reconcile"
  /\ hist' = Append(hist, [a |-> "Reconcile", out |-> "ok", shape |-> ShapeL(heap, heap[root].body),
                           touched |-> SetToSeq(touched), nochange |-> nmut = 0])
  /\ UNCHANGED <<mheap, mpos, tmut, nfst, touched>>

(* reconcile() without a valid mark raises and changes nothing               *)
ReconcileInvalid ==
  /\ open /\ ~valid /\ ~(lastact = "Reconcile" /\ out = "raise")
  /\ out' = "raise" /\ lastact' = "Reconcile"
  /\ hist' = Append(hist, [a |-> "Reconcile", out |-> "raise", shape |-> "", touched |-> <<>>, nochange |-> FALSE])
  /\ UNCHANGED <<heap, root, nextid, mheap, mpos, valid, open, nmut, tmut, nfst, rounds, touched, prov>>

Next == Mark \/ FstEditAfterMark \/ AstMutate \/ ReconcileOk \/ ReconcileInvalid
Spec == Init /\ [][Next]_vars

Done == (~open /\ rounds = MaxRounds) \/ (lastact = "Reconcile" /\ out = "raise" /\ nmut > 0)

(* ------------------------------- properties ------------------------------ *)
MarkNoAlias == open => NoAlias(mheap, root)

NoChangeIffNoMut ==
  open => /\ (nmut = 0) <=> (touched = {})
          /\ (nmut = 0 /\ valid) => heap = mheap

(* the core lemma: an untouched marked statement is the same object, at the   *)
(* same path, with an unchanged subtree                                       *)
UntouchedIntact ==
  (open /\ valid) => \A p \in MarkedStmts \ touched :
            \E r \in PosOf(heap, root) : /\ SamePath(r.p, p) /\ r.o = MObj(p) /\ SubEq(r.o)

ResultUntouched ==
  (lastact = "Reconcile" /\ out = "ok") =>
     \A p \in MarkedStmts \ touched :
        /\ p \in DOMAIN prov
        /\ prov[p].src = "mark" /\ prov[p].mp = p /\ prov[p].clean

Step(a) == lastact' = a /\ hist' # hist
TouchedMonotone   == [][~Step("Mark") => touched \subseteq touched']_vars
InvalidatedRaises == [][(Step("Reconcile") /\ ~valid) => (out' = "raise" /\ heap' = heap /\ root' = root)]_vars
ResultEqualsWork  == [][(Step("Reconcile") /\ out' = "ok" /\ valid) =>
                          (AbsT(heap', root', 4) = AbsT(heap, root, 4) /\ NoAlias(heap', root'))]_vars
NoChangeIdentity  == [][(Step("Reconcile") /\ valid /\ nmut = 0) =>
                          (/\ AbsT(heap', root', 4) = AbsT(mheap, root, 4)
                           /\ \A p \in DOMAIN prov' : prov'[p].src = "mark" /\ prov'[p].mp = p /\ prov'[p].clean)]_vars
=============================================================================
