------------------------------ MODULE SearchAlg ------------------------------
(* C17 - a pattern ALGEBRA with a denotational meaning, for the law            *)
(*   search(p) yields exactly, in walk order, the nodes n with Match(p, n)    *)
(*   and   pfst's match(p, n) accepts  iff  Match(p, n).                      *)
(* A node is abstracted to [ty, hits, src]: its leaf class name, the set of    *)
(* field checks it passes, its source text.  Terms:                           *)
(*   T ts     pure type test (classes ts; a base class such as expr stands    *)
(*            for all its leaf classes)                                       *)
(*   F c      node pattern that checks a field (check c; implies the type)    *)
(*   W        wildcard ...                                                    *)
(*   CB t     callback computing the predicate of atom t (opaque to search)   *)
(*   SRC s / RE s   source string / regular expression on the source          *)
(*   OR / AND / NOT / M (wrapper that only adds tags)                         *)
(* Match is a boolean algebra over node predicates.                           *)
EXTENDS Integers, Sequences, FiniteSets, SequencesExt, TLC

Atom(k, ts, c, s) == [k |-> k, ts |-> ts, c |-> c, s |-> s, args |-> <<>>]
Comp(k, args)     == [k |-> k, ts |-> <<>>, c |-> "", s |-> "", args |-> args]
T(ts) == Atom("T", ts, "", "")
F(c)  == Atom("F", <<>>, c, "")

(* the field checks and the classes they imply *)
CheckTypes(c) == CASE c = "nameX"  -> {"Name"}      [] c = "const1" -> {"Constant"}  [] c = "attrY" -> {"Attribute"}
                   [] c = "argA"   -> {"arg"}       [] c = "callG"  -> {"Call"}
                   [] c = "loadNA" -> {"Name", "Attribute"}         [] c = "loadN"  -> {"Name"}
                   [] OTHER -> {}

Atoms == << T(<<"Name">>), T(<<"Constant">>), T(<<"Attribute">>), T(<<"arg">>), T(<<"Call">>),
            T(<<"Name", "arg">>), T(<<"Constant", "Attribute">>), T(<<"expr">>), T(<<"Name", "Constant", "Call">>),
            F("nameX"), F("const1"), F("attrY"), F("argA"), F("callG"), F("loadNA"), F("loadN"),
            Comp("CB", <<F("nameX")>>), Comp("CB", <<T(<<"Constant">>)>>), Comp("CB", <<F("attrY")>>),
            Atom("SRC", <<>>, "", "x.y"), Atom("RE", <<>>, "", "x.y"),
            Atom("W", <<>>, "", "") >>
NA == Len(Atoms)
AtomClass(a) == CASE a.k = "T" -> "pt" [] a.k = "F" -> "fc" [] a.k = "W" -> "w" [] OTHER -> "ix"

Not(p) == Comp("NOT", <<p>>)
Tag(p) == Comp("M", <<p>>)
OpName(o) == IF o = 1 THEN "OR" ELSE "AND"

(* members of an alternation / conjunction: an atom plain, negated, tagged, doubly negated - or an inner binary term *)
NMembers == 4 * NA + 4 * NA * NA
MemberOf(m) ==
  IF m <= 4 * NA
  THEN LET a == Atoms[((m - 1) \div 4) + 1]  wr == (m - 1) % 4
       IN CASE wr = 0 -> a [] wr = 1 -> Not(a) [] wr = 2 -> Tag(a) [] OTHER -> Not(Not(a))
  ELSE LET r == m - 4 * NA - 1
           inner == Comp(OpName(((r \div 2) % 2) + 1), <<Atoms[((r \div 4) \div NA) + 1], Atoms[((r \div 4) % NA) + 1]>>)
       IN IF r % 2 = 0 THEN inner ELSE Not(inner)
MemberClass(m) ==
  IF m <= 4 * NA
  THEN (CASE (m - 1) % 4 = 1 -> "!" [] (m - 1) % 4 = 3 -> "!!" [] OTHER -> "") \o AtomClass(Atoms[((m - 1) \div 4) + 1])
  ELSE LET r == m - 4 * NA - 1 IN
       (IF r % 2 = 0 THEN "" ELSE "!") \o (IF (r \div 2) % 2 = 0 THEN "or" ELSE "and") \o "("
         \o AtomClass(Atoms[((r \div 4) \div NA) + 1]) \o "," \o AtomClass(Atoms[((r \div 4) % NA) + 1]) \o ")"

(* contexts in which the alternation / conjunction is placed *)
NCtx == 10
CtxName(c) == CASE c = 1 -> "bare" [] c = 2 -> "NOT" [] c = 3 -> "NOTNOT" [] c = 4 -> "M" [] c = 5 -> "M(NOT)" [] c = 6 -> "NOT(M)"
                [] c = 7 -> "AND(pt,NOT)" [] c = 8 -> "OR(fc,NOT)" [] c = 9 -> "AND(NOT,pt)" [] OTHER -> "OR(NOT,ix)"
InCtx(c, core) ==
  CASE c = 1 -> core [] c = 2 -> Not(core) [] c = 3 -> Not(Not(core)) [] c = 4 -> Tag(core) [] c = 5 -> Tag(Not(core))
    [] c = 6 -> Not(Tag(core))
    [] c = 7 -> Comp("AND", <<T(<<"expr">>), Not(core)>>)
    [] c = 8 -> Comp("OR", <<F("const1"), Not(core)>>)
    [] c = 9 -> Comp("AND", <<Not(core), T(<<"Name", "Constant", "Call">>)>>)
    [] OTHER -> Comp("OR", <<Not(core), Comp("CB", <<F("argA")>>)>>)

(* a term id is <<ctx, op, m1, m2, m3>> (m3 = 0: two members) *)
ValidTid(id) == /\ Len(id) = 5 /\ id[1] \in 1..NCtx /\ id[2] \in 1..2
                /\ id[3] \in 1..NMembers /\ id[4] \in 1..NMembers /\ id[5] \in 0..NMembers
Members(id) == IF id[5] = 0 THEN <<id[3], id[4]>> ELSE <<id[3], id[4], id[5]>>
TermOf(id) == LET ms == Members(id) IN InCtx(id[1], Comp(OpName(id[2]), [i \in 1..Len(ms) |-> MemberOf(ms[i])]))
ClassOf(id) == LET ms == Members(id) IN
               CtxName(id[1]) \o ":" \o OpName(id[2]) \o "(" \o MemberClass(ms[1]) \o "," \o MemberClass(ms[2])
                 \o (IF Len(ms) = 3 THEN "," \o MemberClass(ms[3]) ELSE "") \o ")"

-----------------------------------------------------------------------------
(* Denotation.  ex = the leaf classes of the base class expr (a fact about Python's ast module) *)
Expand(ts, ex) == UNION {IF ts[i] = "expr" THEN ex ELSE {ts[i]} : i \in 1..Len(ts)}

RECURSIVE Match(_, _, _)
Match(p, n, ex) ==
  CASE p.k = "T"   -> n.ty \in Expand(p.ts, ex)
    [] p.k = "F"   -> p.c \in n.hits
    [] p.k = "W"   -> TRUE
    [] p.k = "CB"  -> Match(p.args[1], n, ex)
    [] p.k = "SRC" -> n.src = p.s
    [] p.k = "RE"  -> n.src = p.s
    [] p.k = "OR"  -> \E i \in 1..Len(p.args) : Match(p.args[i], n, ex)
    [] p.k = "AND" -> \A i \in 1..Len(p.args) : Match(p.args[i], n, ex)
    [] p.k = "NOT" -> ~Match(p.args[1], n, ex)
    [] p.k = "M"   -> Match(p.args[1], n, ex)
    [] OTHER -> FALSE

-----------------------------------------------------------------------------
(* PrefilterModel: the design of search()'s leaf-type pre-filter (match.py _leaf_asts_* / _leaf_asts_exact), as a      *)
(* function from terms to a set of classes or Unknown.  search() may skip exactly the nodes whose class is not in it.  *)
Unknown == [u |-> TRUE, s |-> {}]
Known(S) == [u |-> FALSE, s |-> S]
RECURSIVE Leaf(_, _, _, _), Exact(_, _)
Exact(p, anyOr) ==          \* anyOr = TRUE models the thinko "an alternation is exact as soon as ONE member is"
  CASE p.k = "T" -> TRUE [] p.k = "W" -> TRUE [] p.k = "F" -> FALSE
    [] p.k \in {"M", "NOT"} -> Exact(p.args[1], anyOr)
    [] p.k = "OR"  -> IF anyOr THEN \E i \in 1..Len(p.args) : Exact(p.args[i], anyOr)
                      ELSE \A i \in 1..Len(p.args) : Exact(p.args[i], anyOr)
    [] p.k = "AND" -> \A i \in 1..Len(p.args) : Exact(p.args[i], anyOr)
    [] OTHER -> FALSE
Leaf(p, all, ex, anyOr) ==
  LET RECURSIVE FoldOr(_, _)
      FoldOr(i, acc) == IF i > Len(p.args) THEN Known(acc)
                        ELSE LET la == Leaf(p.args[i], all, ex, anyOr) IN
                             IF la.u THEN Unknown ELSE IF la.s = all THEN Known(all) ELSE FoldOr(i + 1, acc \cup la.s)
      RECURSIVE FoldAnd(_, _)
      FoldAnd(i, acc) == IF i > Len(p.args) THEN Known(acc)
                         ELSE LET la == Leaf(p.args[i], all, ex, anyOr) IN
                              IF la.u THEN Unknown ELSE IF acc \cap la.s = {} THEN Known({}) ELSE FoldAnd(i + 1, acc \cap la.s)
  IN CASE p.k = "T" -> Known(Expand(p.ts, ex) \cap all)
       [] p.k = "F" -> Known(CheckTypes(p.c))
       [] p.k = "W" -> Known(all)
       [] p.k = "M" -> Leaf(p.args[1], all, ex, anyOr)
       [] p.k = "OR"  -> FoldOr(1, {})
       [] p.k = "AND" -> FoldAnd(1, all)
       [] p.k = "NOT" -> LET la == Leaf(p.args[1], all, ex, anyOr) IN
                         IF la.u \/ ~Exact(p.args[1], anyOr) THEN Unknown ELSE Known(all \ la.s)
       [] OTHER -> Unknown
Visited(p, n, all, ex, anyOr) == LET la == Leaf(p, all, ex, anyOr) IN la.u \/ n.ty \in la.s
=============================================================================
