------------------------------ MODULE ViewsMC -------------------------------
(* Exhaustive model of Views.tla within small constants: every interleaving   *)
(* of operations through MaxViews views (whole-field views, sub-views,        *)
(* sub-views of sub-views), edits behind their back (through the node API or  *)
(* through another view) and uses.                                            *)
(*                                                                            *)
(* The actions of Views.tla are "base operations at shifted indices".  Here   *)
(* they are compared with an independent, element-wise reference of Python's  *)
(* list operations (the Py.. operators) applied to the sub-list the view denotes.            *)
EXTENDS Views

CONSTANTS MaxLen,     \* longest field
          MaxNew,     \* most elements put by one slice operation
          MaxViews,   \* view slots
          InitLens,   \* lengths of the initial field
          ThLen,      \* operator theorems (ASSUME): fields up to this length ...
          ThIdx       \* ... and indices -ThIdx..ThIdx

(* The state machine draws its indices from representatives of the values    *)
(* that can behave differently for a window of n elements: 0..n+1 (n+1 is     *)
(* out of range / clips), -1 (last) and -(n+1) (out of range / clips to 0).   *)
(* Negative indices in between are equivalent to non-negative ones by the     *)
(* operator theorems at the end of the module, which cover the full range     *)
(* -ThIdx..ThIdx without the state machine.  Near(n) (every value in          *)
(* -(n+1)..(n+1)) is what the behaviour generator ViewsSim draws from.        *)
Near(n) == {IntB(i) : i \in (0 - n - 1)..(n + 1)}
Can(n)  == {IntB(i) : i \in (0..(n + 1)) \cup {-1, 0 - n - 1}}
SB(n)   == Can(n) \cup {NoneB}                      \* slice bounds  v[a:b]
IB(n)   == Can(n) \cup {EndB}                       \* insert index / node-API bound
VLen(v) == Hi(views[v], Len(c)) - Lo(views[v], Len(c))
New(k)  == [i \in 1..k |-> fresh + i]
Room(k) == Len(c) + k <= MaxLen

(* ------------------------------------------------------------------------ *)
(* element-wise reference of Python's list operations on a list `sub`        *)
PyClip(n, b, dflt) ==
  IF b.k = "none" THEN dflt
  ELSE IF b.k = "end" THEN n
  ELSE IF b.v < 0 THEN (IF b.v + n < 0 THEN 0 ELSE b.v + n)
  ELSE IF b.v > n THEN n ELSE b.v

PyRaise == [ok |-> FALSE, l |-> <<>>]
PyOk(l) == [ok |-> TRUE, l |-> l]

(* sub[s0:t0] = new  for  s0 <= t0                                           *)
PyPut(sub, s0, t0, new) ==
  [i \in 1..(Len(sub) - (t0 - s0) + Len(new)) |->
     IF i <= s0 THEN sub[i]
     ELSE IF i <= s0 + Len(new) THEN new[i - s0]
     ELSE sub[i - Len(new) + (t0 - s0)]]

PySetSlice(sub, a, b, new) ==
  LET n == Len(sub)  s0 == PyClip(n, a, 0)  t0 == PyClip(n, b, n)
  IN IF t0 < s0 THEN PyRaise                      \* RefuseInverted (a list would insert at s0)
     ELSE PyOk(PyPut(sub, s0, t0, new))

PyGetSlice(sub, a, b) ==
  LET n == Len(sub)  s0 == PyClip(n, a, 0)  t0 == PyClip(n, b, n)
  IN [i \in 1..(IF t0 < s0 THEN 0 ELSE t0 - s0) |-> sub[s0 + i]]

PyIndex(n, i) == IF i < 0 THEN i + n ELSE i       \* valid iff 0 <= . < n

PyOp(sub, op, a, b, new) ==
  LET n == Len(sub) IN
  CASE op = "setslice" -> PySetSlice(sub, a, b, new)
    [] op = "delslice" -> PySetSlice(sub, a, b, <<>>)
    [] op = "setidx"   -> LET i == PyIndex(n, a.v) IN
                          IF i < 0 \/ i >= n THEN PyRaise ELSE PyOk([sub EXCEPT ![i + 1] = new[1]])
    [] op = "delidx"   -> LET i == PyIndex(n, a.v) IN
                          IF i < 0 \/ i >= n THEN PyRaise
                          ELSE PyOk([j \in 1..(n - 1) |-> IF j <= i THEN sub[j] ELSE sub[j + 1]])
    [] op = "insert"   -> LET i == PyClip(n, a, 0) IN PyOk(PyPut(sub, i, i, new))   \* list.insert / l[i:i] = new
    [] op \in {"append", "extend"}    -> PyOk(sub \o new)
    [] op \in {"prepend", "prextend"} -> PyOk(new \o sub)
    [] op = "replace"  -> PyOk(new)
    [] op \in {"remove", "cut"}       -> PyOk(<<>>)

(* ------------------------------------------------------------------------ *)
Init == \E n \in InitLens : InitWith([i \in 1..n |-> i], MaxViews)

DoSetSlice   == \E v \in Live : \E a \in SB(VLen(v)), b \in SB(VLen(v)), k \in 0..MaxNew :
                  Room(k) /\ Through(v, "setslice", a, b, New(k))
DoDelSlice   == \E v \in Live : \E a \in SB(VLen(v)), b \in SB(VLen(v)) : Through(v, "delslice", a, b, <<>>)
DoSetIdx     == \E v \in Live : \E a \in Can(VLen(v)) : Room(1) /\ Through(v, "setidx", a, NoneB, New(1))
DoDelIdx     == \E v \in Live : \E a \in Can(VLen(v)) : Through(v, "delidx", a, NoneB, <<>>)
DoInsert     == \E v \in Live : \E a \in IB(VLen(v)), k \in 1..MaxNew : Room(k) /\ Through(v, "insert", a, NoneB, New(k))
DoAppend     == \E v \in Live : Room(1) /\ Through(v, "append", NoneB, NoneB, New(1))
DoExtend     == \E v \in Live, k \in 1..MaxNew : Room(k) /\ Through(v, "extend", NoneB, NoneB, New(k))
DoPrepend    == \E v \in Live : Room(1) /\ Through(v, "prepend", NoneB, NoneB, New(1))
DoPrextend   == \E v \in Live, k \in 1..MaxNew : Room(k) /\ Through(v, "prextend", NoneB, NoneB, New(k))
DoReplaceOne == \E v \in Live : Room(1) /\ Through(v, "replace", NoneB, NoneB, New(1))
DoReplaceSeq == \E v \in Live, k \in 2..MaxNew : Room(k) /\ Through(v, "replace", NoneB, NoneB, New(k))
DoRemove     == \E v \in Live : Through(v, "remove", NoneB, NoneB, <<>>)
DoCut        == \E v \in Live : Through(v, "cut", NoneB, NoneB, <<>>)
Stale(v)     == Reclip(views[v], Len(c)) # views[v]
DoUseClean   == \E v \in Live : ~Stale(v) /\ Use(v)
DoUseStale   == \E v \in Live : Stale(v) /\ Use(v)
DoMkFull     == \E w \in 1..MaxViews : MkFull(w)
DoMkSub      == \E v \in Live, w \in 1..MaxViews : \E a \in SB(VLen(v)), b \in SB(VLen(v)) : MkSub(v, w, a, b)
DoBasePut    == \E a \in IB(Len(c)), b \in IB(Len(c)), k \in 0..MaxNew : Room(k) /\ BasePut(a, b, New(k))
(* outcomes that must occur (vacuity guards)                                 *)
DoIndexError == DoDelIdx /\ ~last'.ok
DoInverted   == DoDelSlice /\ ~last'.ok

Next == \/ DoSetSlice \/ DoDelSlice \/ DoSetIdx \/ DoDelIdx \/ DoInsert \/ DoAppend \/ DoExtend \/ DoPrepend
        \/ DoPrextend \/ DoReplaceOne \/ DoReplaceSeq \/ DoRemove \/ DoCut \/ DoUseClean \/ DoUseStale
        \/ DoMkFull \/ DoMkSub \/ DoBasePut
        \/ DoIndexError \/ DoInverted
Spec == Init /\ [][Next]_vars

(* Symmetry.  The element ids are only ever compared for equality and every *)
(* action is equivariant under renaming them, so a state is determined up to *)
(* renaming by the *length* of the field, the stored view indices and the    *)
(* dirty set: states that differ only in the ids (and in `fresh`, `last`,    *)
(* which describe history) are identified.  Invariants and action properties *)
(* are evaluated on the concrete representative TLC reaches first; action    *)
(* properties are evaluated on every generated transition.                   *)
StateView == <<Len(c), views, dirty>>

(* ------------------------------------------------------------------------ *)
(* invariants                                                               *)
Distinct == \A i, j \in 1..Len(c) : i # j => c[i] # c[j]

(* whatever happened behind its back, a use finds 0 <= start <= stop <= len; *)
(* a view behind whose back nothing happened needs no re-clipping            *)
ExtentOK == \A v \in Live :
  LET r == Reclip(views[v], Len(c)) IN
  /\ 0 <= r.start /\ r.start <= Hi(r, Len(c)) /\ Hi(r, Len(c)) <= Len(c)
  /\ Reclip(r, Len(c)) = r
  /\ (v \notin dirty => r = views[v])
  /\ Len(Denotes(views[v], c)) = Hi(r, Len(c)) - r.start

(* whole-field views always denote the whole field                           *)
FullViewIsField == \A v \in Live : Pinned(views[v]) => views[v].start = 0 /\ Denotes(views[v], c) = c

DirtyIsLive == dirty \subseteq Live

(* ------------------------------------------------------------------------ *)
(* action properties (evaluated on every transition, `last'` names it)       *)
IsThrough == last'.op \in ThroughOps
Pre       == SubSeq(c, 1, last'.lo)                       \* before the view
Sub       == SubSeq(c, last'.lo + 1, last'.hi)            \* what the view denoted when it was used
Post      == SubSeq(c, last'.hi + 1, Len(c))              \* after the view
Ref       == PyOp(Sub, last'.op, last'.a, last'.b, last'.new)

(* an operation through a view changes the field exactly like the Python     *)
(* list operation applied to the denoted sub-list, spliced back; it raises   *)
(* (and changes nothing) exactly when the list operation raises              *)
BaseIsPythonList == [][IsThrough =>
  /\ last'.ok = Ref.ok
  /\ c' = (IF Ref.ok THEN Pre \o Ref.l \o Post ELSE c)]_vars

(* afterwards the operating view denotes the edited sub-list: the elements   *)
(* it covered before that survived plus the inserted ones, nothing else      *)
ViewExtent == [][IsThrough =>
  LET w == views'[last'.v]  d == Denotes(w, c') IN
  /\ w.start = last'.lo /\ Hi(w, Len(c')) = last'.lo + Len(d)
  /\ (Ref.ok => d = Ref.l /\ Elems(d) = (Elems(Sub) \cap Elems(c')) \cup Elems(last'.new))
  /\ (~Ref.ok => d = Sub)
  /\ Reclip(w, Len(c')) = w
  /\ Pinned(w) = Pinned(views[last'.v])]_vars

(* a sub-view denotes the Python slice of what its parent denotes; since the *)
(* parent may itself be a sub-view this is composition of slicing            *)
SubviewComposes == [][last'.op = "mksub" =>
  /\ last'.ok = ~(PyClip(last'.hi - last'.lo, last'.b, last'.hi - last'.lo) < PyClip(last'.hi - last'.lo, last'.a, 0))
  /\ (last'.ok => /\ Denotes(views'[last'.w], c) = PyGetSlice(Sub, last'.a, last'.b)
                  /\ Reclip(views'[last'.w], Len(c)) = views'[last'.w])]_vars

(* laziness: nothing but a use (or an operation through it) moves a view's   *)
(* stored indices; a use stores exactly the re-clipped indices               *)
OnlyUseMoves == [][\A u \in DOMAIN views :
  (u # last'.v /\ u # last'.w) => views'[u] = views[u]]_vars
UseReclips == [][last'.op = "use" =>
  /\ views'[last'.v] = Reclip(views[last'.v], Len(c)) /\ c' = c
  /\ last'.ret = Denotes(views'[last'.v], c)]_vars

(* edits behind the back through the node API: Python slice assignment       *)
BasePutIsPython == [][last'.op = "baseput" =>
  LET r == PySetSlice(c, last'.a, last'.b, last'.new) IN
  /\ last'.ok = r.ok /\ c' = (IF r.ok THEN r.l ELSE c) /\ views' = views]_vars

(* ------------------------------------------------------------------------ *)
(* operator theorems, independent of the state machine: for every field      *)
(* length <= ThLen, every stored view state (also stale ones, stop up to     *)
(* ThLen + 1), every operation and every argument in -ThIdx..ThIdx the       *)
(* shifted-index definition of Views.tla is the Python list operation on the *)
(* denoted sub-list spliced back, and the view afterwards denotes the edited *)
(* sub-list.                                                                 *)
ThInts == (0 - ThIdx)..ThIdx
ThB    == {IntB(i) : i \in ThInts}
Stored == {MkView(p[1], IntB(p[2])) : p \in {q \in (0..(ThLen + 1)) \X (0..(ThLen + 1)) : q[1] <= q[2]}} \cup {FullView}
ArgsOf(op) ==
  CASE op \in {"setslice"} -> (ThB \cup {NoneB}) \X (ThB \cup {NoneB}) \X (0..MaxNew)
    [] op \in {"delslice"} -> (ThB \cup {NoneB}) \X (ThB \cup {NoneB}) \X {0}
    [] op = "setidx"   -> ThB \X {NoneB} \X {1}
    [] op = "delidx"   -> ThB \X {NoneB} \X {0}
    [] op = "insert"   -> (ThB \cup {EndB}) \X {NoneB} \X (1..MaxNew)
    [] op \in {"append", "prepend"}  -> {NoneB} \X {NoneB} \X {1}
    [] op \in {"extend", "prextend"} -> {NoneB} \X {NoneB} \X (1..MaxNew)
    [] op = "replace"  -> {NoneB} \X {NoneB} \X (1..MaxNew)
    [] OTHER           -> {NoneB} \X {NoneB} \X {0}

ThroughTheorem(len, w, op, x) ==
  LET cc  == [i \in 1..len |-> i]
      new == [i \in 1..x[3] |-> 100 + i]
      lo  == Lo(w, len)  hi == Hi(w, len)
      sub == SubSeq(cc, lo + 1, hi)
      r   == ThroughEffect(cc, w, op, x[1], x[2], new)
      ref == PyOp(sub, op, x[1], x[2], new)
      w2  == AfterThrough(w, len, Len(r.c))
  IN /\ 0 <= lo /\ lo <= hi /\ hi <= len
     /\ r.ok = ref.ok
     /\ r.c = (IF ref.ok THEN SubSeq(cc, 1, lo) \o ref.l \o SubSeq(cc, hi + 1, len) ELSE cc)
     /\ Denotes(w2, r.c) = (IF ref.ok THEN ref.l ELSE sub)
     /\ Reclip(w2, Len(r.c)) = w2 /\ w2.start = lo

SubTheorem(len, w, a, b) ==
  LET cc == [i \in 1..len |-> i]
      pv == Reclip(w, len)
      sub == Denotes(w, cc)
      inv == Inverted(Len(sub), 0, a, b)
  IN /\ inv = (PyClip(Len(sub), b, Len(sub)) < PyClip(Len(sub), a, 0))
     /\ (~inv => /\ Denotes(SubView(pv, len, a, b), cc) = PyGetSlice(sub, a, b)
                 /\ Reclip(SubView(pv, len, a, b), len) = SubView(pv, len, a, b))

ASSUME ThroughIsPython ==
  \A len \in 0..ThLen, w \in Stored, op \in ThroughOps : \A x \in ArgsOf(op) : ThroughTheorem(len, w, op, x)
ASSUME SubIsPythonSlice ==
  \A len \in 0..ThLen, w \in Stored, a \in ThB \cup {NoneB}, b \in ThB \cup {NoneB} : SubTheorem(len, w, a, b)
(* sub-view of sub-view = slicing twice (bounds near the window they apply to) *)
NearN(n) == Near(n) \cup {NoneB}
ASSUME SubSubComposes ==
  \A len \in 0..ThLen : \A a \in NearN(len), b \in NearN(len) :
    LET cc == [i \in 1..len |-> i]
        v1 == SubView(FullView, len, a, b)
        s1 == PyGetSlice(cc, a, b)
    IN ~Inverted(len, 0, a, b) =>
         \A a2 \in NearN(Len(s1)), b2 \in NearN(Len(s1)) :
           ~Inverted(Len(s1), 0, a2, b2) => Denotes(SubView(v1, len, a2, b2), cc) = PyGetSlice(s1, a2, b2)

(* ------------------------------------------------------------------------ *)
(* NOT a property (ViewsMC_follow.cfg lets TLC refute it): a view does not   *)
(* follow its elements when the field is edited behind its back              *)
FollowsElements == [][(last'.op = "baseput" /\ last'.ok) =>
  \A v \in Live : Elems(Denotes(views'[v], c')) \subseteq Elems(Denotes(views[v], c)) \cup Elems(last'.new)]_vars
=============================================================================
