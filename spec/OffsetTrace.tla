---------------------------- MODULE OffsetTrace -----------------------------
(* C11 - trace validation of recorded `put_src(..., action='offset')` calls.  *)
(*                                                                            *)
(* State  s = [liveS, liveP, srcOk, srcS, srcP, text]  (harness/proj.py ids)  *)
(* Event  e = [call |-> "splice", outcome, p, q, nl, last, cls, selfPath,     *)
(*             expText, hasModel, m, post]                                    *)
(*   p, q      spot [p, q) of the OLD text, <<lineno (1-based), byte column>> *)
(*   nl, last  line breaks in the replacement, byte length of its last line   *)
(*   selfPath  path of the node the call was made on (chosen by the harness   *)
(*             from CPython's positions: innermost node that contains both    *)
(*             neighbouring tokens of the spot)                               *)
(*   expText   text id of the stdlib string splice                            *)
(*   m         (hasModel) the abstract instance this call concretises, with   *)
(*             the observed positions mapped back to model coordinates        *)
(* Verdicts are total; clause names:                                          *)
(*   Accepted        the call returned normally                               *)
(*   TextIsSplice    source = old source with [p, q) replaced                 *)
(*   OnText.struct   live tree = from-scratch parse of the new source (sids)  *)
(*   OnText.pos      ... including every position (pids)                      *)
(*   SameStructure   a trivia splice does not change the structure            *)
(*   Law.before / Law.after / Law.contains  the three-way shift law, from the *)
(*                   logged pre-positions, spot and size of the change        *)
(*   Law.shape       pre and post live trees cannot be walked in parallel     *)
(*   Derived.loc/.bloc/.pars/.parsUnshared/.flags  cached derived answers of   *)
(*                   every node = answers of a tree freshly built from the    *)
(*                   new source; Derived.parsText  reported pars() spans      *)
(*                   begin with "(" and end with ")" in the new text          *)
(*   G.ModelAgree    observed positions = what TriviaSplice of Offset.tla     *)
(*                   computes for the instance (rule table)                   *)
(*   G.OnText        observed positions = Scan of the instance's new text     *)
(*   Domain.self     harness sanity: the chosen node strictly contains the    *)
(*                   spot (a failure is a machinery error, not a verdict)     *)
EXTENDS OffsetCore, NodeTab

VARIABLES tid, l, st, bad, seen
vars == <<tid, l, st, bad, seen>>

Cl(name, ok) == [c |-> name, ok |-> ok]

Steps(t) == Traces[t].steps

Pt(x) == <<x[1], x[2]>>

(* ------------------------------------------------------------------------ *)
(* the three-way law on the positioned-node tables: parallel walk of the     *)
(* pre-state live tree x and the post-state live tree y                      *)
NodeLaw(s, t, e) ==
  LET P == Pt(e.p)  Q == Pt(e.q) IN
  (IF Before(s, P) /\ ~After(s, Q) /\ ~KeepsPlace(s, t) THEN {"Law.before"} ELSE {})
  \cup (IF After(s, Q) /\ ~Before(s, P) /\ ~MovesBy(s, t, P, Q, e.nl, e.last) THEN {"Law.after"} ELSE {})
  \cup (IF Contains(s, P, Q) /\ ~GrowsBy(s, t, P, Q, e.nl, e.last) THEN {"Law.contains"} ELSE {})

IsSpan(p) == Len(p) = 4

(* Domain predicate DebugTextConstant: the literal Constant that CPython puts  *)
(* before a self-documenting field `{expr = }` holds the text of the field,   *)
(* its span OVERLAPS the field (it ends where the `=` part ends, it can begin *)
(* at the `{`).  Its end points are therefore not "before" or "after" a spot  *)
(* inside the field in the sense of the statement: the three-way law is not   *)
(* asked of these Constants when the spot is in a debug field (their exact    *)
(* position is still judged by OnText.pos against the from-scratch parse).    *)
DebugTextConstant(x, lit, e) == e.dbg /\ lit /\ PKind(x) = "Constant"

RECURSIVE LawWalk(_, _, _, _)
LawWalk(x, y, e, lit) ==
  IF x = 0 \/ y = 0 THEN (IF x = y THEN {} ELSE {"Law.shape"})
  ELSE
  LET px == PTab[x].p  py == PTab[y].p  fx == PTab[x].f  fy == PTab[y].f IN
  \* an unchanged subtree that lies wholly before the spot (children never end after their parent)
  IF x = y /\ IsSpan(px) /\ Before(px, Pt(e.p)) /\ ~After(px, Pt(e.q)) THEN {}
  ELSE
    (IF DebugTextConstant(x, lit, e) THEN {}
     ELSE IF IsSpan(px) /\ IsSpan(py) THEN NodeLaw(px, py, e)
     ELSE IF Len(px) = Len(py) THEN {} ELSE {"Law.shape"})
    \cup
    (IF Len(fx) # Len(fy) THEN {"Law.shape"}
     ELSE UNION {
       IF Len(fx[i].c) # Len(fy[i].c) THEN {"Law.shape"}
       ELSE UNION {LawWalk(fx[i].c[j], fy[i].c[j], e, PKind(x) = "JoinedStr" /\ fx[i].n = "values") : j \in 1..Len(fx[i].c)}
       : i \in 1..Len(fx)})

(* ------------------------------------------------------------------------ *)
(* direction G: the event concretises an instance of Offset.tla              *)
ModelTree(m) == [n |-> m.n, par |-> m.par, kind |-> m.kind, sep |-> m.sep, wrap |-> m.wrap]
ModelResult(m) == Result(MkInst(ModelTree(m)), m.gaps, m.g, m.p, m.q, m.ins)
ObsPos(m) == [k \in 1..m.n |-> <<m.obs[k][1], m.obs[k][2], m.obs[k][3], m.obs[k][4]>>]

ModelClauses(e) ==
  IF ~e.hasModel THEN {}
  ELSE LET r == ModelResult(e.m) IN
       { Cl("G.ModelAgree", ObsPos(e.m) = r.pos1),
         Cl("G.OnText", ObsPos(e.m) = r.want) }

(* ------------------------------------------------------------------------ *)
(* derived, cached answers (the cache of Offset.tla made observable): after   *)
(* the edit every node's loc / bloc / pars() / pars(shared=False) / delimiter *)
(* flags must be what a tree freshly built from the new source answers (no    *)
(* cached extent differs from the recomputed one), whatever was cached before *)
(* the edit (e.warm); and every reported grouping-parentheses span must start *)
(* with "(" and end with ")" in the new text (stdlib fact about the span).    *)
Accessors == {"loc", "bloc", "pars", "parsUnshared", "flags"}
Ans(d, k) == IF k \in DOMAIN d THEN d[k] ELSE 0      \* id of the hash-consed answer vector of accessor k
DerivedClauses(e) ==
  IF ~e.hasDerived THEN {}
  ELSE LET d == e.post.d IN
       {Cl("Derived." \o k, Ans(d.live, k) = Ans(d.fresh, k)) : k \in Accessors}
       \cup {Cl("Derived.parsText", \A i \in 1..Len(d.parsEnds) : d.parsEnds[i] = <<40, 41>>)}

(* ------------------------------------------------------------------------ *)
(* Domain predicate DebugField: inside a self-documenting f-string field      *)
(* `{expr = }` the blanks are part of the text CPython puts into the literal  *)
(* Constant before the field, so a whitespace edit there legitimately changes *)
(* that Constant's value: the structure is then only required to equal the    *)
(* from-scratch parse of the NEW source (OnText.struct), not the old one.     *)
(* Positions, the shift law and the derived answers are judged as everywhere. *)
DebugField(e) == e.dbg

InSync(s) == s.srcOk /\ s.liveP = s.srcP

SelfPos(s, e) == PPos(PNodeAt(s.liveP, e.selfPath))

Clauses(s, e) ==
  LET t == e.post IN
  IF e.call # "splice" THEN {Cl("UnknownEvent", FALSE)}
  ELSE IF ~InSync(s) THEN {}              \* the pre-state is already off (reported at the step that broke it)
  ELSE
    { Cl("Accepted", e.outcome = "ok"),
      Cl("Domain.self", LET sp == SelfPos(s, e) IN ~IsSpan(sp) \/ Contains(sp, Pt(e.p), Pt(e.q))) }
    \cup (IF e.outcome = "ok"
          THEN { Cl("TextIsSplice", t.text = e.expText),
                 Cl("OnText.struct", t.srcOk /\ t.liveS = t.srcS),
                 Cl("OnText.pos", t.srcOk /\ t.liveP = t.srcP),
                 Cl("SameStructure", DebugField(e) \/ t.liveS = s.liveS) }
               \cup (LET f == LawWalk(s.liveP, t.liveP, e, FALSE)
                     IN {Cl(c, c \notin f) : c \in {"Law.before", "Law.after", "Law.contains", "Law.shape"}})
               \cup ModelClauses(e)
               \cup DerivedClauses(e)
          ELSE {})

ClassOf(s, e) == IF e.call = "splice" THEN e.cls ELSE "?"

Init == /\ tid \in 1..Len(Traces)
        /\ l = 1
        /\ st = Traces[tid].init
        /\ bad = {}
        /\ seen = {}

Next == /\ l <= Len(Steps(tid))
        /\ LET e == Steps(tid)[l]
               cs == Clauses(st, e)
           IN /\ bad' = bad \cup {<<l, r.c, ClassOf(st, e)>> : r \in {q \in cs : ~q.ok}}
              /\ seen' = seen \cup {r.c : r \in cs}
              /\ st' = e.post
        /\ l' = l + 1
        /\ UNCHANGED tid

Spec == Init /\ [][Next]_vars

Report == (l = Len(Steps(tid)) + 1) => PrintT(<<"VERDICT", Traces[tid].id, bad, seen>>)
=============================================================================
