SPECIFICATION SpecG
CHECK_DEADLOCK FALSE
CONSTANTS
  N = 3
  MaxMut = 1
  MaxPark = 1
  MaxSend = 1
  Ons = {"enter", "leave", "both"}
  Backs = {FALSE, TRUE}
  Recs = {TRUE, FALSE}
  Selfs = {TRUE, FALSE}
  Shapes = {1, 3}
  WRemovable = TRUE
  Logging = TRUE
INVARIANT YieldedAlive
INVARIANT YieldedInTree
INVARIANT NoDoubleEnter
INVARIANT RemovedContinues
INVARIANT ReplacedChildrenNext
INVARIANT SendTrueHonoured
INVARIANT SendFalseHonoured
INVARIANT EmitLog
