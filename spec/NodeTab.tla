------------------------------ MODULE NodeTab -------------------------------
(* Operators over the hash-consed node tables of a batch.                     *)
(*   STab[i] = [k : kind, v : primitive repr, f : Seq([n : field, c : Seq(sid)])]            *)
(*   PTab[i] = [s : sid, x : ctx, p : <<>> | <<l,c,el,ec>>, f : Seq([n, c : Seq(pid)])]       *)
(* Equal sub-trees have equal ids, so structural equality is integer equality *)
(* and the operators below only walk paths.  All operators are total: a path  *)
(* that does not exist yields 0 / <<>> so that a malformed recording shows up *)
(* as a failed clause and never as a TLC evaluation error.                    *)
EXTENDS Integers, Sequences, FiniteSets, Batch, Containers

Kind(x)    == IF x = 0 THEN "None" ELSE STab[x].k
Val(x)     == IF x = 0 THEN "" ELSE STab[x].v
Fields(x)  == IF x = 0 THEN <<>> ELSE STab[x].f
FieldIdx(F, n) == {i \in 1..Len(F) : F[i].n = n}
HasField(x, n) == FieldIdx(Fields(x), n) # {}
FieldSeq(x, n) == LET F == Fields(x)  I == FieldIdx(F, n)
                  IN IF I = {} THEN <<>> ELSE F[CHOOSE i \in I : TRUE].c

PSid(y)     == IF y = 0 THEN 0 ELSE PTab[y].s
PFields(y)  == IF y = 0 THEN <<>> ELSE PTab[y].f
PFieldSeq(y, n) == LET F == PFields(y)  I == FieldIdx(F, n)
                   IN IF I = {} THEN <<>> ELSE F[CHOOSE i \in I : TRUE].c
PPos(y)     == IF y = 0 THEN <<>> ELSE PTab[y].p
PCtx(y)     == IF y = 0 THEN "" ELSE PTab[y].x
PKind(y)    == Kind(PSid(y))

(* a path is a sequence of [n |-> field name, i |-> 1-based index]           *)
RECURSIVE NodeAt(_, _)
NodeAt(x, path) ==
  IF path = <<>> \/ x = 0 THEN x
  ELSE LET c == FieldSeq(x, path[1].n)
       IN IF path[1].i \in 1..Len(c) THEN NodeAt(c[path[1].i], Tail(path)) ELSE 0

RECURSIVE PNodeAt(_, _)
PNodeAt(y, path) ==
  IF path = <<>> \/ y = 0 THEN y
  ELSE LET c == PFieldSeq(y, path[1].n)
       IN IF path[1].i \in 1..Len(c) THEN PNodeAt(c[path[1].i], Tail(path)) ELSE 0

(* everything off <<path, fields>> keeps its id; labels along the path stay   *)
RECURSIVE OnlyChangedAt(_, _, _, _)
OnlyChangedAt(x, y, path, fields) ==
  IF x = 0 \/ y = 0 THEN x = y
  ELSE
  /\ STab[x].k = STab[y].k /\ STab[x].v = STab[y].v /\ Len(STab[x].f) = Len(STab[y].f)
  /\ \A i \in 1..Len(STab[x].f) :
       LET fx == STab[x].f[i]  fy == STab[y].f[i] IN
       /\ fx.n = fy.n
       /\ IF path = <<>> THEN (fx.n \in fields \/ fx.c = fy.c)
          ELSE IF fx.n # path[1].n THEN fx.c = fy.c
          ELSE /\ Len(fx.c) = Len(fy.c)
               /\ \A j \in 1..Len(fx.c) :
                    IF j = path[1].i THEN OnlyChangedAt(fx.c[j], fy.c[j], Tail(path), fields)
                    ELSE fx.c[j] = fy.c[j]

(* ------------------------------------------------------------------------ *)
(* Virtual fields, defined from the real ones (documentation d06/d07).        *)
(* An element of a virtual field is a tuple of sids.                          *)

Zip2(a, b) == [i \in 1..Min(Len(a), Len(b)) |-> <<a[i], b[i]>>]
Wrap1(a)   == [i \in 1..Len(a) |-> <<a[i]>>]

HasDocstr(x) ==
  /\ Kind(x) \in {"Module", "FunctionDef", "AsyncFunctionDef", "ClassDef"}
  /\ LET b == FieldSeq(x, "body") IN
     /\ Len(b) >= 1 /\ Kind(b[1]) = "Expr"
     /\ LET v == FieldSeq(b[1], "value") IN
        /\ Len(v) = 1 /\ Kind(v[1]) = "Constant"
        /\ LET c == FieldSeq(v[1], "value") IN Len(c) = 1 /\ Val(c[1]) # "" /\ SubSeq(Val(c[1]), 1, 1) = "s"

(* number of leading real elements hidden by the virtual field              *)
VLo(x, field) == IF field = "_body" /\ HasDocstr(x) THEN 1 ELSE 0

(* real field(s) a virtual field is made of                                  *)
VReal(kind, field) ==
  CASE field = "_body" -> {"body"}
    [] field = "_all" /\ kind = "Dict"         -> {"keys", "values"}
    [] field = "_all" /\ kind = "MatchMapping" -> {"keys", "patterns", "rest"}
    [] field = "_all" /\ kind = "Compare"      -> {"left", "ops", "comparators"}
    [] field = "_all" /\ kind = "arguments"    -> {"posonlyargs", "args", "vararg", "kwonlyargs", "kw_defaults",
                                                   "kwarg", "defaults"}
    [] field = "_args"                         -> {"args", "keywords"}
    [] field = "_bases"                        -> {"bases", "keywords"}
    [] field = "_attrs"                        -> {"patterns", "kwd_attrs", "kwd_patterns"}
    [] OTHER -> {field}

(* element sequences of the position-independent virtual fields              *)
VFieldSeq(x, field) ==
  CASE field = "_body" -> Wrap1(FieldSeq(x, "body"))
    [] field = "_all" /\ Kind(x) = "Dict" -> Zip2(FieldSeq(x, "keys"), FieldSeq(x, "values"))
    [] field = "_all" /\ Kind(x) = "Compare" -> Wrap1(FieldSeq(x, "left") \o FieldSeq(x, "comparators"))
    [] field = "_all" /\ Kind(x) = "MatchMapping" ->
         Zip2(FieldSeq(x, "keys"), FieldSeq(x, "patterns"))
           \o (IF FieldSeq(x, "rest") = <<0>> THEN <<>> ELSE <<<<FieldSeq(x, "rest")[1]>>>>)
    [] field = "_all" /\ Kind(x) = "arguments" ->
         \* parameters in syntax order as <<arg, default or 0, star kind 0|1|2>>; the category a plain parameter is
         \* in (positional-only / normal / keyword-only) is not part of the element
         LET po == FieldSeq(x, "posonlyargs") \o FieldSeq(x, "args")
             df == FieldSeq(x, "defaults")
             nd == Len(po) - Len(df)
             va == FieldSeq(x, "vararg")
             ko == FieldSeq(x, "kwonlyargs")
             kd == FieldSeq(x, "kw_defaults")
             kw == FieldSeq(x, "kwarg")
         IN [i \in 1..Len(po) |-> <<po[i], IF i > nd THEN df[i - nd] ELSE 0, 0>>]
              \o (IF va = <<0>> \/ va = <<>> THEN <<>> ELSE << <<va[1], 0, 1>> >>)
              \o [i \in 1..Len(ko) |-> <<ko[i], IF i <= Len(kd) THEN kd[i] ELSE 0, 0>>]
              \o (IF kw = <<0>> \/ kw = <<>> THEN <<>> ELSE << <<kw[1], 0, 2>> >>)
    [] field = "_attrs" -> Wrap1(FieldSeq(x, "patterns"))
                             \o Zip2(FieldSeq(x, "kwd_attrs"), FieldSeq(x, "kwd_patterns"))
    [] OTHER -> Wrap1(FieldSeq(x, field))

(* position-merged virtual fields (Call._args, ClassDef._bases) need the     *)
(* positioned table: elements of both real lists ordered by start position.  *)
PosLess(p, q) == p[1] < q[1] \/ (p[1] = q[1] /\ p[2] < q[2])

RECURSIVE MergeByPos(_, _)
MergeByPos(a, b) ==
  IF a = <<>> THEN b ELSE IF b = <<>> THEN a
  ELSE IF PosLess(PPos(Head(a)), PPos(Head(b))) THEN <<Head(a)>> \o MergeByPos(Tail(a), b)
       ELSE <<Head(b)>> \o MergeByPos(a, Tail(b))

KwPos(k) == IF PPos(k) # <<>> THEN PPos(k) ELSE <<0, 0, 0, 0>>

PVMerged(y, fa, fb) == LET m == MergeByPos(PFieldSeq(y, fa), PFieldSeq(y, fb))
                       IN [i \in 1..Len(m) |-> <<PSid(m[i])>>]

(* subtree size / descendants, used by several properties                   *)
RECURSIVE Size(_)
RECURSIVE SumSizes(_)
SumSizes(s) == IF s = <<>> THEN 0 ELSE Size(Head(s)) + SumSizes(Tail(s))
RECURSIVE SumFields(_)
SumFields(F) == IF F = <<>> THEN 0 ELSE SumSizes(Head(F).c) + SumFields(Tail(F))
Size(x) == IF x = 0 THEN 0 ELSE 1 + SumFields(STab[x].f)
=============================================================================
