------------------------------- MODULE Offset -------------------------------
(* C11 - the state machine over OffsetCore.tla: every instance (tree, kinds,  *)
(* layout on the grid) is an initial state, every trivia splice of every gap  *)
(* of it a transition; the invariants say what C11 states.                    *)
EXTENDS OffsetCore

CONSTANTS MaxNodes,     \* trees with 1..MaxNodes nodes
          MaxLines,     \* grid: lines of the OLD text
          MaxCols,      \* grid: columns of the OLD text
          GapAlpha,     \* gap texts any gap may have
          RichAlpha,    \* gap texts at most one gap may have (the one worth splicing)
          InsAlpha,     \* replacement texts
          AllowZero,    \* zero-width nodes in the instance space
          AllowNoSep,   \* containers whose children are not separated by own tokens
          AllowWrap,    \* at most one node with own grouping parentheses / a trailing comment (derived extent)
          WarmModes     \* which nodes have their derived extent cached before the edit

VARIABLES n, par, kind, sep, wrap, inst, gaps, phase, res,
          cache      \* explicit cache state: node -> cached derived extent (only cached nodes are in the domain)
vars == <<n, par, kind, sep, wrap, inst, gaps, phase, res, cache>>

LeafKinds  == {"tok", "brk"} \cup (IF AllowZero THEN {"bare"} ELSE {})
InnerKinds == {"brk", "bare", "pre", "post"}

MultiLine(p, q, i) == p[1] # q[1] \/ Len(i) > 1

Splice(gi, p, q, i) ==
  /\ phase = "inst"
  /\ phase' = "done"
  /\ res' = Result(inst, gaps, gi, p, q, i)
  \* the cache was warmed (some set of nodes, by reading their derived extent) before the edit;
  \* the offset walk flushes exactly the nodes it visits
  /\ \E mode \in WarmModes :
       LET r == Result(inst, gaps, gi, p, q, i)
           W == WarmSet(inst, mode, r.self)
       IN cache' = [k \in (W \ r.vis) |-> r.ext0[k]]
  /\ UNCHANGED <<n, par, kind, sep, wrap, inst, gaps>>

Spots == {s \in UNION {{<<gi, p, q>> : p \in Pts(gaps[gi]), q \in Pts(gaps[gi])} : gi \in 1..Len(gaps)} :
            Le(s[2], s[3])}

InsertSL  == phase = "inst" /\ \E s \in Spots, i \in InsAlpha : s[2] = s[3] /\ Len(i) = 1 /\ i # <<0>> /\ Splice(s[1], s[2], s[3], i)
InsertML  == phase = "inst" /\ \E s \in Spots, i \in InsAlpha : s[2] = s[3] /\ Len(i) > 1 /\ Splice(s[1], s[2], s[3], i)
DeleteSL  == phase = "inst" /\ \E s \in Spots : s[2] # s[3] /\ s[2][1] = s[3][1] /\ Splice(s[1], s[2], s[3], <<0>>)
DeleteML  == phase = "inst" /\ \E s \in Spots : s[2][1] # s[3][1] /\ Splice(s[1], s[2], s[3], <<0>>)
ReplaceSL == phase = "inst" /\ \E s \in Spots, i \in InsAlpha : s[2] # s[3] /\ i # <<0>> /\ ~MultiLine(s[2], s[3], i) /\ Splice(s[1], s[2], s[3], i)
ReplaceML == phase = "inst" /\ \E s \in Spots, i \in InsAlpha : s[2] # s[3] /\ i # <<0>> /\ MultiLine(s[2], s[3], i) /\ Splice(s[1], s[2], s[3], i)

TriviaSplice == InsertSL \/ InsertML \/ DeleteSL \/ DeleteML \/ ReplaceSL \/ ReplaceML

NoRes == [g |-> 0]

(* layouts: every gap from GapAlpha with at most MaxLines - 1 line breaks, and at most one gap  *)
(* overridden by a text of RichAlpha                                                             *)
Breaks(G) == Cardinality({i \in DOMAIN G : Len(G[i]) > 1})
GapSets(m) ==
  LET Base == {G \in [1..m -> GapAlpha] : Breaks(G) < MaxLines}
  IN Base \cup {[G EXCEPT ![i] = r] : G \in Base, i \in 1..m, r \in RichAlpha}

Init ==
  /\ n \in 1..MaxNodes
  /\ par \in {f \in [1..n -> 0..(n - 1)] : ValidPar(n, f)}
  /\ kind \in {f \in [1..n -> LeafKinds \cup InnerKinds] :
                 \A k \in 1..n : f[k] \in (IF IsLeaf([n |-> n, par |-> par], k) THEN LeafKinds ELSE InnerKinds)}
  /\ sep \in {f \in [1..n -> BOOLEAN] :
                 \A k \in 1..n : IF Cardinality(KidSet([n |-> n, par |-> par], k)) < 2 THEN f[k] = FALSE ELSE (f[k] \/ AllowNoSep)}
  /\ wrap \in {f \in [1..n -> {"none", "pars", "trail"}] :
                 /\ f[1] = "none"
                 /\ Cardinality({k \in 1..n : f[k] # "none"}) <= (IF AllowWrap THEN 1 ELSE 0)}
  /\ inst = MkInst([n |-> n, par |-> par, kind |-> kind, sep |-> sep, wrap |-> wrap])
  /\ gaps \in {G \in GapSets(Len(inst.A) - 1) : OnGrid(Scan(inst, G), MaxLines, MaxCols)}
  /\ phase = "inst"
  /\ res = NoRes
  /\ cache = <<>>

Next == InsertSL \/ InsertML \/ DeleteSL \/ DeleteML \/ ReplaceSL \/ ReplaceML
Spec == Init /\ [][Next]_vars

(* ------------------------------------------------------------------------ *)
(* what C11 states                                                           *)
Done == phase = "done"
ZeroW(s) == SStart(s) = SEnd(s)

(* Domain.  Zero-width spans "don't normally exist" (docstring of _offset)   *)
(* and put_src carries a TODO about them; a from-scratch parse never yields   *)
(* one, so the property's oracle is silent about where they belong.  The      *)
(* model keeps them in the instance space and states separately what holds    *)
(* for them (see ZeroWidthLaw).  An instance is REGULAR when no zero-width    *)
(* span lies exactly on the offset point q.                                   *)
ZeroAtQ == \E k \in 1..n : ZeroW(res.pos0[k]) /\ SStart(res.pos0[k]) = res.Q
Regular == ~ZeroAtQ
ZeroTouch == \E k \in 1..n : ZeroW(res.pos0[k]) /\ SStart(res.pos0[k]) \in {res.P, res.Q}

(* every node is on its text: positions = from-scratch scan of the new text  *)
OnText == (Done /\ Regular) => res.pos1 = res.want

(* the three-way law of the statement, from the OLD spans                    *)
LawBefore   == (Done /\ Regular) => \A k \in 1..n :
                 (Before(res.pos0[k], res.P) /\ ~After(res.pos0[k], res.Q)) => KeepsPlace(res.pos0[k], res.pos1[k])
LawAfter    == (Done /\ Regular) => \A k \in 1..n :
                 (After(res.pos0[k], res.Q) /\ ~Before(res.pos0[k], res.P))
                    => MovesBy(res.pos0[k], res.pos1[k], res.P, res.Q, res.nl, res.last)
LawContains == (Done /\ Regular) => \A k \in 1..n :
                 Contains(res.pos0[k], res.P, res.Q)
                    => GrowsBy(res.pos0[k], res.pos1[k], res.P, res.Q, res.nl, res.last)
(* the classes are exhaustive for nodes of non-zero width                    *)
LawTotal    == (Done /\ ~ZeroTouch) => \A k \in 1..n :
                 LET s == res.pos0[k] IN ZeroW(s) \/ Before(s, res.P) \/ After(s, res.Q) \/ Contains(s, res.P, res.Q)
(* self strictly contains the spot unless zero-width items sit at its ends   *)
SelfContains == (Done /\ ~ZeroTouch) => Contains(res.pos0[res.self], res.P, res.Q)

(* every node whose span has to change is reached by the walk, early breaks  *)
(* included (its caches are flushed there): serves C02                       *)
ChangedVisited == (Done /\ Regular) => {k \in 1..n : res.want[k] # res.pos0[k]} \subseteq res.vis

(* Cache.  `cache` holds the derived extents that are still cached after the  *)
(* edit (warmed before it, not flushed by the walk).  No cached extent may      *)
(* differ from the recomputed one: every warmed node whose derived extent -     *)
(* including its enclosing parentheses / trailing comment - intersects or       *)
(* follows the spot has to be flushed.                                          *)
CacheFresh == (Done /\ Regular) => \A k \in DOMAIN cache : cache[k] = res.extWant[k]
(* the same, stated as what the edit must invalidate                            *)
MustFlush  == {k \in 1..n : res.extWant[k] # res.ext0[k]}
FlushesAllMoved == (Done /\ Regular) => MustFlush \subseteq res.vis

(* Named deviation ZeroWidthAtOffsetPoint.  With a zero-width span exactly   *)
(* on the offset point the rule table follows the docstring diagrams of       *)
(* _offset ("special zero length span which doesn't normally exist"; TODO in  *)
(* put_src): the zero-width node itself and nodes that begin or end exactly   *)
(* at q may be misplaced.  What still holds: every node with no end point at  *)
(* q is on its text.                                                          *)
ZeroWidthLaw == (Done /\ ZeroAtQ) => \A k \in 1..n :
                 (SStart(res.pos0[k]) # res.Q /\ SEnd(res.pos0[k]) # res.Q) => res.pos1[k] = res.want[k]
=============================================================================
