SPECIFICATION Spec
CONSTANTS
  NStmt = 2
  Patterns <- PatGen
  TailPatterns <- TailGen
  JoinOpts <- JoinAll
  EatOpts <- EatQuick
  LeadModes <- LeadInts
  TrailModes <- TrailInts
