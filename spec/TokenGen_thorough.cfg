SPECIFICATION Spec
CONSTANTS
  NStmt = 3
  Patterns <- PatQuick
  TailPatterns <- TailQuick
  LeadModes <- LeadInts
  TrailModes <- TrailInts
