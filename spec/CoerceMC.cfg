SPECIFICATION CSpec
CONSTANTS
  MKinds = {"Name", "alias", "_aliases", "Slice", "Expr"}
  MModes = {"expr", "alias", "_aliases", "all", "Name", "expr_slice"}
  Contents = {"c1"}
  MaxObjs = 2
INVARIANT TypeOK
INVARIANT ResultKind
INVARIANT ResultLeaves
INVARIANT SameKindIdentity
INVARIANT CopyLeavesOperand
INVARIANT OthersUntouched
INVARIANT PutCoerceEquiv
INVARIANT CoerceDisabledRaises
INVARIANT PutFailAtomic
CHECK_DEADLOCK FALSE
