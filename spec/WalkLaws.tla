------------------------------ MODULE WalkLaws ------------------------------
(* C15 "walking stays sound while the tree is being modified": the property   *)
(* shaped part.  Everything here is stated on SNAPSHOTS of the walked         *)
(* subtree and on the observable yield / mutate / send events only - nothing  *)
(* of the generator's internals (stack, liveness tests) appears.  The same    *)
(* operators judge (M) the implementation-shaped model WalkGen.tla and (V)    *)
(* recorded executions of the real pfst in WalkAccept.tla.                    *)
(*                                                                            *)
(* Snapshot T : Seq([s : serial of the FST object, d : depth, e : eligible,   *)
(*                    v : visible])                                           *)
(*   the walked node W and its live descendants in *source* pre-order,        *)
(*   T[1] = W with d = 0; e = the node passes the `all` filter of the walk;   *)
(*   v = the node belongs to what a scope=True walk of W shows (the scope of  *)
(*   W plus the parts of nested scopes that are evaluated in it: decorators,  *)
(*   defaults, annotations, bases, first iterators, walrus targets).          *)
(* Event  [i : index into a snapshot, lv : leaving?]                           *)
(* Settings cfg : [on : "enter"|"leave"|"both", back, recurse, self, scope]   *)
EXTENDS Integers, Sequences, FiniteSets

Serials(T) == {T[i].s : i \in 1..Len(T)}
IdxOf(T, s) == IF \E i \in 1..Len(T) : T[i].s = s THEN CHOOSE i \in 1..Len(T) : T[i].s = s ELSE 0

RECURSIVE ScanEnd(_, _, _)
ScanEnd(T, i, j) == IF j > Len(T) \/ T[j].d <= T[i].d THEN j - 1 ELSE ScanEnd(T, i, j + 1)
EndOf(T, i) == ScanEnd(T, i, i + 1)                     \* last index of the subtree of i
Desc(T, i)  == (i + 1)..EndOf(T, i)
Anc(T, i)   == {j \in 1..(i - 1) : EndOf(T, j) >= i}    \* proper ancestors
ParOf(T, i) == IF Anc(T, i) = {} THEN 0 ELSE CHOOSE j \in Anc(T, i) : T[j].d = T[i].d - 1

RECURSIVE SibsFrom(_, _, _)
SibsFrom(T, k, e) == IF k > e THEN <<>> ELSE <<k>> \o SibsFrom(T, EndOf(T, k) + 1, e)
KidsSeq(T, i) == SibsFrom(T, i + 1, EndOf(T, i))        \* children in source order
Rev(s) == [k \in 1..Len(s) |-> s[Len(s) + 1 - k]]

(* The order in which an undisturbed walk of T yields: parents on entry       *)
(* and/or on leaving, children in source order (reversed with back).          *)
(* The walked node itself is subject to the `all` filter like any other node, *)
(* on entry and on leaving.                                                   *)
RECURSIVE Ev(_, _, _), EvList(_, _, _)
Ev(T, i, cfg) ==
  LET ks == IF cfg.back THEN Rev(KidsSeq(T, i)) ELSE KidsSeq(T, i) IN
  (IF T[i].e /\ cfg.on # "leave" THEN <<[i |-> i, lv |-> FALSE]>> ELSE <<>>)
    \o EvList(T, ks, cfg)
    \o (IF T[i].e /\ cfg.on # "enter" THEN <<[i |-> i, lv |-> TRUE]>> ELSE <<>>)
EvList(T, ks, cfg) == IF ks = <<>> THEN <<>> ELSE Ev(T, Head(ks), cfg) \o EvList(T, Tail(ks), cfg)

Events(T, cfg) ==
  IF T = <<>> THEN <<>>
  ELSE LET all == Ev(T, 1, cfg) IN
       IF cfg.self THEN all ELSE SelectSeq(all, LAMBDA e : e.i # 1)

PosOf(E, ev) == IF \E k \in 1..Len(E) : E[k] = ev THEN CHOOSE k \in 1..Len(E) : E[k] = ev ELSE 0

(* recurse=False stops below the first level unless send(True) opened a node  *)
(* (send(True) opens the node and everything below it, unconditionally).      *)
Reach(T, i, cfg, opened) ==
  \A a \in Anc(T, i) : cfg.recurse \/ a = 1 \/ \E b \in Anc(T, a) \cup {a} : T[b].s \in opened

(* Documented rule (walk() docstring): not-yet-walked siblings of the current *)
(* node or of any of its parents may be replaced, "but the new nodes will not *)
(* be walked".  Frontier = those pending siblings; a frontier node replaced   *)
(* in place (FST object kept) is STALE: whether it is still yielded is left   *)
(* open by the property, so the laws below treat stale nodes (and what hangs  *)
(* below them) as optional.                                                   *)
Frontier(T, i, back) ==
  {j \in 1..Len(T) : /\ j # i /\ j \notin Anc(T, i) /\ ParOf(T, j) \in Anc(T, i)
                     /\ IF back THEN j < i ELSE j > i}
Optional(T, i, stale) == \E a \in Anc(T, i) \cup {i} : T[a].s \in stale

(* ---- "after removing it the walk continues with what follows" ----------- *)
(* T0 = snapshot when the walker parked, ev = the event it parked at, T1 =   *)
(* snapshot when it is resumed.  "What follows" is read in the order of T1   *)
(* (surviving nodes keep their relative order; nodes put below a pending     *)
(* node during the park are walked when the walk gets there):                *)
(*  - a node that existed at T0 follows if its event comes after ev in the   *)
(*    pre-mutation order of T0 (structural order: every node on entry and on *)
(*    leaving, whatever the filter);                                         *)
(*  - a node that is new since T0 follows if the nearest ancestor that       *)
(*    existed at T0 had not been entered (expanded) yet at ev; new nodes put *)
(*    where the walk has already been are not walked (documented);           *)
(*  - it is still to be entered (a leave event of on="both" needs its node   *)
(*    entered) and reachable under the recursion settings.                   *)
(* A node replaced in place may change kind: whether it passes the filter is *)
(* read from T1 (the code re-tests on leaving).  The next yield must be the  *)
(* first candidate that is not optional, or an optional one before it; the   *)
(* walk may only end if no mandatory candidate is left.                      *)
AllE(T) == [i \in 1..Len(T) |-> [T[i] EXCEPT !.e = TRUE]]
Structural(T, cfg) == IF T = <<>> THEN <<>> ELSE Ev(AllE(T), 1, [cfg EXCEPT !.on = "both"])

Follows(T0, ev, T1, cfg, entered, opened) ==
  LET B0 == Structural(T0, cfg)
      p0 == PosOf(B0, ev)
      posB(i, l) == PosOf(B0, [i |-> i, lv |-> l])
      old(j) == IdxOf(T0, T1[j].s)
      oldAnc(j) == {a \in Anc(T1, j) : old(a) # 0}
      nearest(j) == CHOOSE a \in oldAnc(j) : \A b \in oldAnc(j) : b <= a
      pending(e) ==
        LET s == T1[e.i].s  i0 == old(e.i) IN
        /\ IF e.lv /\ cfg.on = "both" THEN s \in entered ELSE s \notin entered
        /\ Reach(T1, e.i, cfg, opened)
        /\ IF i0 # 0 THEN posB(i0, e.lv) > p0
           ELSE oldAnc(e.i) # {} /\ posB(old(nearest(e.i)), FALSE) > p0
  IN IF p0 = 0 THEN <<>> ELSE SelectSeq(Events(T1, cfg), pending)

AfterDead(T0, ev, T1, cfg, entered, opened, stale) ==
  LET C    == Follows(T0, ev, T1, cfg, entered, opened)
      hard == {k \in 1..Len(C) : ~Optional(T1, C[k].i, stale)}
      k1   == IF hard = {} THEN Len(C) ELSE CHOOSE k \in hard : \A h \in hard : k <= h
      pick == IF cfg.scope THEN 1..Len(C) ELSE 1..k1       \* scope rules are not modelled: weak form
  IN [allowed |-> {[s |-> T1[C[k].i].s, lv |-> C[k].lv] : k \in pick},
      mayStop |-> hard = {} \/ cfg.scope]

(* ---- "after replacing the current node its new children are walked next"  *)
(* ---- and send(True): the first event below the (new) current node ------- *)
(* With scope=True (and no send(True), which walks everything) the children   *)
(* that are walked are those visible in the scope.                            *)
FirstBelow(T1, s, cfg, opened, inScope) ==
  LET i  == IdxOf(T1, s)
      E  == Ev(T1, i, cfg)
      in == SelectSeq(E, LAMBDA e : /\ e.i \in Desc(T1, i) /\ ~e.lv /\ Reach(T1, e.i, cfg, opened)
                                    /\ (inScope => T1[e.i].v))
  IN IF i = 0 \/ in = <<>> THEN {} ELSE {[s |-> T1[in[1].i].s, lv |-> FALSE]}

(* ---- send(False): nothing below a closed node is yielded ---------------- *)
UnderClosed(T, s, closed) == LET i == IdxOf(T, s) IN i # 0 /\ \E a \in Anc(T, i) : T[a].s \in closed

YieldBound(n0, inserted) == 2 * (n0 + inserted) + 2
=============================================================================
