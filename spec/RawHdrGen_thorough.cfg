CONSTANTS
  Depths = {0, 1, 2}
  SampleK = 0
  SampleN = 1
