SPECIFICATION Spec
CONSTANTS
  NStmt = 3
  Patterns <- PatQuick
  TailPatterns <- TailThorough
  LeadModes <- LeadAll
  TrailModes <- TrailAll
INVARIANTS Accept Reject AllClausesSeen
CHECK_DEADLOCK FALSE
