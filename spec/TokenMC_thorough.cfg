SPECIFICATION Spec
CONSTANTS
  NStmt = 3
  Patterns <- PatQuick
  TailPatterns <- TailQuick
  LeadModes <- LeadAll
  TrailModes <- TrailAll
INVARIANTS Accept Reject AllClausesSeen
CHECK_DEADLOCK FALSE
