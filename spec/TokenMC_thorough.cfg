SPECIFICATION Spec
CONSTANTS
  NStmt = 3
  Patterns <- PatQuick
  TailPatterns <- TailOne
  JoinOpts <- JoinAll
  EatOpts <- EatQuick
  LeadModes <- LeadAll
  TrailModes <- TrailAll
INVARIANTS Accept Reject AllClausesSeen
CHECK_DEADLOCK FALSE
