------------------------------- MODULE Options -------------------------------
(* The option store of pfst (fst_options.py).                                 *)
(*                                                                            *)
(*   _OPTIONS is a threading.local: every thread owns a dictionary            *)
(*   option -> value that starts as the module defaults when the thread       *)
(*   first touches it.  Public operations, one action each:                   *)
(*     Call(t, ov)        any API call with per-call options `ov`: looks    *)
(*                        every option up as  ov[o] if given else store[t][o] *)
(*                        (get_option), never writes the store                *)
(*     SetOptions(t, m)   set_options(m): validate everything, then update; *)
(*                        returns the previous values of the named options    *)
(*     EnterWith(t, m)    `with options(m):`  = SetOptions + remember the   *)
(*                        previous values of the *named* options              *)
(*     ExitWith(t, how)   leaving the innermost block, normally or because    *)
(*                        the body raised: the named options get their        *)
(*                        remembered values back (same transition for both)   *)
(*     Spawn(t) / Die(t)  a thread starts with the module defaults / ends     *)
(*                                                                            *)
(* Named deviation (documented WARNING of options()): NamedOnlyRestore - only *)
(* the options named in the `with` are restored, other options changed inside *)
(* the block by set_options keep their values (UnnamedKept).                  *)
(*                                                                            *)
(* Unknown option names and invalid values are abstracted to one name         *)
(* `Unknown` and one value `Bad`; which concrete (name, value) pairs are      *)
(* invalid is the documented table of options() (harness catalogue).          *)
EXTENDS Integers, Sequences, FiniteSets, TLC

CONSTANTS Threads, Main,      \* Main \in Threads : the thread that imported the module
          Opts, Vals,         \* global option names, valid values
          Default,            \* Opts -> Vals, module defaults
          Bad, Unknown,       \* an invalid value, an unknown option name
          MaxNest             \* Threads -> Nat, bound on open blocks per thread

ASSUME Main \in Threads /\ Bad \notin Vals /\ Unknown \notin Opts

Names   == Opts \cup {Unknown}
AllVals == Vals \cup {Bad}
NoMap   == <<>>

Valid(m)   == \A n \in DOMAIN m : n \in Opts /\ m[n] \in Vals       \* check_options(m, all=False) passes
Eff(s, m)  == [o \in Opts |-> IF o \in DOMAIN m THEN m[o] ELSE s[o]]   \* lookup: given value, else thread default
Old(s, m)  == [o \in DOMAIN m |-> s[o]]                              \* what set_options returns (m valid)

VARIABLES alive,     \* set of threads that exist
          store,     \* Threads -> [Opts -> Vals]          (meaningful for alive threads)
          blocks,    \* Threads -> Seq([saved, snap, dirty])  open `with options` blocks, innermost last
                     \*    saved : named option -> value to restore   (what the implementation keeps)
                     \*    snap  : whole store at entry               (ghost)
                     \*    dirty : a set_options ran inside           (ghost)
          last       \* ghost: the last action with its pre-state (kept out of the fingerprint by VIEW)

NoBlock == [saved |-> NoMap, snap |-> Default, dirty |-> FALSE]
Rec(k, t, m, ok, how, b, eff, ret) ==
  [k |-> k, t |-> t, m |-> m, ok |-> ok, how |-> how, b |-> b, eff |-> eff, ret |-> ret,
   pre |-> store, preB |-> blocks, preA |-> alive]

Init == /\ alive = {Main}
        /\ store = [t \in Threads |-> Default]
        /\ blocks = [t \in Threads |-> <<>>]
        /\ last = [k |-> "init", t |-> Main, m |-> NoMap, ok |-> TRUE, how |-> "-", b |-> NoBlock, eff |-> Default,
                   ret |-> NoMap, pre |-> [t \in Threads |-> Default], preB |-> [t \in Threads |-> <<>>],
                   preA |-> {Main}]

(* a new thread sees the module defaults, whatever any other thread (or a    *)
(* dead thread that had the same identity) did                                *)
Spawn(t) ==
  /\ t \notin alive
  /\ alive' = alive \cup {t}
  /\ store' = [store EXCEPT ![t] = Default]
  /\ blocks' = [blocks EXCEPT ![t] = <<>>]
  /\ last' = Rec("spawn", t, NoMap, TRUE, "-", NoBlock, Default, NoMap)

Die(t) ==
  /\ t \in alive \ {Main} /\ blocks[t] = <<>>
  /\ alive' = alive \ {t}
  /\ UNCHANGED <<store, blocks>>           \* its dictionary is garbage from now on
  /\ last' = Rec("die", t, NoMap, TRUE, "-", NoBlock, Default, NoMap)

Call(t, ov) ==
  /\ t \in alive
  /\ UNCHANGED <<alive, store, blocks>>
  /\ last' = Rec("call", t, ov, Valid(ov), "-", NoBlock, IF Valid(ov) THEN Eff(store[t], ov) ELSE Default, NoMap)

MarkDirty(bs) == [i \in 1..Len(bs) |-> [bs[i] EXCEPT !.dirty = TRUE]]

SetOptions(t, m) ==
  /\ t \in alive
  /\ IF Valid(m)
     THEN /\ store' = [store EXCEPT ![t] = Eff(@, m)]
          /\ blocks' = [blocks EXCEPT ![t] = IF DOMAIN m = {} THEN @ ELSE MarkDirty(@)]
          /\ last' = Rec("set", t, m, TRUE, "-", NoBlock, Default, Old(store[t], m))
     ELSE /\ UNCHANGED <<store, blocks>>   \* ValueError before anything is written
          /\ last' = Rec("set", t, m, FALSE, "-", NoBlock, Default, NoMap)
  /\ UNCHANGED alive

EnterWith(t, m) ==
  /\ t \in alive /\ Len(blocks[t]) < MaxNest[t]
  /\ IF Valid(m)
     THEN /\ store' = [store EXCEPT ![t] = Eff(@, m)]
          /\ blocks' = [blocks EXCEPT ![t] = Append(@, [saved |-> Old(store[t], m), snap |-> store[t], dirty |-> FALSE])]
          /\ last' = Rec("enter", t, m, TRUE, "-", NoBlock, Default, Old(store[t], m))
     ELSE /\ UNCHANGED <<store, blocks>>   \* the block is not entered at all
          /\ last' = Rec("enter", t, m, FALSE, "-", NoBlock, Default, NoMap)
  /\ UNCHANGED alive

ExitWith(t, how) ==
  /\ t \in alive /\ blocks[t] # <<>>
  /\ LET b == blocks[t][Len(blocks[t])] IN
       /\ store' = [store EXCEPT ![t] = Eff(@, b.saved)]        \* NamedOnlyRestore
       /\ blocks' = [blocks EXCEPT ![t] = SubSeq(@, 1, Len(@) - 1)]
       /\ last' = Rec("exit", t, NoMap, TRUE, how, b, Default, NoMap)
  /\ UNCHANGED alive

(* The closed system (an environment that passes every map of at most MaxMap  *)
(* entries) is OptionsMC.tla; this module is also instantiated on recorded    *)
(* executions by OptionsTrace.tla and composed with the registry in Threads.  *)
vars == <<alive, store, blocks, last>>
View == <<alive, store, blocks>>

(* ---- what C20 states about the store ------------------------------------ *)
(* Each law is written over L (a record of the action just taken with its     *)
(* pre-state, i.e. `last`) and a *candidate* post-store `s` of the acting     *)
(* thread, so that                                                            *)
(* the same formula serves as an invariant of this model (s = the model's     *)
(* store) and as a conformance clause of OptionsTrace.tla (s = what           *)
(* FST.get_options() answered in that thread).                                *)
TypeOK == /\ alive \subseteq Threads /\ Main \in alive
          /\ \A t \in Threads : store[t] \in [Opts -> Vals] /\ Len(blocks[t]) <= MaxNest[t]

Pre(L) == L.pre[L.t]

(* an option passed to a call affects only that call: the store is untouched, *)
(* and the value the call sees is the given one, else the thread's default    *)
CallStoreOn(L, s)  == L.k = "call" => s = Pre(L)
CallEffOn(L, eff)  == (L.k = "call" /\ L.ok) =>
                     \A o \in Opts : eff[o] = IF o \in DOMAIN L.m THEN L.m[o] ELSE Pre(L)[o]

(* unknown options or invalid values are rejected before anything is changed  *)
Rejected(m)          == \E n \in DOMAIN m : n \notin Opts \/ m[n] \notin Vals
RejectRaisedOn(L, ok)   == L.k \in {"call", "set", "enter"} => (ok = ~Rejected(L.m))
RejectStoreOn(L, ok, s) == (L.k \in {"call", "set", "enter"} /\ ~ok) => s = Pre(L)

(* accepted set_options / options(): exactly the named options change, to the given values; the old ones are returned *)
SetStoreOn(L, s) == (L.k \in {"set", "enter"} /\ L.ok) =>
                   \A o \in Opts : s[o] = IF o \in DOMAIN L.m THEN L.m[o] ELSE Pre(L)[o]
SetRetOn(L, ret) == (L.k \in {"set", "enter"} /\ L.ok) =>
                   DOMAIN ret = DOMAIN L.m /\ \A o \in DOMAIN L.m : ret[o] = Pre(L)[o]

(* options set through options() are restored exactly on exit, also when the block raises (`how` plays no role) *)
RestoreOn(L, s)     == L.k = "exit" => \A o \in DOMAIN L.b.saved : s[o] = L.b.snap[o]
(* NamedOnlyRestore, the documented WARNING of options() *)
UnnamedKeptOn(L, s) == L.k = "exit" => \A o \in Opts \ DOMAIN L.b.saved : s[o] = Pre(L)[o]
(* a block in which set_options was never called leaves the whole store as it found it (any nesting) *)
BlockTransparentOn(L, s) == (L.k = "exit" /\ ~L.b.dirty) => s = L.b.snap

(* nothing a thread does is visible in another thread: S = stores of the other threads after the step *)
ThreadIsolationOn(L, S) == \A u \in DOMAIN S : u # L.t => S[u] = L.pre[u]
(* a new thread starts from the module defaults *)
FreshOn(L, s) == L.k = "spawn" => s = Default

Mine == store[last.t]
CallIsolation       == CallStoreOn(last, Mine) /\ CallEffOn(last, last.eff) /\ (last.k = "call" => blocks = last.preB)
RejectAtomic        == RejectRaisedOn(last, last.ok) /\ RejectStoreOn(last, last.ok, Mine) /\
                       ((last.k \in {"call", "set", "enter"} /\ ~last.ok) => blocks = last.preB)
SetExact            == SetStoreOn(last, Mine) /\ SetRetOn(last, last.ret)
Restore             == RestoreOn(last, Mine)
UnnamedKept         == UnnamedKeptOn(last, Mine)
BlockTransparent    == BlockTransparentOn(last, Mine)
ThreadIsolation     == ThreadIsolationOn(last, store) /\ \A u \in Threads \ {last.t} : blocks[u] = last.preB[u]
FreshThreadDefaults == FreshOn(last, Mine) /\ (last.k = "spawn" => blocks[last.t] = <<>>)

SavedIsEntry ==
  \A t \in Threads : \A i \in 1..Len(blocks[t]) :
     \A o \in DOMAIN blocks[t][i].saved : blocks[t][i].saved[o] = blocks[t][i].snap[o]
(* closing every open block gives each named option the value it had when its outermost naming block was entered *)
RECURSIVE Unwound(_, _)
Unwound(s, bs) == IF bs = <<>> THEN s ELSE Unwound(Eff(s, bs[Len(bs)].saved), SubSeq(bs, 1, Len(bs) - 1))
NestedRestore ==
  \A t \in alive : \A i \in 1..Len(blocks[t]) :
     (\A j \in 1..(i - 1) : DOMAIN blocks[t][j].saved \cap DOMAIN blocks[t][i].saved = {}) =>
        \A o \in DOMAIN blocks[t][i].saved : Unwound(store[t], blocks[t])[o] = blocks[t][i].snap[o]

=============================================================================
