------------------------------- MODULE Options -------------------------------
(* The option store of pfst (fst_options.py).                                 *)
(*                                                                            *)
(*   _OPTIONS is a threading.local: every thread owns a dictionary            *)
(*   option -> value that starts as the module defaults when the thread       *)
(*   first touches it.  Option values are Python objects: the dictionary,     *)
(*   a per-call option, the mapping returned by set_options all hold          *)
(*   *references*.  So a value is a cell id and `heap` maps cell ids to       *)
(*   contents; immutable values (bool, str, None, tuple) are cells nobody     *)
(*   can write, lists / AST / FST objects (the `op` option) are cells the     *)
(*   *user* may write (UserWrite) - and that the library must never write.    *)
(*                                                                            *)
(*   Public operations, one action each:                                      *)
(*     Call(t, ov)        any API call with per-call options `ov`: looks      *)
(*                        every option up as  ov[o] if given else store[t][o] *)
(*                        (get_option), never writes the store or the heap    *)
(*     SetOptions(t, m)   set_options(m): validate everything, then update;   *)
(*                        returns the previous values of the named options    *)
(*     EnterWith(t, m)    `with options(m):`  = SetOptions + remember the     *)
(*                        previous values of the *named* options              *)
(*     ExitWith(t, how)   leaving the innermost block, normally or because    *)
(*                        the body raised: the named options get their        *)
(*                        remembered values back (same transition for both)   *)
(*     Spawn(t) / Die(t)  a thread starts with the module defaults / ends     *)
(*     UserWrite(c, v)    the program mutates one of its own mutable objects  *)
(*                        (environment, not pfst)                             *)
(*                                                                            *)
(* Named deviation (documented WARNING of options()): NamedOnlyRestore - only *)
(* the options named in the `with` are restored, other options changed inside *)
(* the block by set_options keep their values (UnnamedKept).                  *)
(*                                                                            *)
(* Unknown option names are abstracted to one name `Unknown`, invalid values  *)
(* to cells whose content is `Bad`; which concrete (name, value) pairs are    *)
(* invalid is the documented table of options() (harness catalogue).          *)
EXTENDS Integers, Sequences, FiniteSets, TLC

CONSTANTS Threads, Main,      \* Main \in Threads : the thread that imported the module
          Opts, Vals,         \* global option names, valid *contents*
          Cells, Mutable,     \* cell ids, the ones that can be written at all
          Heap0,              \* Cells -> contents at the start
          Default,            \* Opts -> Cells, module defaults
          Bad, Unknown,       \* an invalid content, an unknown option name
          MaxNest             \* Threads -> Nat, bound on open blocks per thread

ASSUME Main \in Threads /\ Bad \notin Vals /\ Unknown \notin Opts /\ Mutable \subseteq Cells

Names   == Opts \cup {Unknown}
NoMap   == <<>>

VARIABLES alive,     \* set of threads that exist
          store,     \* Threads -> [Opts -> Cells]         (meaningful for alive threads)
          blocks,    \* Threads -> Seq(block)  open `with options` blocks, innermost last
                     \*    saved  : named option -> cell to restore    (what the implementation keeps)
                     \*    snap   : whole store at entry (cells)       (ghost)
                     \*    snapC  : its contents at entry, a deep copy (ghost)
                     \*    dirty  : a set_options ran inside           (ghost)
                     \*    hdirty : the user wrote a cell inside       (ghost)
          heap,      \* Cells -> contents
          last       \* ghost: the last action with its pre-state (kept out of the fingerprint by VIEW)

Valid(m)   == \A n \in DOMAIN m : n \in Opts /\ heap[m[n]] \in Vals     \* check_options(m, all=False) passes
Eff(s, m)  == [o \in Opts |-> IF o \in DOMAIN m THEN m[o] ELSE s[o]]   \* lookup: given value, else thread default
Old(s, m)  == [o \in DOMAIN m |-> s[o]]                              \* what set_options returns (m valid)
Cont(H, s) == [o \in DOMAIN s |-> H[s[o]]]                           \* deep view of a map of cells

NoBlock == [saved |-> NoMap, snap |-> Default, snapC |-> Cont(Heap0, Default), dirty |-> FALSE, hdirty |-> FALSE]
Rec(k, t, m, ok, how, b, eff, ret) ==
  [k |-> k, t |-> t, m |-> m, ok |-> ok, how |-> how, b |-> b, eff |-> eff, ret |-> ret,
   pre |-> store, preB |-> blocks, preA |-> alive, preH |-> heap]

Last0(H) == [k |-> "init", t |-> Main, m |-> NoMap, ok |-> TRUE, how |-> "-", b |-> NoBlock, eff |-> Default,
             ret |-> NoMap, pre |-> [t \in Threads |-> Default], preB |-> [t \in Threads |-> <<>>],
             preA |-> {Main}, preH |-> H]

Init == /\ alive = {Main}
        /\ store = [t \in Threads |-> Default]
        /\ blocks = [t \in Threads |-> <<>>]
        /\ heap = Heap0
        /\ last = Last0(Heap0)

(* a new thread sees the module defaults, whatever any other thread (or a    *)
(* dead thread that had the same identity) did                                *)
Spawn(t) ==
  /\ t \notin alive
  /\ alive' = alive \cup {t}
  /\ store' = [store EXCEPT ![t] = Default]
  /\ blocks' = [blocks EXCEPT ![t] = <<>>]
  /\ UNCHANGED heap
  /\ last' = Rec("spawn", t, NoMap, TRUE, "-", NoBlock, Default, NoMap)

Die(t) ==
  /\ t \in alive \ {Main} /\ blocks[t] = <<>>
  /\ alive' = alive \ {t}
  /\ UNCHANGED <<store, blocks, heap>>     \* its dictionary is garbage from now on
  /\ last' = Rec("die", t, NoMap, TRUE, "-", NoBlock, Default, NoMap)

Call(t, ov) ==
  /\ t \in alive
  /\ UNCHANGED <<alive, store, blocks, heap>>     \* in particular the objects passed in `ov` are not written
  /\ last' = Rec("call", t, ov, Valid(ov), "-", NoBlock, IF Valid(ov) THEN Eff(store[t], ov) ELSE Default, NoMap)

MarkDirty(bs) == [i \in 1..Len(bs) |-> [bs[i] EXCEPT !.dirty = TRUE]]

SetOptions(t, m) ==
  /\ t \in alive
  /\ IF Valid(m)
     THEN /\ store' = [store EXCEPT ![t] = Eff(@, m)]             \* the references are stored, nothing is copied
          /\ blocks' = [blocks EXCEPT ![t] = IF DOMAIN m = {} THEN @ ELSE MarkDirty(@)]
          /\ last' = Rec("set", t, m, TRUE, "-", NoBlock, Default, Old(store[t], m))
     ELSE /\ UNCHANGED <<store, blocks>>   \* ValueError before anything is written
          /\ last' = Rec("set", t, m, FALSE, "-", NoBlock, Default, NoMap)
  /\ UNCHANGED <<alive, heap>>

EnterWith(t, m) ==
  /\ t \in alive /\ Len(blocks[t]) < MaxNest[t]
  /\ IF Valid(m)
     THEN /\ store' = [store EXCEPT ![t] = Eff(@, m)]
          /\ blocks' = [blocks EXCEPT ![t] = Append(@, [saved |-> Old(store[t], m), snap |-> store[t],
                                                        snapC |-> Cont(heap, store[t]), dirty |-> FALSE, hdirty |-> FALSE])]
          /\ last' = Rec("enter", t, m, TRUE, "-", NoBlock, Default, Old(store[t], m))
     ELSE /\ UNCHANGED <<store, blocks>>   \* the block is not entered at all
          /\ last' = Rec("enter", t, m, FALSE, "-", NoBlock, Default, NoMap)
  /\ UNCHANGED <<alive, heap>>

ExitWith(t, how) ==
  /\ t \in alive /\ blocks[t] # <<>>
  /\ LET b == blocks[t][Len(blocks[t])] IN
       /\ store' = [store EXCEPT ![t] = Eff(@, b.saved)]        \* NamedOnlyRestore
       /\ blocks' = [blocks EXCEPT ![t] = SubSeq(@, 1, Len(@) - 1)]
       /\ last' = Rec("exit", t, NoMap, TRUE, how, b, Default, NoMap)
  /\ UNCHANGED <<alive, heap>>

(* environment: the program changes the contents of one of its own mutable    *)
(* objects (which the store, a block or a later call may alias)               *)
UserWrite(c, v) ==
  /\ c \in Mutable /\ v \in Vals /\ heap[c] # v
  /\ heap' = [heap EXCEPT ![c] = v]
  /\ blocks' = [t \in Threads |-> [i \in 1..Len(blocks[t]) |-> [blocks[t][i] EXCEPT !.hdirty = TRUE]]]
  /\ UNCHANGED <<alive, store>>
  /\ last' = Rec("write", Main, NoMap, TRUE, "-", NoBlock, Default, NoMap)

(* The closed system (an environment that passes every map of at most MaxMap  *)
(* entries) is OptionsMC.tla; this module is also instantiated on recorded    *)
(* executions by OptionsTrace.tla and composed with the registry in Threads.  *)
vars == <<alive, store, blocks, heap, last>>
View == <<alive, store, blocks, heap>>

(* ---- what C20 states about the store ------------------------------------ *)
(* Each law is written over L (a record of the action just taken with its     *)
(* pre-state, i.e. `last`) and a candidate *deep* post-store `s` of the       *)
(* acting thread (option -> contents), so that the same formula serves as an  *)
(* invariant of this model (s = Cont(heap, store[t])) and as a conformance    *)
(* clause of OptionsTrace.tla (s = a deep snapshot of what FST.get_options()  *)
(* answered in that thread).                                                  *)
TypeOK == /\ alive \subseteq Threads /\ Main \in alive
          /\ \A t \in Threads : store[t] \in [Opts -> Cells] /\ Len(blocks[t]) <= MaxNest[t]
          /\ \A t \in alive, o \in Opts : heap[store[t][o]] \in Vals

Pre(L)  == L.pre[L.t]
PreC(L) == Cont(L.preH, Pre(L))
Api(L)  == L.k \in {"spawn", "die", "call", "set", "enter", "exit"}

(* pfst never writes an option value: not the ones passed to a call, not the  *)
(* ones held as defaults, not the ones remembered by a block                  *)
HeapUntouchedAt(L, c, x) == Api(L) => x = L.preH[c]                 \* one cell: its contents after the step
HeapUntouchedOn(L, H)    == \A c \in DOMAIN L.preH : HeapUntouchedAt(L, c, H[c])

(* an option passed to a call affects only that call: the store is untouched, *)
(* and the value the call sees is the given one, else the thread's default    *)
CallStoreOn(L, s)  == L.k = "call" => s = PreC(L)
CallEffOn(L, eff)  == (L.k = "call" /\ L.ok) =>
                        \A o \in Opts : eff[o] = L.preH[IF o \in DOMAIN L.m THEN L.m[o] ELSE Pre(L)[o]]

(* unknown options or invalid values are rejected before anything is changed  *)
Rejected(H, m)          == \E n \in DOMAIN m : n \notin Opts \/ H[m[n]] \notin Vals
RejectRaisedOn(L, ok)   == L.k \in {"call", "set", "enter"} => (ok = ~Rejected(L.preH, L.m))
RejectStoreOn(L, ok, s) == (L.k \in {"call", "set", "enter"} /\ ~ok) => s = PreC(L)

(* accepted set_options / options(): exactly the named options change, to the given values; the old ones are returned *)
SetStoreOn(L, s) == (L.k \in {"set", "enter"} /\ L.ok) =>
                      \A o \in Opts : s[o] = L.preH[IF o \in DOMAIN L.m THEN L.m[o] ELSE Pre(L)[o]]
SetRetOn(L, ret) == (L.k \in {"set", "enter"} /\ L.ok) =>
                      DOMAIN ret = DOMAIN L.m /\ \A o \in DOMAIN L.m : ret[o] = PreC(L)[o]

(* options set through options() are restored exactly on exit, also when the block raises (`how` plays no role): *)
(* deep-equal to the snapshot taken at entry unless the user wrote a cell meanwhile (then: the same object)       *)
RestoreOn(L, s)     == L.k = "exit" =>
                         \A o \in DOMAIN L.b.saved : s[o] = IF L.b.hdirty THEN L.preH[L.b.snap[o]] ELSE L.b.snapC[o]
(* NamedOnlyRestore, the documented WARNING of options() *)
UnnamedKeptOn(L, s) == L.k = "exit" => \A o \in Opts \ DOMAIN L.b.saved : s[o] = PreC(L)[o]
(* a block in which neither set_options was called nor an object written leaves the whole store as it found it *)
BlockTransparentOn(L, s) == (L.k = "exit" /\ ~L.b.dirty /\ ~L.b.hdirty) => s = L.b.snapC

(* nothing a thread does is visible in another thread: S = deep stores of the other threads after the step *)
ThreadIsolationOn(L, S) == Api(L) => \A u \in DOMAIN S : u # L.t => S[u] = Cont(L.preH, L.pre[u])
(* a new thread starts from the module defaults *)
FreshOn(L, s) == L.k = "spawn" => s = Cont(L.preH, Default)

Mine == Cont(heap, store[last.t])
HeapUntouched       == HeapUntouchedOn(last, heap)
CallIsolation       == CallStoreOn(last, Mine) /\ CallEffOn(last, Cont(heap, last.eff)) /\
                       (last.k = "call" => blocks = last.preB /\ store = last.pre)
RejectAtomic        == RejectRaisedOn(last, last.ok) /\ RejectStoreOn(last, last.ok, Mine) /\
                       ((last.k \in {"call", "set", "enter"} /\ ~last.ok) => blocks = last.preB /\ store = last.pre)
SetExact            == SetStoreOn(last, Mine) /\ SetRetOn(last, Cont(heap, last.ret))
Restore             == RestoreOn(last, Mine) /\
                       (last.k = "exit" => \A o \in DOMAIN last.b.saved : store[last.t][o] = last.b.snap[o])
UnnamedKept         == UnnamedKeptOn(last, Mine)
BlockTransparent    == BlockTransparentOn(last, Mine)
ThreadIsolation     == /\ ThreadIsolationOn(last, [u \in Threads |-> Cont(heap, store[u])])
                       /\ \A u \in Threads \ {last.t} : store[u] = last.pre[u]
                       /\ Api(last) => \A u \in Threads \ {last.t} : blocks[u] = last.preB[u]
FreshThreadDefaults == FreshOn(last, Mine) /\ (last.k = "spawn" => blocks[last.t] = <<>>)

SavedIsEntry ==
  \A t \in Threads : \A i \in 1..Len(blocks[t]) :
     \A o \in DOMAIN blocks[t][i].saved : blocks[t][i].saved[o] = blocks[t][i].snap[o]
(* closing every open block gives each named option the value it had when its outermost naming block was entered *)
RECURSIVE Unwound(_, _)
Unwound(s, bs) == IF bs = <<>> THEN s ELSE Unwound(Eff(s, bs[Len(bs)].saved), SubSeq(bs, 1, Len(bs) - 1))
NestedRestore ==
  \A t \in alive : \A i \in 1..Len(blocks[t]) :
     (\A j \in 1..(i - 1) : DOMAIN blocks[t][j].saved \cap DOMAIN blocks[t][i].saved = {}) =>
        \A o \in DOMAIN blocks[t][i].saved : Unwound(store[t], blocks[t])[o] = blocks[t][i].snap[o]

=============================================================================
