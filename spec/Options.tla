------------------------------- MODULE Options -------------------------------
(* The option store of pfst (fst_options.py).                                 *)
(*                                                                            *)
(*   _OPTIONS is a threading.local: every thread owns a dictionary            *)
(*   option -> value that starts as the module defaults when the thread       *)
(*   first touches it.  Public operations, one action each:                   *)
(*     Call(t, ov)        any API call with per-call options `ov`: looks    *)
(*                        every option up as  ov[o] if given else store[t][o] *)
(*                        (get_option), never writes the store                *)
(*     SetOptions(t, m)   set_options(m): validate everything, then update; *)
(*                        returns the previous values of the named options    *)
(*     EnterWith(t, m)    `with options(m):`  = SetOptions + remember the   *)
(*                        previous values of the *named* options              *)
(*     ExitWith(t, how)   leaving the innermost block, normally or because    *)
(*                        the body raised: the named options get their        *)
(*                        remembered values back (same transition for both)   *)
(*     Spawn(t) / Die(t)  a thread starts with the module defaults / ends     *)
(*                                                                            *)
(* Named deviation (documented WARNING of options()): NamedOnlyRestore - only *)
(* the options named in the `with` are restored, other options changed inside *)
(* the block by set_options keep their values (UnnamedKept).                  *)
(*                                                                            *)
(* Unknown option names and invalid values are abstracted to one name         *)
(* `Unknown` and one value `Bad`; which concrete (name, value) pairs are      *)
(* invalid is the documented table of options() (harness catalogue).          *)
EXTENDS Integers, Sequences, FiniteSets, TLC

CONSTANTS Threads, Main,      \* Main \in Threads : the thread that imported the module
          Opts, Vals,         \* global option names, valid values
          Default,            \* Opts -> Vals, module defaults
          Bad, Unknown,       \* an invalid value, an unknown option name
          MaxNest,            \* Threads -> Nat, bound on open blocks per thread
          MaxMap              \* bound on the number of options passed at once

ASSUME Main \in Threads /\ Bad \notin Vals /\ Unknown \notin Opts

Names   == Opts \cup {Unknown}
AllVals == Vals \cup {Bad}
Maps    == UNION {[D -> AllVals] : D \in {S \in SUBSET Names : Cardinality(S) <= MaxMap}}
NoMap   == <<>>

Valid(m)   == \A n \in DOMAIN m : n \in Opts /\ m[n] \in Vals       \* check_options(m, all=False) passes
Eff(s, m)  == [o \in Opts |-> IF o \in DOMAIN m THEN m[o] ELSE s[o]]   \* lookup: given value, else thread default
Old(s, m)  == [o \in DOMAIN m |-> s[o]]                              \* what set_options returns (m valid)

VARIABLES alive,     \* set of threads that exist
          store,     \* Threads -> [Opts -> Vals]          (meaningful for alive threads)
          blocks,    \* Threads -> Seq([saved, snap, dirty])  open `with options` blocks, innermost last
                     \*    saved : named option -> value to restore   (what the implementation keeps)
                     \*    snap  : whole store at entry               (ghost)
                     \*    dirty : a set_options ran inside           (ghost)
          last       \* ghost: the last action with its pre-state (kept out of the fingerprint by VIEW)
vars == <<alive, store, blocks, last>>

NoBlock == [saved |-> NoMap, snap |-> Default, dirty |-> FALSE]
Rec(k, t, m, ok, how, b, eff, ret) ==
  [k |-> k, t |-> t, m |-> m, ok |-> ok, how |-> how, b |-> b, eff |-> eff, ret |-> ret,
   pre |-> store, preB |-> blocks, preA |-> alive]

Init == /\ alive = {Main}
        /\ store = [t \in Threads |-> Default]
        /\ blocks = [t \in Threads |-> <<>>]
        /\ last = [k |-> "init", t |-> Main, m |-> NoMap, ok |-> TRUE, how |-> "-", b |-> NoBlock, eff |-> Default,
                   ret |-> NoMap, pre |-> [t \in Threads |-> Default], preB |-> [t \in Threads |-> <<>>],
                   preA |-> {Main}]

(* a new thread sees the module defaults, whatever any other thread (or a    *)
(* dead thread that had the same identity) did                                *)
Spawn(t) ==
  /\ t \notin alive
  /\ alive' = alive \cup {t}
  /\ store' = [store EXCEPT ![t] = Default]
  /\ blocks' = [blocks EXCEPT ![t] = <<>>]
  /\ last' = Rec("spawn", t, NoMap, TRUE, "-", NoBlock, Default, NoMap)

Die(t) ==
  /\ t \in alive \ {Main} /\ blocks[t] = <<>>
  /\ alive' = alive \ {t}
  /\ UNCHANGED <<store, blocks>>           \* its dictionary is garbage from now on
  /\ last' = Rec("die", t, NoMap, TRUE, "-", NoBlock, Default, NoMap)

Call(t, ov) ==
  /\ t \in alive
  /\ UNCHANGED <<alive, store, blocks>>
  /\ last' = Rec("call", t, ov, Valid(ov), "-", NoBlock, IF Valid(ov) THEN Eff(store[t], ov) ELSE Default, NoMap)

MarkDirty(bs) == [i \in 1..Len(bs) |-> [bs[i] EXCEPT !.dirty = TRUE]]

SetOptions(t, m) ==
  /\ t \in alive
  /\ IF Valid(m)
     THEN /\ store' = [store EXCEPT ![t] = Eff(@, m)]
          /\ blocks' = [blocks EXCEPT ![t] = IF DOMAIN m = {} THEN @ ELSE MarkDirty(@)]
          /\ last' = Rec("set", t, m, TRUE, "-", NoBlock, Default, Old(store[t], m))
     ELSE /\ UNCHANGED <<store, blocks>>   \* ValueError before anything is written
          /\ last' = Rec("set", t, m, FALSE, "-", NoBlock, Default, NoMap)
  /\ UNCHANGED alive

EnterWith(t, m) ==
  /\ t \in alive /\ Len(blocks[t]) < MaxNest[t]
  /\ IF Valid(m)
     THEN /\ store' = [store EXCEPT ![t] = Eff(@, m)]
          /\ blocks' = [blocks EXCEPT ![t] = Append(@, [saved |-> Old(store[t], m), snap |-> store[t], dirty |-> FALSE])]
          /\ last' = Rec("enter", t, m, TRUE, "-", NoBlock, Default, Old(store[t], m))
     ELSE /\ UNCHANGED <<store, blocks>>   \* the block is not entered at all
          /\ last' = Rec("enter", t, m, FALSE, "-", NoBlock, Default, NoMap)
  /\ UNCHANGED alive

ExitWith(t, how) ==
  /\ t \in alive /\ blocks[t] # <<>>
  /\ LET b == blocks[t][Len(blocks[t])] IN
       /\ store' = [store EXCEPT ![t] = Eff(@, b.saved)]        \* NamedOnlyRestore
       /\ blocks' = [blocks EXCEPT ![t] = SubSeq(@, 1, Len(@) - 1)]
       /\ last' = Rec("exit", t, NoMap, TRUE, how, b, Default, NoMap)
  /\ UNCHANGED alive

DoSpawn == \E t \in Threads : Spawn(t)
DoDie   == \E t \in Threads : Die(t)
DoCall  == \E t \in Threads, m \in Maps : Call(t, m)
DoSet   == \E t \in Threads, m \in Maps : SetOptions(t, m)
DoEnter == \E t \in Threads, m \in Maps : EnterWith(t, m)
DoExit  == \E t \in Threads, how \in {"normal", "exception"} : ExitWith(t, how)

Next == DoSpawn \/ DoDie \/ DoCall \/ DoSet \/ DoEnter \/ DoExit
Spec == Init /\ [][Next]_vars
View == <<alive, store, blocks>>

(* ---- what C20 states about the store, as invariants over `last` ---------- *)
TypeOK == /\ alive \subseteq Threads /\ Main \in alive
          /\ \A t \in Threads : store[t] \in [Opts -> Vals] /\ Len(blocks[t]) <= MaxNest[t]

(* an option passed to a call affects only that call                          *)
CallIsolation ==
  last.k = "call" =>
    /\ store = last.pre /\ blocks = last.preB
    /\ last.ok => \A o \in Opts : last.eff[o] = IF o \in DOMAIN last.m THEN last.m[o] ELSE last.pre[last.t][o]

(* unknown options or invalid values are rejected before anything is changed  *)
Rejected(m) == \E n \in DOMAIN m : n = Unknown \/ m[n] = Bad
RejectAtomic ==
  last.k \in {"call", "set", "enter"} =>
    /\ last.ok = ~Rejected(last.m)
    /\ ~last.ok => store = last.pre /\ blocks = last.preB

(* accepted set_options / options(): exactly the named options change, to the given values *)
SetExact ==
  (last.k \in {"set", "enter"} /\ last.ok) =>
    /\ \A o \in Opts : store[last.t][o] = IF o \in DOMAIN last.m THEN last.m[o] ELSE last.pre[last.t][o]
    /\ \A o \in DOMAIN last.m : last.ret[o] = last.pre[last.t][o]

(* options set through options() are restored exactly on exit, also when the block raises *)
Restore ==
  last.k = "exit" => \A o \in DOMAIN last.b.saved : store[last.t][o] = last.b.snap[o]
UnnamedKept ==
  last.k = "exit" => \A o \in Opts \ DOMAIN last.b.saved : store[last.t][o] = last.pre[last.t][o]
(* a block in which set_options was never called leaves the whole store as it found it (any nesting) *)
BlockTransparent ==
  (last.k = "exit" /\ ~last.b.dirty) => store[last.t] = last.b.snap
SavedIsEntry ==
  \A t \in Threads : \A i \in 1..Len(blocks[t]) :
     \A o \in DOMAIN blocks[t][i].saved : blocks[t][i].saved[o] = blocks[t][i].snap[o]
(* closing every open block gives each named option the value it had when its outermost naming block was entered *)
RECURSIVE Unwound(_, _)
Unwound(s, bs) == IF bs = <<>> THEN s ELSE Unwound(Eff(s, bs[Len(bs)].saved), SubSeq(bs, 1, Len(bs) - 1))
NestedRestore ==
  \A t \in alive : \A i \in 1..Len(blocks[t]) :
     (\A j \in 1..(i - 1) : DOMAIN blocks[t][j].saved \cap DOMAIN blocks[t][i].saved = {}) =>
        \A o \in DOMAIN blocks[t][i].saved : Unwound(store[t], blocks[t])[o] = blocks[t][i].snap[o]

(* nothing a thread does is visible in another thread                          *)
ThreadIsolation ==
  \A u \in Threads \ {last.t} : store[u] = last.pre[u] /\ blocks[u] = last.preB[u]
FreshThreadDefaults ==
  last.k = "spawn" => store[last.t] = Default /\ blocks[last.t] = <<>>

=============================================================================
