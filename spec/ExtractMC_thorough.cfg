SPECIFICATION Spec
CONSTANTS
  MaxLen = 5
  Shapes = {"list", "tuple", "bare", "stmts"}
INVARIANT TypeOK
INVARIANT LawAcceptsReference
INVARIANT LawRejectsLostComment
INVARIANT LawRejectsLostElement
INVARIANT LawRejectsDuplicate
INVARIANT WindowClass
INVARIANT PutBackRestores
PROPERTY CopyUndisturbed
PROPERTY CutThenPutBack
