SPECIFICATION Spec
CONSTANTS
  MaxNodes = 2
  MaxTmpl = 2
  Emit = 0
INVARIANTS InvStaticNN InvStaticN InvIdentity InvCounts InvFunctional InvFunctionalN InvStepLocal InvEmit
CHECK_DEADLOCK FALSE
