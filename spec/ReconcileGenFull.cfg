\* thorough tier, direction G: the complete set of histories (hist is part of the state: no VIEW) of a small configuration
SPECIFICATION Spec
CONSTANTS
  MaxObj = 24
  MaxPos = 18
  MaxMut = 2
  MaxRounds = 1
  MaxFst = 1
  InitShapes <- ShapesOne
CHECK_DEADLOCK FALSE
INVARIANT Emit
