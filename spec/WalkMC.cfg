SPECIFICATION Spec
CONSTANTS
  MaxN = 5
  GenMaxN = 4
INVARIANT IterTheorems
INVARIANT GenTheorem
INVARIANT GenPrefix
INVARIANT ThmSetOnce
INVARIANT ThmParentChild
INVARIANT ThmSiblingOrder
INVARIANT ThmNumbering
INVARIANT ThmPostIsRevPre
INVARIANT ThmBoth
INVARIANT ThmNextPrevInverse
INVARIANT ThmChildInverse
INVARIANT ThmStepLocal
INVARIANT ThmStepViaSeq
INVARIANT ThmPath
CHECK_DEADLOCK FALSE
