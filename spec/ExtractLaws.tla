----------------------------- MODULE ExtractLaws ----------------------------
(* C07 "copying never disturbs the tree; extraction is faithful and loses      *)
(* nothing" and C08 "putting back what was taken restores the tree; accessors  *)
(* read back writes", as clause sets over one recorded event of the real pfst. *)
(*                                                                            *)
(* State  s = [rootObj, liveS, liveP, srcOk, srcS, srcP, text]                 *)
(*   liveS/liveP : hash-consed ids (structure / structure+ctx+positions) of    *)
(*   the live AST; srcS/srcP : the same for CPython's parse of the source text *)
(* Piece  r = [isFst, isRoot, kind, text, liveS, liveP, alt, embS, embP, blank]*)
(*   alt : index of the first alternative of ExtractEmbed!EmbedOf(kind) under  *)
(*   which CPython parses the piece's source (0 = none), embS/embP : ids of    *)
(*   the node standing for the piece in that parse, positions shifted back     *)
(* Every operator is total.                                                   *)
EXTENDS NodeTab, ExtractEmbed, ExtractBags

KTab == Batch.ktab      \* token table: [t : token type, s : printable text or "?", m : canonical token id]
DMap == Batch.dmap      \* sid of a multi-line string value -> id of its text in TTab (0 otherwise)

Cl(name, ok) == [c |-> name, ok |-> ok]

Front(p) == SubSeq(p, 1, Len(p) - 1)
LastOf(p) == p[Len(p)]

(* ------------------------------------------------------------------------ *)
(* Structural equality modulo the documented re-indentation of docstrings.    *)
(* `docstr` option: "all" = every Expr statement holding a string, "strict" =  *)
(* only the first statement of a module / def / class, "none" = nothing.       *)

DocstrKinds == {"Module", "FunctionDef", "AsyncFunctionDef", "ClassDef"}
BlockFields == {"body", "orelse", "finalbody"}

StrValue(x) == \* sid of the string value of an `Expr(Constant(str))` statement, 0 otherwise
  IF Kind(x) # "Expr" THEN 0
  ELSE LET v == FieldSeq(x, "value") IN
       IF Len(v) # 1 \/ Kind(v[1]) # "Constant" THEN 0
       ELSE LET c == FieldSeq(v[1], "value") IN
            IF Len(c) = 1 /\ Kind(c[1]) = "#" /\ Val(c[1]) # "" /\ SubSeq(Val(c[1]), 1, 1) = "s" THEN c[1] ELSE 0

Exempt(pkind, field, j, child, m) ==
  /\ StrValue(child) # 0
  /\ \/ m.mode = "all" /\ field \in BlockFields
     \/ m.mode = "strict" /\ pkind \in DocstrKinds /\ field = "body" /\ j = 1

IsBlank(c) == c = 32 \/ c = 9
RECURSIVE LeadBlanks(_)
LeadBlanks(line) == IF line # <<>> /\ IsBlank(Head(line)) THEN 1 + LeadBlanks(Tail(line)) ELSE 0

(* Documented re-indentation of one continuation line, m = [mode, d, d2, rt, lib]: d = width of the block indent *)
(* of the extracted element in its tree, d2 = width of the block indent at the place it is put back to (differs  *)
(* from d only when the block had to be re-created, e.g. an emptied body).  Extraction (copy / cut / own_src)    *)
(* removes min(d, leading blanks) characters; putting the piece back (rt) adds d2 again.  Nothing but the        *)
(* leading blanks may differ, and only in one of these ways.  lib = TRUE drops the second condition (used only   *)
(* to *classify* a failure as "docstring indentation only").                                                     *)
RECURSIVE SkipBlanks(_)
SkipBlanks(line) == IF line # <<>> /\ IsBlank(Head(line)) THEN SkipBlanks(Tail(line)) ELSE line
Min2(a, b) == IF a < b THEN a ELSE b
Max2(a, b) == IF a > b THEN a ELSE b
ReindentOf(orig, new, m) ==
  LET lo == LeadBlanks(orig)  ln == LeadBlanks(new) IN
  /\ SkipBlanks(orig) = SkipBlanks(new)
  /\ \/ ln = lo
     \/ ln = lo - Min2(m.d, lo)
     \/ m.rt /\ ln = lo - Min2(m.d, lo) + m.d2
     \/ m.lib

DocLines(v) == IF v \in 1..Len(DMap) /\ DMap[v] \in 1..Len(TTab) THEN TTab[DMap[v]] ELSE <<>>

StrEqModIndent(vx, vy, m) ==
  \/ vx = vy
  \/ LET lx == DocLines(vx)  ly == DocLines(vy) IN
     /\ lx # <<>> /\ Len(lx) = Len(ly)
     /\ lx[1] = ly[1]
     /\ \A i \in 2..Len(lx) : ReindentOf(lx[i], ly[i], m)

DocEq(x, y, m) == \* two Expr(Constant(str)) statements, equal up to re-indentation of the string
  /\ StrValue(x) # 0 /\ StrValue(y) # 0
  /\ FieldSeq(FieldSeq(x, "value")[1], "kind") = FieldSeq(FieldSeq(y, "value")[1], "kind")
  /\ StrEqModIndent(StrValue(x), StrValue(y), m)

RECURSIVE EqMod(_, _, _)
EqMod(x, y, m) ==
  IF x = y THEN TRUE
  ELSE IF x = 0 \/ y = 0 \/ m.mode = "none" THEN FALSE
  ELSE /\ Kind(x) = Kind(y) /\ Val(x) = Val(y) /\ Len(Fields(x)) = Len(Fields(y))
       /\ \A i \in 1..Len(Fields(x)) :
            LET fx == Fields(x)[i]  fy == Fields(y)[i] IN
            /\ fx.n = fy.n /\ Len(fx.c) = Len(fy.c)
            /\ \A j \in 1..Len(fx.c) :
                 IF Exempt(Kind(x), fx.n, j, fx.c[j], m) THEN DocEq(fx.c[j], fy.c[j], m)
                 ELSE EqMod(fx.c[j], fy.c[j], m)

DM(e, rt) == [mode |-> e.opts.docstr, d |-> e.indent, d2 |-> e.indent, rt |-> rt, lib |-> FALSE]
RT(e, lib) == [mode |-> "all", d |-> e.indent, d2 |-> e.indent2, rt |-> TRUE, lib |-> lib]

(* element x found at position j of `field` of a node of kind pkind, compared with its extracted counterpart y *)
EqElem(pkind, field, j, x, y, m) ==
  IF x # y /\ Exempt(pkind, IF field = "_body" THEN "body" ELSE field, j, x, m) THEN DocEq(x, y, m) ELSE EqMod(x, y, m)

(* the node at `path` of tree t compared with y: the node may itself be a docstring statement, or the string       *)
(* constant of one (its continuation lines are then re-indented like the statement's)                             *)
ConstEq(x, y, m) == /\ Kind(x) = "Constant" /\ Kind(y) = "Constant" /\ FieldSeq(x, "kind") = FieldSeq(y, "kind")
                 /\ Len(FieldSeq(x, "value")) = 1 /\ Len(FieldSeq(y, "value")) = 1
                 /\ StrEqModIndent(FieldSeq(x, "value")[1], FieldSeq(y, "value")[1], m)
EqAt(t, path, y, m) ==
  LET x == NodeAt(t, path) IN
  IF x = y \/ path = <<>> THEN EqMod(x, y, m)
  ELSE LET p  == LastOf(path)
           pk == Kind(NodeAt(t, Front(path)))
       IN IF Exempt(pk, p.n, p.i, x, m) THEN DocEq(x, y, m)
          ELSE IF pk = "Expr" /\ p.n = "value" /\ Len(path) >= 2
                  /\ Exempt(Kind(NodeAt(t, Front(Front(path)))), LastOf(Front(path)).n, LastOf(Front(path)).i,
                            NodeAt(t, Front(path)), m)
               THEN ConstEq(x, y, m)
          ELSE EqMod(x, y, m)

(* ------------------------------------------------------------------------ *)
(* Element sequences of list-like fields (elements are tuples of sids).       *)

Opt1(c) == IF c = <<>> \/ c = <<0>> THEN <<>> ELSE c

AllArgs(x) == \* arguments._all : <<category, arg, default>> in syntax order
  LET po == FieldSeq(x, "posonlyargs")  ar == FieldSeq(x, "args")  va == Opt1(FieldSeq(x, "vararg"))
      ko == FieldSeq(x, "kwonlyargs")   kd == FieldSeq(x, "kw_defaults")  kw == Opt1(FieldSeq(x, "kwarg"))
      df == FieldSeq(x, "defaults")     pa == po \o ar
      DefOf(i) == IF i > Len(pa) - Len(df) /\ i - (Len(pa) - Len(df)) \in 1..Len(df) THEN df[i - (Len(pa) - Len(df))] ELSE 0
  IN [i \in 1..Len(pa) |-> <<IF i <= Len(po) THEN 1 ELSE 2, pa[i], DefOf(i)>>]
     \o [i \in 1..Len(va) |-> <<3, va[i], 0>>]
     \o [i \in 1..Len(ko) |-> <<4, ko[i], IF i \in 1..Len(kd) THEN kd[i] ELSE 0>>]
     \o [i \in 1..Len(kw) |-> <<5, kw[i], 0>>]

AttrLikes(x) == Wrap1(FieldSeq(x, "patterns")) \o Zip2(FieldSeq(x, "kwd_attrs"), FieldSeq(x, "kwd_patterns"))

(* all elements of <<field>> of the node at `path` of state s *)
OrigElems(s, path, field) ==
  LET x == NodeAt(s.liveS, path) IN
  CASE field = "_args"  -> PVMerged(PNodeAt(s.liveP, path), "args", "keywords")
    [] field = "_bases" -> PVMerged(PNodeAt(s.liveP, path), "bases", "keywords")
    [] field = "_all" /\ Kind(x) = "arguments" -> AllArgs(x)
    [] field = "_attrs" -> AttrLikes(x)
    [] OTHER -> VFieldSeq(x, field)

NameId(n) == IF Kind(n) = "Name" /\ Len(FieldSeq(n, "id")) = 1 THEN FieldSeq(n, "id")[1] ELSE 0

(* elements held by an extracted slice container r, as the same kind of tuples *)
ResElems(r, pkind, field) ==
  LET k == Kind(r) IN
  CASE k \in {"List", "Tuple", "Set"} /\ pkind \in {"Global", "Nonlocal"} ->
         LET el == FieldSeq(r, "elts") IN [i \in 1..Len(el) |-> <<NameId(el[i])>>]
    [] k \in {"List", "Tuple", "Set"} -> Wrap1(FieldSeq(r, "elts"))
    [] k \in {"Dict", "MatchMapping", "Compare"} -> VFieldSeq(r, "_all")
    [] k = "BoolOp" -> Wrap1(FieldSeq(r, "values"))
    [] k \in {"MatchOr", "MatchSequence"} -> Wrap1(FieldSeq(r, "patterns"))
    [] k = "Module" -> Wrap1(FieldSeq(r, "body"))
    [] k = "arguments" -> AllArgs(r)
    [] k = "_pattern_attrlikes" -> AttrLikes(r)
    [] k \in Specials -> Wrap1(FieldSeq(r, SpecialField(k)))
    [] OTHER -> <<>>

(* the container a slice of <<kind, field>> comes back in (documentation d06_slices) *)
SliceKind(pkind, field) ==
  CASE field \in {"body", "orelse", "finalbody", "_body"} -> "Module"
    [] field = "handlers" -> "_ExceptHandlers"
    [] field = "cases" -> "_match_cases"
    [] field = "targets" /\ pkind = "Assign" -> "_Assign_targets"
    [] field = "targets" /\ pkind = "Delete" -> "Tuple"
    [] field = "decorator_list" -> "_decorator_list"
    [] field \in {"args", "bases"} /\ pkind \in {"Call", "ClassDef"} -> "Tuple"
    [] field \in {"keywords", "_args", "_bases"} -> "_arglikes"
    [] field = "generators" -> "_comprehensions"
    [] field = "ifs" -> "_comprehension_ifs"
    [] field = "names" /\ pkind \in {"Import", "ImportFrom"} -> "_aliases"
    [] field = "names" /\ pkind \in {"Global", "Nonlocal"} -> "Tuple"
    [] field = "items" -> "_withitems"
    [] field = "type_params" -> "_type_params"
    [] field = "elts" -> pkind
    [] field = "_all" -> pkind
    [] field = "values" /\ pkind = "BoolOp" -> "BoolOp"
    [] field = "patterns" /\ pkind = "MatchClass" -> "MatchSequence"
    [] field = "patterns" -> pkind
    [] field = "_attrs" -> "_pattern_attrlikes"
    [] OTHER -> "?"

(* grammar's minimum length of a stand-alone container (named deviation InvalidByDesign: with norm_get off pfst  *)
(* returns shorter ones, which are documented as invalid; with norm_get on they are normalised or refused)       *)
MinStandalone(k) == CASE k \in {"BoolOp", "Compare", "MatchOr"} -> 2 [] k = "Set" -> 1 [] OTHER -> 0

(* ------------------------------------------------------------------------ *)
(* C07: Copy / Get / GetSlice                                                  *)

Undisturbed(s, e) ==
  { Cl("Undisturbed.text", e.post.text = s.text /\ e.post.srcOk = s.srcOk /\ e.post.srcP = s.srcP),
    Cl("Undisturbed.tree", e.post.liveP = s.liveP /\ e.post.liveS = s.liveS),
    Cl("Undisturbed.root", e.rootOk /\ e.post.rootObj = s.rootObj) }

Sub(s, e) == LET all == OrigElems(s, e.path, e.field)
                 lo  == VLo(NodeAt(s.liveS, e.path), e.field)
             IN SubSeq(all, lo + e.start + 1, lo + e.stop)
NSub(e) == e.stop - e.start

ParKind(s, e) == IF e.slice THEN Kind(NodeAt(s.liveS, e.path)) ELSE Kind(NodeAt(s.liveS, Front(e.path)))

(* documented normalisation of the *returned* value (norm_get): a one-element BoolOp / Compare / MatchOr slice   *)
(* comes back as that element, an empty Set slice as `{*()}` or `set()`                                          *)
NormUnwrapped(s, e) == e.slice /\ e.opts.normGet /\ NSub(e) = 1 /\ ParKind(s, e) \in {"BoolOp", "Compare", "MatchOr"}
NormEmptySet(s, e)  == e.slice /\ e.opts.normGet /\ NSub(e) = 0 /\ ParKind(s, e) = "Set"
BelowMin(s, e)      == e.slice /\ ~e.opts.normGet /\ NSub(e) < MinStandalone(SliceKind(ParKind(s, e), e.field))

ElemsEq(s, e, r) ==
  LET sub == Sub(s, e)
      got == ResElems(r, ParKind(s, e), e.field)
      lo  == VLo(NodeAt(s.liveS, e.path), e.field)
  IN /\ Len(got) = Len(sub)
     /\ \A i \in 1..Len(sub) :
          /\ Len(got[i]) = Len(sub[i])
          /\ \A c \in 1..Len(sub[i]) :
               IF Len(sub[i]) = 3 /\ c = 1 THEN sub[i][c] = got[i][c]      \* category of an argument
               ELSE EqElem(ParKind(s, e), e.field, lo + e.start + i, sub[i][c], got[i][c], DM(e, FALSE))

OpsEq(s, e, r) == \* the connectives of a BoolOp / Compare slice are the original ones
  LET x == NodeAt(s.liveS, e.path) IN
  CASE Kind(x) = "BoolOp"  -> FieldSeq(r, "op") = FieldSeq(x, "op")
    [] Kind(x) = "Compare" -> FieldSeq(r, "ops") = SubSeq(FieldSeq(x, "ops"), e.start + 1, e.stop - 1)
    [] OTHER -> TRUE

FaithfulSlice(s, e, r) ==
  IF NormUnwrapped(s, e) THEN Sub(s, e) # <<>> /\ EqMod(Sub(s, e)[1][1], r.liveS, DM(e, FALSE))
  ELSE IF NormEmptySet(s, e) THEN r.kind \in {"Set", "Call"}
  ELSE /\ r.kind = SliceKind(ParKind(s, e), e.field)
       /\ ElemsEq(s, e, r.liveS)
       /\ OpsEq(s, e, r.liveS)

FaithfulOne(s, e, r) == EqAt(s.liveS, e.path, r.liveS, DM(e, FALSE))

Faithful(s, e, r) == IF e.slice THEN FaithfulSlice(s, e, r) ELSE FaithfulOne(s, e, r)

(* the piece's own tree is what CPython reads from the piece's own source *)
PieceSync(r) ==
  IF r.kind \in Specials
  THEN LET f == SpecialField(r.kind) IN
       CASE r.kind = "_arglikes" ->
              PFieldSeq(r.liveP, f) = MergeByPos(PFieldSeq(r.embP, "args"), PFieldSeq(r.embP, "keywords"))
         [] r.kind = "_pattern_attrlikes" ->
              /\ PFieldSeq(r.liveP, "patterns") = PFieldSeq(r.embP, "patterns")
              /\ PFieldSeq(r.liveP, "kwd_attrs") = PFieldSeq(r.embP, "kwd_attrs")
              /\ PFieldSeq(r.liveP, "kwd_patterns") = PFieldSeq(r.embP, "kwd_patterns")
         [] OTHER -> PFieldSeq(r.liveP, f) = PFieldSeq(r.embP, f)
  ELSE r.liveP = r.embP

(* domain of "parses on its own": parenthesisation not disabled (`pars=False` is documented as "can result in     *)
(* invalid trees"), and the piece is not shorter than its kind allows (InvalidByDesign)                           *)
(* `pars_arglike=False` likewise: "unparenthesized arglike-only expressions are invalid everywhere except in       *)
(* Call.args, ClassDef.bases or an unparenthesized Subscript.slice Tuple" (options documentation)                 *)
ParseDomain(s, e) == e.opts.pars # "False" /\ e.opts.parsArglike /\ ~BelowMin(s, e)

(* an empty special container has nothing to parse: its source must hold no code                                  *)
EmptySpecial(r) == r.kind \in Specials /\ ResElems(r.liveS, "", "") = <<>>

(* kinds with a native stand-alone syntax must parse without the help of an enclosing bracket; a root walrus may  *)
(* stay unparenthesised (pars_walrus), a Starred / Slice / arglike tuple only exists inside its container         *)
HasSliceOrStar(x) == \E i \in 1..Len(FieldSeq(x, "elts")) : Kind(FieldSeq(x, "elts")[i]) \in {"Slice", "Starred"}
MustBeBare(r, slice) ==
  \/ ~slice /\ r.kind \in (Exprs \ {"NamedExpr", "Starred", "Slice", "Tuple", "Yield", "YieldFrom"})
  \/ ~slice /\ r.kind = "Tuple" /\ ~HasSliceOrStar(r.liveS)
  \/ r.kind \in StmtLike \cup {"Module"}

ParsesAlone(r, slice) ==
  IF EmptySpecial(r) THEN r.blank
  ELSE /\ r.alt \in 1..Len(EmbedOf(r.kind))
       /\ MustBeBare(r, slice) => EmbedOf(r.kind)[r.alt].bare

PieceClauses(s, e, r, pfx) ==
  { Cl(pfx \o "SelfContained.root", r.isFst /\ r.isRoot),
    Cl(pfx \o "Faithful.struct", Faithful(s, e, r)) }
  \cup (IF ParseDomain(s, e)
        THEN { Cl(pfx \o "SelfContained.parses", ParsesAlone(r, e.slice)) }
             \cup (IF ~EmptySpecial(r) /\ r.alt # 0 THEN {Cl(pfx \o "SelfContained.sync", PieceSync(r))} ELSE {})
        ELSE {})

ExtractClauses(s, e) ==
  Undisturbed(s, e) \cup (IF e.outcome = "ok" THEN PieceClauses(s, e, e.res, "") ELSE {})

(* ------------------------------------------------------------------------ *)
(* C07: Cut = Copy + Delete, and conservation of tokens                        *)

(* tokens a move may add or drop by itself *)
LayoutTypes == {"NL", "NEWLINE", "INDENT", "DEDENT", "ENDMARKER"}
BaseMoveTokens == {",", "(", ")", "[", "]", "{", "}", "=", "|", "if", "elif", "else", ":", ";"}
(* separators / introducers specific to the slot the piece is taken from (what the grammar writes between or in    *)
(* front of the elements of that field and that has no meaning without them)                                      *)
SlotTokens(pkind, field) ==
  CASE pkind = "BoolOp" -> {"and", "or"}
    [] pkind = "MatchAs" /\ field = "pattern" -> {"as"}
    [] pkind = "Compare" -> {"<", ">", "==", ">=", "<=", "!=", "in", "not", "is"}
    [] pkind = "arguments" -> {"/", "*", "**"}
    [] pkind = "Dict" /\ field = "keys" -> {"**"}       \* an entry without key is written `**value`
    [] pkind = "Set" -> {"*"}                            \* documented normalisation of an emptied Set: `{*()}`
    [] field = "finalbody" -> {"finally"}
    [] field = "returns" -> {"->"}
    [] field \in {"optional_vars", "asname"} \/ (pkind = "ExceptHandler" /\ field \in {"name", "type"}) -> {"as"}
    [] field = "cause" -> {"from"}
    [] field = "decorator_list" -> {"@"}
    [] field = "vararg" -> {"*"}
    [] field \in {"kwarg", "rest"} -> {"**"}
    [] OTHER -> {}

Tok(i) == IF i \in 1..Len(KTab) THEN KTab[i] ELSE [t |-> "?", s |-> "?", m |-> 0]
Movable(i, pkind, field) ==
  \/ Tok(i).t \in LayoutTypes
  \/ Tok(i).t # "COMMENT" /\ Tok(i).t # "STRING" /\ Tok(i).t # "NUMBER"
       /\ Tok(i).s \in BaseMoveTokens \cup SlotTokens(pkind, field)

(* init.bagIds : distinct canonical token ids of the original, init.bagCnt : their counts; an event's remBag and   *)
(* pieceBag give counts aligned with bagIds (v) and <<id, count>> pairs for tokens absent from the original (x)    *)
Base(o) == [ids |-> o.bagIds, cnt |-> o.bagCnt]
AlignedOk(o, e) == e.remBag.ok /\ e.pieceBag.ok /\ Aligned(Base(o), e.remBag, e.pieceBag)

IsComment(i) == Tok(i).t = "COMMENT"
ConserveSig(o, e, pkind, field) ==
  ConservedWhere(Base(o), e.remBag, e.pieceBag, LAMBDA i : ~IsComment(i) /\ ~Movable(i, pkind, field))
LostComments(o, e)    == LostWhere(Base(o), e.remBag, e.pieceBag, IsComment)
ConserveComment(o, e) == ConservedWhere(Base(o), e.remBag, e.pieceBag, IsComment)
Lost(o, e, i)         == LostAt(Base(o), e.remBag, e.pieceBag, i)

(* named action DeleteDependent (DESIGN 4-C03): removing one optional field forces the grammar to drop another *)
DependentCut(pkind, field) == (pkind = "Raise" /\ field = "exc") \/ (pkind = "ExceptHandler" /\ field = "type")

CutField(e) == IF e.slice THEN e.field ELSE LastOf(e.path).n

CutClauses(s, o, e) ==
  { Cl("Undisturbed.root", e.rootOk /\ e.post.rootObj = s.rootObj) } \cup
  (IF e.outcome = "ok" /\ e.delOutcome = "ok"
   THEN { Cl("Cut.pieceIsCopy", e.res.text = e.copy.text /\ e.res.liveP = e.copy.liveP /\ e.res.kind = e.copy.kind),
          (* same text and same structure; same positions wherever the remainder is valid Python (an emptied   *)
          (* field left invalid by design has no positions a re-parse could confirm)                           *)
          Cl("Cut.remainderIsDelete", /\ e.post.text = e.delPost.text /\ e.post.liveS = e.delPost.liveS
                                      /\ (e.post.srcOk => e.post.liveP = e.delPost.liveP)) }
        \cup (IF AlignedOk(o, e) /\ ~DependentCut(ParKind(s, e), CutField(e))
              THEN { Cl("Conserve.tokens", ConserveSig(o, e, ParKind(s, e), CutField(e))),
                     Cl("Conserve.comment", ConserveComment(o, e)) }
              ELSE {})
   ELSE {})
  \cup (IF e.outcome # e.delOutcome /\ ~e.opts.normGet THEN {Cl("Cut.sameOutcome", FALSE)} ELSE {})

(* ------------------------------------------------------------------------ *)
(* C08.  "Structurally equal to the original" is read, as in C07, up to the    *)
(* documented re-indentation of docstrings (ReindentOf with rt = TRUE): a      *)
(* continuation line of a string in Expr-statement position is unchanged,      *)
(* dedented by the block indent, or dedented and indented again.               *)

Sync(t) == t.srcOk /\ t.liveP = t.srcP

(* Domain of CutPutBack.  Excluded, each for a documented reason:                                                  *)
(*  DependentCut     - the grammar drops a second field with the cut one, the piece cannot restore it              *)
(*  NeedsExtraOp     - re-inserting operands into a Compare needs the `op` option naming the operator the cut     *)
(*                     dropped (d06 "BoolOp and Compare slices"); the piece alone does not determine it           *)
(*  Interleaved      - Call.args / keywords / ClassDef.bases when keywords and positionals interleave: the real   *)
(*                     fields refuse puts there and point to the virtual field (ordering rules, d07)              *)
(*  DocstrShift      - `_body` counts from after the docstring; if the cut makes a string statement the first     *)
(*                     statement (or removes it) the same index is no longer the same place                       *)
NeedsExtraOp(s, e) == ParKind(s, e) = "Compare"
Interleaved(s, e) ==
  LET par == IF e.slice THEN e.path ELSE Front(e.path)
      y == PNodeAt(s.liveP, par)
      a == PFieldSeq(y, IF PKind(y) = "Call" THEN "args" ELSE "bases")
      k == PFieldSeq(y, "keywords")
  IN /\ PKind(y) \in {"Call", "ClassDef"} /\ CutField(e) \in {"args", "bases", "keywords"}
     /\ \E i \in 1..Len(a), j \in 1..Len(k) : PosLess(KwPos(k[j]), PPos(a[i]))
DocstrShift(s, e) ==
  /\ e.slice /\ e.field = "_body"
  /\ VLo(NodeAt(e.mid.liveS, e.path), "_body") # VLo(NodeAt(s.liveS, e.path), "_body")

RoundTripDomain(s, e) ==
  /\ e.cutOutcome = "ok" /\ ~DependentCut(ParKind(s, e), CutField(e))
  /\ ~NeedsExtraOp(s, e) /\ ~Interleaved(s, e) /\ ~DocstrShift(s, e)

RoundTripClauses(s, e) ==
  IF ~RoundTripDomain(s, e) THEN {}
  ELSE { Cl("RoundTrip.putAccepted", e.outcome = "ok"),
         Cl("RoundTrip.root", e.rootOk /\ e.post.rootObj = s.rootObj) }
       \cup (IF e.outcome = "ok"
             THEN { Cl("RoundTrip.struct", EqMod(s.liveS, e.post.liveS, RT(e, FALSE))), Cl("RoundTrip.sync", Sync(e.post)) }
             ELSE {})

(* named deviation: the literal text of a self-documenting replacement field (`{x+y=}`) IS the source text of its *)
(* expression; a pure AST carries no formatting, so putting one there re-writes that text (`x + y=`) and the     *)
(* Constant in front of the field with it.  Structural equality is then not owed - ReplaceBy.sync (the tree is   *)
(* what the new source denotes, literal included) is.                                                             *)
DebugTextFollowsSource(e) == e.debugField /\ e.op \in {"ast", "reparse"}

ReplaceClauses(s, e) ==
  { Cl("ReplaceBy.accepted", e.outcome = "ok"), Cl("ReplaceBy.root", e.rootOk /\ e.post.rootObj = s.rootObj) }
  \cup (IF e.outcome = "ok"
        THEN (IF DebugTextFollowsSource(e) THEN {}
              ELSE {Cl("ReplaceBy.struct", EqMod(s.liveS, e.post.liveS, RT(e, FALSE)))})
             \cup {Cl("ReplaceBy.sync", Sync(s) => Sync(e.post))}
        ELSE { Cl("ReplaceBy.atomic", e.post.liveP = s.liveP /\ e.post.text = s.text) })

OwnSrcClauses(s, e) ==
  { Cl("OwnSrc.parses", e.own.alt \in 1..Len(EmbedOf(e.ekind))),
    Cl("OwnSrc.struct", e.own.alt # 0 /\ EqAt(s.liveS, e.path, e.own.embS, DM(e, FALSE))) }
  \cup Undisturbed(s, e)

(* texts travel as TTab ids: sequences of lines, each a sequence of code points *)
TextOf(i) == IF i \in 1..Len(TTab) THEN TTab[i] ELSE <<>>

(* Python's str.isspace() code points (for the comment accessor's "stripped of whitespace") *)
PyWhite == (9..13) \cup (28..32) \cup {133, 160, 5760} \cup (8192..8202) \cup {8232, 8233, 8239, 8287, 12288}

DocstrTextOK(t) == LET ls == TextOf(t) IN ls # <<>> /\ (ls[1] = <<>> \/ ls[1][1] \notin PyWhite)

(* what the documented dedent does to one line of the stored value: drop min(indent, leading blanks) characters *)
DedentLine(line, n) == SubSeq(line, Min2(n, LeadBlanks(line)) + 1, Len(line))
DedentText(ls, n) == [i \in 1..Len(ls) |-> DedentLine(ls[i], n)]

(* the put changes the docstring statement and nothing else *)
DocstrOnly(s, e) ==
  LET x == NodeAt(s.liveS, e.path)  y == NodeAt(e.post.liveS, e.path)
      bx == FieldSeq(x, "body")     by == FieldSeq(y, "body")
  IN /\ HasDocstr(y)
     /\ SubSeq(by, 2, Len(by)) = SubSeq(bx, IF HasDocstr(x) THEN 2 ELSE 1, Len(bx))
     /\ OnlyChangedAt(s.liveS, e.post.liveS, e.path, {"body"})

DocstrClauses(s, e) ==
  IF ~DocstrTextOK(e.text) THEN {}
  ELSE { Cl("Docstr.accepted", e.outcome = "ok") }
       \cup (IF e.outcome = "ok"
             THEN { Cl("Docstr.readback", e.hasGot /\ TextOf(e.got) = TextOf(e.text)),
                    Cl("Docstr.sync", Sync(e.post)),
                    Cl("Docstr.denotes", e.hasDenot /\ DedentText(TextOf(e.denot), e.indent) = TextOf(e.text)),
                    Cl("Docstr.onlyDocstring", DocstrOnly(s, e)),
                    Cl("Docstr.root", e.rootOk /\ e.post.rootObj = s.rootObj) }
             ELSE {})

OneLine(t) == Len(TextOf(t)) = 1
CommentChars(t) == \A i \in 1..Len(TextOf(t)[1]) : TextOf(t)[1][i] \notin {0, 10, 13}
RECURSIVE SkipWhite(_)
SkipWhite(l) == IF l # <<>> /\ Head(l) \in PyWhite THEN SkipWhite(Tail(l)) ELSE l
CommentTextOK(t, full) ==
  /\ OneLine(t) /\ CommentChars(t)
  /\ LET l == TextOf(t)[1] IN
     IF full THEN SkipWhite(l) # <<>> /\ Head(SkipWhite(l)) = 35     \* optional whitespace, then '#'
     ELSE l = <<>> \/ (l[1] \notin PyWhite /\ l[Len(l)] \notin PyWhite)

CommentClauses(s, e) ==
  IF ~CommentTextOK(e.text, e.full) THEN {}
  ELSE { Cl("Comment.accepted", e.outcome = "ok") }
       \cup (IF e.outcome = "ok"
             THEN { Cl("Comment.readback", e.hasGot /\ TextOf(e.got) = TextOf(e.text)),
                    Cl("Comment.sync", Sync(e.post)),
                    Cl("Comment.onlyComment", e.post.liveS = s.liveS),
                    Cl("Comment.root", e.rootOk /\ e.post.rootObj = s.rootObj) }
             ELSE {})

(* ------------------------------------------------------------------------ *)
(* case classes (known findings are matched on <<clause, class>>)             *)

StmtLikeKind(k) == k \in StmtLike

(* the comment pfst documents as not travelling with a single non-statement element: exactly one comment lost,    *)
(* and it is the line comment that follows the element on its last line                                           *)
LostOnlyTrailing(o, e) == e.trailCmt # 0 /\ LostWithin(Base(o), e.remBag, e.pieceBag, IsComment, <<e.trailCmt>>)

(* every lost comment stood in the window of the removed region (between the last code token before it and the    *)
(* first code token after it, DESIGN 4-C04); e.winCmts = sorted canonical ids of the comments in that window       *)
LostInWindow(o, e) == LostWithin(Base(o), e.remBag, e.pieceBag, IsComment, e.winCmts)
(* ... narrower: every lost comment stood above the header of the emptied optional block or on the header's own   *)
(* line (e.hdrCmts, oracle fact) - the part of the window that goes with the header                               *)
LostWithHeader(o, e) == LostWithin(Base(o), e.remBag, e.pieceBag, IsComment, e.hdrCmts)

(* the cut removes every statement of an optional block, so the block's `else:` / `finally:` header goes too *)
EmptiesBlock(s, e) ==
  LET f == CutField(e)
      n == Len(FieldSeq(NodeAt(s.liveS, IF e.slice THEN e.path ELSE Front(e.path)), f))
  IN f \in {"orelse", "finalbody"} /\ (IF e.slice THEN e.start = 0 /\ e.stop = n /\ n > 0 ELSE n = 1)

CutClass(s, o, e) ==
  (IF e.slice THEN "slice" ELSE IF StmtLikeKind(e.ekind) THEN "single-statement-element" ELSE "single-expression-element")
  \o (IF ~AlignedOk(o, e) \/ LostComments(o, e) = {} THEN ""
      ELSE IF EmptiesBlock(s, e) /\ LostWithHeader(o, e) THEN "+header-comments"
      ELSE IF LostOnlyTrailing(o, e) THEN "+trailing-line-comment"
      ELSE IF LostInWindow(o, e) THEN "+window-comments" ELSE "")
  \o (IF EmptiesBlock(s, e) THEN "+emptied-block" ELSE "")
  \o "/" \o ParKind(s, e) \o "." \o CutField(e)

(* a structural difference after a round trip that is nothing but leading blanks of docstring continuation lines *)
IndentOnly(s, e) == IF EqMod(s.liveS, e.post.liveS, RT(e, TRUE)) THEN "+docstring-indent-only" ELSE ""

BaseClass(s, e) == e.call \o "/" \o e.op \o "/" \o ParKind(s, e) \o "." \o CutField(e)
                     \o (IF e.slice THEN "[:]" ELSE "<" \o e.ekind \o ">")
                     \o (IF e.opts.docstr # "all" THEN "{docstr=" \o e.opts.docstr \o "}" ELSE "")
=============================================================================
