SPECIFICATION Spec
CONSTANTS
  MaxNodes = 4
  MaxLines = 2
  MaxCols = 8
  AllowZero = TRUE
  AllowNoSep = TRUE
  GapAlpha <- MCGapAlpha
  RichAlpha <- MCRichAlpha
  InsAlpha <- MCInsAlpha
CHECK_DEADLOCK FALSE
INVARIANT OnText
INVARIANT LawBefore
INVARIANT LawAfter
INVARIANT LawContains
INVARIANT LawTotal
INVARIANT SelfContains
INVARIANT ChangedVisited
INVARIANT ZeroWidthLaw
