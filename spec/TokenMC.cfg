SPECIFICATION Spec
CONSTANTS
  NStmt = 2
  Patterns <- PatQuick
  TailPatterns <- TailQuick
  JoinOpts <- JoinAll
  EatOpts <- EatQuick
  LeadModes <- LeadAll
  TrailModes <- TrailAll
INVARIANTS Accept Reject AllClausesSeen
CHECK_DEADLOCK FALSE
