SPECIFICATION Spec
CONSTANTS
  MaxLen = 3
  MaxNew = 2
  MaxIdx = 5
  MaxFresh = 4
CONSTRAINT Constraint
INVARIANT Distinct
INVARIANT SliceIsPython
INVARIANT NegativeEquiv
INVARIANT OneIsSlice
INVARIANT IndexErrorLikeList
INVARIANT GetPutBack
INVARIANT EntryAlgebra
PROPERTY Conserve
