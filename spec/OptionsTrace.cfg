SPECIFICATION Spec
CONSTANTS
  DefaultF <- DefaultDef
  ValidVals <- ValsDef
  TIds <- TIdsDef
  NoNest <- NestDef
INVARIANT Report
CHECK_DEADLOCK FALSE
