SPECIFICATION Spec
CONSTANTS
  DefaultF <- DefaultDef
  ValidVals <- ValsDef
  TIds <- TIdsDef
  NoNest <- NestDef
  HeapF <- HeapDef
INVARIANT Report
CHECK_DEADLOCK FALSE
