------------------------------ MODULE ViewsSim -------------------------------
(* Behaviour generator (direction G): random walks of the Views.tla state     *)
(* machine (`tlc -simulate`), arguments drawn by TLC near the bounds of the    *)
(* view they are applied to.  Every behaviour is printed as one JSON line:     *)
(* the initial field and, per step, the action with its arguments and the      *)
(* model's post-state, for harness/views_replay.py to replay on real FSTViews. *)
EXTENDS ViewsMC, SequencesExt, Json

CONSTANT SimDepth
VARIABLE hist
svars == <<vars, hist>>

(* RandomElement must depend on the state, or TLC folds it into a constant    *)
Rnd(S) == RandomElement(IF Len(hist) >= 0 THEN S ELSE {})

Event == [pre |-> c, op |-> last'.op, v |-> last'.v, w |-> last'.w, a |-> last'.a, b |-> last'.b, new |-> last'.new,
          ok |-> last'.ok, exc |-> last'.exc, lo |-> last'.lo, hi |-> last'.hi, ret |-> last'.ret,
          c |-> c', views |-> [u \in 1..MaxViews |-> views'[u]], dirty |-> SetToSeq(dirty')]

SBn(n) == Near(n) \cup {NoneB}
IBn(n) == Near(n) \cup {EndB, IntB(0 - n - 1), IntB(0 - n - 2)}     \* more weight on "before the window"

(* one random argument tuple per (operation, view): the draw is bound by \E   *)
(* over a singleton so that the effect and `last` see the same values         *)
SThrough(v, op, A, B, K) ==
  \E a \in {Rnd(A)} : \E b \in {Rnd(B)} : \E k \in {Rnd(K)} : Room(k) /\ Through(v, op, a, b, New(k))

Step ==
  \/ \E v \in Live :
       LET n == VLen(v) IN
       \/ SThrough(v, "setslice", SBn(n), SBn(n), 0..MaxNew)
       \/ SThrough(v, "delslice", SBn(n), SBn(n), {0})
       \/ SThrough(v, "setidx", Near(n), {NoneB}, {1})
       \/ SThrough(v, "delidx", Near(n), {NoneB}, {0})
       \/ SThrough(v, "insert", IBn(n), {NoneB}, 1..MaxNew)
       \/ SThrough(v, "insert", {IntB(0 - n - 1), IntB(0 - n - 2), IntB(n + 1), EndB}, {NoneB}, 1..MaxNew)   \* out of the window
       \/ SThrough(v, "append", {NoneB}, {NoneB}, {1})
       \/ SThrough(v, "extend", {NoneB}, {NoneB}, 1..MaxNew)
       \/ SThrough(v, "prepend", {NoneB}, {NoneB}, {1})
       \/ SThrough(v, "prextend", {NoneB}, {NoneB}, 1..MaxNew)
       \/ SThrough(v, "replace", {NoneB}, {NoneB}, 1..MaxNew)
       \/ SThrough(v, "remove", {NoneB}, {NoneB}, {0})
       \/ SThrough(v, "cut", {NoneB}, {NoneB}, {0})
       \/ Use(v)
       \/ \E w \in {Rnd(1..MaxViews)} : \E a \in {Rnd(SBn(n))} : \E b \in {Rnd(SBn(n))} : MkSub(v, w, a, b)
       \/ \E w \in {Rnd(1..MaxViews \ {v})} : \E a \in {Rnd(SBn(n))} : \E b \in {Rnd(SBn(n))} : MkSub(v, w, a, b)
  \/ \E w \in {Rnd(1..MaxViews)} : MkFull(w)
  \/ \E a \in {Rnd(IBn(Len(c)))} : \E b \in {Rnd(IBn(Len(c)))} : \E k \in {Rnd(0..MaxNew)} : Room(k) /\ BasePut(a, b, New(k))

(* the walk ends with one closing step so that each behaviour is printed once *)
SimInit == Init /\ hist = <<>>
(* a behaviour starts by taking the whole-field view, the rest is random      *)
SimNext == \/ Len(hist) = 0 /\ MkFull(1) /\ hist' = Append(hist, Event)
           \/ Len(hist) > 0 /\ Len(hist) < SimDepth /\ Step /\ hist' = Append(hist, Event)
           \/ Len(hist) = SimDepth /\ hist' = Append(hist, [op |-> "end"]) /\ UNCHANGED vars
SimSpec == SimInit /\ [][SimNext]_svars

Emit == (Len(hist) = SimDepth + 1) =>
          PrintT(<<"BEH", ToJson([init |-> hist[1].pre, steps |-> SubSeq(hist, 1, SimDepth)])>>)
=============================================================================
