------------------------------- MODULE ObsTrace ------------------------------
(* Trace validation for C02 (lock-step observation histories).                *)
EXTENDS ObsLaws, TLC

VARIABLES tid, l, st, bad, seen
vars == <<tid, l, st, bad, seen>>

Steps(t) == Traces[t].steps

Init == /\ tid \in 1..Len(Traces) /\ l = 1 /\ st = Traces[tid].init /\ bad = {} /\ seen = {}

Next == /\ l <= Len(Steps(tid))
        /\ LET e == Steps(tid)[l]
               cs == ObsClauses(st, e)
           IN /\ bad' = bad \cup {<<l, r.c, ObsClass(st, e)>> : r \in {q \in cs : ~q.ok}}
              /\ seen' = seen \cup {r.c : r \in cs}
              /\ st' = e.post
        /\ l' = l + 1
        /\ UNCHANGED tid

Spec == Init /\ [][Next]_vars
Report == (l = Len(Steps(tid)) + 1) => PrintT(<<"VERDICT", Traces[tid].id, bad, seen>>)
=============================================================================
