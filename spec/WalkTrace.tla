------------------------------ MODULE WalkTrace ------------------------------
(* C14 - trace validation: the answers of the real pfst traversal API on a    *)
(* real program must be the ones Walk.tla defines on that program's tree.     *)
(*                                                                            *)
(* A trace is one program:                                                    *)
(*   n, kind[x], par[x], pf[x] = [f, i] (AST field / index, i = -1: no index), *)
(*   fkids[x] (children in AST *field* order), pos[x] (lineno, col_offset,     *)
(*   end_lineno, end_col_offset of CPython's own parse, <<>> if the class has  *)
(*   none), tok[x] (start of the operator token / of the zero-width text of    *)
(*   an empty `arguments`, from tokenize, else <<>>)   -- oracle facts --      *)
(*   items: what pfst answered (walk sequences, navigation answers, paths).    *)
(* The order "as the text appears" (T.kids) is computed HERE from pos/tok,     *)
(* never taken from pfst.                                                      *)
(* Verdicts are total: one VERDICT line per trace with the failed              *)
(* <<item, clause, class>> triples and the clause names evaluated.            *)
EXTENDS Walk, TLC, Json, IOUtils

Batch  == JsonDeserialize(IOEnv.TRACE_FILE)
Traces == Batch.traces

VARIABLES tid, l, D, bad, seen
vars == <<tid, l, D, bad, seen>>

Cl(name, klass, ok) == [c |-> name, k |-> klass, ok |-> ok]

(* ------------------------------------------------------- node classes ---- *)
CtxK   == {"Load", "Store", "Del"}
BoolK  == {"And", "Or"}
OperK  == {"Add", "Sub", "Mult", "MatMult", "Div", "Mod", "Pow", "LShift", "RShift", "BitOr", "BitXor", "BitAnd",
           "FloorDiv"}
UnaryK == {"Invert", "Not", "UAdd", "USub"}
CmpK   == {"Eq", "NotEq", "Lt", "LtE", "Gt", "GtE", "Is", "IsNot", "In", "NotIn"}
(* f-string machinery: CPython's own positions of the pieces of a JoinedStr   *)
(* overlap (debug `{x=}`), so the children of these two kinds are taken in    *)
(* field order and are outside the sibling-order clause (domain restriction)  *)
FStrK  == {"JoinedStr", "FormattedValue"}

(* ------------------------------------------------ where the text starts -- *)
Lt(a, b) == a[1] < b[1] \/ (a[1] = b[1] /\ a[2] < b[2])
MinPos(S) == CHOOSE a \in S : \A b \in S : ~Lt(b, a)

(* start of the text a node owns: its AST position; for an operator / empty   *)
(* arguments the token anchor; for the position-less containers               *)
(* (comprehension, arguments, withitem, match_case) the first text of their   *)
(* children; <<>> for nodes that own no text (ctx; and/or own several tokens) *)
RECURSIVE StartOf(_, _)
StartOf(tr, x) ==
  IF tr.kind[x] \in CtxK \cup BoolK THEN <<>>
  ELSE IF Len(tr.pos[x]) >= 2 THEN <<tr.pos[x][1], tr.pos[x][2]>>
  ELSE IF Len(tr.tok[x]) >= 2 THEN <<tr.tok[x][1], tr.tok[x][2]>>
  ELSE LET S == {StartOf(tr, tr.fkids[x][i]) : i \in 1..Len(tr.fkids[x])} \ {<<>>}
       IN IF S = {} THEN <<>> ELSE MinPos(S)

(* inverse index of a sequence of node ids: idx[x] = a position of x, 0 if absent *)
RECURSIVE IdxUpd(_, _, _, _)
IdxUpd(f, s, i, n) ==
  IF i > Len(s) THEN f
  ELSE IdxUpd(IF s[i] \in 1..n THEN [f EXCEPT ![s[i]] = i] ELSE f, s, i + 1, n)
IdxOf(s, n) == IdxUpd([x \in 1..n |-> 0], s, 1, n)

(* named convention TextlessPlacement: nodes without own text keep their AST  *)
(* field position class: the boolean operator first, ctx last                 *)
Rank(tr, st, x) == IF tr.kind[x] \in BoolK THEN 0 ELSE IF st[x] = <<>> THEN 2 ELSE 1

FieldPos(tr, x) == PosIn(tr.fkids[tr.par[x]], x)

Derive(tr) ==
  LET st == [x \in 1..tr.n |-> StartOf(tr, x)]
      before(a, b) == \/ Rank(tr, st, a) < Rank(tr, st, b)
                      \/ /\ Rank(tr, st, a) = Rank(tr, st, b)
                         /\ \/ (Rank(tr, st, a) = 1 /\ Lt(st[a], st[b]))
                            \/ /\ ~(Rank(tr, st, a) = 1 /\ Lt(st[b], st[a]))
                               /\ FieldPos(tr, a) < FieldPos(tr, b)
      kids == [x \in 1..tr.n |-> IF tr.kind[x] \in FStrK THEN tr.fkids[x] ELSE SortSeq(tr.fkids[x], before)]
      T == [n |-> tr.n, par |-> tr.par, kids |-> kids, lab |-> tr.pf, sp |-> SpOf(kids, tr.par)]
      pre  == PreD(T, 1, FALSE)
      preb == PreD(T, 1, TRUE)
  IN [T  |-> T,
      st |-> st,
      (* for the sequence form of step_fwd / step_back (WalkMC!ThmStepViaSeq) *)
      pre |-> pre, preb |-> preb, ipre |-> IdxOf(pre, tr.n), ipreb |-> IdxOf(preb, tr.n),
      size |-> [x \in 1..tr.n |-> Len(PreD(T, x, FALSE))],
      (* the six unfiltered orders from the root, computed once per program *)
      deep |-> [o \in {"enter", "leave", "both"} |-> [b \in BOOLEAN |-> Deep(T, 1, o, b)]]]

(* ---------------------------------------------------------- filters ------ *)
(* the documented meaning of the `all` argument                              *)
Pass(tr, flt, x) ==
  CASE flt.k = "T" -> TRUE
    [] flt.k = "F" -> /\ tr.kind[x] \notin CtxK \cup BoolK \cup OperK \cup UnaryK \cup CmpK
                      /\ ~(tr.kind[x] = "arguments" /\ tr.fkids[x] = <<>>)
    [] flt.k = "L" -> tr.kind[x] \notin CtxK \cup BoolK
    [] OTHER       -> tr.kind[x] \in SeqRange(flt.s)      \* "S" type / container of types, "C" callable
FSet(tr, flt) == {x \in 1..tr.n : Pass(tr, flt, x)}

(* ------------------------------------------------------------ helpers ---- *)
Ok(tr, s) == \A i \in 1..Len(s) : s[i] \in 0..tr.n            \* only ids of the tree (0 = None)

B(b)  == IF b THEN "1" ELSE "0"
WalkClass(tr, it, F) ==
  "walk/" \o it.on \o "/" \o (IF it.back THEN "back" ELSE "fwd") \o "/" \o (IF it.rec THEN "rec" ELSE "norec") \o "/"
  \o (IF it.self THEN "self" ELSE "noself") \o "/" \o it.flt.k \o "/" \o (IF it.x = 1 THEN "root" ELSE "inner") \o "/"
  \o (IF it.x \in F THEN "selfpass" ELSE "selffail")

(* --------------------------------------------------------- walk items ---- *)
ObsEvents(it) ==
  [i \in 1..Len(it.seq) |-> Ev(it.seq[i], IF it.on = "both" THEN it.lv[i] ELSE it.on = "leave")]

(* the property's own sentences, evaluated directly on an unfiltered full walk *)
DirectClauses(tr, it, k) ==
  LET T    == D.T
      x    == it.x
      sub  == Desc(T, x)
      obs  == ObsEvents(it)
      ent  == NodesOf(SelectSeq(obs, LAMBDA e : ~e.lv))
      lvs  == NodesOf(SelectSeq(obs, LAMBDA e : e.lv))
      ie   == IdxOf(ent, tr.n)
      il   == IdxOf(lvs, tr.n)
      io   == IdxOf([i \in 1..Len(obs) |-> IF obs[i].lv THEN 0 ELSE obs[i].n], tr.n)     \* position of the enter in obs
      jo   == IdxOf([i \in 1..Len(obs) |-> IF obs[i].lv THEN obs[i].n ELSE 0], tr.n)     \* position of the leave in obs
      once(s, idx) == Len(s) = Cardinality(sub) /\ \A y \in sub : idx[y] # 0
      owns(y) == D.st[y] # <<>> /\ tr.kind[y] \notin BoolK
      sibs(idx) == \A p \in sub : tr.kind[p] \notin FStrK =>
                     \A a, c \in SeqRange(tr.fkids[p]) :
                       (owns(a) /\ owns(c) /\ Lt(D.st[a], D.st[c])) =>
                         (IF it.back THEN idx[a] > idx[c] ELSE idx[a] < idx[c])
  IN CASE it.on = "enter" ->
            { Cl("Walk.SetOnce", k, once(ent, ie) /\ lvs = <<>>),
              Cl("Walk.ParentChild", k, \A y \in sub \ {x} : ie[tr.par[y]] # 0 /\ ie[tr.par[y]] < ie[y]),
              Cl("Walk.SiblingOrder", k, sibs(ie)) }
       [] it.on = "leave" ->
            { Cl("Walk.SetOnce", k, once(lvs, il) /\ ent = <<>>),
              Cl("Walk.ParentChild", k, \A y \in sub \ {x} : il[y] # 0 /\ il[tr.par[y]] > il[y]),
              Cl("Walk.SiblingOrder", k, sibs(il)) }
       [] OTHER ->
            { Cl("Walk.SetOnce", k, once(ent, ie) /\ once(lvs, il)),
              Cl("Walk.Bracket", k, /\ \A y \in sub : io[y] # 0 /\ io[y] < jo[y]
                                    /\ \A y \in sub \ {x} : io[tr.par[y]] < io[y] /\ jo[y] < jo[tr.par[y]]),
              Cl("Walk.SiblingOrder", k, sibs(ie) /\ sibs(il)) }

WalkClauses(tr, it) ==
  LET T    == D.T
      F    == FSet(tr, it.flt)
      k    == WalkClass(tr, it, F)
      obs  == ObsEvents(it)
      want == IF it.x = 1 /\ it.rec THEN WalkSel(D.deep[it.on][it.back], 1, it.self, F)
              ELSE WalkSeq(T, it.x, it.on, it.back, it.rec, it.self, F)
      notself(s) == SelectSeq(s, LAMBDA e : e.n # it.x)
      isself(s)  == SelectSeq(s, LAMBDA e : e.n = it.x)
  IN IF (it.on = "both" /\ Len(it.lv) # Len(it.seq)) \/ it.x \notin 1..tr.n
     THEN {Cl("Walk.NodesOfTree", k, FALSE)}
     ELSE { Cl("Walk.NodesOfTree", k, \A i \in 1..Len(it.seq) : it.seq[i] \in 1..tr.n),
            Cl("Walk.EqSpec.body", k, notself(obs) = notself(want)),
            (* the yields of the walk root itself: same events, the enter first and the leave last *)
            Cl("Walk.EqSpec.self", k, /\ isself(obs) = isself(want)
                                      /\ \A i \in 1..Len(obs) : obs[i].n = it.x =>
                                           IF obs[i].lv THEN i = Len(obs) ELSE i = 1) }
          \cup (IF it.full THEN DirectClauses(tr, it, k) ELSE {})

(* ---------------------------------------------------------- nav items ---- *)
NavClauses(tr, it) ==
  LET T  == D.T
      N  == tr.n
      F  == FSet(tr, it.flt)
      k  == "nav/" \o it.flt.k
      All == 1..N
      lens  == /\ \A nm \in {"next", "prev", "first", "last", "nc1", "pc1", "sf", "sfn", "sb", "sbn", "nchild", "pchild",
                             "cw", "cwb"} : Len(it[nm]) = N
               /\ \A i \in 1..Len(it.tops) : it.tops[i].x \in All
      okall == /\ \A nm \in {"w", "wb", "next", "prev", "first", "last", "nc1", "pc1", "sf", "sfn", "sb", "sbn"} : Ok(tr, it[nm])
               /\ \A nm \in {"nchild", "pchild", "cw", "cwb"} : \A x \in All : Ok(tr, it[nm][x])
               /\ \A i \in 1..Len(it.tops) : Ok(tr, it.tops[i].it) /\ Ok(tr, it.tops[i].itb)
                                              /\ Ok(tr, it.tops[i].wx) /\ Ok(tr, it.tops[i].wxb)
      at(f, y) == IF y \in All THEN f[y] ELSE -1          \* total lookup
      kidsIn(x, back) == WalkNodes(T, x, "enter", back, FALSE, FALSE, F)
      tailIf(s) == IF 1 \in F /\ Len(s) > 0 THEN Tail(s) ELSE s
  IN IF ~lens THEN {Cl("Nav.NodesOfTree", k, FALSE)}
     ELSE
     { Cl("Nav.NodesOfTree", k, okall),
       Cl("Nav.NextEqSpec", k, \A x \in All : it.next[x] = NextSib(T, x, F)),
       Cl("Nav.PrevEqSpec", k, \A x \in All : it.prev[x] = PrevSib(T, x, F)),
       (* next()/prev() mutually inverse, on the real answers *)
       Cl("Nav.NextPrevInverse", k, \A a \in F : /\ (it.next[a] # 0 => at(it.prev, it.next[a]) = a)
                                                 /\ (it.prev[a] # 0 => at(it.next, it.prev[a]) = a)),
       Cl("Nav.FirstLastEqSpec", k, \A x \in All : it.first[x] = FirstChild(T, x, F) /\ it.last[x] = LastChild(T, x, F)),
       (* next_child()/prev_child() iterated from None agree with walk(recurse=False, self_=False) (real vs real) *)
       Cl("Nav.ChildIterEqWalk", k, \A x \in All : it.nchild[x] = it.cw[x] /\ it.pchild[x] = it.cwb[x]),
       Cl("Nav.ChildIterEqSpec", k, \A x \in All : it.nchild[x] = kidsIn(x, FALSE) /\ it.pchild[x] = kidsIn(x, TRUE)),
       Cl("Nav.FirstLastAreEnds", k, \A x \in All :
            /\ it.first[x] = (IF it.nchild[x] = <<>> THEN 0 ELSE it.nchild[x][1])
            /\ it.last[x]  = (IF it.pchild[x] = <<>> THEN 0 ELSE it.pchild[x][1])),
       (* parent.next_child(x) is x.next() and they are mutually inverse (real vs real) *)
       Cl("Nav.ChildStepEqNext", k, \A x \in All \ {1} : it.nc1[x] = it.next[x] /\ it.pc1[x] = it.prev[x]),
       Cl("Nav.ChildInverse", k, \A a \in F \ {1} : /\ (it.nc1[a] # 0 => at(it.pc1, it.nc1[a]) = a)
                                                    /\ (it.pc1[a] # 0 => at(it.nc1, it.pc1[a]) = a)),
       (* StepFwd / StepBack of Walk.tla in their sequence form (equal by WalkMC!ThmStepViaSeq; linear time) *)
       Cl("Nav.StepEqSpec", k, LET nt == NextTab(D.pre, F)  ntb == NextTab(D.preb, F) IN \A x \in All :
                                              /\ it.sf[x]  = StepSeq(D.pre, D.ipre, nt, x, 0)
                                              /\ it.sfn[x] = StepSeq(D.pre, D.ipre, nt, x, D.size[x] - 1)
                                              /\ it.sb[x]  = StepSeq(D.preb, D.ipreb, ntb, x, 0)
                                              /\ it.sbn[x] = StepSeq(D.preb, D.ipreb, ntb, x, D.size[x] - 1)),
       (* repeated step_fwd()/step_back() reproduce the walk order (real vs real) *)
       Cl("Nav.StepIterIsWalk", k, /\ Iterate(it.sf, 1, N + 1) = tailIf(it.w)
                                   /\ Iterate(it.sb, 1, N + 1) = tailIf(it.wb)),
       Cl("Nav.WalkEqSpec", k, /\ it.w = WalkNodes(T, 1, "enter", FALSE, TRUE, TRUE, F)
                               /\ it.wb = WalkNodes(T, 1, "enter", TRUE, TRUE, TRUE, F)),
       (* step_fwd(top=x) iterated from x is x.walk(self_=False) *)
       Cl("Nav.StepTopIterIsWalk", k, \A i \in 1..Len(it.tops) : LET t == it.tops[i] IN
            /\ t.it = t.wx /\ t.itb = t.wxb
            /\ t.it = WalkNodes(T, t.x, "enter", FALSE, TRUE, FALSE, F)
            /\ t.itb = WalkNodes(T, t.x, "enter", TRUE, TRUE, FALSE, F)) }

(* --------------------------------------------------------- path items ---- *)
RECURSIVE StrFrom(_, _)
StrFrom(p, i) ==
  IF i > Len(p) THEN ""
  ELSE (IF i > 1 THEN "." ELSE "")
       \o (IF p[i].i < 0 THEN p[i].f ELSE p[i].f \o "[" \o ToString(p[i].i) \o "]")
       \o StrFrom(p, i + 1)
StrOf(p) == StrFrom(p, 1)

PathClauses(tr, it) ==
  LET T == D.T
      N == tr.n
      All == 1..N
      k == "path"
      shape == /\ Len(it.paths) = N /\ Len(it.strs) = N /\ Len(it.back) = N /\ Len(it.backs) = N
               /\ \A i \in 1..Len(it.rel) : it.rel[i].a \in All /\ it.rel[i].x \in All
      ids   == /\ Ok(tr, it.back) /\ Ok(tr, it.backs)
               /\ \A i \in 1..Len(it.beyond) : it.beyond[i].r \in 0..N
               /\ \A i \in 1..Len(it.rel) : it.rel[i].b \in 0..N
  IN IF ~shape THEN {Cl("Path.NodesOfTree", k, FALSE)}
     ELSE
     { Cl("Path.NodesOfTree", k, ids),
       Cl("Path.EqSpec", k, \A x \in All : it.paths[x] = PathOf(T, 1, x)),
       (* child_from_path(child_path(x)) = x, list and string form *)
       Cl("Path.Inverse", k, \A x \in All : it.back[x] = x /\ it.backs[x] = x),
       Cl("Path.Distinct", k, Cardinality({it.paths[x] : x \in All}) = N /\ Cardinality({it.strs[x] : x \in All}) = N),
       Cl("Path.FromPathEqSpec", k, /\ \A x \in All : it.back[x] = FromPath(T, 1, it.paths[x])
                                    /\ \A i \in 1..Len(it.beyond) : it.beyond[i].r = FromPath(T, 1, it.beyond[i].p)),
       Cl("Path.Str", k, \A x \in All : it.strs[x] = StrOf(PathOf(T, 1, x))),
       Cl("Path.Relative", k, \A i \in 1..Len(it.rel) : LET r == it.rel[i] IN
            /\ IsUnder(T, r.a, r.x) /\ r.p = PathOf(T, r.a, r.x) /\ r.b = r.x
            /\ FromPath(T, r.a, r.p) = r.x) }

(* -------------------------------------------------------- shape item ----- *)
ShapeClauses(tr, it) ==
  { Cl("LiveTreeIsParse", "shape", Len(it.lk) = tr.n /\ \A x \in 1..tr.n : it.lk[x] = tr.kind[x]) }

Clauses(tr, it) ==
  CASE it.call = "walk"  -> WalkClauses(tr, it)
    [] it.call = "nav"   -> NavClauses(tr, it)
    [] it.call = "path"  -> PathClauses(tr, it)
    [] it.call = "shape" -> ShapeClauses(tr, it)
    [] OTHER -> {Cl("UnknownItem", "?", FALSE)}

(* ------------------------------------------------------------------------- *)
Init == /\ tid \in 1..Len(Traces)
        /\ l = 1
        /\ D = Derive(Traces[tid])
        /\ bad = {}
        /\ seen = {}

Next == /\ l <= Len(Traces[tid].items)
        /\ LET cs == Clauses(Traces[tid], Traces[tid].items[l])
           IN /\ bad' = bad \cup {<<l, r.c, r.k>> : r \in {q \in cs : ~q.ok}}
              /\ seen' = seen \cup {r.c : r \in cs}
        /\ l' = l + 1
        /\ UNCHANGED <<tid, D>>

Spec == Init /\ [][Next]_vars

Report == (l = Len(Traces[tid].items) + 1) => PrintT(<<"VERDICT", Traces[tid].id, bad, seen>>)
=============================================================================
