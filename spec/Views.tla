------------------------------- MODULE Views --------------------------------
(* The FSTView state machine (sub-system of C02 "no stale state" and C03      *)
(* "sub-view operations = base operations at shifted indices").               *)
(*                                                                            *)
(* Written from docs/d07_views.py and Python's list semantics:                *)
(*  - a view is a window  base[start:stop]  on one list-valued (or virtual)    *)
(*    field; all indices given to a view (also negative ones) are relative to  *)
(*    the bounds of the view;                                                  *)
(*  - an operation through a view acts on that sub-list exactly as the same    *)
(*    Python list operation would, the result being spliced back into the      *)
(*    field; afterwards the view denotes the edited range;                     *)
(*  - "It is safe to modify the underlying object outside of the view as the   *)
(*    view validates its indices every time they are used and truncates them   *)
(*    to the actual size of the target field."  -> Reclip, applied lazily on   *)
(*    every use (the stored indices of a view that is not used do not move).   *)
(*                                                                            *)
(* The field is modelled as a sequence c of distinct element ids.  For the    *)
(* virtual field `_body` c is the body *without* the docstring (index 0 is    *)
(* the first statement after it): the docstring offset is a matter of the     *)
(* concretisation, the view indices are those of `_body`.                     *)
(*                                                                            *)
(* Named implementation choices (documented behaviour, not Python's):         *)
(*   Reclip            what a view denotes after an edit behind its back:     *)
(*                     indices are truncated, they do NOT follow the elements  *)
(*                     (deleting elements before a view shifts other elements  *)
(*                     into it) - nothing more is promised by the docs.       *)
(*   SliceStopIsFixed  only the whole-field view is pinned to the end of the  *)
(*                     field (stop = EndB); `view[a:]` gets the integer stop  *)
(*                     the field had at that moment (docs: `elts[-3:]` prints *)
(*                     as `elts[1:4]`).                                       *)
(*   RefuseInverted    (Containers.tla) slice bounds with stop < start raise  *)
(*                     IndexError where a list would insert at start.         *)
EXTENDS Containers, TLC

VARIABLES c,        \* the field: sequence of distinct element ids
          views,    \* view slot -> [live, start, stop]   (stored indices, stop = IntB(n) | EndB)
          dirty,    \* live views behind whose back the field was edited since their last use
          fresh,    \* number of element ids handed out so far
          last      \* description of the last action (for action properties / behaviour export)
vars == <<c, views, dirty, fresh, last>>

(* ------------------------------------------------------------------------ *)
(* views                                                                    *)
Dead         == [live |-> FALSE, start |-> 0, stop |-> EndB]
MkView(s, t) == [live |-> TRUE, start |-> s, stop |-> t]
FullView     == MkView(0, EndB)
Pinned(w)    == w.stop.k = "end"

(* named rule Reclip: truncate stop to the field, then start to stop         *)
Hi(w, len)     == IF Pinned(w) THEN len ELSE Min(w.stop.v, len)
Lo(w, len)     == Min(w.start, Hi(w, len))
Reclip(w, len) == [w EXCEPT !.start = Lo(w, len), !.stop = IF Pinned(w) THEN EndB ELSE IntB(Hi(w, len))]

(* the elements a view denotes when it is used on field cc                   *)
Denotes(w, cc) == SubSeq(cc, Lo(w, Len(cc)) + 1, Hi(w, Len(cc)))

Live      == {u \in DOMAIN views : views[u].live}
Elems(s)  == {s[i] : i \in 1..Len(s)}

ThroughOps == {"setslice", "delslice", "setidx", "delidx", "insert", "append", "extend", "prepend", "prextend",
               "replace", "remove", "cut"}

(* ------------------------------------------------------------------------ *)
(* An operation through view w0 on field cc = the base operation at shifted  *)
(* indices.  n is the length of the view; a, b are bounds relative to it.    *)
(* Result [ok, exc, c].                                                      *)
ThroughEffect(cc, w0, op, a, b, new) ==
  LET len == Len(cc)
      s   == Lo(w0, len)
      n   == Hi(w0, len) - s
      Ok(c2)  == [ok |-> TRUE, exc |-> "", c |-> c2]
      Fail(x) == [ok |-> FALSE, exc |-> x, c |-> cc]
      At(i, j, xs) == Ok(PutSlice(cc, 0, IntB(s + i), IntB(s + j), xs))
      one == NormIndex(n, 0, a)
  IN CASE op = "setslice" -> IF Inverted(n, 0, a, b) THEN Fail("IndexError")
                             ELSE At(NormStart(n, 0, a), NormStop(n, 0, b), new)
       [] op = "delslice" -> IF Inverted(n, 0, a, b) THEN Fail("IndexError")
                             ELSE At(NormStart(n, 0, a), NormStop(n, 0, b), <<>>)
       [] op = "setidx"   -> IF one = -1 THEN Fail("IndexError") ELSE At(one, one + 1, new)
       [] op = "delidx"   -> IF one = -1 THEN Fail("IndexError") ELSE At(one, one + 1, <<>>)
       [] op = "insert"   -> At(NormStart(n, 0, a), NormStart(n, 0, a), new)   \* list.insert clamps like a slice bound
       [] op \in {"append", "extend"}    -> At(n, n, new)
       [] op \in {"prepend", "prextend"} -> At(0, 0, new)
       [] op = "replace"  -> At(0, n, new)
       [] op \in {"remove", "cut"}       -> At(0, n, <<>>)
       [] OTHER -> Fail("UnknownOp")

(* the operating view afterwards: same start, stop moved by the change of    *)
(* the field's length (a pinned stop stays pinned)                           *)
AfterThrough(w0, len, len2) ==
  LET w == Reclip(w0, len)
  IN [w EXCEPT !.stop = IF Pinned(w) THEN EndB ELSE IntB(w.stop.v + len2 - len)]

L(op, v, w, a, b, new, ok, exc, lo, hi, ret) ==
  [op |-> op, v |-> v, w |-> w, a |-> a, b |-> b, new |-> new, ok |-> ok, exc |-> exc, lo |-> lo, hi |-> hi, ret |-> ret]

(* ------------------------------------------------------------------------ *)
(* actions                                                                  *)
Through(v, op, a, b, new) ==
  /\ v \in Live /\ op \in ThroughOps
  /\ LET r == ThroughEffect(c, views[v], op, a, b, new)
     IN /\ c' = r.c
        /\ views' = [views EXCEPT ![v] = AfterThrough(@, Len(c), Len(r.c))]
        /\ dirty' = IF r.c = c THEN dirty \ {v} ELSE (dirty \cup Live) \ {v}
        /\ fresh' = fresh + Len(new)
        /\ last' = L(op, v, 0, a, b, new, r.ok, r.exc, Lo(views[v], Len(c)), Hi(views[v], Len(c)),
                     IF op = "cut" THEN Denotes(views[v], c) ELSE <<>>)

(* observing a view (start / stop / len / items / copy) is a use: it re-clips *)
Use(v) ==
  /\ v \in Live
  /\ views' = [views EXCEPT ![v] = Reclip(@, Len(c))]
  /\ dirty' = dirty \ {v}
  /\ UNCHANGED <<c, fresh>>
  /\ last' = L("use", v, 0, NoneB, NoneB, <<>>, TRUE, "", Lo(views[v], Len(c)), Hi(views[v], Len(c)), Denotes(views[v], c))

(* `node.field`: the whole-field view, put into slot w                       *)
MkFull(w) ==
  /\ w \in DOMAIN views
  /\ views' = [views EXCEPT ![w] = FullView]
  /\ dirty' = dirty \ {w}
  /\ UNCHANGED <<c, fresh>>
  /\ last' = L("mkfull", 0, w, NoneB, NoneB, <<>>, TRUE, "", 0, Len(c), <<>>)

(* `view[a:b]` put into slot w (w = v is `view = view[a:b]`); uses v         *)
SubView(pv, len, a, b) ==
  LET s == pv.start
      n == Hi(pv, len) - s
  IN MkView(s + NormStart(n, 0, a), IntB(s + NormStop(n, 0, b)))            \* SliceStopIsFixed

MkSub(v, w, a, b) ==
  /\ v \in Live /\ w \in DOMAIN views
  /\ LET len == Len(c)
         pv  == Reclip(views[v], len)
         inv == Inverted(Hi(pv, len) - pv.start, 0, a, b)
     IN /\ views' = IF inv THEN [views EXCEPT ![v] = pv]
                    ELSE [[views EXCEPT ![v] = pv] EXCEPT ![w] = SubView(pv, len, a, b)]
        /\ dirty' = IF inv THEN dirty \ {v} ELSE dirty \ {v, w}
        /\ UNCHANGED <<c, fresh>>
        /\ last' = L("mksub", v, w, a, b, <<>>, ~inv, IF inv THEN "IndexError" ELSE "", pv.start, Hi(pv, len), <<>>)

(* an edit behind the back of every view: `node.put_slice(new, a, b, field)` *)
BasePut(a, b, new) ==
  /\ LET inv == Inverted(Len(c), 0, a, b)
         c2  == IF inv THEN c ELSE PutSlice(c, 0, a, b, new)
     IN /\ c' = c2
        /\ dirty' = IF c2 = c THEN dirty ELSE dirty \cup Live
        /\ last' = L("baseput", 0, 0, a, b, new, ~inv, IF inv THEN "IndexError" ELSE "", 0, Len(c), <<>>)
  /\ fresh' = fresh + Len(new)
  /\ UNCHANGED views

InitWith(c0, nv) ==
  /\ c = c0 /\ fresh = Len(c0)
  /\ views = [u \in 1..nv |-> Dead]
  /\ dirty = {}
  /\ last = L("init", 0, 0, NoneB, NoneB, <<>>, TRUE, "", 0, 0, <<>>)
=============================================================================
