----------------------------- MODULE OptionsTrace -----------------------------
(* Trace validation for C20: recorded executions of the real pfst (option     *)
(* calls, blocks, per-call options, edits, in several threads) must be        *)
(* behaviours of Options.tla.                                                 *)
(*                                                                            *)
(* The next-state relation of a trace *is* the Options action named by the    *)
(* event (O!Spawn, O!Call, O!SetOptions, O!EnterWith, O!ExitWith, O!Die)      *)
(* applied to the logged arguments; the clauses are the laws of Options.tla   *)
(* (CallStoreOn, RejectRaisedOn, SetStoreOn, RestoreOn, ThreadIsolationOn,    *)
(* FreshOn ...) evaluated with the *observed* FST.get_options() of the acting *)
(* thread in place of the model's store.  Extra clauses that have no store    *)
(* counterpart: SerialEq (Threads!SerialEq on observations: the step gave     *)
(* what the same script gives alone), CallIsolation.result (a call with       *)
(* per-call options = the same call where those values are the defaults),     *)
(* Registry.* (logged writes of the modification registry: Registry!Balanced, *)
(* Quiescent, OwnerOnly).                                                     *)
(* Verdicts are total: Next is always enabled, failing clauses accumulate.     *)
(*                                                                            *)
(* Event: [t, k, src, m : Seq([n, v, known, valid]), how, outcome, exc,       *)
(*         hasPre, pre, hasObs, obs, all : Seq([t, obs]), ret, eff,           *)
(*         hasRef, res, ref, solo : [has, det, outcome, exc, obs, ret, eff,   *)
(*         res], regOk, reg : Seq([op, root, node, count, owner]),            *)
(*         expect : [has, store]]   (G: the generating model's post-store of  *)
(*         the acting thread; ModelAgree cross-checks generator, concretiser  *)
(*         and this module - a failure is a machinery error, not a verdict)   *)
(*         q, node : for k = "read" the query and the source of the node,     *)
(*         res / ref = answer on the long-lived node / on a fresh tree,       *)
(*         heap : Seq(<<cell, text>>) deep snapshot of the run's mutable      *)
(*         option objects after the step, reps : results of the repetitions   *)
(* In `m` a value is a cell id (Options.tla: value = cell, heap = contents);  *)
(* observed stores are *deep* snapshots: sequences of <<name, content text>>; *)
(* thread 0 is the process'                                                   *)
(* main thread (alive from the start, never acts).                            *)
EXTENDS Integers, Sequences, FiniteSets, TLC, Json, IOUtils

Batch  == JsonDeserialize(IOEnv.TRACE_FILE)
Traces == Batch.traces

Range(s) == {s[i] : i \in 1..Len(s)}
PFun(ps) == [n \in {p[1] : p \in Range(ps)} |-> (CHOOSE p \in Range(ps) : p[1] = n)[2]]
MFun(m)  == [n \in {x.n : x \in Range(m)} |-> (CHOOSE x \in Range(m) : x.n = n).v]

(* constants computed once from the batch (bound in OptionsTrace.cfg; an INSTANCE substitution by an expression  *)
(* would be re-evaluated - and the JSON re-read - at every use)                                                   *)
DefaultDef == PFun(Batch.defaults)        \* documented module defaults (option -> cell)
ValsDef    == Range(Batch.vals)           \* texts of documented-valid contents; invalid ones are logged as "!bad:<text>"
HeapDef    == PFun(Batch.cells)           \* immutable values: each is its own cell (id = content text); the mutable
                                          \* objects of a run are cells "@<trace>.<thread>.<n>" -> initial text, listed
                                          \* per trace (Traces[i].cells)
TIdsDef    == 0..Batch.maxt
NestDef    == [t \in TIdsDef |-> 1000000]
CONSTANTS DefaultF, ValidVals, TIds, NoNest, HeapF
OptNames == DOMAIN DefaultF

VARIABLES alive, store, blocks, heap, last,     \* the model (Options.tla)
          ftab,     \* what read-only calls denote, learned from the trace: <<source, query, effective options>> -> answer
          tid, l, regc, bad, seen
ovars == <<alive, store, blocks, heap, last>>
vars  == <<ovars, ftab, tid, l, regc, bad, seen>>

O == INSTANCE Options WITH Threads <- TIds, Main <- 0, Opts <- OptNames, Vals <- ValidVals, Default <- DefaultF,
                           Cells <- DOMAIN HeapF, Mutable <- {}, Heap0 <- HeapF,
                           Bad <- "!bad", Unknown <- "!unknown", MaxNest <- NoNest

Steps(i) == Traces[i].steps
Cl(c, ok) == [c |-> c, ok |-> ok]
(* an observed store that does not have exactly the documented option names never equals a model store *)
Safe(f) == IF DOMAIN f = OptNames THEN f ELSE [o \in OptNames |-> "!shape"]

Guard(e) ==
  CASE e.k = "spawn" -> e.t \in TIds /\ e.t \notin alive
    [] e.k = "die"   -> e.t \in alive \ {0} /\ blocks[e.t] = <<>>
    [] e.k \in {"call", "edit", "read", "set", "enter"} -> e.t \in alive /\ \A x \in Range(e.m) : x.v \in DOMAIN heap
    [] e.k = "exit"  -> e.t \in alive /\ blocks[e.t] # <<>>
    [] OTHER -> FALSE

Act(e) ==
  LET mf == MFun(e.m) IN
  CASE e.k = "spawn" -> O!Spawn(e.t)
    [] e.k = "die"   -> O!Die(e.t)
    [] e.k \in {"call", "edit", "read"} -> O!Call(e.t, mf)
    [] e.k = "set"   -> O!SetOptions(e.t, mf)
    [] e.k = "enter" -> O!EnterWith(e.t, mf)
    [] e.k = "exit"  -> O!ExitWith(e.t, e.how)

(* ---- logged registry writes of this step (Registry.tla: reg[r].count) ---- *)
RECURSIVE RegFold(_, _, _, _)
RegFold(ws, i, t, rc) ==
  IF i > Len(ws) THEN rc ELSE
  LET w   == ws[i]
      cur == IF w.root \in DOMAIN rc.c THEN rc.c[w.root] ELSE 0
      legal == IF w.op = "set" THEN (w.count = cur + 1) \/ (w.count = cur - 1 /\ w.count >= 1)   \* Enter / Release
               ELSE cur = 1                                                                     \* last Release
      new == IF w.op = "set" THEN w.count ELSE 0
  IN RegFold(ws, i + 1, t, [c |-> (w.root :> new) @@ rc.c, bal |-> rc.bal /\ legal, own |-> rc.own /\ w.owner = t])

(* key of a read: the node's source, the query, the deep effective value of every option (per-call value, else the *)
(* calling thread's default) - evaluated in the state before the step                                               *)
ReadKey(e) == <<e.node, e.q, O!Cont(heap, O!Eff(store[e.t], MFun(e.m)))>>

RejKind(m) == IF \E x \in Range(m) : ~x.known THEN "unknown-name"
              ELSE IF \E x \in Range(m) : ~x.valid THEN "invalid-value" ELSE "valid"
ClassOf(e) == e.src \o "/" \o e.k \o "/" \o (IF e.k = "exit" THEN e.how ELSE RejKind(e.m))

(* clauses of one event; last' = the model action just taken (with its pre-state and arguments) *)
Clauses(e, rf) ==
  LET ok   == e.outcome = "ok"
      obsF == Safe(PFun(e.obs))
      own  ==
        CASE e.k = "spawn" -> {Cl("FreshThreadDefaults", O!FreshOn(last', obsF))}
          [] e.k = "call"  ->
               {Cl("CallIsolation.store", O!CallStoreOn(last', obsF)),
                Cl("RejectAtomic.raised", O!RejectRaisedOn(last', ok)),
                Cl("RejectAtomic.store", O!RejectStoreOn(last', ok, obsF))}
               \cup (IF ok /\ last'.ok THEN {Cl("CallIsolation.effective", O!CallEffOn(last', Safe(PFun(e.eff))))} ELSE {})
               \cup (IF ok /\ e.hasRef THEN {Cl("CallIsolation.result", e.res = e.ref)} ELSE {})
          [] e.k = "read"  ->
               \* OptionsRead!ReadAnswer: a read-only call on a long-lived node (warm memo) answers F(source, effective
               \* options): (a) what the same call answers on a tree freshly built from the same source at the same
               \* moment, (b) what any earlier read with the same source, query and effective options answered
               {Cl("CallIsolation.store", O!CallStoreOn(last', obsF)),
                Cl("ReadAnswer.fresh", e.res = e.ref),
                Cl("ReadAnswer.function", LET k == ReadKey(e) IN k \in DOMAIN ftab => (ftab[k] = e.res /\ ftab[k] = e.ref))}
          [] e.k = "edit"  ->
               {Cl("CallIsolation.store", O!CallStoreOn(last', obsF)),
                Cl("RejectAtomic.raised", O!Rejected(heap, MFun(e.m)) => ~ok)}
          [] e.k = "set"   ->
               {Cl("SetOptions.store", O!SetStoreOn(last', obsF)), Cl("SetOptions.returns", O!SetRetOn(last', PFun(e.ret))),
                Cl("RejectAtomic.raised", O!RejectRaisedOn(last', ok)), Cl("RejectAtomic.store", O!RejectStoreOn(last', ok, obsF))}
          [] e.k = "enter" ->
               {Cl("Enter.store", O!SetStoreOn(last', obsF)), Cl("Enter.yields", O!SetRetOn(last', PFun(e.ret))),
                Cl("RejectAtomic.raised", O!RejectRaisedOn(last', ok)), Cl("RejectAtomic.store", O!RejectStoreOn(last', ok, obsF))}
          [] e.k = "exit"  ->
               IF e.hasObs THEN {Cl("Restore.named", O!RestoreOn(last', obsF)), Cl("Exit.unnamedKept", O!UnnamedKeptOn(last', obsF)),
                                 Cl("Restore.transparent", O!BlockTransparentOn(last', obsF))}
               ELSE {}
          [] OTHER -> {}
      iso  == (IF e.hasPre THEN {Cl("ThreadIsolation.pre", Safe(PFun(e.pre)) = O!Cont(heap, store[e.t]))} ELSE {})
              \cup (IF Len(e.all) > 0
                    THEN {Cl("ThreadIsolation.others",
                             O!ThreadIsolationOn(last', [u \in {x.t : x \in Range(e.all)} |->
                                                    Safe(PFun((CHOOSE x \in Range(e.all) : x.t = u).obs))]))}
                    ELSE {})
      ser  == IF e.solo.has /\ e.solo.det
              THEN {Cl("SerialEq", /\ e.outcome = e.solo.outcome /\ e.exc = e.solo.exc /\ e.obs = e.solo.obs
                                   /\ e.ret = e.solo.ret /\ e.eff = e.solo.eff /\ e.res = e.solo.res)}
              ELSE {}
      rg   == IF e.regOk
              THEN {Cl("Registry.balanced", rf.bal), Cl("Registry.ownerOnly", rf.own),
                    Cl("Registry.quiescent", \A r \in DOMAIN rf.c : rf.c[r] = 0)}
              ELSE {}
      agr  == IF "expect" \in DOMAIN e /\ e.expect.has
              THEN {Cl("ModelAgree", PFun(e.expect.store) = O!Cont(heap', store'[e.t]))} ELSE {}
      \* deep snapshot of every mutable object of the run after the step: pfst wrote none of them
      hp   == IF Len(e.heap) > 0
              THEN {Cl("HeapUntouched", \A p \in Range(e.heap) :
                                           p[1] \in DOMAIN heap /\ O!HeapUntouchedAt(last', p[1], p[2]))}
              ELSE {}
      \* the same call repeated with the very same option objects on fresh identical targets gives the same result
      idem == IF Len(e.reps) > 1
              THEN {Cl("CallIsolation.idempotent", \A i \in 1..Len(e.reps) : e.reps[i] = e.reps[1])} ELSE {}
  IN own \cup iso \cup ser \cup rg \cup agr \cup hp \cup idem

(* O!Init, except that the heap also holds the mutable objects of this trace's run *)
Init == /\ tid \in 1..Len(Traces)
        /\ alive = {0}
        /\ store = [t \in TIds |-> DefaultF]
        /\ blocks = [t \in TIds |-> <<>>]
        /\ heap = PFun(Traces[tid].cells) @@ HeapF
        /\ last = O!Last0(heap)
        /\ l = 1
        /\ regc = <<>>
        /\ ftab = <<>>
        /\ bad = {}
        /\ seen = {}

Next ==
  /\ l <= Len(Steps(tid))
  /\ LET e == Steps(tid)[l] IN
       IF Guard(e)
       THEN /\ Act(e)
            /\ LET rf == RegFold(e.reg, 1, e.t, [c |-> regc, bal |-> TRUE, own |-> TRUE])
                   cs == Clauses(e, rf)
               IN /\ bad' = bad \cup {<<l, r.c, ClassOf(e)>> : r \in {q \in cs : ~q.ok}}
                  /\ seen' = seen \cup {r.c : r \in cs}
                  /\ regc' = rf.c
                  /\ ftab' = IF e.k = "read" /\ ReadKey(e) \notin DOMAIN ftab THEN (ReadKey(e) :> e.ref) @@ ftab ELSE ftab
       ELSE /\ UNCHANGED <<ovars, regc, ftab>>
            /\ bad' = bad \cup {<<l, "WellFormedTrace", ClassOf(e)>>}
            /\ seen' = seen \cup {"WellFormedTrace"}
  /\ l' = l + 1
  /\ UNCHANGED tid

Spec == Init /\ [][Next]_vars

Report == (l = Len(Steps(tid)) + 1) => PrintT(<<"VERDICT", Traces[tid].id, bad, seen>>)
=============================================================================
