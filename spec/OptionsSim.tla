------------------------------ MODULE OptionsSim ------------------------------
(* Behaviour generator (direction G): random walks of Options.tla with the    *)
(* action arguments drawn by TLC; every behaviour is printed as one JSON line  *)
(* (events with the model's post-state) for the concretiser.                   *)
EXTENDS OptionsMC, SequencesExt, Json

CONSTANT SimDepth
VARIABLE hist
svars == <<vars, hist>>

Pairs(m)  == SetToSeq({<<ToString(n), ToString(m[n])>> : n \in DOMAIN m})
Event == [k |-> last'.k, t |-> ToString(last'.t), m |-> Pairs(last'.m), ok |-> last'.ok, how |-> last'.how,
          eff |-> Pairs(last'.eff), ret |-> Pairs(last'.ret),
          post |-> SetToSeq({[t |-> ToString(u), store |-> Pairs(store'[u]), depth |-> Len(blocks'[u])] : u \in alive'})]

(* RandomElement must depend on the state, or TLC folds it into a constant  *)
RMap      == RandomElement(IF Len(hist) >= 0 THEN Maps ELSE {})
RValidMap == RandomElement(IF Len(hist) >= 0 THEN {m \in Maps : Valid(m)} ELSE {})
Step ==
  /\ \/ DoSpawn \/ DoDie \/ DoExit
     \/ \E t \in Threads : Call(t, RMap) \/ Call(t, RValidMap)
     \/ \E t \in Threads : SetOptions(t, RMap) \/ SetOptions(t, RValidMap)
     \/ \E t \in Threads : EnterWith(t, RMap) \/ EnterWith(t, RValidMap)
  /\ hist' = Append(hist, Event)
(* the walk ends with one closing step so that each behaviour is printed once *)
SimNext == \/ Len(hist) < SimDepth /\ Step
           \/ Len(hist) = SimDepth /\ hist' = Append(hist, [k |-> "end"]) /\ UNCHANGED vars
SimInit == Init /\ hist = <<>>
SimSpec == SimInit /\ [][SimNext]_svars

Emit == (Len(hist) = SimDepth + 1) => PrintT(<<"BEH", ToJson(SubSeq(hist, 1, SimDepth))>>)
=============================================================================
