SPECIFICATION SimSpec
CONSTANTS
  MaxLen = 6
  MaxNew = 2
  MaxViews = 3
  InitLens = {0, 2, 3, 4, 5}
  ThLen = 0
  ThIdx = 0
  SimDepth = 9
INVARIANT Emit
INVARIANT Distinct
INVARIANT ExtentOK
INVARIANT FullViewIsField
CHECK_DEADLOCK FALSE
