SPECIFICATION SimSpec
CONSTANTS
  MaxLen = 5
  MaxNew = 2
  MaxViews = 3
  InitLens = {0, 2, 3, 4}
  ThLen = 0
  ThIdx = 0
  SimDepth = 8
INVARIANT Emit
INVARIANT Distinct
INVARIANT ExtentOK
INVARIANT FullViewIsField
CHECK_DEADLOCK FALSE
