SPECIFICATION Spec
CONSTANTS
  MaxNodes = 4
  MaxTmpl = 2
  Family = "all"
  Emit = 3
INVARIANTS InvStaticNN InvStaticN InvIdentity InvCounts InvFunctional InvFunctionalN InvStepLocal InvEmit
CHECK_DEADLOCK FALSE
