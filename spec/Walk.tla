-------------------------------- MODULE Walk --------------------------------
(* C14 - declarative specification of pfst's traversal API over an ordered   *)
(* tree.                                                                     *)
(*                                                                           *)
(* A tree is a record  T = [n, par, kids, lab]                               *)
(*   n     number of nodes, nodes are 1..n, 0 is "None"                      *)
(*   par   par[x]  parent of x (0 for the root of the whole tree)            *)
(*   kids  kids[x] children of x *in the order their text appears*           *)
(*   lab   lab[x]  the label of the edge par[x] -> x (unique among siblings; *)
(*         in the real tree the astfield (name, index))                      *)
(*   sp    sp[x]   position of x in kids[par[x]] (0 for the root); derived,  *)
(*         kept in the record only so that moves are O(1) (see SpOf)         *)
(*                                                                           *)
(* Two families of definitions:                                              *)
(*  - sequences (what a walk yields): PreD / PostD / BothD, WalkSeq          *)
(*  - local moves (what the navigation calls answer): NextSib, PrevSib,      *)
(*    FirstChild, LastChild, NextChild, PrevChild, StepFwd, StepBack,        *)
(*    PathOf, FromPath                                                       *)
(* WalkMC.tla model-checks the theorems that tie the two together on all     *)
(* ordered trees up to a bound; WalkTrace.tla evaluates both families on the *)
(* node table of real programs against the answers of the real pfst.         *)
EXTENDS Integers, Sequences, FiniteSets

Rev(s)      == [i \in 1..Len(s) |-> s[Len(s) + 1 - i]]
SeqRange(s) == {s[i] : i \in 1..Len(s)}
MinOf(S)    == CHOOSE x \in S : \A y \in S : x <= y
MaxOf(S)    == CHOOSE x \in S : \A y \in S : x >= y
PosIn(s, x) == IF \E i \in 1..Len(s) : s[i] = x THEN MinOf({i \in 1..Len(s) : s[i] = x}) ELSE 0

RECURSIVE CatFrom(_, _)
CatFrom(ss, i) == IF i > Len(ss) THEN <<>> ELSE ss[i] \o CatFrom(ss, i + 1)
Cat(ss) == CatFrom(ss, 1)

Nodes(T) == 1..T.n

(* children in walking direction: back=TRUE reverses sibling order only      *)
Dir(T, x, back) == IF back THEN Rev(T.kids[x]) ELSE T.kids[x]

(* ------------------------------------------------------------------------ *)
(* sequences                                                                *)

RECURSIVE PreD(_, _, _)
PreD(T, x, back) ==                 \* parents before children
  LET cs == Dir(T, x, back) IN <<x>> \o Cat([i \in 1..Len(cs) |-> PreD(T, cs[i], back)])

RECURSIVE PostD(_, _, _)
PostD(T, x, back) ==                \* children before parents
  LET cs == Dir(T, x, back) IN Cat([i \in 1..Len(cs) |-> PostD(T, cs[i], back)]) \o <<x>>

Ev(x, lv) == [n |-> x, lv |-> lv]   \* one yield: node, leaving?

RECURSIVE BothD(_, _, _)
BothD(T, x, back) ==                \* each node brackets its children
  LET cs == Dir(T, x, back)
  IN <<Ev(x, FALSE)>> \o Cat([i \in 1..Len(cs) |-> BothD(T, cs[i], back)]) \o <<Ev(x, TRUE)>>

Desc(T, x) == SeqRange(PreD(T, x, FALSE))          \* x and everything below it

(* full walk of the subtree of x, unfiltered                                 *)
Deep(T, x, on, back) ==
  CASE on = "enter" -> LET s == PreD(T, x, back)  IN [i \in 1..Len(s) |-> Ev(s[i], FALSE)]
    [] on = "leave" -> LET s == PostD(T, x, back) IN [i \in 1..Len(s) |-> Ev(s[i], TRUE)]
    [] OTHER        -> BothD(T, x, back)

(* recurse=False: x and its direct children only                             *)
Shallow(T, x, on, back) ==
  LET cs == Dir(T, x, back)
      one(c) == CASE on = "enter" -> <<Ev(c, FALSE)>>
                  [] on = "leave" -> <<Ev(c, TRUE)>>
                  [] OTHER        -> <<Ev(c, FALSE), Ev(c, TRUE)>>
  IN (IF on \in {"enter", "both"} THEN <<Ev(x, FALSE)>> ELSE <<>>)
     \o Cat([i \in 1..Len(cs) |-> one(cs[i])])
     \o (IF on \in {"leave", "both"} THEN <<Ev(x, TRUE)>> ELSE <<>>)

(* walk(all, on, self_=, recurse=, back=) started on x.  F is the set of     *)
(* nodes the `all` filter lets through: filters and self_ only *select*      *)
(* yields, they never change the order or the set of nodes visited.          *)
WalkSel(full, x, self_, F) == SelectSeq(full, LAMBDA e : e.n \in F /\ (self_ \/ e.n # x))
WalkSeq(T, x, on, back, recurse, self_, F) ==
  WalkSel(IF recurse THEN Deep(T, x, on, back) ELSE Shallow(T, x, on, back), x, self_, F)

NodesOf(evs) == [i \in 1..Len(evs) |-> evs[i].n]
WalkNodes(T, x, on, back, recurse, self_, F) == NodesOf(WalkSeq(T, x, on, back, recurse, self_, F))

(* ------------------------------------------------------------------------ *)
(* local moves                                                              *)

(* first / last element of s at or after / at or before an index that is in F, 0 if none *)
RECURSIVE FirstIn(_, _, _)
FirstIn(s, from, F) == IF from > Len(s) THEN 0 ELSE IF s[from] \in F THEN s[from] ELSE FirstIn(s, from + 1, F)
RECURSIVE LastIn(_, _, _)
LastIn(s, to, F)    == IF to < 1 THEN 0 ELSE IF s[to] \in F THEN s[to] ELSE LastIn(s, to - 1, F)

Sibs(T, x) == T.kids[T.par[x]]
SpOf(kids, par) == [x \in DOMAIN par |-> IF par[x] = 0 THEN 0 ELSE PosIn(kids[par[x]], x)]   \* how T.sp is derived

NextSib(T, x, F) == IF T.par[x] = 0 THEN 0 ELSE FirstIn(Sibs(T, x), T.sp[x] + 1, F)
PrevSib(T, x, F) == IF T.par[x] = 0 THEN 0 ELSE LastIn(Sibs(T, x), T.sp[x] - 1, F)

FirstChild(T, x, F) == FirstIn(T.kids[x], 1, F)
LastChild(T, x, F)  == LastIn(T.kids[x], Len(T.kids[x]), F)

(* p.next_child(c) for a child c of p: c = 0 (None) starts the iteration       *)
NextChild(T, p, c, F) == IF c = 0 THEN FirstChild(T, p, F) ELSE FirstIn(T.kids[p], T.sp[c] + 1, F)
PrevChild(T, p, c, F) == IF c = 0 THEN LastChild(T, p, F)  ELSE LastIn(T.kids[p], T.sp[c] - 1, F)

(* one unfiltered step of the forward / backward walk; top = 0 or the node   *)
(* that bounds the walk (never returned, never left)                         *)
RECURSIVE UpNext(_, _, _)
UpNext(T, x, top) ==
  IF x = top \/ T.par[x] = 0 THEN 0
  ELSE LET y == NextSib(T, x, Nodes(T))
       IN IF y # 0 THEN y ELSE IF T.par[x] = top THEN 0 ELSE UpNext(T, T.par[x], top)

RECURSIVE UpPrev(_, _, _)
UpPrev(T, x, top) ==
  IF x = top \/ T.par[x] = 0 THEN 0
  ELSE LET y == PrevSib(T, x, Nodes(T))
       IN IF y # 0 THEN y ELSE IF T.par[x] = top THEN 0 ELSE UpPrev(T, T.par[x], top)

Fwd1(T, x, rs, top)  == IF rs /\ T.kids[x] # <<>> THEN T.kids[x][1] ELSE UpNext(T, x, top)
Back1(T, x, rs, top) == IF rs /\ T.kids[x] # <<>> THEN T.kids[x][Len(T.kids[x])] ELSE UpPrev(T, x, top)

(* x.step_fwd(all, recurse_self, top=): repeat the unfiltered step until the  *)
(* filter accepts                                                            *)
RECURSIVE StepFwd(_, _, _, _, _)
StepFwd(T, x, F, rs, top) ==
  LET y == Fwd1(T, x, rs, top) IN IF y = 0 \/ y \in F THEN y ELSE StepFwd(T, y, F, TRUE, top)

RECURSIVE StepBack(_, _, _, _, _)
StepBack(T, x, F, rs, top) ==
  LET y == Back1(T, x, rs, top) IN IF y = 0 \/ y \in F THEN y ELSE StepBack(T, y, F, TRUE, top)

(* repeated application of a move until None; fuel bounds the recursion so   *)
(* that the operator is total on arbitrary (recorded) functions              *)
RECURSIVE Iterate(_, _, _)
Iterate(f, x, fuel) ==
  IF fuel = 0 \/ x \notin DOMAIN f THEN <<>>
  ELSE LET y == f[x] IN IF y = 0 THEN <<>> ELSE <<y>> \o Iterate(f, y, fuel - 1)

(* ------------------------------------------------------------------------ *)
(* paths                                                                    *)

(* a.child_path(x) is defined (does not raise) iff x is a or below a           *)
RECURSIVE IsUnder(_, _, _)
IsUnder(T, a, x) == x = a \/ (T.par[x] # 0 /\ IsUnder(T, a, T.par[x]))

RECURSIVE PathOf(_, _, _)
PathOf(T, a, x) == IF x = a \/ T.par[x] = 0 THEN <<>> ELSE PathOf(T, a, T.par[x]) \o <<T.lab[x]>>

(* a.child_from_path(p); 0 (False) when the path denotes no node              *)
RECURSIVE FromPathAt(_, _, _, _)
FromPathAt(T, a, p, i) ==
  IF i > Len(p) THEN a
  ELSE LET C == {c \in SeqRange(T.kids[a]) : T.lab[c] = p[i]}
       IN IF C = {} THEN 0 ELSE FromPathAt(T, CHOOSE c \in C : TRUE, p, i + 1)
FromPath(T, a, p) == FromPathAt(T, a, p, 1)

(* The same answers read off the walk sequence (what "step_fwd reproduces the  *)
(* walk order" says): nt = NextTab(pre, F) gives for every position i (stored  *)
(* at i + 1, i = 0..Len) the next position > i holding a node of F; the node   *)
(* after x is looked up behind x (recurse_self) or behind x's last descendant. *)
RECURSIVE NextTabAcc(_, _, _, _, _)
NextTabAcc(s, F, i, nxt, acc) ==
  IF i < 0 THEN acc
  ELSE NextTabAcc(s, F, i - 1, IF i >= 1 /\ s[i] \in F THEN i ELSE nxt, <<nxt>> \o acc)
NextTab(s, F) == NextTabAcc(s, F, Len(s), 0, <<>>)

StepSeq(pre, ipre, nt, x, skip) == LET j == nt[ipre[x] + skip + 1] IN IF j = 0 THEN 0 ELSE pre[j]

After(s, x) == LET i == PosIn(s, x) IN IF i = 0 THEN <<>> ELSE SubSeq(s, i + 1, Len(s))
Sel(s, F)   == SelectSeq(s, LAMBDA y : y \in F)
=============================================================================
