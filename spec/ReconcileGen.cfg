SPECIFICATION Spec
CONSTANTS
  MaxObj = 30
  MaxPos = 20
  MaxMut = 3
  MaxRounds = 2
  MaxFst = 1
  InitShapes <- ShapesFull
CHECK_DEADLOCK FALSE
INVARIANT Emit
