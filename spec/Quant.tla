-------------------------------- MODULE Quant --------------------------------
(* C17 - semantics of sequences of (quantified) patterns in a list field.      *)
(*                                                                            *)
(* Elements of the target list are abstracted to a small alphabet 1..3        *)
(* (a, b, c); a word is a sequence of elements.  An item of a list pattern is *)
(*   lit x   a pattern that matches exactly the elements equal to x           *)
(*   any     the wildcard `...`                                               *)
(*   cap     M(u=...)  : wildcard that binds the tag u to the element         *)
(*   back    MTAG('u') : matches an element equal to the one bound to u       *)
(*   q       MQ(body, min, max) / MQ.NG : body is ONE item (one = TRUE) or a  *)
(*           sub-sequence of items (one = FALSE)                              *)
(* The semantics is the one of a backtracking regular-expression engine: the  *)
(* list of all ways to match, in priority order (greedy prefers more          *)
(* iterations, non-greedy fewer); the answer is the first way that consumes   *)
(* the whole word.                                                            *)
(*                                                                            *)
(* Named deviation AtomicSubseq (documented: "backtracking from those         *)
(* quantifiers doesn't mix with the parent quantifier"): one iteration of a   *)
(* sub-sequence body is matched as a unit whose internal choice is never      *)
(* revisited, i.e. the regular expression (?>...) (atomic group).             *)
EXTENDS Integers, Sequences, FiniteSets, SequencesExt, TLC

Inf == 99                       \* max = None
NA  == 3                        \* alphabet size

Leaf(k, x) == [k |-> k, x |-> x, mn |-> 0, mx |-> 0, g |-> TRUE, one |-> TRUE, body |-> <<>>]
QItem(body, one, mn, mx, g) == [k |-> "q", x |-> 0, mn |-> mn, mx |-> mx, g |-> g, one |-> one, body |-> body]

-----------------------------------------------------------------------------
(* Matching state: position (number of elements consumed), binding of u (1-based index of the captured element,      *)
(* 0 = unbound) and the chronological list of quantifier events <<kind, qid, start, end>>:                            *)
(* kind 1 = one iteration of quantifier qid matched w[start+1..end], kind 2 = the whole quantifier spans start..end.  *)
(* qid = 10 * (position in the list) for a top-level quantifier, + position in the body for an inner one.             *)
St0 == [pos |-> 0, u |-> 0, ev |-> <<>>]

Adv(st) == [st EXCEPT !.pos = @ + 1]

Flat(ss) == FlattenSeq(ss)      \* concatenation of a sequence of sequences

(* mode: full = without AtomicSubseq (plain (?:...) groups); elem / stale = known-finding classifiers (see below) *)
SpecMode == [full |-> FALSE, elem |-> FALSE, stale |-> {}, walk |-> FALSE]

RECURSIVE MItem(_, _, _, _, _), MIter(_, _, _, _, _, _, _), MSeq(_, _, _, _, _, _, _)

(* One iteration of quantifier q at st.  AtomicSubseq: for a sub-sequence only the first way is kept. *)
Iteration(q, qid, w, st, mode) ==
  IF q.one THEN MItem(q.body[1], qid, w, st, mode)
  ELSE LET rs == MSeq(q.body, qid, 1, 1, w, st, mode)
       IN IF rs = <<>> \/ mode.full THEN rs ELSE <<rs[1]>>      \* AtomicSubseq

(* All ways to finish quantifier q (started at position s0) when n iterations are done and the state is st. *)
MIter(q, qid, w, st, n, s0, mode) ==
  LET done == [st EXCEPT !.ev = Append(@, <<2, qid, s0, st.pos>>)]
      stop == IF n >= q.mn THEN <<done>> ELSE <<>>
      its  == IF n < q.mx THEN Iteration(q, qid, w, st, mode) ELSE <<>>
      more == Flat([i \in 1..Len(its) |->
                      IF its[i].pos = st.pos THEN <<>>      \* ProgressGuard: an empty iteration is never repeated
                      ELSE MIter(q, qid, w, [its[i] EXCEPT !.ev = Append(@, <<1, qid, st.pos, its[i].pos>>)], n + 1, s0, mode)])
  IN IF q.g THEN more \o stop ELSE stop \o more

(* Known-finding classifiers - NOT the specification, only used to *name* a disagreement of pfst precisely:         *)
(*  ElemStepBack  a greedy quantifier with a sub-sequence body gives back one ELEMENT at a time instead of one        *)
(*                iteration at a time (position and iteration count drift apart);                                      *)
(*  StaleStatic   a greedy anonymous quantifier carrying static tags that reached a finite max keeps the tags of the  *)
(*                iteration it has just given back (u is one iteration ahead).                                         *)
(* Both are deterministic walks down from the maximal run of (atomic) iterations.                                      *)
RECURSIVE GreedyRun(_, _, _, _)
GreedyRun(q, qid, w, chain) ==
  LET st == chain[Len(chain)]
      its == IF Len(chain) - 1 < q.mx THEN Iteration(q, qid, w, st, SpecMode) ELSE <<>>
  IN IF its = <<>> \/ its[1].pos = st.pos THEN chain
     ELSE GreedyRun(q, qid, w, Append(chain, [its[1] EXCEPT !.ev = Append(@, <<1, qid, st.pos, its[1].pos>>)]))

KnownGiveBack(q, qid, w, st, mode) ==
  LET chain == GreedyRun(q, qid, w, <<st>>)
      k == Len(chain) - 1
      elem == mode.elem /\ ~q.one
      stale == qid \in mode.stale /\ k = q.mx
  IN IF k < q.mn THEN <<>>
     ELSE [jj \in 1..(k - q.mn + 1) |->
             LET j == jj - 1
                 c == chain[k - j + 1]
                 p == IF elem THEN chain[k + 1].pos - j ELSE c.pos
                 uu == IF stale /\ j >= 1 THEN chain[k - j + 2].u ELSE c.u
             IN [c EXCEPT !.pos = p, !.u = uu, !.ev = Append(@, <<2, qid, st.pos, p>>)]]

Deviates(it, qid, mode) == it.g /\ (mode.walk \/ (mode.elem /\ ~it.one) \/ qid \in mode.stale)

MItem(it, qid, w, st, mode) ==
  LET more == st.pos < Len(w) IN
  CASE it.k = "lit"  -> IF more /\ w[st.pos + 1] = it.x THEN <<Adv(st)>> ELSE <<>>
    [] it.k = "any"  -> IF more THEN <<Adv(st)>> ELSE <<>>
    [] it.k = "cap"  -> IF more THEN <<[Adv(st) EXCEPT !.u = st.pos + 1]>> ELSE <<>>
    [] it.k = "back" -> IF more /\ st.u > 0 /\ w[st.pos + 1] = w[st.u] THEN <<Adv(st)>> ELSE <<>>
    [] it.k = "q"    -> IF Deviates(it, qid, mode) THEN KnownGiveBack(it, qid, w, st, mode)
                        ELSE MIter(it, qid, w, st, 0, st.pos, mode)
    [] OTHER -> <<>>

(* items[i..] from st; the quantifier at position i gets id base + i * mul *)
MSeq(items, base, mul, i, w, st, mode) ==
  IF i > Len(items) THEN <<st>>
  ELSE LET rs == MItem(items[i], base + i * mul, w, st, mode)
       IN Flat([j \in 1..Len(rs) |-> MSeq(items, base, mul, i + 1, w, rs[j], mode)])

Ways(pats, w, mode) == MSeq(pats, 0, 10, 1, w, St0, mode)

Reject == [acc |-> FALSE, u |-> 0, ev |-> <<>>]

First(pats, w, mode) ==
  LET full == SelectSeq(Ways(pats, w, mode), LAMBDA r : r.pos = Len(w))
  IN IF full = <<>> THEN Reject ELSE [acc |-> TRUE, u |-> full[1].u, ev |-> full[1].ev]

FirstMatch(pats, w)    == First(pats, w, SpecMode)     \* the specification
FirstFull(pats, w)     == First(pats, w, [SpecMode EXCEPT !.full = TRUE])
FirstKnown(pats, w, elem, stale) == First(pats, w, [SpecMode EXCEPT !.elem = elem, !.stale = stale])
FirstWalk(pats, w) == First(pats, w, [SpecMode EXCEPT !.walk = TRUE])
FirstElemStep(pats, w) == FirstKnown(pats, w, TRUE, {})

-----------------------------------------------------------------------------
(* Views on a result *)
Iters(r, qid)  == SelectSeq(r.ev, LAMBDA e : e[1] = 1 /\ e[2] = qid)            \* iteration spans of quantifier qid, in order
Wholes(r, qid) == SelectSeq(r.ev, LAMBDA e : e[1] = 2 /\ e[2] = qid)
LastWhole(r, qid) == LET s == Wholes(r, qid) IN IF s = <<>> THEN <<-1, -1>> ELSE <<s[Len(s)][3], s[Len(s)][4]>>
Spans(s) == [i \in 1..Len(s) |-> <<s[i][3], s[i][4]>>]

-----------------------------------------------------------------------------
(* Structure of a pattern list *)
RECURSIVE Leaves(_)
Leaves(items) ==        \* pre-order sequence of the kinds of the non-quantifier items
  Flat([i \in 1..Len(items) |-> IF items[i].k = "q" THEN Leaves(items[i].body) ELSE <<items[i].k>>])

HasCap(it) == \E i \in 1..Len(Leaves(<<it>>)) : Leaves(<<it>>)[i] = "cap"

QIds(pats) ==           \* <<qid, top position, inner position or 0>>
  UNION {IF pats[i].k # "q" THEN {}
         ELSE {<<10 * i, i, 0>>} \cup
              (IF pats[i].one THEN {} ELSE {<<10 * i + j, i, j>> : j \in {j \in 1..Len(pats[i].body) : pats[i].body[j].k = "q"}})
         : i \in 1..Len(pats)}

(* Tagging policy of the concretisation: every quantifier gets its own tag (then its iterations come back as a list  *)
(* of spans) unless its body contains the capture - then it stays anonymous so that u is merged outwards, as the      *)
(* documentation describes ("individual tags will all be merged in order ... last element matched").                  *)
Tagged(it) == it.k = "q" /\ ~HasCap(it)
Observable(pats) ==     \* quantifiers whose every iteration span is visible in the match object
  {q \in QIds(pats) : /\ Tagged(pats[q[2]])
                      /\ q[3] = 0 \/ Tagged(pats[q[2]].body[q[3]])}

(* Domain of the three-way comparison *)
MustConsume(it) == it.k # "q" \/ (it.mn >= 1 /\ (it.one \/ \E j \in 1..Len(it.body) : it.body[j].k # "q" \/ it.body[j].mn >= 1))
NonEmptyBody(it) == it.k # "q" \/ it.one \/ \E j \in 1..Len(it.body) : MustConsume(it.body[j])
        \* pfst refuses unbounded quantifiers whose sub-sequence may be empty; regex engines disagree on empty iterations
SingleCapSite(pats) == Cardinality({i \in 1..Len(Leaves(pats)) : Leaves(pats)[i] = "cap"}) <= 1
        \* a regular expression cannot define the group u twice
WellScoped(pats) == LET l == Leaves(pats) IN
                    \A i \in 1..Len(l) : l[i] = "back" => \E j \in 1..(i - 1) : l[j] = "cap"
        \* re refuses a reference to a group that is not defined before it
Depth1(pats) == \A i \in 1..Len(pats) : pats[i].k = "q" /\ ~pats[i].one =>
                  \A j \in 1..Len(pats[i].body) : pats[i].body[j].k = "q" => pats[i].body[j].one
InDomain(pats) == /\ \A i \in 1..Len(pats) : NonEmptyBody(pats[i])
                  /\ SingleCapSite(pats) /\ WellScoped(pats) /\ Depth1(pats)

IsFlat(pats) == \A i \in 1..Len(pats) : pats[i].k = "q" => pats[i].one
HasGreedySub(pats) == \E i \in 1..Len(pats) : pats[i].k = "q" /\ ~pats[i].one /\ pats[i].g

-----------------------------------------------------------------------------
(* The corresponding regular expression, as text (checked against Python's re by the harness) *)
Letter(x) == CASE x = 1 -> "a" [] x = 2 -> "b" [] OTHER -> "c"
QuantTxt(q) == "{" \o ToString(q.mn) \o "," \o (IF q.mx = Inf THEN "" ELSE ToString(q.mx)) \o "}" \o (IF q.g THEN "" ELSE "?")

RECURSIVE RxItem(_, _), RxSeq(_, _, _, _)
RxItem(it, qid) ==
  CASE it.k = "lit"  -> Letter(it.x)
    [] it.k = "any"  -> "."
    [] it.k = "cap"  -> "(?P<u>.)"
    [] it.k = "back" -> "(?P=u)"
    [] it.k = "q"    -> "(?P<q" \o ToString(qid) \o ">(?:" \o
                        (IF it.one THEN RxItem(it.body[1], qid) ELSE "(?>" \o RxSeq(it.body, qid, 1, 1) \o ")") \o
                        ")" \o QuantTxt(it) \o ")"
    [] OTHER -> "(?!)"
RxSeq(items, base, mul, i) ==
  IF i > Len(items) THEN "" ELSE RxItem(items[i], base + i * mul) \o RxSeq(items, base, mul, i + 1)

Regex(pats) == RxSeq(pats, 0, 10, 1)
RECURSIVE WordTxt2(_)
WordTxt2(w) == IF w = <<>> THEN "" ELSE Letter(w[1]) \o WordTxt2(Tail(w))

-----------------------------------------------------------------------------
(* The universe of instances, indexed by small integers so that cases can be named, sampled and replayed.             *)
MMs == << <<0, 0>>, <<0, 1>>, <<0, 2>>, <<0, Inf>>, <<1, 1>>, <<1, 2>>, <<1, Inf>>, <<2, 2>>, <<2, Inf>> >>
NAtoms == 5
AtomOf(i) == CASE i = 1 -> Leaf("lit", 1) [] i = 2 -> Leaf("lit", 2) [] i = 3 -> Leaf("any", 0)
               [] i = 4 -> Leaf("cap", 0) [] OTHER -> Leaf("back", 0)
MkQ(body, one, mm, g) == QItem(body, one, MMs[mm][1], MMs[mm][2], g = 1)

NQS == NAtoms * 18              \* single-body quantifiers: body atom x (min,max) x greedy
QSOf(n) == MkQ(<<AtomOf((n \div 18) + 1)>>, TRUE, ((n % 18) \div 2) + 1, n % 2)

InnerMMs == <<2, 4, 7, 6>>      \* ?, *, +, {1,2}
NInner == NAtoms + 16
InnerOf(n) == IF n < NAtoms THEN AtomOf(n + 1)
              ELSE LET m == n - NAtoms IN
                   MkQ(<<AtomOf(IF m \div 8 = 0 THEN 1 ELSE 3)>>, TRUE, InnerMMs[((m % 8) \div 2) + 1], m % 2)
NBodies == NInner + NInner * NInner
BodyOf(n) == IF n < NInner THEN <<InnerOf(n)>>
             ELSE <<InnerOf((n - NInner) \div NInner), InnerOf((n - NInner) % NInner)>>
NQL == NBodies * 18
QLOf(n) == MkQ(BodyOf(n \div 18), FALSE, ((n % 18) \div 2) + 1, n % 2)

NFlat  == NAtoms + NQS          \* items 1..NFlat are atoms and single-body quantifiers
NItems == NFlat + NQL
ItemOf(i) == IF i <= NAtoms THEN AtomOf(i) ELSE IF i <= NFlat THEN QSOf(i - NAtoms - 1) ELSE QLOf(i - NFlat - 1)

Pow3(n) == CASE n = 0 -> 1 [] n = 1 -> 3 [] n = 2 -> 9 [] n = 3 -> 27 [] OTHER -> 81
NWords == 121                   \* all words over {a,b,c} of length <= 4
WordOf(n) == LET L == CASE n = 0 -> 0 [] n <= 3 -> 1 [] n <= 12 -> 2 [] n <= 39 -> 3 [] OTHER -> 4
                 m == n - (Pow3(L) - 1) \div 2
             IN [i \in 1..L |-> ((m \div Pow3(L - i)) % 3) + 1]

(* an instance id is <<i1, i2, i3, wn>>: item numbers (0 = absent, only at the end) and a word number *)
ValidId(id) == /\ Len(id) = 4 /\ \A k \in 1..3 : id[k] \in 0..NItems
               /\ id[4] \in 0..(NWords - 1)
               /\ \A k \in 1..2 : id[k] = 0 => id[k + 1] = 0
PatsOf(id) == LET n == Cardinality({k \in 1..3 : id[k] # 0}) IN [k \in 1..n |-> ItemOf(id[k])]

(* one row of the emitted table: the case, its regular expression and the expected answer *)
Row(id) == LET pats == PatsOf(id)  w == WordOf(id[4])  r == FirstMatch(pats, w) IN
           [id |-> id, rx |-> Regex(pats), word |-> WordTxt2(w), dom |-> InDomain(pats),
            acc |-> r.acc, u |-> r.u, ev |-> r.ev,
            obs |-> SetToSortSeq({q[1] : q \in Observable(pats)}, <)]
=============================================================================
