SPECIFICATION Spec
CONSTANTS
  MaxLine = 2
  MaxCol = 2
  MaxDLine = 1
  MaxDCol = 1
INVARIANT RoundTrip
INVARIANT Monotone
INVARIANT FaithfulAccepted
INVARIANT DelimitedRule
INVARIANT EscapeRejected
INVARIANT RuleTotal
CHECK_DEADLOCK TRUE
