---------------------------- MODULE SearchAlgTrace ----------------------------
(* (V) search == filter(walk, Match) and pfst.match == Match, decided by TLC. *)
(* Batch: trees[k].nodes[i] = [ty, hits, src] - facts about node i of tree k  *)
(* computed with the standard library only; exprs = leaf classes of ast.expr. *)
(* A step names a term of SearchAlg by its id and carries, for one tree,      *)
(*   walk  the nodes in the order of FST.walk(True, ...)                      *)
(*   acc   what pfst's match(term) answered on each of them                   *)
(*   found the nodes that pfst's search(term) yielded, in order               *)
(* Clauses                                                                    *)
(*   TermValid               the id is a term of the algebra                  *)
(*   NoException             neither match nor search raised                  *)
(*   MatchIsDenotation       acc[i] = Match(term, node walk[i]) for every i   *)
(*   SearchIsDenotedFilter   found = SelectSeq(walk, Match(term, .))          *)
(* class = <context>:<op>(<member classes>)/<tree>                            *)
EXTENDS SearchAlg, Json, IOUtils

Batch  == JsonDeserialize(IOEnv.TRACE_FILE)
Traces == Batch.traces
Ex     == ToSet(Batch.exprs)
NodeOf(k, i) == LET n == Batch.trees[k].nodes[i] IN [ty |-> n.ty, hits |-> ToSet(n.hits), src |-> n.src]

VARIABLES tid, l, bad, seen
vars == <<tid, l, bad, seen>>
Steps(t) == Traces[t].steps
Cl(c, ok, class) == [c |-> c, ok |-> ok, class |-> class]

StepClauses(e) ==
  IF ~ValidTid(e.id) THEN {Cl("TermValid", FALSE, "harness")}
  ELSE LET p == TermOf(e.id)
           class == ClassOf(e.id) \o "/t" \o ToString(e.tree)
           want == [i \in 1..Len(e.walk) |-> Match(p, NodeOf(e.tree, e.walk[i]), Ex)]
           keep == SelectSeq([i \in 1..Len(e.walk) |-> i], LAMBDA i : want[i])
       IN {Cl("TermValid", TRUE, "harness"),
           Cl("NoException", e.exc = "", class),
           Cl("MatchIsDenotation", Len(e.acc) = Len(e.walk) /\ \A i \in 1..Len(e.walk) : e.acc[i] = want[i], class),
           Cl("SearchIsDenotedFilter", e.found = [k \in 1..Len(keep) |-> e.walk[keep[k]]], class)}

Init == tid \in 1..Len(Traces) /\ l = 1 /\ bad = {} /\ seen = {}
Next == /\ l <= Len(Steps(tid))
        /\ LET cs == StepClauses(Steps(tid)[l])
           IN /\ bad' = bad \cup {<<l, c.c, c.class>> : c \in {q \in cs : ~q.ok}}
              /\ seen' = seen \cup {c.c : c \in cs}
        /\ l' = l + 1 /\ UNCHANGED tid
Spec == Init /\ [][Next]_vars
Report == (l = Len(Steps(tid)) + 1) => PrintT(<<"VERDICT", Traces[tid].id, bad, seen>>)
=============================================================================
