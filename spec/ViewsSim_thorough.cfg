SPECIFICATION SimSpec
CONSTANTS
  MaxLen = 7
  MaxNew = 2
  MaxViews = 3
  InitLens = {0, 1, 2, 3, 4, 5}
  ThLen = 0
  ThIdx = 0
  SimDepth = 15
INVARIANT Emit
INVARIANT Distinct
INVARIANT ExtentOK
INVARIANT FullViewIsField
CHECK_DEADLOCK FALSE
