------------------------------- MODULE WalkMC -------------------------------
(* Model of a client that uses the traversal API on one tree.                *)
(*                                                                           *)
(* Init chooses ANY ordered tree with at most MaxN nodes (nodes are numbered *)
(* in pre-order, so a tree is a parent vector whose entry i is an ancestor-  *)
(* or-self of i-1: exactly the Catalan(N-1) ordered trees), optionally       *)
(* mirrored (so that source order and numbering/field order differ), and ANY *)
(* filter set F (the nodes the `all` argument lets through).                 *)
(*                                                                           *)
(* Actions: the client starts one of the iteration idioms of the API         *)
(* (repeated step_fwd / step_back, with and without top=; next() from        *)
(* first_child(); prev() from last_child(); next_child / prev_child from     *)
(* None) and advances it one public call at a time, or runs the walk         *)
(* generator (operationally: the stack machine of fst_traverse.walk, one     *)
(* action per next()).  Invariants are the theorems of the property: every   *)
(* finished iteration equals the declarative sequence of Walk.tla.           *)
EXTENDS WalkTrees, TLC

CONSTANTS MaxN, GenMaxN

VARIABLES T, F, mode, start, cur, hist, done, g
vars == <<T, F, mode, start, cur, hist, done, g>>

NoGen == [on |-> "-", back |-> FALSE, rec |-> FALSE, self |-> FALSE, stack |-> <<>>, out |-> <<>>, fin |-> FALSE]

Init == /\ \E n \in 1..MaxN : \E p \in ParVecs(n) : \E m \in BOOLEAN : T = MkTree(n, p, m)
        /\ F \in SUBSET (1..T.n)
        /\ mode = "idle" /\ start = 0 /\ cur = 0 /\ hist = <<>> /\ done = FALSE /\ g = NoGen

All == Nodes(T)

(* ------------------------------------------------- navigation iterations -- *)
Iters == {"step_fwd", "step_back", "step_fwd_top", "step_back_top", "next", "prev", "next_child", "prev_child"}

Begin == /\ mode = "idle"
         /\ \E a \in Iters, x \in All :
              /\ mode' = a /\ start' = x
              /\ cur' = CASE a = "next" -> FirstChild(T, x, F)
                          [] a = "prev" -> LastChild(T, x, F)
                          [] a \in {"next_child", "prev_child"} -> 0
                          [] OTHER -> x
              /\ hist' = IF a \in {"next", "prev"} /\ cur' # 0 THEN <<cur'>> ELSE <<>>
              /\ done' = (a \in {"next", "prev"} /\ cur' = 0)
         /\ UNCHANGED <<T, F, g>>

Advance(y) == /\ IF y = 0 THEN done' = TRUE /\ UNCHANGED <<cur, hist>>
                 ELSE done' = FALSE /\ cur' = y /\ hist' = hist \o <<y>>
              /\ UNCHANGED <<T, F, mode, start, g>>

DoStepFwd     == mode = "step_fwd" /\ ~done /\ Advance(StepFwd(T, cur, F, TRUE, 0))
DoStepBack    == mode = "step_back" /\ ~done /\ Advance(StepBack(T, cur, F, TRUE, 0))
DoStepFwdTop  == mode = "step_fwd_top" /\ ~done /\ Advance(StepFwd(T, cur, F, TRUE, start))
DoStepBackTop == mode = "step_back_top" /\ ~done /\ Advance(StepBack(T, cur, F, TRUE, start))
DoNext        == mode = "next" /\ ~done /\ Advance(NextSib(T, cur, F))
DoPrev        == mode = "prev" /\ ~done /\ Advance(PrevSib(T, cur, F))
DoNextChild   == mode = "next_child" /\ ~done /\ Advance(NextChild(T, start, cur, F))
DoPrevChild   == mode = "prev_child" /\ ~done /\ Advance(PrevChild(T, start, cur, F))

Finish == /\ done /\ mode # "gen"
          /\ mode' = "idle" /\ start' = 0 /\ cur' = 0 /\ hist' = <<>> /\ done' = FALSE
          /\ UNCHANGED <<T, F, g>>

(* --------------------------------------------------- the walk generator -- *)
(* Operational refinement of WalkSeq, shaped like fst_traverse.walk(): a      *)
(* stack of nodes to enter ([k |-> "in"]) and, for leave/both, markers of      *)
(* nodes to leave ([k |-> "out"]); one action per next() of the generator.    *)
In(x)  == [k |-> "in", x |-> x]
Out(x) == [k |-> "out", x |-> x]
PushKids(st, x, back) == LET cs == Dir(T, x, back) IN st \o [i \in 1..Len(cs) |-> In(cs[Len(cs) + 1 - i])]   \* top = last
Top(st) == st[Len(st)]
Pop(st) == SubSeq(st, 1, Len(st) - 1)

GenBegin == /\ mode = "idle" /\ T.n <= GenMaxN
            /\ \E on \in {"enter", "leave", "both"}, back \in BOOLEAN, rec \in BOOLEAN, self \in BOOLEAN :
                 LET cs   == Dir(T, 1, back)
                     st0  == IF on = "leave" /\ ~rec
                             THEN [i \in 1..Len(cs) |-> Out(cs[Len(cs) + 1 - i])]   \* first level pre-processed
                             ELSE PushKids(<<>>, 1, back)
                     out0 == IF self /\ on # "leave" /\ 1 \in F THEN <<Ev(1, FALSE)>> ELSE <<>>
                 IN g' = [on |-> on, back |-> back, rec |-> rec, self |-> self, stack |-> st0,
                          out |-> out0, fin |-> FALSE]
            /\ mode' = "gen" /\ start' = 1 /\ UNCHANGED <<T, F, cur, hist, done>>

(* one pop of the stack; yields at most one event                            *)
GenPop ==
  LET e  == Top(g.stack)
      st == Pop(g.stack)
      x  == e.x
  IN CASE g.on = "enter" ->
            [g EXCEPT !.out = IF x \in F THEN @ \o <<Ev(x, FALSE)>> ELSE @,
                      !.stack = IF g.rec THEN PushKids(st, x, g.back) ELSE st]
       [] g.on = "leave" ->
            IF e.k = "out" THEN [g EXCEPT !.out = IF x \in F THEN @ \o <<Ev(x, TRUE)>> ELSE @, !.stack = st]
            ELSE IF x \notin F THEN [g EXCEPT !.stack = PushKids(st, x, g.back)]
            ELSE IF T.kids[x] # <<>> THEN [g EXCEPT !.stack = PushKids(st \o <<Out(x)>>, x, g.back)]
            ELSE [g EXCEPT !.out = @ \o <<Ev(x, TRUE)>>, !.stack = st]
       [] OTHER ->
            IF e.k = "out" THEN [g EXCEPT !.out = IF x \in F THEN @ \o <<Ev(x, TRUE)>> ELSE @, !.stack = st]
            ELSE IF x \in F
                 THEN [g EXCEPT !.out = @ \o <<Ev(x, FALSE)>>,
                                !.stack = IF g.rec THEN PushKids(st \o <<Out(x)>>, x, g.back) ELSE st \o <<Out(x)>>]
                 ELSE [g EXCEPT !.stack = IF g.rec THEN PushKids(st, x, g.back) ELSE st]

GenNext == /\ mode = "gen" /\ ~g.fin /\ g.stack # <<>>
           /\ g' = GenPop
           /\ UNCHANGED <<T, F, mode, start, cur, hist, done>>

SelfLeaves(gg) == gg.self /\ gg.on # "enter"
GenFinish == /\ mode = "gen" /\ ~g.fin /\ g.stack = <<>>
             /\ g' = [g EXCEPT !.fin = TRUE,
                               !.out = IF SelfLeaves(g) /\ 1 \in F THEN @ \o <<Ev(1, TRUE)>> ELSE @]
             /\ UNCHANGED <<T, F, mode, start, cur, hist, done>>
GenClose == /\ mode = "gen" /\ g.fin /\ mode' = "idle" /\ g' = NoGen /\ start' = 0
            /\ UNCHANGED <<T, F, cur, hist, done>>

Next == \/ Begin \/ DoStepFwd \/ DoStepBack \/ DoStepFwdTop \/ DoStepBackTop \/ DoNext \/ DoPrev
        \/ DoNextChild \/ DoPrevChild \/ Finish
        \/ GenBegin \/ GenNext \/ GenFinish \/ GenClose
Spec == Init /\ [][Next]_vars

(* -------------------------------------------------------------- theorems -- *)
ChildrenIn(x, back) == WalkNodes(T, x, "enter", back, FALSE, FALSE, F)   \* walk(recurse=False, self_=False)

(* "Repeated step_fwd()/step_back() reproduce the walk order", "next()/prev() *)
(* and next_child()/prev_child() agree with walk(recurse=False)"              *)
IterTheorems ==
  (done /\ mode # "gen") =>
    CASE mode = "step_fwd"      -> hist = Sel(After(PreD(T, 1, FALSE), start), F)
      [] mode = "step_back"     -> hist = Sel(After(PreD(T, 1, TRUE), start), F)
      [] mode = "step_fwd_top"  -> hist = WalkNodes(T, start, "enter", FALSE, TRUE, FALSE, F)
      [] mode = "step_back_top" -> hist = WalkNodes(T, start, "enter", TRUE, TRUE, FALSE, F)
      [] mode = "next"          -> hist = ChildrenIn(start, FALSE)
      [] mode = "prev"          -> hist = ChildrenIn(start, TRUE)
      [] mode = "next_child"    -> hist = ChildrenIn(start, FALSE)
      [] mode = "prev_child"    -> hist = ChildrenIn(start, TRUE)
      [] OTHER -> TRUE

(* the generator produces exactly the declarative sequence                    *)
GenTheorem ==
  (mode = "gen" /\ g.fin) => g.out = WalkSeq(T, 1, g.on, g.back, g.rec, g.self, F)
(* a prefix of it at any time                                                 *)
GenPrefix ==
  (mode = "gen" /\ ~g.fin) =>
    LET want == WalkSeq(T, 1, g.on, g.back, g.rec, g.self, F)
    IN Len(g.out) <= Len(want) /\ g.out = SubSeq(want, 1, Len(g.out))

(* static theorems about the sequences, evaluated once per (tree, F)          *)
Idle == mode = "idle"
IdxIn(s, x) == PosIn(s, x)

ThmSetOnce ==        \* every node of the subtree exactly once, in every order
  Idle => \A x \in All : \A b \in BOOLEAN :
    /\ Len(PreD(T, x, b)) = Cardinality(Desc(T, x)) /\ SeqRange(PreD(T, x, b)) = Desc(T, x)
    /\ Len(PostD(T, x, b)) = Cardinality(Desc(T, x)) /\ SeqRange(PostD(T, x, b)) = Desc(T, x)
    /\ Desc(T, x) = {y \in All : IsUnder(T, x, y)}

ThmParentChild ==    \* parents before children on enter, after on leave
  Idle => \A b \in BOOLEAN : \A y \in All \ {1} :
    /\ IdxIn(PreD(T, 1, b), T.par[y]) < IdxIn(PreD(T, 1, b), y)
    /\ IdxIn(PostD(T, 1, b), T.par[y]) > IdxIn(PostD(T, 1, b), y)

ThmSiblingOrder ==   \* siblings in kids order; back reverses sibling order only
  Idle => \A p \in All : \A i, j \in 1..Len(T.kids[p]) : i < j =>
    LET a == T.kids[p][i]  c == T.kids[p][j]
    IN /\ IdxIn(PreD(T, 1, FALSE), a) < IdxIn(PreD(T, 1, FALSE), c)
       /\ IdxIn(PreD(T, 1, TRUE), a) > IdxIn(PreD(T, 1, TRUE), c)
       /\ IdxIn(PostD(T, 1, FALSE), a) < IdxIn(PostD(T, 1, FALSE), c)
       /\ IdxIn(PostD(T, 1, TRUE), a) > IdxIn(PostD(T, 1, TRUE), c)

ThmNumbering ==      \* independent characterisation: nodes were numbered in pre-order
  Idle => IF T.mirror THEN PreD(T, 1, TRUE) = [i \in 1..T.n |-> i] ELSE PreD(T, 1, FALSE) = [i \in 1..T.n |-> i]

ThmPostIsRevPre ==   \* leaving order is the mirror image of the entering order of the opposite direction
  Idle => \A x \in All : \A b \in BOOLEAN : PostD(T, x, b) = Rev(PreD(T, x, ~b))

ThmBoth ==           \* on='both': enters are the enter walk, leaves the leave walk, properly bracketed
  Idle => \A x \in All : \A b \in BOOLEAN :
    LET s == BothD(T, x, b)
        ent == NodesOf(SelectSeq(s, LAMBDA e : ~e.lv))
        lvs == NodesOf(SelectSeq(s, LAMBDA e : e.lv))
        ie(y) == MinOf({i \in 1..Len(s) : s[i] = Ev(y, FALSE)})
        il(y) == MinOf({i \in 1..Len(s) : s[i] = Ev(y, TRUE)})
    IN /\ ent = PreD(T, x, b) /\ lvs = PostD(T, x, b)
       /\ \A y \in Desc(T, x) : ie(y) < il(y)
            /\ {s[i].n : i \in (ie(y) + 1)..(il(y) - 1)} = Desc(T, y) \ {y}

ThmNextPrevInverse ==   \* next()/prev() mutually inverse (same filter on both calls)
  Idle => \A a, c \in F : (NextSib(T, a, F) = c) <=> (PrevSib(T, c, F) = a)
ThmChildInverse ==      \* next_child()/prev_child() mutually inverse and equal to next()/prev()
  Idle => \A p \in All : \A a \in SeqRange(T.kids[p]) :
    /\ NextChild(T, p, a, F) = NextSib(T, a, F) /\ PrevChild(T, p, a, F) = PrevSib(T, a, F)
    /\ \A c \in SeqRange(T.kids[p]) \cap F : a \in F => ((NextChild(T, p, a, F) = c) <=> (PrevChild(T, p, c, F) = a))

ThmStepLocal ==         \* step_fwd(recurse_self=False) skips exactly the subtree
  Idle => \A x \in All :
    LET pre == PreD(T, 1, FALSE)  preb == PreD(T, 1, TRUE)
        skipF == Sel(SelectSeq(After(pre, x), LAMBDA y : y \notin Desc(T, x)), F)
        skipB == Sel(SelectSeq(After(preb, x), LAMBDA y : y \notin Desc(T, x)), F)
    IN /\ StepFwd(T, x, F, FALSE, 0) = (IF skipF = <<>> THEN 0 ELSE skipF[1])
       /\ StepBack(T, x, F, FALSE, 0) = (IF skipB = <<>> THEN 0 ELSE skipB[1])

ThmStepViaSeq ==        \* the structural moves are exactly "the next node of F in the walk sequence"
  Idle => \A b \in BOOLEAN :
    LET pre  == PreD(T, 1, b)
        ipre == [x \in All |-> PosIn(pre, x)]
        nt   == NextTab(pre, F)
        size == [x \in All |-> Cardinality(Desc(T, x))]
    IN \A x \in All :
         IF b THEN /\ StepBack(T, x, F, TRUE, 0)  = StepSeq(pre, ipre, nt, x, 0)
                   /\ StepBack(T, x, F, FALSE, 0) = StepSeq(pre, ipre, nt, x, size[x] - 1)
              ELSE /\ StepFwd(T, x, F, TRUE, 0)   = StepSeq(pre, ipre, nt, x, 0)
                   /\ StepFwd(T, x, F, FALSE, 0)  = StepSeq(pre, ipre, nt, x, size[x] - 1)

(* child_path / child_from_path: inverse bijections between nodes and paths   *)
Paths(a) == {PathOf(T, a, x) : x \in Desc(T, a)}
ThmPath ==
  Idle => \A a \in All :
    /\ \A x \in Desc(T, a) : FromPath(T, a, PathOf(T, a, x)) = x
    /\ \A x, y \in Desc(T, a) : PathOf(T, a, x) = PathOf(T, a, y) => x = y
    /\ \A p \in Paths(a) : PathOf(T, a, FromPath(T, a, p)) = p
    /\ \A x \in Desc(T, a) : T.kids[x] = <<>> => FromPath(T, a, PathOf(T, a, x) \o <<0>>) = 0
=============================================================================
