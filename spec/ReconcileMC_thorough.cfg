\* thorough tier: two mutations, two mark/reconcile rounds, initial trees (S, B(S|S)) and (S, B(S,S|), S), no FST edit (covered by ReconcileMC.cfg)
SPECIFICATION Spec
CONSTANTS
  MaxObj = 24
  MaxPos = 18
  MaxMut = 2
  MaxRounds = 2
  MaxFst = 0
  InitShapes <- ShapesThor
VIEW View
CHECK_DEADLOCK FALSE
INVARIANT MarkNoAlias
INVARIANT NoChangeIffNoMut
INVARIANT UntouchedIntact
INVARIANT ResultUntouched
PROPERTY TouchedMonotone
PROPERTY InvalidatedRaises
PROPERTY ResultEqualsWork
PROPERTY NoChangeIdentity
