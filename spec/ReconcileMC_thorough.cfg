\* thorough tier: two mutations, two mark/reconcile rounds, initial tree (S, B(S|S))
SPECIFICATION Spec
CONSTANTS
  MaxObj = 24
  MaxPos = 18
  MaxMut = 2
  MaxRounds = 2
  MaxFst = 1
  InitShapes <- ShapesTwo
VIEW View
CHECK_DEADLOCK FALSE
INVARIANT MarkNoAlias
INVARIANT NoChangeIffNoMut
INVARIANT UntouchedIntact
INVARIANT ResultUntouched
PROPERTY TouchedMonotone
PROPERTY InvalidatedRaises
PROPERTY ResultEqualsWork
PROPERTY NoChangeIdentity
