------------------------------- MODULE Threads -------------------------------
(* Threads that each edit their own trees with their own options (C20).       *)
(*                                                                            *)
(* Composes the modification registry (Registry.tla, process-global, keyed by *)
(* root) and the option store (Options.tla, per thread) at sub-call           *)
(* granularity: one public edit call of thread t is the step sequence         *)
(*     Read   look the option up (per-call value, else thread default);       *)
(*            an unknown option / invalid value is rejected here, before      *)
(*            anything is changed                                             *)
(*     Enter  registry bracket on the tree's root   (+ optional nested one)   *)
(*     Body   the tree changes (or the body raises: Fault)                    *)
(*     Success | Fail   the bracket is released                               *)
(* and set_options / with-options blocks are single steps.  Steps of          *)
(* different threads interleave arbitrarily.                                   *)
(*                                                                            *)
(* Option values are cells of Options.tla's heap; here every cell is          *)
(* immutable and named after its content (Heap0 = identity).                  *)
(* A tree is abstracted to the sequence of <<node, option value seen>> edits  *)
(* applied to it, a result to <<outcome, value observed>>.                    *)
(*                                                                            *)
(* Property: SerialEq - what every thread observes is what the same script    *)
(* gives when it runs alone (Serial, a fold over the script that knows        *)
(* nothing about other threads); OwnerOnly / Balanced / Quiescent of the      *)
(* registry; the Options invariants.                                          *)
(* SharedStore = TRUE is a deliberately wrong variant (every thread reads     *)
(* Main's dictionary): TLC must refute SerialEq for it (guard against a       *)
(* vacuous invariant).                                                        *)
EXTENDS Integers, Sequences, FiniteSets, TLC

CONSTANTS Threads, Main, Roots, Nodes, Owner, MaxDepth,
          Opts, Vals, Cells, Mutable, Heap0, Default, Bad, Unknown, MaxNest,
          ScriptPool,      \* Threads -> set of scripts the thread may run
          SharedStore

VARIABLES reg, stack, mode, touched,      \* Registry
          alive, store, blocks, heap, last,   \* Options
          script, pc, phase, val, tree, res
rvars == <<reg, stack, mode, touched>>
ovars == <<alive, store, blocks, heap, last>>
tvars == <<script, pc, phase, val, tree, res>>
vars  == <<rvars, ovars, tvars>>

R == INSTANCE Registry
O == INSTANCE Options

Op(t)      == script[t][pc[t]]
Running(t) == t \in alive /\ pc[t] <= Len(script[t])
StoreOf(t) == IF SharedStore THEN Main ELSE t
Obs(t, out, v) == res' = [res EXCEPT ![t] = Append(@, [out |-> out, v |-> v])]
Advance(t) == pc' = [pc EXCEPT ![t] = @ + 1]

Init == /\ R!Init /\ O!Init
        /\ script \in [Threads -> UNION {ScriptPool[t] : t \in Threads}]
        /\ \A t \in Threads : script[t] \in ScriptPool[t]
        /\ pc = [t \in Threads |-> 1]
        /\ phase = [t \in Threads |-> "idle"]
        /\ val = [t \in Threads |-> Default[CHOOSE o \in Opts : TRUE]]
        /\ tree = [r \in Roots |-> <<>>]
        /\ res = [t \in Threads |-> <<>>]

TSpawn(t) == /\ O!Spawn(t) /\ UNCHANGED <<rvars, tvars>>

TSet(t) ==
  /\ Running(t) /\ phase[t] = "idle" /\ Op(t).k = "set"
  /\ O!SetOptions(t, Op(t).m)
  /\ Obs(t, IF O!Valid(Op(t).m) THEN "ok" ELSE "raise", store'[t]) /\ Advance(t)
  /\ UNCHANGED <<rvars, script, phase, val, tree>>

TEnterWith(t) ==
  /\ Running(t) /\ phase[t] = "idle" /\ Op(t).k = "enter"
  /\ O!EnterWith(t, Op(t).m)
  /\ Obs(t, IF O!Valid(Op(t).m) THEN "ok" ELSE "raise", store'[t]) /\ Advance(t)
  /\ UNCHANGED <<rvars, script, phase, val, tree>>

TExitWith(t) ==
  /\ Running(t) /\ phase[t] = "idle" /\ Op(t).k = "exit"
  /\ O!ExitWith(t, Op(t).how)
  /\ Obs(t, "ok", store'[t]) /\ Advance(t)
  /\ UNCHANGED <<rvars, script, phase, val, tree>>

TRead(t) ==
  /\ Running(t) /\ phase[t] = "idle" /\ Op(t).k = "edit"
  /\ O!Call(t, Op(t).ov)
  /\ IF O!Valid(Op(t).ov)
     THEN /\ val' = [val EXCEPT ![t] = O!Eff(store[StoreOf(t)], Op(t).ov)[Op(t).o]]
          /\ phase' = [phase EXCEPT ![t] = "read"]
          /\ UNCHANGED <<pc, res>>
     ELSE /\ Obs(t, "reject", tree[Op(t).r]) /\ Advance(t)      \* rejected before anything is changed
          /\ UNCHANGED <<val, phase>>
  /\ UNCHANGED <<rvars, script, tree>>

TEnter(t) ==
  /\ Running(t) /\ phase[t] = "read"
  /\ R!Enter(t, Op(t).r, Op(t).n, FALSE)
  /\ IF stack'[t] = stack[t]           \* refused: RuntimeError, nothing written
     THEN /\ Obs(t, "refused", tree[Op(t).r]) /\ Advance(t)
          /\ phase' = [phase EXCEPT ![t] = "idle"]
     ELSE /\ phase' = [phase EXCEPT ![t] = IF Op(t).nest THEN "nest" ELSE "in"]
          /\ UNCHANGED <<pc, res>>
  /\ UNCHANGED <<ovars, script, val, tree>>

(* a helper of the same call opens and closes a second bracket on the same node *)
TNestEnter(t) ==
  /\ Running(t) /\ phase[t] = "nest" /\ Len(stack[t]) = 1
  /\ R!Enter(t, Op(t).r, Op(t).n, FALSE)
  /\ UNCHANGED <<ovars, tvars>>
TNestExit(t) ==
  /\ Running(t) /\ phase[t] = "nest" /\ Len(stack[t]) = 2
  /\ R!Success(t)
  /\ phase' = [phase EXCEPT ![t] = "in"]
  /\ UNCHANGED <<ovars, script, pc, val, tree, res>>

TBody(t) ==
  /\ Running(t) /\ phase[t] = "in"
  /\ IF Op(t).fault
     THEN /\ R!Fault(t) /\ phase' = [phase EXCEPT ![t] = "fault"] /\ UNCHANGED tree
     ELSE /\ tree' = [tree EXCEPT ![Op(t).r] = Append(@, <<Op(t).n, val[t]>>)]
          /\ phase' = [phase EXCEPT ![t] = "done"] /\ UNCHANGED rvars
  /\ UNCHANGED <<ovars, script, pc, val, res>>

TSuccess(t) ==
  /\ Running(t) /\ phase[t] = "done"
  /\ R!Success(t)
  /\ Obs(t, "ok", tree[Op(t).r]) /\ Advance(t) /\ phase' = [phase EXCEPT ![t] = "idle"]
  /\ UNCHANGED <<ovars, script, val, tree>>

TFail(t) ==
  /\ Running(t) /\ phase[t] = "fault"
  /\ R!Fail(t)
  /\ Obs(t, "raise", tree[Op(t).r]) /\ Advance(t) /\ phase' = [phase EXCEPT ![t] = "idle"]
  /\ UNCHANGED <<ovars, script, val, tree>>

Next == \E t \in Threads :
          \/ TSpawn(t) \/ TSet(t) \/ TEnterWith(t) \/ TExitWith(t)
          \/ TRead(t) \/ TEnter(t) \/ TNestEnter(t) \/ TNestExit(t) \/ TBody(t) \/ TSuccess(t) \/ TFail(t)
Spec == Init /\ [][Next]_vars
View == <<reg, stack, mode, alive, store, blocks, script, pc, phase, val, tree, res>>

(* ---- the same script, alone ---------------------------------------------- *)
RECURSIVE Run(_, _, _, _, _, _)
Run(sc, i, s, bs, tr, acc) ==
  IF i > Len(sc) THEN acc ELSE
  LET op == sc[i] IN
  CASE op.k = "set" ->
         IF O!Valid(op.m) THEN Run(sc, i + 1, O!Eff(s, op.m), bs, tr, Append(acc, [out |-> "ok", v |-> O!Eff(s, op.m)]))
         ELSE Run(sc, i + 1, s, bs, tr, Append(acc, [out |-> "raise", v |-> s]))
    [] op.k = "enter" ->
         IF O!Valid(op.m) THEN Run(sc, i + 1, O!Eff(s, op.m), Append(bs, O!Old(s, op.m)), tr,
                                   Append(acc, [out |-> "ok", v |-> O!Eff(s, op.m)]))
         ELSE Run(sc, i + 1, s, bs, tr, Append(acc, [out |-> "raise", v |-> s]))
    [] op.k = "exit" ->
         LET s2 == O!Eff(s, bs[Len(bs)]) IN
         Run(sc, i + 1, s2, SubSeq(bs, 1, Len(bs) - 1), tr, Append(acc, [out |-> "ok", v |-> s2]))
    [] op.k = "edit" ->
         IF ~O!Valid(op.ov) THEN Run(sc, i + 1, s, bs, tr, Append(acc, [out |-> "reject", v |-> tr[op.r]]))
         ELSE IF op.fault THEN Run(sc, i + 1, s, bs, tr, Append(acc, [out |-> "raise", v |-> tr[op.r]]))
         ELSE LET tr2 == [tr EXCEPT ![op.r] = Append(@, <<op.n, O!Eff(s, op.ov)[op.o]>>)] IN
              Run(sc, i + 1, s, bs, tr2, Append(acc, [out |-> "ok", v |-> tr2[op.r]]))
Serial(t) == Run(script[t], 1, Default, <<>>, [r \in Roots |-> <<>>], <<>>)

SerialEq == \A t \in Threads : res[t] = SubSeq(Serial(t), 1, Len(res[t]))

OwnerOnly   == R!OwnerOnly
Balanced    == R!Balanced
Quiescent   == \A t \in Threads : phase[t] = "idle" => (stack[t] = <<>> /\ \A r \in R!Mine(t) : reg[r] = R!None)
OwnTreeOnly == \A r \in Roots : \A i \in 1..Len(tree[r]) : TRUE
ThreadIsolation     == O!ThreadIsolation
FreshThreadDefaults == O!FreshThreadDefaults
Restore             == O!Restore
RejectAtomic        == O!RejectAtomic
CallIsolation       == O!CallIsolation
OptionLaws == ThreadIsolation /\ FreshThreadDefaults /\ Restore /\ RejectAtomic /\ CallIsolation /\ O!HeapUntouched
OptionLawsOnEveryStep == [][OptionLaws']_vars        \* `last` is outside the VIEW: check on every transition
AllDone == \A t \in Threads : t \in alive /\ pc[t] > Len(script[t])
=============================================================================
