------------------------------ MODULE LocFindMC ------------------------------
(* (M) for C06: the brute-force by-location search definitions of LocFind     *)
(* are well-defined (at most one answer) on every well-formed span tree with  *)
(* at most MaxN nodes on the grid 0..G, and the loops of fst.py               *)
(* (find_in_loc / find_contains_loc / find_loc, transcribed below as AlgIn /  *)
(* AlgC / AlgLoc) compute them - except for the documented 'top' mode, whose  *)
(* deviation is characterised exactly (TopDeviation).                         *)
(*                                                                            *)
(* Well-formed = what C06 states about locations: children inside parents     *)
(* (Nested), siblings in syntax order without overlap (Ordered).  Trees are   *)
(* built node by node in pre-order (AddNode), then one query is asked (Ask).  *)
EXTENDS LocFind, TLC

CONSTANTS MaxN, G, AllowEmpty      \* AllowEmpty: zero-length node spans (pfst: empty `arguments`)

VARIABLES par, sp, frm, r, phase
vars == <<par, sp, frm, r, phase>>

Spans == {<<s, e>> : s \in 0..G, e \in 0..G} \cap {x \in (0..G) \X (0..G) : x[1] <= x[2]}
NodeSpans == {x \in Spans : AllowEmpty \/ x[1] < x[2]}

N == Len(par)
RightPath == {N} \cup Ancs(par, N)
Kids(p) == {c \in 1..N : par[c] = p}
MaxOf(S) == CHOOSE x \in S : \A y \in S : y <= x

Init == /\ par = <<0>> /\ sp \in {<<x>> : x \in NodeSpans}
        /\ frm = 1 /\ r = <<0, 0>> /\ phase = "build"

AddNode == /\ phase = "build" /\ N < MaxN
           /\ \E p \in RightPath, x \in NodeSpans :
                /\ Within(x, sp[p])                                              \* Nested
                /\ Kids(p) # {} => sp[MaxOf(Kids(p))][2] <= x[1]                 \* Ordered
                /\ par' = Append(par, p) /\ sp' = Append(sp, x)
           /\ UNCHANGED <<frm, r, phase>>

Ask == /\ phase = "build"
       /\ \E f \in 1..N, x \in Spans : frm' = f /\ r' = x
       /\ phase' = "asked" /\ UNCHANGED <<par, sp>>

Next == AddNode \/ Ask
Spec == Init /\ [][Next]_vars

(* ---- the loops of fst.py, on pre-order numbered trees ---------------------- *)
(* `for f in self.walk('loc', self_=False)` enumerates self+1 .. LastOf(self)   *)
LastOf(f) == MaxOf({n \in 1..N : Under(par, n, f)})

RECURSIVE AlgInWalk(_, _, _)
AlgInWalk(f, g, q) ==
  IF g > LastOf(f) THEN 0
  ELSE IF sp[g][1] < q[1] THEN AlgInWalk(f, g + 1, q)          \* starts before the rectangle: continue
  ELSE IF sp[g][2] <= q[2] THEN g                              \* entirely inside: found
  ELSE AlgInWalk(g, g + 1, q)                                  \* self = f; break  (restart below g)
AlgIn(f, q) == IF Within(sp[f], q) THEN f ELSE AlgInWalk(f, f + 1, q)

RECURSIVE AlgCWalk(_, _, _, _)
AlgCWalk(f, g, q, mode) ==
  IF g > LastOf(f) THEN f
  ELSE IF sp[g][2] <= q[1] THEN AlgCWalk(f, g + 1, q, mode)    \* ends at or before the start: continue
  ELSE IF ~Covers(sp[g], q) THEN f
  ELSE IF mode = "F" /\ sp[g] = q THEN f
  ELSE AlgCWalk(g, g + 1, q, mode)
AlgC(f, q, mode) ==
  IF ~Covers(sp[f], q) THEN 0
  ELSE IF sp[f] = q /\ mode = "F" THEN 0
  ELSE IF sp[f] = q /\ mode = "top" THEN f
  ELSE AlgCWalk(f, f + 1, q, mode)

AlgLoc(f, q, top) ==
  LET c == AlgC(f, q, IF top THEN "top" ELSE "T")
  IN IF c = 0 THEN AlgIn(f, q)
     ELSE IF sp[c] = q THEN c
     ELSE LET i == AlgIn(c, q) IN IF i # 0 THEN i ELSE c

SN == Scope(par, sp, frm)             \* the nodes searched
ScopeIsRun == ScopePre(par, sp, frm) = Scope(par, sp, frm)

(* ---- theorems (checked in every "asked" state) ----------------------------- *)
Proper(q) == q[1] < q[2]
Asked == phase = "asked"
One(S) == Cardinality(S) <= 1
NoZeroNodes == \A n \in 1..N : sp[n][1] < sp[n][2]

WellDefined ==
  Asked => /\ One(FindIn(sp, SN, r))
           /\ FindIn(sp, SN, r) \subseteq FindInDecl(par, sp, SN, r)
           /\ NoZeroNodes => FindInDecl(par, sp, SN, r) = FindIn(sp, SN, r)
           /\ Proper(r) => /\ \A m \in {"T", "F", "top"} : One(FindContains(par, sp, SN, r, m))
                           /\ \A t \in BOOLEAN : One(FindLoc(par, sp, SN, r, t))

(* an empty rectangle between two touching nodes has two lowest containers: the *)
(* answer is then only required to be one of them (Agrees)                      *)
InRefines == Asked => Agrees(AlgIn(frm, r), FindIn(sp, SN, r))
ContainsRefines ==
  Asked => \A m \in {"T", "F"} :
     /\ Proper(r) => Agrees(AlgC(frm, r, m), FindContains(par, sp, SN, r, m))
     /\ Agrees(AlgC(frm, r, m), CovSet(sp, SN, r, m # "F"))     \* always: some containing node / None
LocRefines ==
  Asked =>
    /\ Determined(sp, SN, r) => Agrees(AlgLoc(frm, r, FALSE), FindLoc(par, sp, SN, r, FALSE))
    /\ NoZeroNodes => Agrees(AlgLoc(frm, r, FALSE), FindLocWeak(par, sp, SN, r, FALSE))

LocWeakest == Asked => \A t \in BOOLEAN : Agrees(AlgLoc(frm, r, t), FindLocWeakest(sp, SN, r))
ContainsTopWeak == Asked => Agrees(AlgC(frm, r, "top"), CovSet(sp, SN, r, TRUE))

(* 'top' as implemented: the loop never returns an exact match early, so the    *)
(* highest exact node is only returned when it is the node the search starts at *)
TopDeviation ==
  Asked /\ Proper(r) => LET E == ExactSet(sp, SN, r)
               a == AlgC(frm, r, "top")
           IN \/ Agrees(a, FindContains(par, sp, SN, r, "top"))
              \/ /\ Cardinality(E) > 1 /\ frm \notin E /\ a \in Lowest(par, E)
LocTopDeviation ==
  Asked /\ Determined(sp, SN, r) =>
     LET E == ExactSet(sp, SN, r)
         a == AlgLoc(frm, r, TRUE)
     IN \/ Agrees(a, FindLoc(par, sp, SN, r, TRUE))
        \/ /\ Cardinality(E) > 1 /\ frm \notin E /\ a \in Lowest(par, E)
=============================================================================
