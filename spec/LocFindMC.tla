------------------------------ MODULE LocFindMC ------------------------------
(* (M) for C06: the brute-force by-location search definitions of LocFind     *)
(* are well-defined (at most one answer) on every well-formed span tree with  *)
(* at most MaxN nodes on the grid 0..G, and the loops of fst.py               *)
(* (find_in_loc / find_contains_loc / find_loc, transcribed below as AlgIn /  *)
(* AlgC / AlgLoc) compute them, in every mode, without named deviations.      *)
(*                                                                            *)
(* Well-formed = what C06 states about locations: children inside parents     *)
(* (Nested), siblings in syntax order without overlap (Ordered) - both on the *)
(* BOUNDING location: a node may have DECORATOR children (dec[n] = TRUE),     *)
(* which come first in syntax order and lie BEFORE the node's own `loc`       *)
(* (inside the bounding location of the node, hence inside the grandparent).  *)
(* Trees are built node by node in pre-order (AddNode / AddDeco), then one    *)
(* query is asked (Ask).                                                      *)
EXTENDS LocFind, TLC

CONSTANTS MaxN, G, AllowEmpty      \* AllowEmpty: zero-length node spans (pfst: empty `arguments`)

VARIABLES par, sp, dec, frm, r, phase
vars == <<par, sp, dec, frm, r, phase>>

Spans == {<<s, e>> : s \in 0..G, e \in 0..G} \cap {x \in (0..G) \X (0..G) : x[1] <= x[2]}
NodeSpans == {x \in Spans : AllowEmpty \/ x[1] < x[2]}

N == Len(par)
RightPath == {N} \cup Ancs(par, N)
Kids(p) == {c \in 1..N : par[c] = p}
Decos(p) == {c \in Kids(p) : dec[c]}
MaxOf(S) == CHOOSE x \in S : \A y \in S : y <= x
MinOf(S) == CHOOSE x \in S : \A y \in S : x <= y
(* start of the bounding location: the first decorator, else the node itself   *)
BStart(n) == IF Decos(n) = {} THEN sp[n][1] ELSE sp[MinOf(Decos(n))][1]

Init == /\ par = <<0>> /\ sp \in {<<x>> : x \in NodeSpans} /\ dec = <<FALSE>>
        /\ frm = 1 /\ r = <<0, 0>> /\ phase = "build"

(* an ordinary child: inside the parent's loc, after the parent's previous child *)
AddNode == /\ phase = "build" /\ N < MaxN
           /\ \E p \in RightPath, x \in NodeSpans :
                /\ Within(x, sp[p])                                              \* Nested
                /\ Kids(p) \ Decos(p) # {} => sp[MaxOf(Kids(p))][2] <= x[1]      \* Ordered
                /\ par' = Append(par, p) /\ sp' = Append(sp, x) /\ dec' = Append(dec, FALSE)
           /\ UNCHANGED <<frm, r, phase>>

(* a decorator of p: only while p has no ordinary child yet (decorators come first),  *)
(* a proper span that ends before p's loc starts, after p's previous decorator, after *)
(* p's previous sibling and inside p's parent (p's bounding location is nested there); *)
(* decorators are expressions: they are not decorated themselves                       *)
InDeco(n) == dec[n] \/ \E a \in Ancs(par, n) : dec[a]
PrevSib(p) == {c \in Kids(par[p]) : c < p /\ ~dec[c]}
AddDeco == /\ phase = "build" /\ N < MaxN
           /\ \E p \in RightPath, x \in NodeSpans :
                /\ ~InDeco(p) /\ Kids(p) = Decos(p)
                /\ sp[p][1] < sp[p][2]                    \* a decorated node is a def / class: never zero-length
                /\ x[1] < x[2] /\ x[2] <= sp[p][1]
                /\ Decos(p) # {} => sp[MaxOf(Decos(p))][2] <= x[1]
                /\ par[p] # 0 => /\ sp[par[p]][1] <= x[1]
                                 /\ PrevSib(p) # {} => sp[MaxOf(PrevSib(p))][2] <= x[1]
                /\ par' = Append(par, p) /\ sp' = Append(sp, x) /\ dec' = Append(dec, TRUE)
           /\ UNCHANGED <<frm, r, phase>>

Ask == /\ phase = "build"
       /\ \E f \in 1..N, x \in Spans : frm' = f /\ r' = x
       /\ phase' = "asked" /\ UNCHANGED <<par, sp, dec>>

Next == AddNode \/ AddDeco \/ Ask
Spec == Init /\ [][Next]_vars

(* ---- the loops of fst.py, on pre-order numbered trees ---------------------- *)
(* `for f in self.walk('loc', self_=False)` enumerates self+1 .. LastOf(self)   *)
(* (decorators are the first children, so they directly follow their node)      *)
LastOf(f) == MaxOf({n \in 1..N : Under(par, n, f)})

RECURSIVE AlgInWalk(_, _, _)
AlgInWalk(f, g, q) ==
  IF g > LastOf(f) THEN 0
  ELSE IF sp[g][1] < q[1] THEN AlgInWalk(f, g + 1, q)          \* starts before the rectangle: continue
  ELSE IF sp[g][2] <= q[2] THEN g                              \* entirely inside: found
  ELSE AlgInWalk(g, g + 1, q)                                  \* self = f; break  (restart below g)
AlgIn(f, q) == IF Within(sp[f], q) THEN f ELSE AlgInWalk(f, f + 1, q)

RECURSIVE AlgCWalk(_, _, _, _)
AlgCWalk(f, g, q, mode) ==
  IF g > LastOf(f) THEN f
  ELSE IF sp[g][2] <= q[1] THEN AlgCWalk(f, g + 1, q, mode)    \* ends at or before the start: continue
  ELSE IF sp[g][1] > q[1]                                      \* starts after the start of the rectangle ...
       THEN (IF BStart(g) <= q[1] THEN AlgCWalk(f, g + 1, q, mode)   \* ... which is in g's decorators: they come next
             ELSE f)
  ELSE IF sp[g][2] < q[2] THEN f
  ELSE IF sp[g] = q /\ mode = "F" THEN f
  ELSE IF sp[g] = q /\ mode = "top" THEN g                     \* first exact match going down is the highest one
  ELSE AlgCWalk(g, g + 1, q, mode)

RECURSIVE AlgCDecos(_, _, _, _)
AlgC(f, q, mode) ==
  IF ~Covers(sp[f], q) THEN AlgCDecos(f, q, mode, Decos(f))     \* decorators are not part of our `loc`
  ELSE IF sp[f] = q /\ mode = "F" THEN 0
  ELSE IF sp[f] = q /\ mode = "top" THEN f
  ELSE AlgCWalk(f, f + 1, q, mode)
AlgCDecos(f, q, mode, D) ==
  IF D = {} THEN 0
  ELSE LET d == MinOf(D)  a == AlgC(d, q, mode)
       IN IF a # 0 THEN a ELSE AlgCDecos(f, q, mode, D \ {d})

AlgLoc(f, q, top) ==
  LET c == AlgC(f, q, IF top THEN "top" ELSE "T")
  IN IF c = 0 THEN AlgIn(f, q)
     ELSE IF sp[c] = q THEN c
     ELSE LET i == AlgIn(c, q) IN IF i # 0 THEN i ELSE c

SN == Scope(par, sp, frm)             \* the nodes searched
ScopeIsRun == ScopePre(par, sp, frm) = Scope(par, sp, frm)

(* ---- theorems (checked in every "asked" state) ----------------------------- *)
Proper(q) == q[1] < q[2]
Asked == phase = "asked"
One(S) == Cardinality(S) <= 1
NoZeroNodes == \A n \in 1..N : sp[n][1] < sp[n][2]
NoDecos == \A n \in 1..N : ~dec[n]

WellDefined ==
  Asked => /\ One(FindIn(sp, SN, r))
           /\ NoDecos => FindIn(sp, SN, r) \subseteq FindInDecl(par, sp, SN, r)
           /\ NoDecos /\ NoZeroNodes => FindInDecl(par, sp, SN, r) = FindIn(sp, SN, r)
           /\ Proper(r) => /\ \A m \in {"T", "F", "top"} : One(FindContains(par, sp, SN, r, m))
                           /\ \A t \in BOOLEAN : One(FindLoc(par, sp, SN, r, t))

(* an empty rectangle between two touching nodes has two lowest containers: the *)
(* answer is then only required to be one of the containing nodes (Agrees)      *)
InRefines == Asked => Agrees(AlgIn(frm, r), FindIn(sp, SN, r))
ContainsRefines ==
  Asked => \A m \in {"T", "F", "top"} :
     /\ Proper(r) => Agrees(AlgC(frm, r, m), FindContains(par, sp, SN, r, m))
     /\ Agrees(AlgC(frm, r, m), CovSet(sp, SN, r, m # "F"))     \* always: some containing node / None
LocRefines ==
  Asked => \A t \in BOOLEAN :
    /\ Determined(sp, SN, r) => Agrees(AlgLoc(frm, r, t), FindLoc(par, sp, SN, r, t))
    /\ Agrees(AlgLoc(frm, r, t), FindLocWeakest(sp, SN, r))
=============================================================================
