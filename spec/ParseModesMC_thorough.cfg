SPECIFICATION Spec
CONSTANTS
  MaxLine = 2
  MaxCol = 3
  MaxDLine = 2
  MaxDCol = 2
INVARIANT RoundTrip
INVARIANT Monotone
INVARIANT FaithfulAccepted
INVARIANT DelimitedRule
INVARIANT EscapeRejected
INVARIANT RuleTotal
CHECK_DEADLOCK TRUE
