SPECIFICATION Spec
CONSTANTS
  MaxNodes = 3
  MaxLines = 2
  MaxCols = 8
  AllowZero = FALSE
  AllowNoSep = FALSE
  AllowWrap = TRUE
  WarmModes <- MCWarmModes
  GapAlpha <- MCGapAlpha
  RichAlpha <- MCRichAlpha
  InsAlpha <- MCInsAlpha
CHECK_DEADLOCK FALSE
INVARIANT OnText
INVARIANT LawBefore
INVARIANT LawAfter
INVARIANT LawContains
INVARIANT LawTotal
INVARIANT SelfContains
INVARIANT ChangedVisited
INVARIANT CacheFresh
INVARIANT FlushesAllMoved
INVARIANT ZeroWidthLaw
