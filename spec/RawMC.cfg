SPECIFICATION Spec
CONSTANTS
  MaxFlat = 3
  MaxRepl = 1
  Valid <- ToyValid
  Parse <- ToyParse
  InitTexts <- ValidTexts
  Quads <- ToyQuads
  Repls <- ToyRepls
  NodeRects <- ToyNodeRects
CONSTRAINT Small
VIEW View
INVARIANT Sync
INVARIANT RootStable
INVARIANT SpliceIsCharwise
INVARIANT SpliceRoundTrip
INVARIANT ClipInRange
INVARIANT FlatRoundTrip
PROPERTY StepLaw
ACTION_CONSTRAINT CountCalls
POSTCONDITION AllKindsTaken
