------------------------------- MODULE PrecMC -------------------------------
(* Model of *deriving* a child of kind c in a slot s with the productions of  *)
(* python.gram: start at the slot's nonterminal, either the current           *)
(* nonterminal produces c (Produce -> "bare") or the derivation descends      *)
(* along its unit production (Descend); at the bottom (atom / t_atom /        *)
(* closed_pattern) the only way left is the parenthesised group (Group ->     *)
(* "pars") if the grammar allows c inside a group, else c cannot stand in s   *)
(* at all (Reject -> "invalid").                                              *)
(* TLC explores every (slot, kind) and checks that the outcome of the         *)
(* derivation equals what the level arithmetic of Prec.tla says (Valid,       *)
(* NeedsPars, NeedsInner), plus ladder laws (monotonicity, associativity,     *)
(* atoms).  It also emits the complete table as JSON for the harness.         *)
EXTENDS Prec, TLC, Json, IOUtils, SequencesExt

VARIABLES slot, child, cur, res
vars == <<slot, child, cur, res>>

(* ---- productions (python.gram, abridged to what decides grouping) ------ *)
Chain(nt) ==
  CASE nt = "assign_rhs" -> "star_expressions"
    [] nt = "star_expressions" -> "expression"
    [] nt = "fstring_field" -> "star_expressions"
    [] nt = "star_expression" -> "expression"
    [] nt = "star_named_expression" -> "named_expression"
    [] nt = "named_expression" -> "expression"
    [] nt = "args_item" -> "named_expression"
    [] nt = "slices" -> "named_expression"
    [] nt = "slice_item" -> "named_expression"
    [] nt = "subject_expr" -> "named_expression"
    [] nt = "expression" -> "disjunction"
    [] nt = "disjunction" -> "conjunction"
    [] nt = "conjunction" -> "inversion"
    [] nt = "inversion" -> "comparison"
    [] nt = "comparison" -> "bitwise_or"
    [] nt = "bitwise_or" -> "bitwise_xor"
    [] nt = "bitwise_xor" -> "bitwise_and"
    [] nt = "bitwise_and" -> "shift_expr"
    [] nt = "shift_expr" -> "sum"
    [] nt = "sum" -> "term"
    [] nt = "term" -> "factor"
    [] nt = "factor" -> "power"
    [] nt = "power" -> "await_primary"
    [] nt = "await_primary" -> "primary"
    [] nt = "primary" -> "atom"
    (* targets *)
    [] nt = "star_targets" -> "star_target"
    [] nt = "star_target_elt" -> "star_target"
    [] nt = "star_target" -> "t_atom"
    [] nt = "del_target" -> "t_atom"
    [] nt = "target_with_star_atom" -> "t_atom"
    (* patterns *)
    [] nt = "patterns" -> "pattern"
    [] nt = "maybe_star" -> "pattern"
    [] nt = "pattern" -> "or_pattern"
    [] nt = "or_pattern" -> "closed_pattern"
    [] OTHER -> "none"

Prod(nt) ==
  CASE nt = "assign_rhs" -> {"Yield", "Yield0", "YieldFrom"}
    [] nt = "star_expressions" -> {"Tuple", "Starred"}
    [] nt = "fstring_field" -> {"Yield", "Yield0", "YieldFrom"}
    [] nt = "star_expression" -> {"Starred"}
    [] nt = "star_named_expression" -> {"Starred"}
    [] nt = "named_expression" -> {"NamedExpr"}
    [] nt = "args_item" -> {"Starred", "StarredOr"}
    [] nt = "slices" -> {"Tuple", "Slice"}
    [] nt = "slice_item" -> {"Slice", "Starred", "StarredOr"}
    [] nt = "subject_expr" -> {"Tuple"}
    [] nt = "expression" -> TestKinds
    [] nt = "disjunction" -> {"Or"}
    [] nt = "conjunction" -> {"And"}
    [] nt = "inversion" -> {"Not"}
    [] nt = "comparison" -> CmpKinds
    [] nt = "bitwise_or" -> {"BitOr"}
    [] nt = "bitwise_xor" -> {"BitXor"}
    [] nt = "bitwise_and" -> {"BitAnd"}
    [] nt = "shift_expr" -> ShiftKinds
    [] nt = "sum" -> ArithKinds
    [] nt = "term" -> TermKinds
    [] nt = "factor" -> FactKinds
    [] nt = "power" -> {"Pow"}
    [] nt = "await_primary" -> {"Await"}
    [] nt = "primary" -> PrimKinds
    [] nt = "atom" -> AtomKinds
    [] nt = "star_targets" -> {"Tuple"}
    [] nt = "star_target_elt" -> {}
    [] nt = "star_target" -> {"Starred"}
    [] nt = "t_atom" -> {"Name", "Attribute", "Subscript", "List", "Tuple0"}
    [] nt = "single_target" -> {"Name", "Attribute", "Subscript"}
    [] nt = "ann_target" -> {"Name", "Attribute", "Subscript"}
    [] nt = "literal_value" -> TargetNT["literal_value"].kinds     \* a closed list of literal forms
    [] nt = "literal_key" -> TargetNT["literal_key"].kinds
    [] nt = "name_only" -> {"Name"}
    [] nt = "name_or_attr" -> {"Name", "Attribute"}
    [] nt = "patterns" -> {"OpenSeq"}
    [] nt = "maybe_star" -> {"MatchStar"}
    [] nt = "pattern" -> {"MatchAsP"}
    [] nt = "or_pattern" -> {"MatchOr"}
    [] nt = "closed_pattern" -> PatClosed
    [] OTHER -> {}

(* atom: '(' (yield_expr | named_expression) ')' | tuple;  star_atom: '(' target ')' | '(' targets ')';   *)
(* closed_pattern: group_pattern '(' pattern ')' | sequence_pattern '(' open_sequence ')'                  *)
Bottom(nt) == nt \in {"atom", "t_atom", "closed_pattern"}
Groupable(nt, c) ==
  CASE nt = "atom"           -> c \in ExprKinds \ {"Starred", "StarredOr", "Slice"}
    [] nt = "t_atom"         -> c = "Tuple"
    [] nt = "closed_pattern" -> c \in {"MatchAsP", "MatchOr", "OpenSeq"}
    [] OTHER -> FALSE

Init == /\ slot \in SlotIds
        /\ child \in KindsFor(slot)
        /\ cur = NT(slot)
        /\ res = "run"

Produce == /\ res = "run" /\ child \in Prod(cur) /\ ~Lexical(slot, NT(slot), child) /\ ~NeedsBlank(slot, child)
           /\ res' = "bare" /\ UNCHANGED <<slot, child, cur>>
LexicalPars == /\ res = "run" /\ child \in Prod(cur) /\ Lexical(slot, NT(slot), child)
               /\ res' = "pars" /\ UNCHANGED <<slot, child, cur>>
(* the operand is derived but its first character would fuse with the field's brace: `{{`                   *)
BlankSep == /\ res = "run" /\ child \in Prod(cur) /\ NeedsBlank(slot, child)
            /\ res' = "blank" /\ UNCHANGED <<slot, child, cur>>
(* '*' bitwise_or where the child is '*' disjunction: the star is produced here, its operand needs a group *)
StarOperandTooLow == child = "StarredOr" /\ child \notin Prod(cur) /\ "Starred" \in Prod(cur) /\ SlotCls(slot) = "load"
InnerGroup == /\ res = "run" /\ StarOperandTooLow
              /\ res' = "inner" /\ UNCHANGED <<slot, child, cur>>
Descend == /\ res = "run" /\ child \notin Prod(cur) /\ Chain(cur) # "none"
           /\ ~StarOperandTooLow
           /\ cur' = Chain(cur) /\ UNCHANGED <<slot, child, res>>
Group == /\ res = "run" /\ child \notin Prod(cur) /\ Bottom(cur) /\ Groupable(cur, child)
         /\ res' = "pars" /\ UNCHANGED <<slot, child, cur>>
Reject == /\ res = "run" /\ child \notin Prod(cur) /\ Chain(cur) = "none"
          /\ ~(Bottom(cur) /\ Groupable(cur, child))
          /\ res' = "invalid" /\ UNCHANGED <<slot, child, cur>>
Done == res # "run" /\ UNCHANGED vars

Next == Produce \/ LexicalPars \/ BlankSep \/ InnerGroup \/ Descend \/ Group \/ Reject \/ Done
Spec == Init /\ [][Next]_vars

(* ---- the level arithmetic agrees with the derivation -------------------- *)
DerivBare    == res = "bare"    => Valid(slot, child) /\ Bare(slot, child) /\ ~NeedsPars(slot, child)
DerivPars    == res = "pars"    => Valid(slot, child) /\ NeedsPars(slot, child)
DerivInner   == res = "inner"   => Valid(slot, child) /\ NeedsInner(slot, child) /\ ~NeedsPars(slot, child)
DerivBlank   == res = "blank"   => Valid(slot, child) /\ NeedsBlank(slot, child) /\ ~NeedsPars(slot, child) /\ ~Bare(slot, child)
DerivInvalid == res = "invalid" => ~Valid(slot, child) /\ ~NeedsPars(slot, child)
TypeOK       == /\ res \in {"run", "bare", "pars", "inner", "blank", "invalid"}
                /\ Valid(slot, child) \in BOOLEAN /\ NeedsPars(slot, child) \in BOOLEAN
                /\ (SlotCls(slot) = "load" => NT(slot) \in ExprNTs)
                /\ (SlotCls(slot) = "store" => NT(slot) \in TargetNTs)
                /\ (SlotCls(slot) = "pat" => NT(slot) \in PatNTs)
                /\ (child \in ExprKinds => Level(child) >= 0) /\ (child \in PatKinds => PLevel(child) >= 0)

(* ladder laws, for every slot against every kind (ASSUME: checked once)           *)
Monotone(slot_) == SlotCls(slot_) = "load" =>
  \A c1, c2 \in ExprKinds \ TopKinds :
     (Level(c1) <= Level(c2) /\ ~NeedsPars(slot_, c1) /\ ~Lexical(slot_, NT(slot_), c2)) => ~NeedsPars(slot_, c2)
AtomsNeverNeed(slot_) == \A c \in AtomKinds : Valid(slot_, c) /\ ~Lexical(slot_, NT(slot_), c) => ~NeedsPars(slot_, c)
(* left associativity: an operator is its own left operand without parentheses and never its own right      *)
(* operand; `**` is the mirror image; comparisons and BoolOps never nest bare (chains / flattening)          *)
Assoc == \A op \in BinOps :
  /\ NeedsPars("BinOp." \o op \o ".left", op) = (op = "Pow")
  /\ NeedsPars("BinOp." \o op \o ".right", op) = (op # "Pow")
NoNest == /\ \A c \in CmpKinds : NeedsPars("Compare.left", c) /\ NeedsPars("Compare.comparators.last", c)
          /\ NeedsPars("BoolOp.And.first", "And") /\ NeedsPars("BoolOp.Or.last", "Or")
          /\ ~NeedsPars("BoolOp.Or.first", "And") /\ NeedsPars("BoolOp.And.last", "Or")
          /\ ~NeedsPars("UnaryOp.Not.operand", "Not") /\ ~NeedsPars("UnaryOp.USub.operand", "USub")
          /\ NeedsPars("BinOp.Pow.left", "USub") /\ ~NeedsPars("BinOp.Pow.right", "USub")
          /\ ~NeedsPars("UnaryOp.USub.operand", "Pow") /\ NeedsPars("Await.value", "Await")
ASSUME LawsHold == /\ \A s \in SlotIds : Monotone(s) /\ AtomsNeverNeed(s)
                   /\ Assoc /\ NoNest
MLLaw == \A d \in 0..2, ml \in BOOLEAN, se \in BOOLEAN :
           NeedsParsML(d, ml, se) = (ml /\ ~se /\ d = 0)

(* ---- the table for the harness ------------------------------------------ *)
Rows == {Row(p[1], p[2]) : p \in RealCases}
ASSUME JsonSerialize(IOEnv.C09_TABLE, SetToSeq(Rows))
=============================================================================
