CONSTANTS
  Depths = {0, 1}
  SampleK = 1
  SampleN = 3
