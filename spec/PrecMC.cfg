SPECIFICATION Spec
INVARIANT TypeOK
INVARIANT DerivBare
INVARIANT DerivPars
INVARIANT DerivInner
INVARIANT DerivInvalid
INVARIANT MLLaw
CHECK_DEADLOCK FALSE
