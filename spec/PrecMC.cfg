SPECIFICATION Spec
INVARIANT TypeOK
INVARIANT DerivBare
INVARIANT DerivPars
INVARIANT DerivInner
INVARIANT DerivInvalid
INVARIANT Laws
INVARIANT MLLaw
CHECK_DEADLOCK FALSE
