SPECIFICATION Spec
INVARIANT TypeOK
INVARIANT DerivBare
INVARIANT DerivPars
INVARIANT DerivInner
INVARIANT DerivBlank
INVARIANT DerivInvalid
INVARIANT MLLaw
CHECK_DEADLOCK FALSE
