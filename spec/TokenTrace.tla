----------------------------- MODULE TokenTrace -----------------------------
(* Trace validation for C04: every successful structured edit recorded from   *)
(* the real pfst, inside the Sync domain, must satisfy the clauses of         *)
(* TokenLaws on the token / line facts recorded next to it (tokenize + ast    *)
(* of the pre / post source).  Reads the same event records as PfstTrace      *)
(* (EditLaws gives the request -> element range mapping by Python container   *)
(* semantics, the domain predicate and the case class); verdicts are total    *)
(* and clause-named, one PrintT(<<"VERDICT", id, bad, seen>>) per trace.      *)
EXTENDS EditLaws, TLC

TL == INSTANCE TokenLaws WITH KTab <- Batch.ktab, LTab <- Batch.ltab
Streams == Batch.streams

VARIABLES tid, l, st, bad, seen
vars == <<tid, l, st, bad, seen>>

Steps(t) == Traces[t].steps

(* ---- the elements the request denotes, as a 0-based half-open range over   *)
(* the recorded element extents (Python list semantics, Containers.tla)       *)
NE(e) == Len(e.tk.elems)
VA(s, e) == NormStart(NE(e), Lo(s, e), e.vlo)
VB(s, e) == Max(VA(s, e), NormStop(NE(e), Lo(s, e), e.vhi))
RangeLo(s, e) ==
  CASE e.form = "opt" -> 0
    [] e.form = "slice" /\ e.isView -> VA(s, e) + NormStart(VB(s, e) - VA(s, e), 0, e.start)
    [] e.form = "slice" -> NormStart(NE(e), Lo(s, e), e.start)
    [] e.isView -> VA(s, e) + NormIndex(VB(s, e) - VA(s, e), 0, e.idx)
    [] OTHER -> NormIndex(NE(e), Lo(s, e), e.idx)
RangeHi(s, e) ==
  CASE e.form = "opt" -> NE(e)
    [] e.form = "slice" /\ e.isView -> VA(s, e) + NormStop(VB(s, e) - VA(s, e), 0, e.stop)
    [] e.form = "slice" -> NormStop(NE(e), Lo(s, e), e.stop)
    [] OTHER -> RangeLo(s, e) + 1
RangeValid(s, e) ==
  /\ e.tk.elemsOk /\ WellFormed(s, e)
  /\ (e.form # "opt" => NE(e) = LenOld(s, e))          \* token facts and tree agree on the number of elements
  /\ (e.form = "opt" => NE(e) <= 1)
  /\ 0 <= RangeLo(s, e) /\ RangeLo(s, e) <= RangeHi(s, e) /\ RangeHi(s, e) <= NE(e)

NoNew(e) == e.newS = <<>> \/ Deleting(e)

Case(s, e) ==
  LET tk == e.tk  pre == Streams[tk.pre]  post == Streams[tk.post] IN
  [ T |-> pre.k, ts |-> pre.sl, te |-> pre.el, tf |-> pre.fol, L |-> pre.ln,
    U |-> post.k, us |-> post.sl, ue |-> post.el, uf |-> post.fol, M |-> post.ln,
    cLo |-> tk.c.lo, cHi |-> tk.c.hx, kids |-> tk.kids, E |-> tk.elems, r |-> tk.r,
    valid |-> RangeValid(s, e),
    ns |-> IF RangeValid(s, e) THEN RangeLo(s, e) ELSE 0,
    nt |-> IF RangeValid(s, e) THEN RangeHi(s, e) ELSE 0,
    own |-> {tk.own[i] : i \in DOMAIN tk.own}, uown |-> {tk.uown[i] : i \in DOMAIN tk.uown}, uoOk |-> tk.uoOk,
    newc |-> tk.newc, newk |-> tk.newk, stmt |-> tk.stmt, kind |-> TKind(s, e), field |-> e.field, form |-> e.form,
    deleting |-> NoNew(e), tv |-> tk.tv, docstr |-> tk.docstr,
    ds1 |-> {tk.ds1[i] : i \in DOMAIN tk.ds1}, ds2 |-> {tk.ds2[i] : i \in DOMAIN tk.ds2},
    elifPre |-> tk.elifPre, elifPost |-> tk.elifPost, soleGen |-> tk.soleGen,
    dependent |-> TKind(s, e) = "Raise" /\ e.field = "exc" /\ Deleting(e) ]

(* domain of C04 (DESIGN 4-C04): the edit succeeded, is a genuine container   *)
(* request inside the Sync domain (C01), and complete token facts exist       *)
InDomain(s, e) == /\ e.call = "edit" /\ e.outcome = "ok" /\ e.law /\ e.tk.ok
                  /\ SyncDomain(s, e) /\ WellFormed(s, e)

(* (G) events replayed from the case table of TokenGen.tla carry the lines the  *)
(* reference editor expects (e.g.expect, concretised with the same line table) *)
(* RefEdit.agree: the non-blank lines of the result are exactly those (header  *)
(* and footer of the block the list is embedded in included); for an           *)
(* insertion - whose position among the comments the documentation leaves open *)
(* - the same with the new line taken out                                       *)
NonBlankIds(seq) == SelectSeq(seq, LAMBDA x : ~Batch.ltab[x].b)
Without(seq, x)  == SelectSeq(seq, LAMBDA y : y # x)
RefAgree(e) ==
  LET got == NonBlankIds(e.g.got)          \* the lines of the result, indentation stripped (like e.g.expect)
      exp == NonBlankIds(e.g.expect)
  IN IF e.g.op = "insert" THEN Without(got, e.g.newline) = Without(exp, e.g.newline) /\ Len(got) = Len(exp)
     ELSE got = exp
GenClauses(s, e) == IF "g" \in DOMAIN e /\ e.outcome = "ok" /\ e.tk.ok THEN {Cl("RefEdit.agree", RefAgree(e))} ELSE {}

Clauses(s, e) == IF InDomain(s, e) THEN TL!TokenClauses(Case(s, e)) \cup GenClauses(s, e) ELSE {}
ClassOf(s, e) == IF InDomain(s, e) THEN EditClass(s, e) \o TL!LostClass(Case(s, e)) ELSE "?"

Init == /\ tid \in 1..Len(Traces)
        /\ l = 1
        /\ st = Traces[tid].init
        /\ bad = {}
        /\ seen = {}

Next == /\ l <= Len(Steps(tid))
        /\ LET e == Steps(tid)[l]
               cs == Clauses(st, e)
               failed == {q \in cs : ~q.ok}
           IN /\ bad' = bad \cup (IF failed = {} THEN {} ELSE {<<l, r.c, ClassOf(st, e)>> : r \in failed})
              /\ seen' = seen \cup {r.c : r \in cs}
              /\ st' = e.post
        /\ l' = l + 1
        /\ UNCHANGED tid

Spec == Init /\ [][Next]_vars

Report == (l = Len(Steps(tid)) + 1) => PrintT(<<"VERDICT", Traces[tid].id, bad, seen>>)
=============================================================================
