SPECIFICATION Spec
CONSTANTS
  N = 3
  MaxMut = 1
  MaxPark = 1
  MaxSend = 1
  Ons = {"enter", "leave", "both"}
  Backs = {FALSE, TRUE}
  Recs = {TRUE, FALSE}
  Selfs = {TRUE, FALSE}
  Shapes = {1, 2, 3, 4}
  WRemovable = TRUE
  Logging = FALSE
INVARIANT YieldedAlive
INVARIANT YieldedInTree
INVARIANT NoDoubleEnter
INVARIANT RemovedContinues
INVARIANT ReplacedChildrenNext
INVARIANT SendTrueHonoured
INVARIANT SendFalseHonoured
INVARIANT Bounded
PROPERTY Terminates
