SPECIFICATION SpecG
CHECK_DEADLOCK FALSE
CONSTANTS
  N = 5
  MaxMut = 2
  MaxPark = 2
  MaxSend = 2
  Ons = {"enter", "leave", "both"}
  Backs = {FALSE, TRUE}
  Recs = {TRUE, FALSE}
  Selfs = {TRUE, FALSE}
  Shapes = {1, 2, 3, 4}
  WRemovable = TRUE
  Logging = TRUE
INVARIANT YieldedAlive
INVARIANT YieldedInTree
INVARIANT NoDoubleEnter
INVARIANT RemovedContinues
INVARIANT ReplacedChildrenNext
INVARIANT SendTrueHonoured
INVARIANT SendFalseHonoured
INVARIANT EmitLog
