-------------------------------- MODULE Prec --------------------------------
(* Grouping of Python expressions, assignment targets and match patterns,    *)
(* written from the Python 3.12 grammar (Grammar/python.gram), NOT from       *)
(* pfst's precedence tables.                                                  *)
(*                                                                            *)
(* A *slot* is a position of a parent node that holds one expression/pattern  *)
(* (an operand, the function of a call, a comprehension part, a statement     *)
(* level expression ...).  The grammar gives every slot a nonterminal NT(s).  *)
(* A *child kind* is a class of replacement expressions (one per grammar      *)
(* alternative that matters for grouping).                                    *)
(*                                                                            *)
(* Two formulations are given and PrecMC checks that they agree for every     *)
(* (slot, kind):                                                              *)
(*   - level arithmetic:  Bare(s, c) == Level(c) >= Min(NT(s))  or  c is one   *)
(*     of the "top" alternatives NT(s) admits (named-expr, bare tuple, yield, *)
(*     starred, slice are not on a linear ladder in the grammar);             *)
(*   - derivation: c is produced by a nonterminal reachable from NT(s) along  *)
(*     the unit productions of the grammar (Chain) without passing through    *)
(*     the parenthesised group of `atom`.                                     *)
(*   NeedsPars(s, c) == Valid(s, c) /\ ~Bare(s, c)                            *)
(*                                                                            *)
(* Line structure: a NEWLINE inside (), [] or {} is ignored by the tokenizer  *)
(* (implicit line joining); elsewhere it ends the logical line.  So a child   *)
(* whose text has a line break outside its own brackets needs parentheses     *)
(* unless the slot is inside an open bracket: NeedsParsML.                    *)
EXTENDS Integers, Sequences, FiniteSets, TLC

(* ---------------------------------------------------------------------- *)
(* expression ladder (python.gram: expression > disjunction > conjunction  *)
(* > inversion > comparison > bitwise_or > bitwise_xor > bitwise_and >     *)
(* shift_expr > sum > term > factor > power > await_primary > primary >    *)
(* atom)                                                                    *)
L_TOP    == 0      \* alternatives above `expression`: admitted by name only
L_TEST   == 4      \* expression:   d 'if' d 'else' expression | lambdef
L_OR     == 5      \* disjunction
L_AND    == 6      \* conjunction
L_NOT    == 7      \* inversion
L_CMP    == 8      \* comparison
L_BOR    == 9      \* bitwise_or
L_BXOR   == 10
L_BAND   == 11
L_SHIFT  == 12
L_ARITH  == 13     \* sum
L_TERM   == 14     \* term
L_FACTOR == 15     \* factor:  ('+'|'-'|'~') factor | power
L_POWER  == 16     \* power:   await_primary '**' factor | await_primary
L_AWAIT  == 17     \* await_primary: 'await' primary | primary
L_PRIM   == 18     \* primary: primary '.' NAME | primary '(' ')' | primary '[' ']' | atom
L_ATOM   == 19

TopKinds   == {"NamedExpr", "Tuple", "Yield", "Yield0", "YieldFrom", "Starred", "StarredOr", "Slice"}
TestKinds  == {"IfExp", "Lambda", "LambdaArgs"}
CmpKinds   == {"Compare", "CompareIn", "CompareIsNot", "CompareChain", "CompareNotEq"}
ShiftKinds == {"LShift", "RShift"}
ArithKinds == {"Add", "Sub", "ComplexLit", "ComplexNeg",      \* `1 + 2j`, `-1 - 2j`: the complex literals of patterns
               "IntSum", "ImagFirst"}                        \* `1 + 2`, `2j + 1`: look-alikes that are not
TermKinds  == {"Mult", "Div", "FloorDiv", "Mod", "MatMult"}
FactKinds  == {"USub", "UAdd", "Invert", "NegNum", "PosNum"}  \* `-7`: signed number; `+7` is not one
PrimKinds  == {"Call", "Attribute", "Subscript"}
AtomKinds  == {"Name", "Int", "Float", "Imag", "Str", "StrDq", "StrConcat", "Bytes", "JoinedStr", "NameConst", "Ellipsis",
               "List", "Dict", "Set", "ListComp", "SetComp", "DictComp", "GeneratorExp", "Tuple0"}
ExprKinds  == TopKinds \cup TestKinds \cup {"Or", "And", "Not"} \cup CmpKinds \cup {"BitOr", "BitXor", "BitAnd"}
              \cup ShiftKinds \cup ArithKinds \cup TermKinds \cup FactKinds \cup {"Pow", "Await"} \cup PrimKinds
              \cup AtomKinds

Level(c) ==
  CASE c \in TopKinds   -> L_TOP
    [] c \in TestKinds  -> L_TEST
    [] c = "Or"         -> L_OR
    [] c = "And"        -> L_AND
    [] c = "Not"        -> L_NOT
    [] c \in CmpKinds   -> L_CMP
    [] c = "BitOr"      -> L_BOR
    [] c = "BitXor"     -> L_BXOR
    [] c = "BitAnd"     -> L_BAND
    [] c \in ShiftKinds -> L_SHIFT
    [] c \in ArithKinds -> L_ARITH
    [] c \in TermKinds  -> L_TERM
    [] c \in FactKinds  -> L_FACTOR
    [] c = "Pow"        -> L_POWER
    [] c = "Await"      -> L_AWAIT
    [] c \in PrimKinds  -> L_PRIM
    [] c \in AtomKinds  -> L_ATOM
    [] OTHER            -> -1

(* binary operators: level of the operator's own nonterminal               *)
BinOps == {"Add", "Sub", "Mult", "MatMult", "Div", "Mod", "FloorDiv", "LShift", "RShift", "BitOr", "BitXor",
           "BitAnd", "Pow"}
LadderNT(l) ==
  CASE l = L_TEST -> "expression" [] l = L_OR -> "disjunction" [] l = L_AND -> "conjunction"
    [] l = L_NOT -> "inversion" [] l = L_CMP -> "comparison" [] l = L_BOR -> "bitwise_or"
    [] l = L_BXOR -> "bitwise_xor" [] l = L_BAND -> "bitwise_and" [] l = L_SHIFT -> "shift_expr"
    [] l = L_ARITH -> "sum" [] l = L_TERM -> "term" [] l = L_FACTOR -> "factor" [] l = L_POWER -> "power"
    [] l = L_AWAIT -> "await_primary" [] l = L_PRIM -> "primary" [] OTHER -> "atom"
(* sum: sum '+' term -- left operand same level, right operand one tighter (left associative);           *)
(* power: await_primary '**' factor -- left operand tighter than power, right operand is a *factor*, so    *)
(* `a ** -b` and `a ** b ** c` need no parentheses and `(-a) ** b` does                                     *)
BinLeftNT(op)  == IF op = "Pow" THEN "await_primary" ELSE LadderNT(Level(op))
BinRightNT(op) == IF op = "Pow" THEN "factor" ELSE LadderNT(Level(op) + 1)

(* ---------------------------------------------------------------------- *)
(* nonterminals that slots use: smallest ladder level admitted and the top *)
(* alternatives admitted by name                                           *)
ExprNT ==
  [ assign_rhs            |-> [min |-> L_TEST, tops |-> {"Tuple", "Starred", "Yield", "Yield0", "YieldFrom"}],  \* (yield_expr | star_expressions)
    (* star_expressions: star_expression (',' star_expression)+ [','] | star_expression ',' | star_expression  *)
    (* -- a lone `*a` is grammatical here (`x = *a` is refused by the compiler, not by the parser)             *)
    star_expressions      |-> [min |-> L_TEST, tops |-> {"Tuple", "Starred"}],
    (* fstring_replacement_field: '{' annotated_rhs '='? [fstring_conversion] [fstring_full_format_spec] '}'    *)
    (* annotated_rhs: yield_expr | star_expressions  (also the nested fields of a format spec)                  *)
    fstring_field         |-> [min |-> L_TEST, tops |-> {"Tuple", "Starred", "Yield", "Yield0", "YieldFrom"}],
    star_expression       |-> [min |-> L_TEST, tops |-> {"Starred"}],               \* element of a bare tuple
    star_named_expression |-> [min |-> L_TEST, tops |-> {"NamedExpr", "Starred"}],  \* element of [..], {..}, (..,)
    named_expression      |-> [min |-> L_TEST, tops |-> {"NamedExpr"}],
    args_item             |-> [min |-> L_TEST, tops |-> {"NamedExpr", "Starred", "StarredOr"}],  \* '*' expression
    slices                |-> [min |-> L_TEST, tops |-> {"NamedExpr", "Tuple", "Slice"}],
    slice_item            |-> [min |-> L_TEST, tops |-> {"NamedExpr", "Slice", "Starred", "StarredOr"}],  \* '*' expression
    subject_expr          |-> [min |-> L_TEST, tops |-> {"NamedExpr", "Tuple"}],
    expression            |-> [min |-> L_TEST, tops |-> {}],
    disjunction           |-> [min |-> L_OR, tops |-> {}],
    conjunction           |-> [min |-> L_AND, tops |-> {}],
    inversion             |-> [min |-> L_NOT, tops |-> {}],
    comparison            |-> [min |-> L_CMP, tops |-> {}],
    bitwise_or            |-> [min |-> L_BOR, tops |-> {}],
    bitwise_xor           |-> [min |-> L_BXOR, tops |-> {}],
    bitwise_and           |-> [min |-> L_BAND, tops |-> {}],
    shift_expr            |-> [min |-> L_SHIFT, tops |-> {}],
    sum                   |-> [min |-> L_ARITH, tops |-> {}],
    term                  |-> [min |-> L_TERM, tops |-> {}],
    factor                |-> [min |-> L_FACTOR, tops |-> {}],
    power                 |-> [min |-> L_POWER, tops |-> {}],
    await_primary         |-> [min |-> L_AWAIT, tops |-> {}],
    primary               |-> [min |-> L_PRIM, tops |-> {}],
    atom                  |-> [min |-> L_ATOM, tops |-> {}] ]
ExprNTs == DOMAIN ExprNT

(* assignment targets (star_targets, star_target, single_target, del_target, t_primary/star_atom)        *)
TargetNT ==
  (* star_target: '*' (!'*' star_target) | target_with_star_atom -- a lone `*a = b` is grammatical (refused   *)
  (* by the compiler); `() = b` is a valid (empty) target                                                     *)
  [ star_targets    |-> [kinds |-> {"Name", "Attribute", "Subscript", "List", "Tuple", "Tuple0", "Starred"}, bareTuple |-> TRUE],
    star_target     |-> [kinds |-> {"Name", "Attribute", "Subscript", "List", "Tuple", "Tuple0", "Starred"}, bareTuple |-> FALSE],
    star_target_elt |-> [kinds |-> {"Name", "Attribute", "Subscript", "List", "Tuple", "Tuple0", "Starred"}, bareTuple |-> FALSE],
    del_target      |-> [kinds |-> {"Name", "Attribute", "Subscript", "List", "Tuple", "Tuple0"}, bareTuple |-> FALSE],
    target_with_star_atom |-> [kinds |-> {"Name", "Attribute", "Subscript", "List", "Tuple", "Tuple0"}, bareTuple |-> FALSE],
    (* assignment: NAME ':' expression ... | ('(' single_target ')' | single_subscript_attribute_target) ':' ...  *)
    ann_target      |-> [kinds |-> {"Name", "Attribute", "Subscript"}, bareTuple |-> FALSE],
    (* literal_pattern: signed_number | complex_number | strings;  value_pattern: attr (dotted name);           *)
    (* `None`/`True`/`False` are a MatchSingleton, not a MatchValue; literal_expr (mapping keys) admits them too.  *)
    (* f-strings are `strings` for the parser (the compiler refuses them, see CompilerRefusesN)                  *)
    literal_value   |-> [kinds |-> {"Int", "Float", "Imag", "Str", "StrDq", "StrConcat", "Bytes", "JoinedStr",
                                    "NegNum", "ComplexLit", "ComplexNeg", "Attribute"}, bareTuple |-> FALSE],
    literal_key     |-> [kinds |-> {"Int", "Float", "Imag", "Str", "StrDq", "StrConcat", "Bytes", "JoinedStr",
                                    "NegNum", "ComplexLit", "ComplexNeg", "Attribute", "NameConst"},
                         bareTuple |-> FALSE],
    single_target   |-> [kinds |-> {"Name", "Attribute", "Subscript"}, bareTuple |-> FALSE],
    name_only       |-> [kinds |-> {"Name"}, bareTuple |-> FALSE],
    name_or_attr    |-> [kinds |-> {"Name", "Attribute"}, bareTuple |-> FALSE] ]
TargetNTs == DOMAIN TargetNT

(* patterns: pattern: as_pattern | or_pattern;  as_pattern: or_pattern 'as' NAME;                         *)
(* or_pattern: '|'.closed_pattern+;  patterns: open_sequence_pattern | pattern                             *)
P_TOP == 0  P_AS == 1  P_OR == 2  P_CLOSED == 3
PatTop     == {"OpenSeq", "MatchStar"}
PatClosed  == {"MatchValue", "MatchValueAttr", "MatchValueNeg", "MatchSingleton", "Capture", "Wildcard",
               "MatchSeqBr", "MatchSeq0", "MatchMapping", "MatchClass", "MatchClassKw"}
PatKinds   == PatTop \cup {"MatchAsP", "MatchOr"} \cup PatClosed
PLevel(c) == CASE c \in PatTop -> P_TOP [] c = "MatchAsP" -> P_AS [] c = "MatchOr" -> P_OR
               [] c \in PatClosed -> P_CLOSED [] OTHER -> -1
PatNT ==
  [ patterns       |-> [min |-> P_AS, tops |-> {"OpenSeq"}],
    pattern        |-> [min |-> P_AS, tops |-> {}],
    maybe_star     |-> [min |-> P_AS, tops |-> {"MatchStar"}],
    or_pattern     |-> [min |-> P_OR, tops |-> {}],
    closed_pattern |-> [min |-> P_CLOSED, tops |-> {}] ]
PatNTs == DOMAIN PatNT

(* ---------------------------------------------------------------------- *)
(* slots: <<id, nonterminal>>.  The id is "Parent.field[.variant]"; the     *)
(* harness catalogue renders each id as a concrete statement.               *)
BinSlots == UNION {{<<"BinOp." \o op \o ".left", BinLeftNT(op)>>, <<"BinOp." \o op \o ".right", BinRightNT(op)>>}
                   : op \in BinOps}
ExprSlots == BinSlots \cup {
  <<"BoolOp.And.first", "inversion">>, <<"BoolOp.And.mid", "inversion">>, <<"BoolOp.And.last", "inversion">>,
  <<"BoolOp.Or.first", "conjunction">>, <<"BoolOp.Or.mid", "conjunction">>, <<"BoolOp.Or.last", "conjunction">>,
  <<"UnaryOp.Not.operand", "inversion">>, <<"UnaryOp.USub.operand", "factor">>,
  <<"UnaryOp.UAdd.operand", "factor">>, <<"UnaryOp.Invert.operand", "factor">>,
  <<"NamedExpr.value", "expression">>,
  <<"Lambda.body", "expression">>, <<"Lambda.default", "expression">>,
  <<"IfExp.body", "disjunction">>, <<"IfExp.test", "disjunction">>, <<"IfExp.orelse", "expression">>,
  <<"Dict.keys", "expression">>, <<"Dict.values", "expression">>,
  <<"Dict.values.unpack", "bitwise_or">>, <<"Dict.values.unpack2", "bitwise_or">>,      \* '**' bitwise_or
  <<"Set.elts", "star_named_expression">>, <<"List.elts", "star_named_expression">>,
  <<"List.elts.last", "star_named_expression">>, <<"Tuple.elts.par", "star_named_expression">>,
  <<"Tuple.elts.bare", "star_expression">>, <<"Tuple.elts.bare.last", "star_expression">>,
  <<"ListComp.elt", "named_expression">>, <<"SetComp.elt", "named_expression">>,
  <<"GeneratorExp.elt", "named_expression">>, <<"DictComp.key", "expression">>, <<"DictComp.value", "expression">>,
  <<"comprehension.iter", "disjunction">>, <<"comprehension.iter.second", "disjunction">>,
  <<"comprehension.iter.gen", "disjunction">>, <<"comprehension.iter.dict", "disjunction">>,
  <<"comprehension.ifs", "disjunction">>, <<"comprehension.ifs.second", "disjunction">>,
  <<"Await.value", "primary">>, <<"Yield.value", "star_expressions">>, <<"YieldFrom.value", "expression">>,
  <<"Compare.left", "bitwise_or">>, <<"Compare.comparators.last", "bitwise_or">>,
  <<"Compare.comparators.mid", "bitwise_or">>, <<"Compare.in.right", "bitwise_or">>,
  <<"Compare.isnot.left", "bitwise_or">>,
  <<"Call.func", "primary">>, <<"Call.args", "args_item">>, <<"Call.args.only", "args_item">>,
  <<"Call.args.sologen", "args_item">>,
  <<"keyword.value", "expression">>, <<"keyword.value.unpack", "expression">>,          \* '**' expression
  <<"Starred.value.call", "expression">>,                                               \* '*' expression
  <<"Starred.value.list", "bitwise_or">>, <<"Starred.value.tuple", "bitwise_or">>,      \* '*' bitwise_or
  <<"Attribute.value", "primary">>, <<"Subscript.value", "primary">>,
  <<"Attribute.value.ann", "primary">>, <<"Subscript.value.ann", "primary">>,           \* t_primary of an annotated target
  (* f-strings (PEP 701 grammar of 3.12) *)
  <<"FormattedValue.value", "fstring_field">>, <<"FormattedValue.value.squote", "fstring_field">>,
  <<"FormattedValue.value.triple", "fstring_field">>, <<"FormattedValue.value.mid", "fstring_field">>,
  <<"FormattedValue.value.second", "fstring_field">>, <<"FormattedValue.value.conv", "fstring_field">>,
  <<"FormattedValue.value.spec", "fstring_field">>, <<"FormattedValue.value.convspec", "fstring_field">>,
  <<"FormattedValue.value.debug", "fstring_field">>, <<"FormattedValue.value.debug.conv", "fstring_field">>,
  <<"FormattedValue.value.debug.mid", "fstring_field">>,
  <<"format_spec.field", "fstring_field">>, <<"format_spec.field.mid", "fstring_field">>,
  (* operands that end at bracket depth 0 of a replacement field *)
  <<"IfExp.orelse.infstring", "expression">>, <<"Tuple.elts.infstring", "star_expression">>,
  (* a debug field nested in a format spec (`f"{x:{y=}}"`) makes CPython 3.12.1 itself fail (ValueError) *)
  <<"Subscript.slice", "slices">>, <<"Subscript.slice.elt", "slice_item">>,
  <<"Slice.lower", "expression">>, <<"Slice.upper", "expression">>, <<"Slice.step", "expression">>,
  (* statement level *)
  <<"Expr.value", "assign_rhs">>, <<"Assign.value", "assign_rhs">>, <<"AugAssign.value", "assign_rhs">>,
  <<"AnnAssign.value", "assign_rhs">>, <<"AnnAssign.annotation", "expression">>,
  <<"Return.value", "star_expressions">>, <<"For.iter", "star_expressions">>,
  <<"While.test", "named_expression">>, <<"If.test", "named_expression">>, <<"If.elif.test", "named_expression">>,
  <<"withitem.context_expr", "expression">>, <<"withitem.context_expr.as", "expression">>,
  <<"Raise.exc", "expression">>, <<"Raise.exc.from", "expression">>, <<"Raise.cause", "expression">>,
  <<"Assert.test", "expression">>, <<"Assert.test.msg", "expression">>, <<"Assert.msg", "expression">>,
  <<"Match.subject", "subject_expr">>, <<"match_case.guard", "named_expression">>,
  <<"decorator_list", "named_expression">>, <<"FunctionDef.returns", "expression">>,
  <<"arg.annotation", "expression">>, <<"arguments.defaults", "expression">>, <<"arguments.kw_defaults", "expression">>,
  <<"ClassDef.bases", "args_item">>, <<"ClassDef.keywords.value", "expression">>,
  <<"ExceptHandler.type", "expression">>, <<"TypeAlias.value", "expression">> }

TargetSlots == {
  <<"Assign.targets", "star_targets">>, <<"Assign.targets.second", "star_targets">>,
  <<"For.target", "star_targets">>, <<"comprehension.target", "star_targets">>,
  <<"withitem.optional_vars", "star_target">>, <<"Delete.targets", "del_target">>,
  <<"AugAssign.target", "single_target">>, <<"NamedExpr.target", "name_only">>,
  <<"Tuple.elts.store", "star_target_elt">>, <<"List.elts.store", "star_target_elt">>,
  <<"Starred.value.store", "target_with_star_atom">>, <<"MatchClass.cls", "name_or_attr">>,
  <<"AnnAssign.target", "ann_target">>, <<"AnnAssign.target.noval", "ann_target">>,
  <<"MatchValue.value", "literal_value">>, <<"MatchValue.value.inor", "literal_value">>,
  <<"MatchValue.value.inseq", "literal_value">>,
  <<"MatchMapping.keys", "literal_key">>, <<"MatchMapping.keys.second", "literal_key">> }

PatSlots == {
  <<"match_case.pattern", "patterns">>, <<"MatchAs.pattern", "or_pattern">>,
  <<"MatchOr.patterns.first", "closed_pattern">>, <<"MatchOr.patterns.last", "closed_pattern">>,
  <<"MatchSequence.patterns.br", "maybe_star">>, <<"MatchSequence.patterns.par", "maybe_star">>,
  <<"MatchSequence.patterns.open", "maybe_star">>, <<"MatchMapping.patterns", "pattern">>,
  <<"MatchClass.patterns", "pattern">>, <<"MatchClass.kwd_patterns", "pattern">>,
  (* filling the empty `pattern` of a capture turns the capture itself into an as_pattern: the   *)
  (* *parent* then sits in the slot named after the dot and may need parentheses itself          *)
  <<"MatchAs.pattern.fill@MatchAs.pattern", "or_pattern">>,
  <<"MatchAs.pattern.fill@MatchOr.patterns", "or_pattern">>,
  <<"MatchAs.pattern.fill@MatchSequence.patterns", "or_pattern">>,
  <<"MatchAs.pattern.fill@match_case.pattern", "or_pattern">> }

AllSlots == ExprSlots \cup TargetSlots \cup PatSlots
SlotIds  == {s[1] : s \in AllSlots}
NT(id)   == (CHOOSE s \in AllSlots : s[1] = id)[2]
ClsOfNT(nt) == IF nt \in ExprNTs THEN "load" ELSE IF nt \in TargetNTs THEN "store" ELSE "pat"
SlotCls(id) == ClsOfNT(NT(id))
KindsForNT(nt) == IF ClsOfNT(nt) = "pat" THEN PatKinds ELSE ExprKinds
KindsFor(id) == KindsForNT(NT(id))
IsSlot(id) == id \in SlotIds

(* fill slots: the nonterminal the *parent* (now an as_pattern) must fit                                   *)
FillOuterNT(id) ==
  CASE id = "MatchAs.pattern.fill@MatchAs.pattern"          -> "or_pattern"
    [] id = "MatchAs.pattern.fill@MatchOr.patterns"         -> "closed_pattern"
    [] id = "MatchAs.pattern.fill@MatchSequence.patterns"   -> "maybe_star"
    [] id = "MatchAs.pattern.fill@match_case.pattern"       -> "patterns"
    [] OTHER -> "none"
IsFill(id) == FillOuterNT(id) # "none"

(* ---------------------------------------------------------------------- *)
(* validity and grouping.  The operators with suffix N take the slot's      *)
(* nonterminal as an argument (nt = NT(id)); the plain ones look it up.     *)

(* `1.real` is tokenised as the float `1.` followed by a name: a decimal integer literal before `.` needs   *)
(* parentheses (or a space) for lexical reasons although it is an atom.  In a replacement field of an       *)
(* f-string a `:` at bracket depth 0 starts the format spec: a lambda needs parentheses there although       *)
(* annotated_rhs derives it ("f-string: lambda expressions are not allowed without parentheses").            *)
Lexical(id, nt, c) == \/ c = "Int" /\ id \in {"Attribute.value", "Attribute.value.ann"}
                      \/ c \in {"Lambda", "LambdaArgs"}
                         /\ (nt = "fstring_field" \/ id \in {"IfExp.orelse.infstring", "Tuple.elts.infstring"})

(* `{{` in an f-string is an escaped brace: an operand that starts with `{` needs a blank (or parentheses)  *)
(* after the opening brace of the field                                                                     *)
(* (tokenizer of 3.12.1: inside a format spec, after literal spec text, `{{` opens a nested field instead -   *)
(* bound to CPython by Gram.bare on the rows of slot format_spec.field.mid)                                  *)
NeedsBlankN(id, nt, c) == /\ nt = "fstring_field" /\ c \in {"Dict", "Set", "SetComp", "DictComp"}
                          /\ id # "format_spec.field.mid"

(* named deviation PegCommitsToParenthesisedTarget: in `('(' single_target ')' | single_subscript_           *)
(* attribute_target) ':'` CPython's PEG parser commits to the first alternative, so `(t)[i]: int` and        *)
(* `(t.a).b: int` are rejected ("illegal target for annotation") although t_primary: atom admits the group;  *)
(* `(a + b)[i]: int` is accepted.  Binding to CPython: Gram.childpar on these rows.                          *)
AnnPrimarySlots == {"Attribute.value.ann", "Subscript.value.ann"}
PegCommitsToParenthesisedTarget(id, c) == id \in AnnPrimarySlots /\ c \in {"Name", "Attribute", "Subscript"}

(* NAME ':=', name_or_attr '(' and literal_expr ':' take the bare form only: no parenthesised form exists   *)
(* (for a MatchValue the parentheses of `case (7):` are a group_pattern around it: they exist)               *)
ParAllowedN(id, nt, c) == /\ nt \notin {"name_only", "name_or_attr", "literal_key"}
                          /\ ~PegCommitsToParenthesisedTarget(id, c)

(* `with (a, b): pass` is the parenthesised form of *two* with-items: a tuple as the only context          *)
(* expression without `as` needs two pairs of parentheses                                                   *)
NeedsDoublePars(id, c) == id = "withitem.context_expr" /\ c = "Tuple"

(* grammatical, but refused by CPython's *compiler*: a lone `*a` as star_expressions / star_target ("can't  *)
(* use starred expression here"), an f-string as a literal pattern ("patterns may only match literals and   *)
(* attribute lookups").  Such requests are outside the property (pfst refuses them too).                    *)
CompilerRefusesN(nt, c) ==
  \/ c \in {"Starred", "StarredOr"}
     /\ nt \in {"assign_rhs", "star_expressions", "fstring_field", "star_targets", "star_target"}
  \/ c = "JoinedStr" /\ nt \in {"literal_value", "literal_key"}

(* slots whose grammar is a closed list of literal forms: every other kind must be *refused* (RefusedCleanly) *)
StrictN(nt) == nt \in {"literal_value", "literal_key", "ann_target"}

(* fields of the parent that are functions of the operand's source and therefore change with it:            *)
(* the text Constant in front of a debug field `{x = }`; AnnAssign.simple (1 iff the target is a bare name)  *)
Dependent(id) ==
  CASE id \in {"FormattedValue.value.debug", "FormattedValue.value.debug.conv", "FormattedValue.value.debug.mid"}                      -> "debugtext"
    [] id \in {"AnnAssign.target", "AnnAssign.target.noval"}  -> "simple"
    [] OTHER -> "none"

ValidN(nt, c) ==
  CASE ClsOfNT(nt) = "load" ->
         /\ c \in ExprKinds
         /\ (c \in {"Starred", "StarredOr"} => "Starred" \in ExprNT[nt].tops)   \* a parenthesised star is never an expression
         /\ (c = "Slice" => "Slice" \in ExprNT[nt].tops)
    [] ClsOfNT(nt) = "store" -> c \in TargetNT[nt].kinds
    [] OTHER -> /\ c \in PatKinds
                /\ (c = "MatchStar" => "MatchStar" \in PatNT[nt].tops)

BareN(id, nt, c) ==
  /\ ValidN(nt, c)
  /\ ~Lexical(id, nt, c) /\ ~NeedsBlankN(id, nt, c)
  /\ CASE ClsOfNT(nt) = "load" ->
            IF c \in TopKinds THEN c \in ExprNT[nt].tops ELSE Level(c) >= ExprNT[nt].min
       [] ClsOfNT(nt) = "store" -> (c = "Tuple" => TargetNT[nt].bareTuple)
       [] OTHER -> IF c \in PatTop THEN c \in PatNT[nt].tops ELSE PLevel(c) >= PatNT[nt].min

(* `*a or b` is an argument but not a list element: there the *operand* of the star needs the parentheses *)
NeedsInnerN(nt, c) == c = "StarredOr" /\ ValidN(nt, c) /\ "StarredOr" \notin ExprNT[nt].tops
NeedsParsN(id, nt, c) == ValidN(nt, c) /\ ~BareN(id, nt, c) /\ ~NeedsInnerN(nt, c) /\ ~NeedsBlankN(id, nt, c)

Valid(id, c)      == ValidN(NT(id), c)
Bare(id, c)       == BareN(id, NT(id), c)
NeedsInner(id, c) == NeedsInnerN(NT(id), c)
NeedsPars(id, c)  == NeedsParsN(id, NT(id), c)
ParAllowed(id, c) == ParAllowedN(id, NT(id), c)
NeedsBlank(id, c) == NeedsBlankN(id, NT(id), c)

(* after the fill the parent is an as_pattern                                                              *)
NeedsParentPars(id) == IsFill(id) /\ P_AS < PatNT[FillOuterNT(id)].min

(* line structure: `depth` = number of brackets open at the slot, `ml` = the child's text contains a line  *)
(* break, `selfEnc` = every line break of the child is inside the child's own brackets / string token     *)
NeedsParsML(depth, ml, selfEnc) == ml /\ ~selfEnc /\ depth = 0

(* everything the specification says about one (slot, kind)                                                *)
Judge(id, c) == LET nt == NT(id) IN
  [slot |-> id, child |-> c, cls |-> ClsOfNT(nt), nt |-> nt, valid |-> ValidN(nt, c),
   parok |-> ParAllowedN(id, nt, c), blank |-> NeedsBlankN(id, nt, c), strict |-> StrictN(nt), dep |-> Dependent(id),
   dbl |-> NeedsDoublePars(id, c), comp |-> ~CompilerRefusesN(nt, c),
   needs |-> NeedsParsN(id, nt, c), inner |-> NeedsInnerN(nt, c), parent |-> NeedsParentPars(id)]
Row(id, c) == Judge(id, c)
Cases == {<<id, c>> : id \in SlotIds, c \in ExprKinds \cup PatKinds}
RealCases == {p \in Cases : p[2] \in KindsFor(p[1])}
=============================================================================
