CONSTANTS
  Depths = {0, 1}
  SampleK = 2
  SampleN = 3
