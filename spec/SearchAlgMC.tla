----------------------------- MODULE SearchAlgMC -----------------------------
(* Model checking of SearchAlg over every term <<ctx, op, m1, m2, 0>> with    *)
(* members from MCMembers and EVERY abstract node:                            *)
(*   PrefilterSound  a node that Match accepts is never skipped by the        *)
(*                   pre-filter model (search = filter of walk at the level   *)
(*                   of the design)                                           *)
(*   Algebra         double negation, De Morgan, tag-wrapper transparency     *)
(* and, as ASSUME, that the "any member exact" variant of Exact is NOT sound  *)
(* (the class of defect that the conformance run must be able to see).        *)
EXTENDS SearchAlg
CONSTANTS MCMembers
VARIABLES id, ph
vars == <<id, ph>>

Ex  == {"Name", "Constant", "Attribute", "Call", "OtherExpr"}
All == Ex \cup {"arg", "OtherStmt"}
Checks == {"nameX", "const1", "attrY", "argA", "callG", "loadNA", "loadN"}
(* every abstract node: a class, a consistent set of passed checks, a source class *)
Consistent(ty, h) == /\ \A c \in h : ty \in CheckTypes(c)
                     /\ ("loadN" \in h) = (ty = "Name" /\ "loadNA" \in h)
Nodes == {[ty |-> ty, hits |-> h, src |-> s] : ty \in All, h \in SUBSET Checks, s \in {"x.y", "other"}}
Abs == {n \in Nodes : Consistent(n.ty, n.hits) /\ (n.src = "x.y" => n.ty \in {"Attribute", "OtherStmt"})}

Init == ph = "start" /\ id \in {<<c, o, 1, 1, 0>> : c \in 1..NCtx, o \in 1..2}
First == ph = "start" /\ ph' = "one" /\ id' \in {[id EXCEPT ![3] = m] : m \in MCMembers}
Pick  == ph = "one" /\ ph' = "term" /\ id' \in {[id EXCEPT ![4] = m] : m \in MCMembers}
Next == First \/ Pick
Spec == Init /\ [][Next]_vars

PrefilterSound == (ph = "term") =>
  LET p == TermOf(id) IN \A n \in Abs : Match(p, n, Ex) => Visited(p, n, All, Ex, FALSE)

Algebra == (ph = "term") =>
  LET p == TermOf(id)  a == p.args IN
  \A n \in Abs : /\ Match(Not(Not(p)), n, Ex) = Match(p, n, Ex)
                 /\ Match(Tag(p), n, Ex) = Match(p, n, Ex)
                 /\ id[1] = 1 /\ id[2] = 1 => Match(Not(p), n, Ex) = Match(Comp("AND", [i \in 1..Len(a) |-> Not(a[i])]), n, Ex)
                 /\ id[1] = 1 /\ id[2] = 2 => Match(Not(p), n, Ex) = Match(Comp("OR", [i \in 1..Len(a) |-> Not(a[i])]), n, Ex)

(* the seeded thinko is a real unsoundness of the model: MNOT(MOR(Constant, MName(id='x'))) skips a Name that is not x *)
ASSUME LET p == Not(Comp("OR", <<T(<<"Constant">>), F("nameX")>>))
           n == [ty |-> "Name", hits |-> {}, src |-> "other"]
       IN Match(p, n, Ex) /\ Visited(p, n, All, Ex, FALSE) /\ ~Visited(p, n, All, Ex, TRUE)
ASSUME ValidTid(<<2, 1, 5, 37, 0>>) /\ ClassOf(<<2, 1, 5, 37, 0>>) = "NOT:OR(pt,fc)"
=============================================================================
