---------------------------- MODULE ReconcileOps ----------------------------
(* Constant operators shared by the reconcile model (Reconcile.tla) and the   *)
(* trace validator (ReconcileTrace.tla): paths, mutation sites and the        *)
(* spec-level definition of which *marked statements* a pure-AST mutation     *)
(* touches (property C13, clause Untouched).                                  *)
(*                                                                            *)
(* A path is a sequence of [n |-> field, i |-> 1-based index] from the Module *)
(* (a single-valued field counts as a one-element list).                      *)
(* A site is one assignment the user made to a field of an AST object:        *)
(*   [known : the object belonged to the tree when it was marked,             *)
(*    path  : its path *in the marked tree* (<<>> when ~known),               *)
(*    n     : the field, mode : "self" | "slot" | "list", i : index | 0]      *)
(*   self : a primitive of the object was set                                 *)
(*   slot : the child at <<n, i>> was replaced / set / cleared (i = 0 for a   *)
(*          single-valued field)                                              *)
(*   list : the membership or order of list n changed (insert, delete, swap,  *)
(*          duplicate, move in / out)                                         *)
EXTENDS Integers, Sequences, FiniteSets

Elt(n, i) == [n |-> n, i |-> i]

PathPrefix(p, q) == Len(p) <= Len(q) /\ \A k \in 1..Len(p) : p[k].n = q[k].n /\ p[k].i = q[k].i
SamePath(p, q)   == Len(p) = Len(q) /\ PathPrefix(p, q)

SlotIdx(s) == IF s.i = 0 THEN 1 ELSE s.i

(* Statements (given by their marked paths) touched by one site:              *)
(*  (a) every statement that *contains the mutated object* (the object itself *)
(*      if it is a statement, and all enclosing statements);                  *)
(*  (b) slot: the statement that sat in the slot, with everything below it;   *)
(*  (c) list: every member of the list whose membership changed, with         *)
(*      everything below (their "ancestor's list membership was mutated").    *)
(* Objects that were not part of the marked tree contain no marked statement  *)
(* that is still where it was: whatever marked statement hangs below them got *)
(* there by a list / slot mutation of a marked object, which touched it.      *)
TouchSite(stmts, s) ==
  IF ~s.known THEN {}
  ELSE {p \in stmts : PathPrefix(p, s.path)}
       \cup (CASE s.mode = "slot" ->
                    {p \in stmts : PathPrefix(s.path \o <<Elt(s.n, SlotIdx(s))>>, p)}
               [] s.mode = "list" ->
                    {p \in stmts : /\ Len(p) > Len(s.path) /\ PathPrefix(s.path, p)
                                   /\ p[Len(s.path) + 1].n = s.n}
               [] OTHER -> {})

TouchSites(stmts, sites) == UNION {TouchSite(stmts, sites[k]) : k \in 1..Len(sites)}

(* The statement lies strictly below the mutated object (used only to name    *)
(* the case class of an Untouched failure).                                   *)
Below(s, p) == s.known /\ Len(p) > Len(s.path) /\ PathPrefix(s.path, p)
=============================================================================
