----------------------------- MODULE Containers -----------------------------
(* Python list semantics as pfst's containers are documented to follow them.  *)
(* Written from the Python data model (list indexing / slicing), not from     *)
(* pfst's fixup_* functions.  Pure operators; ContainersMC.tla model-checks   *)
(* the entry-point algebra, PfstTrace.tla applies the same operators to the   *)
(* node-id sequences recorded from the real code.                              *)
EXTENDS Integers, Sequences, FiniteSets

(* A bound is [k |-> "int", v |-> i], [k |-> "end", v |-> 0] or               *)
(* [k |-> "none", v |-> 0].                                                    *)
IntB(i) == [k |-> "int", v |-> i]
EndB    == [k |-> "end", v |-> 0]
NoneB   == [k |-> "none", v |-> 0]

Max(a, b) == IF a >= b THEN a ELSE b
Min(a, b) == IF a <= b THEN a ELSE b

(* Python: single index.  Result 0-based, or -1 for IndexError.  lo is the    *)
(* number of leading real elements hidden by the view (docstring for _body).  *)
NormIndex(len, lo, b) ==
  IF b.k # "int" THEN -1
  ELSE LET n == len - lo
           i == IF b.v < 0 THEN b.v + n ELSE b.v
       IN IF i >= 0 /\ i < n THEN i + lo ELSE -1

(* Python: slice bound clipping, list[s:t].  0-based half-open.               *)
ClipBound(len, lo, b, dflt) ==
  IF b.k = "end" THEN len
  ELSE IF b.k = "none" THEN dflt
  ELSE LET n == len - lo
           i == IF b.v < 0 THEN Max(0, b.v + n) ELSE Min(n, b.v)
       IN i + lo

NormStart(len, lo, s) == ClipBound(len, lo, s, lo)
NormStop(len, lo, t)  == ClipBound(len, lo, t, len)

(* named deviation RefuseInverted: a Python list would insert at start when   *)
(* stop < start, pfst documents raising IndexError instead.                   *)
Inverted(len, lo, s, t) == NormStop(len, lo, t) < NormStart(len, lo, s)

(* c[s0:t0] = new   (0-based half-open on a 1-based TLA+ sequence)             *)
Splice(c, s0, t0, new) == SubSeq(c, 1, s0) \o new \o SubSeq(c, t0 + 1, Len(c))

PutSlice(c, lo, s, t, new) == Splice(c, NormStart(Len(c), lo, s), NormStop(Len(c), lo, t), new)
GetSlice(c, lo, s, t)      == SubSeq(c, NormStart(Len(c), lo, s) + 1, NormStop(Len(c), lo, t))

(* single element forms                                                      *)
PutOne(c, lo, i, x) == LET j == NormIndex(Len(c), lo, i) IN Splice(c, j, j + 1, <<x>>)
DelOne(c, lo, i)    == LET j == NormIndex(Len(c), lo, i) IN Splice(c, j, j + 1, <<>>)

(* the entry points of the API expressed through PutSlice (entry-point        *)
(* algebra; each is a theorem of the model and a clause of the trace spec)    *)
ApAppend(c, lo, x)    == PutSlice(c, lo, EndB, EndB, <<x>>)
ApExtend(c, lo, xs)   == PutSlice(c, lo, EndB, EndB, xs)
ApPrepend(c, lo, x)   == PutSlice(c, lo, IntB(0), IntB(0), <<x>>)
ApPrextend(c, lo, xs) == PutSlice(c, lo, IntB(0), IntB(0), xs)
ApInsert(c, lo, i, xs) == PutSlice(c, lo, i, i, xs)
ApAssign(c, lo, xs)   == PutSlice(c, lo, IntB(0), EndB, xs)

(* minimum lengths the grammar imposes on list fields (node kind, field).     *)
(* With normalisation off pfst documents that it may leave shorter lists.     *)
MinLen(kind, field) ==
  CASE kind = "Delete"    /\ field = "targets"     -> 1
    [] kind = "Assign"    /\ field = "targets"     -> 1
    [] kind = "Import"    /\ field = "names"       -> 1
    [] kind = "ImportFrom" /\ field = "names"      -> 1
    [] kind = "Global"    /\ field = "names"       -> 1
    [] kind = "Nonlocal"  /\ field = "names"       -> 1
    [] kind = "With"      /\ field = "items"       -> 1
    [] kind = "AsyncWith" /\ field = "items"       -> 1
    [] kind = "BoolOp"    /\ field = "values"      -> 2
    [] kind = "Compare"   /\ field = "_all"        -> 2
    [] kind = "Set"       /\ field = "elts"        -> 1
    [] kind = "MatchOr"   /\ field = "patterns"    -> 2
    [] kind = "Match"     /\ field = "cases"       -> 1
    [] kind \in {"ListComp", "SetComp", "DictComp", "GeneratorExp"} /\ field = "generators" -> 1
    [] kind \in {"FunctionDef", "AsyncFunctionDef", "ClassDef", "For", "AsyncFor", "While", "If",
                 "With", "AsyncWith", "Try", "TryStar", "ExceptHandler", "match_case"}
         /\ field \in {"body", "_body"}            -> 1
    [] OTHER -> 0
=============================================================================
