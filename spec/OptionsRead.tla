----------------------------- MODULE OptionsRead -----------------------------
(* Read-only calls that consume options (own_src / own_lines(docstr=..),      *)
(* copy / get / get_slice with trivia, pars, norm_get ..., unparse) on        *)
(* long-lived nodes whose per-node memo (`FST._cache`) is warm.               *)
(*                                                                            *)
(* C20, "an option passed to a call affects only that call", for a call that  *)
(* changes nothing visible: the answer is a function of the node's source and *)
(* the *effective* value (per-call value, else the calling thread's default)  *)
(* of the options the call consumes -                                         *)
(*        ReadAnswer :  answer = F(source of the node, effective options)     *)
(* no hidden state.  The implementation memoises per node; the memo is a      *)
(* variable of this specification (`cache`, node -> key -> answer), it is     *)
(* shared by every thread that reads the node and survives option blocks, so  *)
(* the law holds exactly if the key determines the effective values:          *)
(*   KeyMode = "effective"  key = effective values           (what pfst does) *)
(*   KeyMode = "argument"   key = the argument as passed, "default" when not  *)
(*                          given - a deliberately wrong variant that TLC     *)
(*                          must refute (a default-call and an explicit call, *)
(*                          a block, another thread see each other's answers) *)
(* Edit(n, s) gives the node another source and flushes its memo.             *)
EXTENDS Integers, Sequences, FiniteSets, TLC

CONSTANTS Threads, Main, Opts, Vals, Cells, Mutable, Heap0, Default, Bad, Unknown, MaxNest,
          Nodes, Sources,     \* long-lived nodes (shared by all threads), possible source texts
          Uses,               \* the options the read call consumes (subset of Opts)
          KeyMode

VARIABLES alive, store, blocks, heap, last,      \* Options.tla
          src,      \* Nodes -> Sources
          cache,    \* Nodes -> [key -> answer]   the per-node memo
          rd        \* ghost: did the last read answer what it denotes (BOOLEAN, part of the VIEW so it is checked)
ovars == <<alive, store, blocks, heap, last>>
vars  == <<ovars, src, cache, rd>>

O == INSTANCE Options

F(s, e)     == <<s, e>>                                   \* the answer the call denotes (injective: nothing else may matter)
EffC(t, ov) == [o \in Uses |-> heap[O!Eff(store[t], ov)[o]]]     \* effective contents of the consumed options
Key(t, ov)  == IF KeyMode = "effective" THEN EffC(t, ov)
               ELSE [o \in Uses |-> IF o \in DOMAIN ov THEN <<"given", heap[ov[o]]>> ELSE <<"default", "default">>]

OvMaps == UNION {[D -> {c \in Cells : Heap0[c] \in Vals}] : D \in SUBSET Uses}   \* valid per-call values of the read
SetMaps == UNION {[D -> {c \in Cells : Heap0[c] \in Vals}] : D \in SUBSET Opts}

Init == /\ O!Init
        /\ src \in [Nodes -> Sources]
        /\ cache = [n \in Nodes |-> <<>>]
        /\ rd = TRUE

Read(t, n, ov) ==
  /\ t \in alive
  /\ O!Call(t, ov)
  /\ LET k    == Key(t, ov)
         want == F(src[n], EffC(t, ov))
         ans  == IF k \in DOMAIN cache[n] THEN cache[n][k] ELSE want
     IN /\ cache' = [cache EXCEPT ![n] = IF k \in DOMAIN @ THEN @ ELSE (k :> want) @@ @]
        /\ rd' = (ans = want)
  /\ UNCHANGED src

Edit(n, s) ==
  /\ src[n] # s
  /\ src' = [src EXCEPT ![n] = s]
  /\ cache' = [cache EXCEPT ![n] = <<>>]          \* _touch(): the memo of an edited node is dropped
  /\ UNCHANGED <<ovars, rd>>

Quiet == UNCHANGED <<src, cache, rd>>
Next == \/ \E t \in Threads, n \in Nodes, ov \in OvMaps : Read(t, n, ov)
        \/ \E n \in Nodes, s \in Sources : Edit(n, s)
        \/ \E t \in Threads : O!Spawn(t) /\ Quiet
        \/ \E t \in Threads, m \in SetMaps : O!SetOptions(t, m) /\ Quiet
        \/ \E t \in Threads, m \in SetMaps : O!EnterWith(t, m) /\ Quiet
        \/ \E t \in Threads, how \in {"normal", "exception"} : O!ExitWith(t, how) /\ Quiet
Spec == Init /\ [][Next]_vars
View == <<alive, store, blocks, heap, src, cache, rd>>

(* the answer of a read depends only on the source and the effective options *)
ReadAnswer == rd
(* a read is a call: it changes no store (Options!CallIsolation) *)
CallIsolation == O!CallIsolation
=============================================================================
