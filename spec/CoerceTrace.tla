----------------------------- MODULE CoerceTrace -----------------------------
(* C19 trace validation: recorded coercions of the real pfst judged against   *)
(* CoerceTables (kinds per mode, embeddings, slots) and the clauses of         *)
(* Coerce.tla, on hash-consed node tables (NodeTab / Batch).                   *)
(*                                                                            *)
(* trace  T = [id, mode, op : [kind, s, p, root, alts], steps : Seq(Event)]    *)
(* Event  e = [call \in {"as_","ctor","ast","putc","pute","putn"}, copy, root, *)
(*             outcome, res : [kind, s, p, same, isroot, shared, ntok, text,   *)
(*             alts : Seq([ok, root])], pre, post, slot?, conv?]               *)
(* alts[i] is CPython's parse of the i-th embedding Embeds(mode)[i] of the     *)
(* result source (operand source for op.alts).                                *)
EXTENDS NodeTab, CoerceTables, TLC

VARIABLES tid, l, refS, putS, bad, seen
vars == <<tid, l, refS, putS, bad, seen>>

Cl(name, ok) == [c |-> name, ok |-> ok]
Dots  == Batch.dots
Steps(t) == Traces[t].steps
SeqRange(s) == {s[i] : i \in 1..Len(s)}
F1(x, n) == LET c == FieldSeq(x, n) IN IF Len(c) >= 1 THEN c[1] ELSE 0

(* ------------------------------------------------------------------------ *)
(* Leaves: the in-order (source order) sequence of identifiers, constants,    *)
(* star markers and maximal opaque sub-expressions of a tree.                 *)
(*   identifiers : Name.id, arg.arg, alias.name (split at dots) / asname,      *)
(*                 keyword.arg, MatchAs / MatchStar.name (None = `_`),          *)
(*                 MatchMapping.rest, MatchClass.kwd_attrs, Attribute.attr,     *)
(*                 type parameter names and every other identifier field        *)
(*   constants   : Constant.value, MatchSingleton.value                         *)
(*   markers     : `*` of Starred / MatchStar / vararg / TypeVarTuple,          *)
(*                 `**` of keyword(None) / Dict(None key) / rest / kwarg /      *)
(*                 ParamSpec (a Starred is a sub-expression of its own)         *)
(*   opaque      : expression kinds no coercion looks into - they must be       *)
(*                 carried over whole (equal hash-consed structure id)          *)
(* dotted normalisation: `a.b` = Attribute(Name a, b) = alias 'a.b' = a, b     *)
IdA(v)   == <<"id", v>>
ConstA(v) == <<"const", v>>
MarkA(m) == <<"mark", m>>
SubA(x)  == <<"sub", x>>

DotParts(x) == LET I == {i \in 1..Len(Dots) : Dots[i].s = x}
               IN IF I = {} THEN <<Val(x)>> ELSE Dots[CHOOSE i \in I : TRUE].p
IdAtoms(x)  == IF x = 0 THEN <<>> ELSE LET p == DotParts(x) IN [i \in 1..Len(p) |-> IdA(p[i])]
NameOrWild(x) == IF x = 0 THEN <<IdA("s'_'")>> ELSE IdAtoms(x)
ConstOf(x)  == <<ConstA(IF x = 0 THEN "None" ELSE Val(x))>>

OpaqueKinds == {"BoolOp", "NamedExpr", "UnaryOp", "Lambda", "IfExp", "ListComp", "SetComp", "DictComp", "GeneratorExp",
                "Await", "Yield", "YieldFrom", "Compare", "Subscript", "Slice", "JoinedStr"}
(* `a | b` is the one operator with a pattern counterpart (MatchOr)          *)
Opaque(x) == Kind(x) \in OpaqueKinds \/ (Kind(x) = "BinOp" /\ Kind(F1(x, "op")) # "BitOr")

SkipFields == {"kind", "type_comment", "simple", "is_async", "level", "conversion", "type_ignores"}

RECURSIVE Leaves(_), LeavesSeq(_), LeavesFields(_), ZipLeaves(_, _, _), ArgDefaults(_, _, _)

LeavesSeq(s) == IF s = <<>> THEN <<>> ELSE Leaves(Head(s)) \o LeavesSeq(Tail(s))

LeavesFields(F) ==
  IF F = <<>> THEN <<>>
  ELSE (IF Head(F).n \in SkipFields THEN <<>> ELSE LeavesSeq(Head(F).c)) \o LeavesFields(Tail(F))

(* pairs (k[i], v[i]) in order; a missing key is the `**` marker (star = TRUE) *)
(* or nothing; keys that are primitives (kwd_attrs) are identifiers           *)
ZipLeaves(k, v, star) ==
  IF k = <<>> \/ v = <<>> THEN <<>>
  ELSE (IF Head(k) = 0 THEN (IF star THEN <<MarkA("**")>> ELSE <<>>) ELSE Leaves(Head(k)))
         \o Leaves(Head(v)) \o ZipLeaves(Tail(k), Tail(v), star)

(* positional parameters with the defaults of the last Len(d) of them         *)
ArgDefaults(pos, d, i) ==
  IF i > Len(pos) THEN <<>>
  ELSE Leaves(pos[i])
         \o (IF i > Len(pos) - Len(d) /\ i - (Len(pos) - Len(d)) \in 1..Len(d) THEN Leaves(d[i - (Len(pos) - Len(d))])
             ELSE <<>>)
         \o ArgDefaults(pos, d, i + 1)

Leaves(x) ==
  IF x = 0 THEN <<>>
  ELSE IF Kind(x) = "#" THEN <<IdA(Val(x))>>
  ELSE IF Opaque(x) THEN <<SubA(x)>>
  ELSE
  CASE Kind(x) \in {"Constant", "MatchSingleton"} -> ConstOf(F1(x, "value"))
    [] Kind(x) = "Name"       -> IdAtoms(F1(x, "id"))
    [] Kind(x) = "Attribute"  -> Leaves(F1(x, "value")) \o IdAtoms(F1(x, "attr"))
    [] Kind(x) = "alias"      -> IdAtoms(F1(x, "name")) \o IdAtoms(F1(x, "asname"))
    [] Kind(x) = "Starred"    -> <<MarkA("*")>> \o Leaves(F1(x, "value"))
    [] Kind(x) = "MatchStar"  -> <<MarkA("*")>> \o NameOrWild(F1(x, "name"))
    [] Kind(x) = "TypeVarTuple" -> <<MarkA("*")>> \o IdAtoms(F1(x, "name"))
    [] Kind(x) = "ParamSpec"  -> <<MarkA("**")>> \o IdAtoms(F1(x, "name"))
    [] Kind(x) = "MatchAs"    -> IF F1(x, "pattern") = 0 THEN NameOrWild(F1(x, "name"))
                                 ELSE Leaves(F1(x, "pattern")) \o IdAtoms(F1(x, "name"))
    [] Kind(x) = "keyword"    -> (IF F1(x, "arg") = 0 THEN <<MarkA("**")>> ELSE IdAtoms(F1(x, "arg")))
                                   \o Leaves(F1(x, "value"))
    [] Kind(x) = "Dict"       -> ZipLeaves(FieldSeq(x, "keys"), FieldSeq(x, "values"), TRUE)
    [] Kind(x) = "MatchMapping" -> ZipLeaves(FieldSeq(x, "keys"), FieldSeq(x, "patterns"), FALSE)
                                   \o (IF F1(x, "rest") = 0 THEN <<>> ELSE <<MarkA("**")>> \o IdAtoms(F1(x, "rest")))
    [] Kind(x) = "MatchClass" -> Leaves(F1(x, "cls")) \o LeavesSeq(FieldSeq(x, "patterns"))
                                   \o ZipLeaves(FieldSeq(x, "kwd_attrs"), FieldSeq(x, "kwd_patterns"), FALSE)
    [] Kind(x) = "_pattern_attrlikes" -> LeavesSeq(FieldSeq(x, "patterns"))
                                   \o ZipLeaves(FieldSeq(x, "kwd_attrs"), FieldSeq(x, "kwd_patterns"), FALSE)
    [] Kind(x) = "arguments"  ->
         ArgDefaults(FieldSeq(x, "posonlyargs") \o FieldSeq(x, "args"), FieldSeq(x, "defaults"), 1)
           \o (IF F1(x, "vararg") = 0 THEN <<>> ELSE <<MarkA("*")>> \o Leaves(F1(x, "vararg")))
           \o ZipLeaves(FieldSeq(x, "kwonlyargs"), FieldSeq(x, "kw_defaults"), FALSE)
           \o (IF F1(x, "kwarg") = 0 THEN <<>> ELSE <<MarkA("**")>> \o Leaves(F1(x, "kwarg")))
    [] OTHER -> LeavesFields(Fields(x))

(* ------------------------------------------------------------------------ *)
(* Sync: the live tree equals CPython's parse of the result's own source in   *)
(* the requested mode, positions included (after the embedding shift).        *)
ShiftPos(p, e) ==
  IF Len(p) # 4 THEN p
  ELSE <<p[1] + e.dl, p[2] + e.dca + (IF p[1] = 1 THEN e.dc1 ELSE 0),
         p[3] + e.dl, p[4] + e.dca + (IF p[3] = 1 THEN e.dc1 ELSE 0)>>

RECURSIVE ShiftEq(_, _, _, _)
ShiftEq(a, b, e, withCtx) ==
  IF a = 0 \/ b = 0 THEN a = b
  ELSE /\ PTab[a].s = PTab[b].s
       /\ (withCtx => PTab[a].x = PTab[b].x)
       /\ PTab[b].p = ShiftPos(PTab[a].p, e)
       /\ Len(PTab[a].f) = Len(PTab[b].f)
       /\ \A i \in 1..Len(PTab[a].f) :
            LET ca == PTab[a].f[i].c  cb == PTab[b].f[i].c
            IN Len(ca) = Len(cb) /\ \A j \in 1..Len(ca) : ShiftEq(ca[j], cb[j], e, withCtx)

ElemsEq(sa, sb, e, withCtx) == Len(sa) = Len(sb) /\ \A j \in 1..Len(sa) : ShiftEq(sa[j], sb[j], e, withCtx)

HostSeq(h, hf) == IF Len(hf) = 1 THEN PFieldSeq(h, hf[1])
                  ELSE MergeByPos(PFieldSeq(h, hf[1]), PFieldSeq(h, hf[2]))

RECURSIVE CountNZ(_)
CountNZ(s) == IF s = <<>> THEN 0 ELSE (IF Head(s) = 0 THEN 0 ELSE 1) + CountNZ(Tail(s))
RECURSIVE CountFields(_, _)
CountFields(h, fs) == IF fs = <<>> THEN 0 ELSE CountNZ(PFieldSeq(h, Head(fs))) + CountFields(h, Tail(fs))

SoleOK(root, e) ==
  \/ e.sole = <<>>
  \/ /\ Len(e.path) >= 1
     /\ CountFields(PNodeAt(root, SubSeq(e.path, 1, Len(e.path) - 1)), e.sole) = 1

SyncAlt(lp, e, alt, withCtx) ==
  /\ alt.ok
  /\ (e.only = <<>> \/ PKind(lp) \in SeqRange(e.only))
  /\ LET h == PNodeAt(alt.root, e.path) IN
     /\ (h # 0 \/ (e.path = <<>> /\ alt.root # 0))
     /\ SoleOK(alt.root, e)
     /\ IF e.cont = <<>> THEN ShiftEq(lp, h, e, withCtx)
        ELSE \A i \in 1..Len(e.cont) : ElemsEq(PFieldSeq(lp, e.cont[i].sf), HostSeq(h, e.cont[i].hf), e, withCtx)

(* an empty special slice has no text of its own (nothing to embed)          *)
EmptyContainer(kind, lp, ntok) ==
  /\ kind \in SliceKinds /\ ntok = 0
  /\ \A i \in 1..Len(PFields(lp)) : PFields(lp)[i].c = <<>>

(* named deviation InvalidByDesign (DESIGN 2.6): Python has no empty-set      *)
(* display; pfst writes an empty Set as `{}` (formatted) or `{*()}` (from AST) *)
EmptySetForm(s) ==
  /\ Kind(s) = "Set"
  /\ LET el == FieldSeq(s, "elts") IN
     \/ el = <<>>
     \/ (Len(el) = 1 /\ Kind(el[1]) = "Starred" /\ Kind(F1(el[1], "value")) = "Tuple"
           /\ FieldSeq(F1(el[1], "value"), "elts") = <<>>)

(* named deviation SingletonCommaNormalised: a one-element Tuple written       *)
(* without its comma (only constructible as FST('*a', 'Tuple')) gets the comma *)
(* when returned; structure is unchanged, text is not                         *)
TextMayNormalise(s) == Kind(s) = "Tuple" /\ Len(FieldSeq(s, "elts")) = 1

NoSliceElts(s) == Kind(s) # "Tuple" \/ \A j \in 1..Len(FieldSeq(s, "elts")) : Kind(FieldSeq(s, "elts")[j]) # "Slice"
ShapeOK(m, s)  == AllowsSliceElts(m) \/ NoSliceElts(s)

(* mode "all" admits whatever some mode admits: judged in the mode of the     *)
(* result's own kind                                                          *)
SyncMode(m, kind) == IF m = "all" THEN (IF kind \in Kinds THEN kind ELSE "exec") ELSE m

ParsesIn(m, kind, s, p, ntok, alts, withCtx) ==
  LET mm == SyncMode(m, kind)  E == Embeds(mm) IN
  /\ ShapeOK(m, s)
  /\ \/ EmptyContainer(kind, p, ntok)
     \/ \E i \in 1..Len(E) : i <= Len(alts) /\ SyncAlt(p, E[i], alts[i], withCtx)

(* ------------------------------------------------------------------------ *)
T       == Traces[tid]
Op      == T.op
OpFits  == Op.kind \in KindsOf(T.mode) /\ ParsesIn(T.mode, Op.kind, Op.s, Op.p, 1, Op.alts, FALSE)

(* domain restriction OperandNotInMode: the result is structurally the operand *)
(* itself (no conversion happened) and the operand's own text does not parse   *)
(* in the mode to the operand's tree - e.g. FST('a', 'Tuple'), a Tuple built   *)
(* by '_expr_arglikes' spanning its whole source, `yield` asked as a slice.     *)
(* Whether such an operand is a valid tree is C05's subject, not coercion's.   *)
OperandNotInMode(r) == r.s = Op.s /\ r.kind = Op.kind /\ ~OpFits

Preserved(e) == e.copy \/ ~e.root         \* the operand must survive the call

CoerceClauses(e) ==
  LET r == e.res  m == T.mode  isFst == e.call \in {"as_", "ctor"} IN
  (IF e.outcome = "ok"
   THEN { Cl("Standalone", r.isroot),
          Cl("KindInMode", r.kind \in KindsOf(m) /\ r.kind = Kind(r.s)) }
        \cup (IF EmptySetForm(r.s) THEN {} ELSE {Cl("Leaves", Leaves(r.s) = Leaves(Op.s))})
        \cup (IF EmptySetForm(r.s) \/ OperandNotInMode(r) THEN {}
              ELSE {Cl("ParsesInMode", ParsesIn(m, r.kind, r.s, r.p, r.ntok, r.alts, FALSE))})
        \cup (IF ~r.same /\ r.s # Op.s /\ ~EmptySetForm(r.s)
              THEN {Cl("ParsesInMode.ctx", ParsesIn(m, r.kind, r.s, r.p, r.ntok, r.alts, TRUE))} ELSE {})
        \cup (IF OpFits
              THEN {Cl("SameKindUnchanged",
                       r.s = Op.s /\ (isFst /\ e.root /\ ~TextMayNormalise(Op.s) => r.p = Op.p /\ r.text = e.pre.text))}
              ELSE {})
        \cup (IF e.call = "ast" /\ refS # 0 /\ ~EmptySetForm(r.s) THEN {Cl("FormattedVsPure", r.s = refS)} ELSE {})
   ELSE {})
  \cup (IF isFst /\ OpFits /\ e.root /\ ~e.copy
        THEN {Cl("SameKindIdentity", e.outcome = "ok" /\ r.same)} ELSE {})
  \cup (IF OpFits /\ ~(isFst /\ e.root /\ ~e.copy) THEN {Cl("SameKindNotRefused", e.outcome = "ok")} ELSE {})
  \cup (IF Preserved(e)
        THEN {Cl("CopyLeavesOperand", /\ e.post.linked /\ e.post.s = e.pre.s /\ e.post.text = e.pre.text
                                      \* a pure-AST operand has no positions to keep (pfst may fill them in)
                                      /\ (e.call # "ast" => e.post.p = e.pre.p)
                                      /\ (e.outcome = "ok" => ~r.same /\ r.shared = 0))}
        ELSE {})

SlotIdx(id) == {i \in 1..Len(Slots) : Slots[i].id = id}
SlotOf(id)  == Slots[CHOOSE i \in SlotIdx(id) : TRUE]

PutClauses(e) ==
  IF SlotIdx(e.slot) = {} THEN {Cl("UnknownSlot", FALSE)}
  ELSE LET sl == SlotOf(e.slot) IN
  (IF e.outcome = "raise"
   THEN {Cl("PutFailAtomic", e.post.p = e.pre.p /\ e.post.s = e.pre.s /\ e.post.text = e.pre.text)} ELSE {})
  \cup (IF e.call = "pute" /\ e.outcome = "ok" /\ putS.s # 0
        THEN {Cl("PutCoerceEquiv", e.post.s = putS.s /\ e.post.srcS = putS.srcS)} ELSE {})
  \cup (IF e.call = "putn" /\ sl.strict /\ Op.kind \notin NativeKinds(sl.mode)
        THEN {Cl("CoerceDisabledRaises", e.outcome = "raise")} ELSE {})

IsPut(e) == e.call \in {"putc", "pute", "putn"}
Clauses(e) == IF IsPut(e) THEN PutClauses(e)
              ELSE IF e.call \in {"as_", "ctor", "ast"} THEN CoerceClauses(e)
              ELSE {Cl("UnknownEvent", FALSE)}

ClassOf(e) == Op.kind \o "->" \o T.mode \o (IF IsPut(e) THEN "@" \o e.slot ELSE "")

Init == /\ tid \in 1..Len(Traces)
        /\ l = 1
        /\ refS = 0
        /\ putS = [s |-> 0, srcS |-> 0]
        /\ bad = {}
        /\ seen = {}

Next == /\ l <= Len(Steps(tid))
        /\ LET e == Steps(tid)[l]
               cs == Clauses(e)
           IN /\ bad' = bad \cup {<<l, q.c, ClassOf(e)>> : q \in {q \in cs : ~q.ok}}
              /\ seen' = seen \cup {q.c : q \in cs}
              /\ refS' = IF refS = 0 /\ e.call \in {"as_", "ctor"} /\ e.outcome = "ok" THEN e.res.s ELSE refS
              /\ putS' = IF e.call = "putc"
                         THEN (IF e.outcome = "ok" THEN [s |-> e.post.s, srcS |-> e.post.srcS] ELSE [s |-> 0, srcS |-> 0])
                         ELSE putS
        /\ l' = l + 1
        /\ UNCHANGED tid

Spec == Init /\ [][Next]_vars

Report == (l = Len(Steps(tid)) + 1) => PrintT(<<"VERDICT", T.id, bad, seen>>)
=============================================================================
