------------------------------- MODULE Batch --------------------------------
(* One batch of recorded executions of pfst, written by the harness as JSON.   *)
(* stab / ptab / ttab are the hash-consed node, positioned-node and text       *)
(* tables (1-based, 0 = None); traces is a sequence of                        *)
(*   [id, init : State, steps : Seq(Event)].                                   *)
EXTENDS Integers, Sequences, Json, IOUtils

Batch  == JsonDeserialize(IOEnv.TRACE_FILE)
STab   == Batch.stab
PTab   == Batch.ptab
TTab   == Batch.ttab
Traces == Batch.traces
=============================================================================
