------------------------------ MODULE QuantGen ------------------------------
(* (G) TLC emits the table of quantifier instances with the expected answer. *)
(* Input  (IOEnv.QUANT_IN, JSON):  prods = products {a, b, c, w} of item      *)
(*        numbers per position (0 = absent) and word numbers, enumerated     *)
(*        completely by TLC; ids = explicit instance ids (seeded sample).    *)
(* Output (IOEnv.QUANT_OUT, JSON): rows = Row(id) for every valid in-domain  *)
(*        instance, items = the decoded items that occur.                    *)
EXTENDS Quant, Json, IOUtils

In == JsonDeserialize(IOEnv.QUANT_IN)

ProdIds(p) == {<<a, b, c, wn>> : a \in ToSet(p.a), b \in ToSet(p.b), c \in ToSet(p.c), wn \in ToSet(p.w)}
AllIds == UNION {ProdIds(In.prods[k]) : k \in 1..Len(In.prods)} \cup ToSet(In.ids)
Good == {id \in AllIds : ValidId(id) /\ InDomain(PatsOf(id))}
Used == UNION {{id[1], id[2], id[3]} : id \in Good} \ {0}

ASSUME JsonSerialize(IOEnv.QUANT_OUT,
                     [rows  |-> SetToSeq({Row(id) : id \in Good}),
                      items |-> SetToSeq({[i |-> i, it |-> ItemOf(i)] : i \in Used}),
                      asked |-> Cardinality(AllIds),
                      nflat |-> NFlat, nitems |-> NItems, nwords |-> NWords])
=============================================================================
