SPECIFICATION Spec
CONSTANTS
  MCItems = {1, 3, 4, 5, 8, 12, 13, 17, 20, 48, 49, 59, 63, 66, 81, 85, 110, 474, 2035, 4001, 6002, 8000}
  MCItems3 = {1, 3, 5, 12, 48}
  MCWords = {0, 1, 2, 3, 4, 5, 6, 7, 8, 9, 10, 11, 12, 13, 14, 15, 16, 17, 18, 19, 20, 21, 22, 23, 24, 25, 26, 27, 28, 29, 30, 31, 32, 33, 34, 35, 36, 37, 38, 39}
INVARIANT LexFirst
INVARIANT GreedyLang
INVARIANT Tiles
INVARIANT AtomicSound
INVARIANT ElemOnlySub
INVARIANT AtomicNoopFlat
INVARIANT WalkIsSpec
CHECK_DEADLOCK FALSE
