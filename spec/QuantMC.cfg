SPECIFICATION Spec
CONSTANTS
  MCItems = {1, 2, 3, 4, 5, 8, 9, 12, 13, 16, 17, 19, 20, 27, 30, 31, 45, 48, 49, 52, 53, 59, 62, 63, 66, 81, 84, 85, 96, 110, 205, 474, 475, 1000, 2035, 3000, 4001, 5555, 6002, 7003, 8000}
  MCItems3 = {1, 3, 5, 12, 48}
  MCWords = {0, 1, 2, 3, 4, 5, 6, 7, 8, 9, 10, 11, 12, 13, 14, 15, 16, 17, 18, 19, 20, 21, 22, 23, 24, 25, 26, 27, 28, 29, 30, 31, 32, 33, 34, 35, 36, 37, 38, 39}
INVARIANT LexFirst
INVARIANT GreedyLang
INVARIANT Tiles
INVARIANT AtomicSound
INVARIANT ElemOnlySub
CHECK_DEADLOCK FALSE
