SPECIFICATION Spec
CONSTANTS
  NStmt = 2
  Patterns <- PatQuick
  TailPatterns <- TailQuick
  LeadModes <- LeadAll
  TrailModes <- TrailAll
