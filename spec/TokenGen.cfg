SPECIFICATION Spec
CONSTANTS
  NStmt = 2
  Patterns <- PatThorough
  TailPatterns <- TailThorough
  JoinOpts <- JoinAll
  EatOpts <- EatQuick
  LeadModes <- LeadInts
  TrailModes <- TrailInts
