--------------------------- MODULE ReconcileTrace ---------------------------
(* Trace validation for property C13: recorded executions of the real pfst     *)
(*   mark() ; pure-AST mutations of root.a ; [FST edit] ; reconcile() ; ...    *)
(* judged against what the property states.  Verdicts are total and name the   *)
(* failing clause; the third component of a bad triple is the case class.      *)
(*                                                                             *)
(* Events (harness/c13_recon.py):                                              *)
(*  mark      [ok, text, stmts : Seq([path, blk, own, cmt, kind])]             *)
(*  mutate    [kind, pos, sites : Seq(ReconcileOps site + [org, kind, src])]   *)
(*  fstedit   [changed]                                                        *)
(*  reconcile [outcome, exc, userOk, userRawS, userS,                          *)
(*             res : [text, srcOk, srcS, srcP, liveS, liveP, blks, isRoot,     *)
(*                    shape],                                                  *)
(*             model : [has, shape, touched]]   (expectations of Reconcile.tla *)
(*                                               for TLC-generated histories) *)
(* All ids are hash-consed: equal ids <=> equal trees / texts / line blocks.   *)
(*                                                                             *)
(* Domain (named): InDomain == the mark was taken on a consistent tree, no FST *)
(* edit was mixed with pending AST mutations (FstEditOnCleanTree), and the     *)
(* user's mutated AST is a valid tree, i.e. it survives ast.unparse/ast.parse  *)
(* unchanged (UserAstValid).  Outside the domain nothing is judged.            *)
EXTENDS ReconcileOps, Batch, TLC

VARIABLES tid, l, bad, seen,
          mk,        \* the last mark event
          valid,     \* "none" | "yes" | "no" (FST edit since mark) | "unknown" (failed FST edit)
          dom,       \* protocol part of InDomain
          nmut, touched, muts
vars == <<tid, l, bad, seen, mk, valid, dom, nmut, touched, muts>>

Steps(t) == Traces[t].steps
NoMark == [call |-> "mark", ok |-> FALSE, text |-> 0, stmts |-> <<>>]

Cl(name, ok, k) == [c |-> name, ok |-> ok, k |-> k]

MStmts == {mk.stmts[j].path : j \in 1..Len(mk.stmts)}

RECURSIVE Join(_, _)
Join(s, sep) == IF s = <<>> THEN "" ELSE IF Len(s) = 1 THEN s[1] ELSE s[1] \o sep \o Join(Tail(s), sep)

SiteOrgs(e) == Join([k \in 1..Len(e.sites) |-> e.sites[k].org], "/")
MutDesc(e)  == e.kind \o "[" \o e.pos \o "]@" \o SiteOrgs(e)
MutClass    == IF muts = <<>> THEN "none" ELSE Join([k \in 1..Len(muts) |-> MutDesc(muts[k])], "+")

(* sites (in history order) whose mutated object is a proper ancestor of p   *)
RECURSIVE BelowDescs(_, _, _, _)
BelowDescs(ms, k, c, p) ==
  IF k > Len(ms) THEN <<>>
  ELSE IF c > Len(ms[k].sites) THEN BelowDescs(ms, k + 1, 1, p)
  ELSE LET s == ms[k].sites[c] IN
       (IF Below(s, p) THEN <<ms[k].kind \o ":" \o s.kind \o "." \o s.n \o "/" \o s.mode
                                \o (IF s.src # "" THEN "<" \o s.src ELSE "")>> ELSE <<>>)
         \o BelowDescs(ms, k, c + 1, p)

UntouchedClass(p) ==
  LET d == BelowDescs(muts, 1, 1, p) IN IF d = <<>> THEN "apart[" \o MutClass \o "]" ELSE Join(d, "+")

UserAstValid(e) == e.userOk /\ e.userRawS = e.userS
InDomain(e)     == dom /\ UserAstValid(e) /\ valid = "yes"

SameSet(A, B) == /\ \A p \in A : \E q \in B : SamePath(p, q)
                 /\ \A q \in B : \E p \in A : SamePath(p, q)

ReconcileClauses(e) ==
  LET r == e.res IN
  IF valid \in {"no", "none"} THEN
     {Cl("MarkInvalidated", e.outcome = "raise" /\ e.exc = "RuntimeError", "fstedit")}
  ELSE IF ~InDomain(e) THEN {}
  ELSE
     {Cl("Completes", e.outcome = "ok", MutClass)}
     \cup (IF e.outcome # "ok" THEN {} ELSE
           { Cl("Sync", r.srcOk /\ r.liveP = r.srcP /\ r.liveS = r.srcS, MutClass),
             Cl("StructEqualsUserAst", r.srcOk /\ r.srcS = e.userS, MutClass),
             Cl("ResultIsRoot", r.isRoot, MutClass) }
           \cup (IF nmut = 0 THEN {Cl("NoChangeIdentity", r.text = mk.text, "nochange")} ELSE {})
           \cup (IF ~r.srcOk THEN {}           \* the statements of the result are found through ast.parse(result): Sync reports this
                 ELSE IF Len(r.blks) # Len(mk.stmts) THEN {Cl("Untouched", FALSE, "malformed")}
                 ELSE {Cl("Untouched", r.blks[j] = mk.stmts[j].blk, UntouchedClass(mk.stmts[j].path))
                         : j \in {i \in 1..Len(mk.stmts) : mk.stmts[i].path \notin touched}})
           \cup (IF e.model.has
                 THEN { Cl("ModelShape", e.model.shape = r.shape, MutClass),
                        Cl("ModelTouched", SameSet({e.model.touched[k] : k \in 1..Len(e.model.touched)}, touched),
                           MutClass) }
                 ELSE {}))

Clauses(e) ==
  CASE e.call = "reconcile" -> ReconcileClauses(e)
    [] e.call \in {"mark", "mutate", "fstedit"} -> {}
    [] OTHER -> {Cl("UnknownEvent", FALSE, "?")}

Init == /\ tid \in 1..Len(Traces)
        /\ l = 1 /\ bad = {} /\ seen = {}
        /\ mk = NoMark /\ valid = "none" /\ dom = TRUE /\ nmut = 0 /\ touched = {} /\ muts = <<>>

Next ==
  /\ l <= Len(Steps(tid))
  /\ LET e  == Steps(tid)[l]
         cs == Clauses(e)
     IN /\ bad'  = bad \cup {<<l, x.c, x.k>> : x \in {q \in cs : ~q.ok}}
        /\ seen' = seen \cup {x.c : x \in cs}
        /\ CASE e.call = "mark" ->
                  /\ mk' = e /\ valid' = "yes" /\ nmut' = 0 /\ touched' = {} /\ muts' = <<>>
                  /\ dom' = (e.ok /\ nmut = 0)             \* mark() on a tree with pending AST mutations: out of domain
             [] e.call = "mutate" ->
                  /\ touched' = touched \cup TouchSites(MStmts, e.sites)
                  /\ nmut' = nmut + 1 /\ muts' = Append(muts, e)
                  /\ UNCHANGED <<mk, valid, dom>>
             [] e.call = "fstedit" ->
                  /\ valid' = IF valid = "none" THEN "none" ELSE IF e.changed THEN "no" ELSE "unknown"
                  /\ dom' = (dom /\ nmut = 0)              \* FstEditOnCleanTree
                  /\ UNCHANGED <<mk, nmut, touched, muts>>
             [] e.call = "reconcile" ->
                  /\ IF e.outcome = "ok"
                     THEN valid' = "none" /\ nmut' = 0 /\ muts' = <<>> /\ touched' = {} /\ dom' = TRUE
                     ELSE UNCHANGED <<valid, nmut, muts, touched, dom>>
                  /\ UNCHANGED mk
             [] OTHER -> UNCHANGED <<mk, valid, dom, nmut, touched, muts>>
  /\ l' = l + 1
  /\ UNCHANGED tid

Spec == Init /\ [][Next]_vars

Report == (l = Len(Steps(tid)) + 1) => PrintT(<<"VERDICT", Traces[tid].id, bad, seen>>)
=============================================================================
