------------------------------- MODULE TokenRef ------------------------------
(* C04: the line model and the line-level *reference editor* for statement    *)
(* lists (pure operators; TokenMC.tla model-checks it against TokenLaws,       *)
(* TokenGen.tla emits its case table for replay into the real pfst).           *)
(*                                                                            *)
(* A layout is a module of NStmt one-line statements; above each statement    *)
(* (and after the last one) sits one of the Patterns of comment / blank       *)
(* lines, and each statement may carry a line comment.  The reference editor  *)
(* is written on *lines* from the documentation of the trivia option (it does *)
(* not share a definition with TokenLaws, which works on token indices):      *)
(*   delete / replace statement i : the statement line goes, with the leading *)
(*     comment lines its leading mode selects ('none' | 'block' | 'all') and  *)
(*     the trailing ones its trailing mode selects ('none' | 'line' |         *)
(*     'block' | 'all'); an unselected line comment stays as a line of its    *)
(*     own; optionally one adjacent blank line is eaten / added (pep8space,   *)
(*     '+N' / '-N')                                                           *)
(*   insert at i : a new line right after the previous statement              *)
(* Tokens and lines are hash-consed integers as in the recorded traces; the    *)
(* facts handed to TokenLaws (CaseOf) are computed here by a small tokenizer   *)
(* of the line model.                                                          *)
EXTENDS Integers, Sequences, FiniteSets, TLC

CONSTANTS NStmt,       \* number of statements
          Patterns,    \* set of sequences over {"c", "b"} (comment line, blank line) above a statement
          TailPatterns, \* the same after the last statement
          LeadModes, TrailModes

(* constant values for the .cfg files (sequences cannot be written there)     *)
PatQuick    == {<<>>, <<"c">>, <<"b", "c">>, <<"c", "b", "c">>}
PatThorough == PatQuick \cup {<<"c", "b">>}
TailQuick   == {<<>>, <<"c">>}
TailThorough == {<<>>, <<"c">>, <<"b", "c">>}
LeadAll  == {"none", "block", "all"}
TrailAll == {"none", "line", "block", "all"}
(* line-number forms of the option, written relative to the statement's line:  *)
(* "upK" = the K-th line above it, "downK" = the K-th line below it            *)
LeadInts  == LeadAll \cup {"up1", "up2"}
TrailInts == TrailAll \cup {"down0", "down1"}
UpK(m)   == IF m = "up1" THEN 1 ELSE IF m = "up2" THEN 2 ELSE 0
DownK(m) == IF m = "down1" THEN 1 ELSE 0
IsUp(m)   == m \in {"up1", "up2"}
IsDown(m) == m \in {"down0", "down1"}

(* ---- ids ----------------------------------------------------------------- *)
NewId == 9
NL == 2001  NEWLINE == 2002  ENDMARKER == 2003
CmtTok(j) == 1000 + j
TokIds == (1..9) \cup (1001..1999) \cup {NL, NEWLINE, ENDMARKER}
MKTab == [id \in TokIds |-> IF id < 1000 THEN [t |-> "NAME", s |-> "n"]
                            ELSE IF id < 2000 THEN [t |-> "COMMENT", s |-> "#"]
                            ELSE IF id = NL THEN [t |-> "NL", s |-> ""]
                            ELSE IF id = NEWLINE THEN [t |-> "NEWLINE", s |-> ""]
                            ELSE [t |-> "ENDMARKER", s |-> ""]]
(* line ids: 1 blank; 1000+j comment j; 2000 + 20*stmt + 2*tr + variant       *)
BlankLine == 1
LineIds == {1} \cup (1001..1999) \cup (2000..2999)
MLTab == [id \in LineIds |-> [b |-> id = 1]]

TL == INSTANCE TokenLaws WITH KTab <- MKTab, LTab <- MLTab

(* a line: [k |-> "stmt" | "cmt" | "blank", id, tr (comment id of the line    *)
(* comment or 0), v (layout variant of the same tokens: re-indented)]         *)
StmtLine(i, tr, v) == [k |-> "stmt", id |-> i, tr |-> tr, v |-> v]
CmtLine(j)         == [k |-> "cmt", id |-> j, tr |-> 0, v |-> 0]
BlankL             == [k |-> "blank", id |-> 0, tr |-> 0, v |-> 0]
LineId(x) == IF x.k = "blank" THEN 1 ELSE IF x.k = "cmt" THEN 1000 + x.id
             ELSE 2000 + 20 * x.id + 2 * (IF x.tr # 0 THEN 1 ELSE 0) + x.v
LineToks(x) == IF x.k = "blank" THEN <<NL>> ELSE IF x.k = "cmt" THEN <<CmtTok(x.id), NL>>
               ELSE <<x.id>> \o (IF x.tr # 0 THEN <<CmtTok(x.tr)>> ELSE <<>>) \o <<NEWLINE>>

(* ---- layouts --------------------------------------------------------------- *)
PatLines(p, base) == [q \in DOMAIN p |-> IF p[q] = "c" THEN CmtLine(base + q) ELSE BlankL]
RECURSIVE Build(_, _, _, _)
Build(pats, trail, tail, i) ==
  IF i > NStmt THEN PatLines(tail, 10 * (NStmt + 1))
  ELSE PatLines(pats[i], 10 * i) \o <<StmtLine(i, IF trail[i] THEN 100 + i ELSE 0, 0)>> \o Build(pats, trail, tail, i + 1)
Layouts == [pats : [1..NStmt -> Patterns], trail : [1..NStmt -> BOOLEAN], tail : TailPatterns]
LinesOf(lay) == Build(lay.pats, lay.trail, lay.tail, 1)

(* ---- tokenizer of the line model ------------------------------------------- *)
RECURSIVE Flat(_, _)
(* sequence of [id, ln, fol] for lines[from..]                                 *)
Flat(lines, from) ==
  IF from > Len(lines) THEN <<[id |-> ENDMARKER, ln |-> Len(lines) + 1, fol |-> 1]>>
  ELSE LET t == LineToks(lines[from])
       IN [q \in DOMAIN t |-> [id |-> t[q], ln |-> from, fol |-> IF q = 1 THEN 1 ELSE 0]] \o Flat(lines, from + 1)
Stream(lines) == LET f == Flat(lines, 1) IN
  [k |-> [q \in DOMAIN f |-> f[q].id], sl |-> [q \in DOMAIN f |-> f[q].ln], fol |-> [q \in DOMAIN f |-> f[q].fol],
   ln |-> [q \in DOMAIN lines |-> LineId(lines[q])]]

StmtPos(lines) == {p \in DOMAIN lines : lines[p].k = "stmt"}
PosOfStmt(lines, i) == CHOOSE p \in DOMAIN lines : lines[p].k = "stmt" /\ lines[p].id = i
PrevStmtPos(lines, p) == LET S == {q \in StmtPos(lines) : q < p} IN IF S = {} THEN 0 ELSE CHOOSE q \in S : \A z \in S : z <= q
NextStmtPos(lines, p) == LET S == {q \in StmtPos(lines) : q > p} IN IF S = {} THEN Len(lines) + 1 ELSE CHOOSE q \in S : \A z \in S : z >= q

(* ---- the reference editor (lines) ------------------------------------------ *)
IsCmt(lines, p) == p \in DOMAIN lines /\ lines[p].k = "cmt"
LeadStart(lines, p, lm) ==
  IF lm = "block" THEN CHOOSE a \in 1..p : (\A z \in a..(p - 1) : IsCmt(lines, z)) /\ ~(a > 1 /\ IsCmt(lines, a - 1))
  ELSE IF lm = "all" THEN LET S == {z \in (PrevStmtPos(lines, p) + 1)..(p - 1) : IsCmt(lines, z)}
                          IN IF S = {} THEN p ELSE CHOOSE a \in S : \A z \in S : a <= z
  ELSE IF IsUp(lm) THEN LET a == p - UpK(lm)  q == PrevStmtPos(lines, p) + 1      \* from that line on, never across code
                        IN IF a > q THEN a ELSE q
  ELSE p
TrailEnd(lines, p, tm) ==
  IF tm = "block" THEN CHOOSE b \in p..Len(lines) : (\A z \in (p + 1)..b : IsCmt(lines, z)) /\ ~IsCmt(lines, b + 1)
  ELSE IF tm = "all" THEN LET S == {z \in (p + 1)..(NextStmtPos(lines, p) - 1) : IsCmt(lines, z)}
                          IN IF S = {} THEN p ELSE CHOOSE b \in S : \A z \in S : b >= z
  ELSE IF IsDown(tm) THEN LET b == p + DownK(tm)  q == NextStmtPos(lines, p) - 1   \* up to that line, never across code
                          IN IF b < q THEN b ELSE q
  ELSE p
Seg(s, a, b) == IF a > b THEN <<>> ELSE SubSeq(s, a, b)

(* eat: also remove one blank line directly above the removed region; add: a   *)
(* blank line after the new statement                                          *)
RefRemove(lines, i, lm, tm, new, eat, add) ==
  LET p == PosOfStmt(lines, i)
      a0 == LeadStart(lines, p, lm)
      a == IF eat /\ a0 > 1 /\ lines[a0 - 1].k = "blank" THEN a0 - 1 ELSE a0
      b == TrailEnd(lines, p, tm)
      kept == IF tm = "none" /\ lines[p].tr # 0 THEN <<CmtLine(lines[p].tr)>> ELSE <<>>
  IN Seg(lines, 1, a - 1) \o new \o kept \o (IF add THEN <<BlankL>> ELSE <<>>) \o Seg(lines, b + 1, Len(lines))
RefInsert(lines, i, add) ==    \* i in 1..NStmt+1 : before statement i / at the end of the statement list
  LET at == IF i = 1 THEN 0 ELSE PosOfStmt(lines, i - 1)
  IN Seg(lines, 1, at) \o <<StmtLine(NewId, 0, 0)>> \o (IF add THEN <<BlankL>> ELSE <<>>) \o Seg(lines, at + 1, Len(lines))

(* ---- facts for TokenLaws ---------------------------------------------------- *)
TvPart(m) == [k |-> "str", b |-> FALSE, w |-> m, sg |-> "", hasn |-> FALSE, n |-> 0]
IntPart(n) == [k |-> "int", b |-> FALSE, w |-> "", sg |-> "", hasn |-> TRUE, n |-> n]
(* the option value for statement i: line numbers are 0-based                  *)
TvOf(lines, i, lm, tm) ==
  LET p0 == IF IsUp(lm) \/ IsDown(tm) THEN PosOfStmt(lines, i) - 1 ELSE 0
  IN [n |-> 2, a |-> <<IF IsUp(lm) THEN IntPart(p0 - UpK(lm)) ELSE TvPart(lm),
                       IF IsDown(tm) THEN IntPart(p0 + DownK(tm)) ELSE TvPart(tm)>>]
NameIdx(st) == SelectSeq([q \in DOMAIN st.k |-> q], LAMBDA q : st.k[q] < 1000)
ExtStmt(st, q) == IF st.k[q + 1] = NEWLINE THEN q + 1 ELSE q + 2    \* through the line comment and NEWLINE
CaseOf(pre, post, ns, nt, tv, deleting) ==
  LET a == Stream(pre)  b == Stream(post)
      n == Len(a.k)
      names == NameIdx(a)
      kids == [q \in DOMAIN names |-> [lo |-> names[q], hi |-> names[q], hx |-> ExtStmt(a, names[q]), r |-> 1, blk |-> FALSE]]
  IN [ T |-> a.k, ts |-> a.sl, te |-> a.sl, tf |-> a.fol, L |-> a.ln,
       U |-> b.k, us |-> b.sl, ue |-> b.sl, uf |-> b.fol, M |-> b.ln,
       cLo |-> 1, cHi |-> n - 1, kids |-> kids,
       E |-> [q \in DOMAIN names |-> [lo |-> names[q], hi |-> names[q], blk |-> FALSE]], r |-> 1,
       valid |-> TRUE, ns |-> ns, nt |-> nt,
       own |-> {q \in 1..(n - 1) : a.k[q] >= 1000}, uown |-> {q \in 1..(Len(b.k) - 1) : b.k[q] >= 1000}, uoOk |-> TRUE,
       newc |-> <<>>, newk |-> <<NewId>>, stmt |-> TRUE, kind |-> "Module", field |-> "body", form |-> "slice", deleting |-> deleting,
       tv |-> tv,
       elifPre |-> FALSE, elifPost |-> FALSE, soleGen |-> FALSE, dependent |-> FALSE ]
=============================================================================
