------------------------------- MODULE TokenRef ------------------------------
(* C04: the line model and the line-level *reference editor* for statement    *)
(* lists (pure operators; TokenMC.tla model-checks it against TokenLaws,       *)
(* TokenGen.tla emits its case table for replay into the real pfst).           *)
(*                                                                            *)
(* A layout is a module of NStmt one-line statements; above each statement    *)
(* (and after the last one) sits one of the Patterns of comment / blank /      *)
(* line-continuation lines, each statement may carry a line comment, and       *)
(* consecutive statements may share a physical line, joined by `;` (JoinOpts). *)
(* The reference editor                                                       *)
(* is written on *lines* from the documentation of the trivia option (it does *)
(* not share a definition with TokenLaws, which works on token indices):      *)
(*   delete / replace statement i : the statement line goes, with the leading *)
(*     comment lines its leading mode selects ('none' | 'block' | 'all') and  *)
(*     the trailing ones its trailing mode selects ('none' | 'line' |         *)
(*     'block' | 'all' | line numbers); an unselected line comment stays; up   *)
(*     to N blank lines next to the removed region go with it (space counts   *)
(*     '+N' / '-N' of the option, pep8space); only the first statement of a    *)
(*     `;`-joined line has leading trivia, only the last one trailing trivia   *)
(*   insert at i : a new line right after the previous statement              *)
(* Tokens and lines are hash-consed integers as in the recorded traces; the    *)
(* facts handed to TokenLaws (CaseOf) are computed here by a small tokenizer   *)
(* of the line model.                                                          *)
EXTENDS Integers, Sequences, FiniteSets, TLC

CONSTANTS NStmt,        \* number of statements
          Patterns,     \* set of sequences over {"c", "b", "l"} (comment, blank, line-continuation line) above a statement
          TailPatterns, \* the same after the last statement (no "l": a continuation needs a next line)
          EatOpts,      \* set of <<above, below>> counts of empty lines that go with the removed region
          JoinOpts,     \* {FALSE} or BOOLEAN: may a statement share the line of the previous one (`a; b`)
          LeadModes, TrailModes

(* constant values for the .cfg files (sequences cannot be written there)     *)
PatQuick    == {<<>>, <<"c">>, <<"c", "b", "c">>, <<"l">>}
PatThorough == PatQuick \cup {<<"b", "c">>}
PatGen      == PatThorough \cup {<<"l", "c">>, <<"b", "b", "c">>}
TailQuick   == {<<>>, <<"b", "c">>}
TailOne     == {<<"b", "c">>}
TailThorough == {<<>>, <<"c">>, <<"b", "c">>}
TailGen     == TailThorough \cup {<<"b", "b", "c">>}
LeadAll  == {"none", "block", "all"}
TrailAll == {"none", "line", "block", "all"}
(* line-number forms of the option, written relative to the statement's line:  *)
(* "upK" = the K-th line above it, "downK" = the K-th line below it            *)
LeadInts  == LeadAll \cup {"up1", "up2"}
TrailInts == TrailAll \cup {"down0", "down1"}
UpK(m)   == IF m = "up1" THEN 1 ELSE IF m = "up2" THEN 2 ELSE 0
DownK(m) == IF m = "down1" THEN 1 ELSE 0
IsUp(m)   == m \in {"up1", "up2"}
IsDown(m) == m \in {"down0", "down1"}
(* space counts of the option ('+N' / '-N' after the word): how many empty    *)
(* lines next to the selected trivia go as well; the sign only matters for    *)
(* what a *copy* holds                                                         *)
Spaces == {[n |-> 0, sg |-> ""]} \cup {[n |-> k, sg |-> g] : k \in 1..3, g \in {"+", "-"}}
SpacePairs == {[lead |-> a, trail |-> b] : a \in Spaces, b \in Spaces}
(* <<above, below>> numbers of empty lines eaten, for the model                 *)
EatQuick    == {<<0, 0>>, <<1, 2>>}
EatThorough == {<<0, 0>>, <<2, 3>>}

(* ---- ids ----------------------------------------------------------------- *)
NewId == 9
NL == 2001  NEWLINE == 2002  ENDMARKER == 2003  SEMI == 2004
CmtTok(j) == 1000 + j
TokIds == (1..9) \cup (1001..1999) \cup {NL, NEWLINE, ENDMARKER, SEMI}
MKTab == [id \in TokIds |-> IF id < 1000 THEN [t |-> "NAME", s |-> "n"]
                            ELSE IF id < 2000 THEN [t |-> "COMMENT", s |-> "#"]
                            ELSE IF id = NL THEN [t |-> "NL", s |-> ""]
                            ELSE IF id = NEWLINE THEN [t |-> "NEWLINE", s |-> ""]
                            ELSE IF id = SEMI THEN [t |-> "OP", s |-> ";"]
                            ELSE [t |-> "ENDMARKER", s |-> ""]]
(* line ids: 1 blank; 2 continuation (`\` alone: empty space as well);          *)
(* 1000+j comment j; 3000 + 4*(statement ids as decimal digits) + 2*tr + variant *)
LineIds == {1, 2} \cup (1001..1999) \cup (3000..7003)
MLTab == [id \in LineIds |-> [b |-> id <= 2, c |-> id = 2]]

JoinAll == BOOLEAN
JoinNone == {FALSE}

TL == INSTANCE TokenLaws WITH KTab <- MKTab, LTab <- MLTab

(* a line: [k |-> "stmt" | "cmt" | "blank" | "cont", ids (the statements of a  *)
(* statement line, `;`-joined), id (comment id), tr (comment id of the line   *)
(* comment or 0), v (layout variant of the same tokens: re-indented)]         *)
StmtLine(ids, tr, v) == [k |-> "stmt", ids |-> ids, id |-> 0, tr |-> tr, v |-> v]
CmtLine(j)           == [k |-> "cmt", ids |-> <<>>, id |-> j, tr |-> 0, v |-> 0]
BlankL               == [k |-> "blank", ids |-> <<>>, id |-> 0, tr |-> 0, v |-> 0]
ContL                == [k |-> "cont", ids |-> <<>>, id |-> 0, tr |-> 0, v |-> 0]
RECURSIVE Digits(_)
Digits(ids) == IF ids = <<>> THEN 0 ELSE 10 * Digits(SubSeq(ids, 1, Len(ids) - 1)) + ids[Len(ids)]
LineId(x) == IF x.k = "blank" THEN 1 ELSE IF x.k = "cont" THEN 2 ELSE IF x.k = "cmt" THEN 1000 + x.id
             ELSE 3000 + 4 * Digits(x.ids) + 2 * (IF x.tr # 0 THEN 1 ELSE 0) + x.v
RECURSIVE Joined(_)
Joined(ids) == IF Len(ids) <= 1 THEN ids ELSE <<ids[1], SEMI>> \o Joined(Tail(ids))
LineToks(x) == IF x.k = "blank" THEN <<NL>> ELSE IF x.k = "cont" THEN <<>> ELSE IF x.k = "cmt" THEN <<CmtTok(x.id), NL>>
               ELSE Joined(x.ids) \o (IF x.tr # 0 THEN <<CmtTok(x.tr)>> ELSE <<>>) \o <<NEWLINE>>
InLine(x, i) == x.k = "stmt" /\ \E q \in DOMAIN x.ids : x.ids[q] = i
Blankish(x)  == x.k \in {"blank", "cont"}

(* ---- layouts --------------------------------------------------------------- *)
PatLines(p, base) == [q \in DOMAIN p |-> IF p[q] = "c" THEN CmtLine(base + q) ELSE IF p[q] = "l" THEN ContL ELSE BlankL]
(* statements i..j-1 share a line when join[i], .., join[j-2]                   *)
RECURSIVE RunEnd(_, _)
RunEnd(join, i) == IF i < NStmt /\ join[i] THEN RunEnd(join, i + 1) ELSE i
RECURSIVE Build(_, _)
Build(lay, i) ==
  IF i > NStmt THEN PatLines(lay.tail, 10 * (NStmt + 1))
  ELSE LET j == RunEnd(lay.join, i)
       IN PatLines(lay.pats[i], 10 * i)
          \o <<StmtLine([q \in 1..(j - i + 1) |-> i + q - 1], IF lay.trail[j] THEN 100 + j ELSE 0, 0)>>
          \o Build(lay, j + 1)
Layouts == {l \in [pats : [1..NStmt -> Patterns], trail : [1..NStmt -> BOOLEAN], tail : TailPatterns,
                   join : [1..(NStmt - 1) -> JoinOpts]] :
              \A i \in 1..(NStmt - 1) : l.join[i] => (l.pats[i + 1] = <<>> /\ ~l.trail[i])}
LinesOf(lay) == Build(lay, 1)

(* ---- tokenizer of the line model ------------------------------------------- *)
RECURSIVE Flat(_, _)
(* sequence of [id, ln, fol] for lines[from..]                                 *)
Flat(lines, from) ==
  IF from > Len(lines) THEN <<[id |-> ENDMARKER, ln |-> Len(lines) + 1, fol |-> 1]>>
  ELSE LET t == LineToks(lines[from])
       IN [q \in DOMAIN t |-> [id |-> t[q], ln |-> from, fol |-> IF q = 1 THEN 1 ELSE 0]] \o Flat(lines, from + 1)
Stream(lines) == LET f == Flat(lines, 1) IN
  [k |-> [q \in DOMAIN f |-> f[q].id], sl |-> [q \in DOMAIN f |-> f[q].ln], fol |-> [q \in DOMAIN f |-> f[q].fol],
   ln |-> [q \in DOMAIN lines |-> LineId(lines[q])]]

StmtPos(lines) == {p \in DOMAIN lines : lines[p].k = "stmt"}
PosOfStmt(lines, i) == CHOOSE p \in DOMAIN lines : InLine(lines[p], i)
PrevStmtPos(lines, p) == LET S == {q \in StmtPos(lines) : q < p} IN IF S = {} THEN 0 ELSE CHOOSE q \in S : \A z \in S : z <= q
NextStmtPos(lines, p) == LET S == {q \in StmtPos(lines) : q > p} IN IF S = {} THEN Len(lines) + 1 ELSE CHOOSE q \in S : \A z \in S : z >= q
IsFirstOnLine(lines, i) == lines[PosOfStmt(lines, i)].ids[1] = i
IsLastOnLine(lines, i)  == LET x == lines[PosOfStmt(lines, i)] IN x.ids[Len(x.ids)] = i

(* ---- the reference editor (lines) ------------------------------------------ *)
IsCmt(lines, p) == p \in DOMAIN lines /\ lines[p].k = "cmt"
LeadStart(lines, p, lm) ==
  IF lm = "block" THEN CHOOSE a \in 1..p : (\A z \in a..(p - 1) : IsCmt(lines, z)) /\ ~(a > 1 /\ IsCmt(lines, a - 1))
  ELSE IF lm = "all" THEN LET S == {z \in (PrevStmtPos(lines, p) + 1)..(p - 1) : IsCmt(lines, z)}
                          IN IF S = {} THEN p ELSE CHOOSE a \in S : \A z \in S : a <= z
  ELSE IF IsUp(lm) THEN LET a == p - UpK(lm)  q == PrevStmtPos(lines, p) + 1      \* from that line on, never across code
                        IN IF a > q THEN a ELSE q
  ELSE p
TrailEnd(lines, p, tm) ==
  IF tm = "block" THEN CHOOSE b \in p..Len(lines) : (\A z \in (p + 1)..b : IsCmt(lines, z)) /\ ~IsCmt(lines, b + 1)
  ELSE IF tm = "all" THEN LET S == {z \in (p + 1)..(NextStmtPos(lines, p) - 1) : IsCmt(lines, z)}
                          IN IF S = {} THEN p ELSE CHOOSE b \in S : \A z \in S : b >= z
  ELSE IF IsDown(tm) THEN LET b == p + DownK(tm)  q == NextStmtPos(lines, p) - 1   \* up to that line, never across code
                          IN IF b < q THEN b ELSE q
  ELSE p
Seg(s, a, b) == IF a > b THEN <<>> ELSE SubSeq(s, a, b)
Minus(ids, i) == SelectSeq(ids, LAMBDA z : z # i)
Subst(ids, i, j) == [q \in DOMAIN ids |-> IF ids[q] = i THEN j ELSE ids[q]]

(* up to n empty lines (blank, or - above only - a lone line continuation)     *)
(* directly above line a / directly below line b                               *)
RECURSIVE EatUp(_, _, _)
EatUp(lines, a, n) == IF n > 0 /\ a > 1 /\ Blankish(lines[a - 1]) THEN EatUp(lines, a - 1, n - 1) ELSE a
RECURSIVE EatDown(_, _, _)
EatDown(lines, b, n) == IF n > 0 /\ b < Len(lines) /\ lines[b + 1].k = "blank" THEN EatDown(lines, b + 1, n - 1) ELSE b

(* remove (new = <<>>) or replace (new = <<NewId>>) statement i                *)
(* eatL / eatT: how many empty lines next to the removed region go as well;    *)
(* add: an empty line after the new statement                                  *)
RefRemove(lines, i, lm, tm, new, eatL, eatT, add) ==
  LET p == PosOfStmt(lines, i)
      x == lines[p]
      first == x.ids[1] = i
      last  == x.ids[Len(x.ids)] = i
      whole == Len(x.ids) = 1
      a0 == IF first THEN LeadStart(lines, p, lm) ELSE p                  \* leading trivia: first statement of its line only
      b0 == IF last THEN TrailEnd(lines, p, tm) ELSE p                    \* trailing trivia: last statement of its line only
      a1 == IF first THEN EatUp(lines, a0, eatL) ELSE a0
      \* a lone line continuation directly above a line that goes away would continue into the next line
      a == IF whole /\ new = <<>> /\ a1 > 1 /\ lines[a1 - 1].k = "cont" THEN a1 - 1 ELSE a1
      b == IF last THEN EatDown(lines, b0, eatT) ELSE b0
      keepTr == x.tr # 0 /\ (~last \/ tm = "none")                          \* the line comment belongs to the last statement
      ids == IF new = <<>> THEN Minus(x.ids, i) ELSE Subst(x.ids, i, NewId)
      here == IF ids # <<>> THEN <<StmtLine(ids, IF keepTr THEN x.tr ELSE 0, 0)>>
              ELSE IF keepTr THEN <<CmtLine(x.tr)>> ELSE <<>>               \* an unselected line comment stays, on a line of its own
  IN Seg(lines, 1, a - 1) \o here \o (IF add /\ last THEN <<BlankL>> ELSE <<>>) \o Seg(lines, b + 1, Len(lines))

(* insert a new statement before statement i (i = NStmt + 1: at the end): on a *)
(* line of its own right after the previous statement; a `;`-joined line it    *)
(* falls into is broken there                                                  *)
RefInsert(lines, i, add) ==
  LET nw == <<StmtLine(<<NewId>>, 0, 0)>> \o (IF add THEN <<BlankL>> ELSE <<>>) IN
  IF i = 1 THEN nw \o lines
  ELSE LET p == PosOfStmt(lines, i - 1)
           x == lines[p]
           k == CHOOSE q \in DOMAIN x.ids : x.ids[q] = i - 1
       IN IF k = Len(x.ids) THEN Seg(lines, 1, p) \o nw \o Seg(lines, p + 1, Len(lines))
          ELSE Seg(lines, 1, p - 1) \o <<StmtLine(SubSeq(x.ids, 1, k), 0, 0)>> \o nw
               \o <<StmtLine(SubSeq(x.ids, k + 1, Len(x.ids)), x.tr, 0)>> \o Seg(lines, p + 1, Len(lines))

(* ---- facts for TokenLaws ---------------------------------------------------- *)
TvPart(m, sp) == [k |-> "str", b |-> FALSE, w |-> m, sg |-> sp.sg, hasn |-> sp.n # 0, n |-> sp.n]
IntPart(n) == [k |-> "int", b |-> FALSE, w |-> "", sg |-> "", hasn |-> TRUE, n |-> n]
NoSpace == [n |-> 0, sg |-> ""]
(* the option value for statement i: line numbers are 0-based                  *)
TvOf(lines, i, lm, tm, sp) ==
  LET p0 == IF IsUp(lm) \/ IsDown(tm) THEN PosOfStmt(lines, i) - 1 ELSE 0
  IN [n |-> 2, a |-> <<IF IsUp(lm) THEN IntPart(p0 - UpK(lm)) ELSE TvPart(lm, sp.lead),
                       IF IsDown(tm) THEN IntPart(p0 + DownK(tm)) ELSE TvPart(tm, sp.trail)>>]
NameIdx(st) == SelectSeq([q \in DOMAIN st.k |-> q], LAMBDA q : st.k[q] < 1000)
(* a statement through its line comment and NEWLINE; just itself when `;` follows *)
ExtStmt(st, q) == IF st.k[q + 1] = NEWLINE THEN q + 1 ELSE IF st.k[q + 1] = SEMI THEN q ELSE q + 2
CaseOf(pre, post, ns, nt, tv, deleting) ==
  LET a == Stream(pre)  b == Stream(post)
      n == Len(a.k)
      names == NameIdx(a)
      kids == [q \in DOMAIN names |-> [lo |-> names[q], hi |-> names[q], hx |-> ExtStmt(a, names[q]), r |-> 1, blk |-> FALSE]]
  IN [ T |-> a.k, ts |-> a.sl, te |-> a.sl, tf |-> a.fol, L |-> a.ln,
       U |-> b.k, us |-> b.sl, ue |-> b.sl, uf |-> b.fol, M |-> b.ln,
       cLo |-> 1, cHi |-> n - 1, kids |-> kids,
       E |-> [q \in DOMAIN names |-> [lo |-> names[q], hi |-> names[q], blk |-> FALSE]], r |-> 1,
       valid |-> TRUE, ns |-> ns, nt |-> nt,
       own |-> {q \in 1..(n - 1) : a.k[q] >= 1000}, uown |-> {q \in 1..(Len(b.k) - 1) : b.k[q] >= 1000}, uoOk |-> TRUE,
       newc |-> <<>>, newk |-> <<NewId>>, stmt |-> TRUE, kind |-> "Module", field |-> "body", form |-> "slice", deleting |-> deleting,
       tv |-> tv, docstr |-> "True", ds1 |-> {}, ds2 |-> {},
       elifPre |-> FALSE, elifPost |-> FALSE, soleGen |-> FALSE, dependent |-> FALSE ]
=============================================================================
