----------------------------- MODULE WalkAccept -----------------------------
(* C15, trace validation: recorded walks of the real pfst (walk / search /    *)
(* sub, interleaved with replace / remove mutations and send()) are judged    *)
(* with the property-shaped laws of WalkLaws.tla - the very operators that    *)
(* the model WalkGen.tla is checked against.  Nothing of the generator's      *)
(* internals is assumed.                                                      *)
(*                                                                            *)
(* trace  = [id, cfg : [on, back, recurse, self, scope, api, exact],          *)
(*           n0, snaps : Seq(Snapshot), steps : Seq(Event), init, final]      *)
(* Event  = [k |-> "yield", s, lv, alive, t, slot]  t = snapshot at the yield *)
(*        | [k |-> "mut", op, s, ns, ins, rel, t] t = snapshot after it       *)
(*        | [k |-> "send", v] | [k |-> "stop", why, exc]                       *)
(*                                                                            *)
(* Clauses (C15's sentences):                                                 *)
(*  NoException   the iteration never raises                                  *)
(*  Terminates    at most 2*(initial + inserted nodes)+2 yields, and it ends  *)
(*  YieldedAlive  every yielded FST has its AST                               *)
(*  YieldedInTree every yielded FST hangs in the walked subtree, which is     *)
(*                rooted in the tree, at yield time                           *)
(*  NoDoubleEnter no FST object is yielded twice on entry                     *)
(*  ReplacedChildrenNext / RemovedContinues / SendHonoured   (WalkLaws)       *)
(*  FinalSync     ast.parse(final source) = live tree incl. positions         *)
(* Domain (named): ObservesAll = the consumer sees every yield of the walk    *)
(* (cfg.exact; sub() filters yields, so only the universal clauses apply);    *)
(* NoRewalk = no send(True) at a leaving yield (documented to walk the        *)
(* children AGAIN).                                                           *)
EXTENDS WalkLaws, Json, IOUtils, TLC

Batch  == JsonDeserialize(IOEnv.TRACE_FILE)
Traces == Batch.traces

VARIABLES tid, l, parked, cur, lv, T0i, Ti, lastSend, replacedCur, entered, stale, closed, opened,
          nyield, nins, rewalk, stopped, lastRel, curSlot, curMut, nmut, bad, seen
vars == <<tid, l, parked, cur, lv, T0i, Ti, lastSend, replacedCur, entered, stale, closed, opened,
          nyield, nins, rewalk, stopped, lastRel, curSlot, curMut, nmut, bad, seen>>

Tr == Traces[tid]
Cfg == Tr.cfg
Steps == Tr.steps
SnapAt(i) == IF i >= 1 /\ i <= Len(Tr.snaps) THEN Tr.snaps[i] ELSE <<>>
Cl(c, ok) == [c |-> c, ok |-> ok]
NoExp == [on |-> FALSE, clause |-> "", allowed |-> {}, mayStop |-> TRUE]

(* what the pending park demands of the next yield (the `Resume` of WalkGen)  *)
Op1 == IF parked /\ lastSend = "T" THEN opened \cup {cur} ELSE opened
Cl1 == IF parked /\ lastSend = "F" THEN closed \cup {cur} ELSE closed
Exp ==
  IF ~parked \/ ~Cfg.exact \/ rewalk THEN NoExp
  ELSE LET T0 == SnapAt(T0i)  T1 == SnapAt(Ti)  ci == IdxOf(T0, cur)
           below == FirstBelow(T1, cur, Cfg, Op1, Cfg.scope /\ lastSend # "T")
       IN IF ci = 0 THEN NoExp
          ELSE IF cur \notin Serials(T1)
          THEN [on |-> TRUE, clause |-> "RemovedContinues"]
               @@ AfterDead(T0, [i |-> ci, lv |-> lv], T1, Cfg, entered, Op1, stale)
          ELSE IF ~lv /\ lastSend # "F" /\ (replacedCur \/ lastSend = "T") /\ below # {}
          THEN [on |-> TRUE, clause |-> IF replacedCur THEN "ReplacedChildrenNext" ELSE "SendHonoured",
                allowed |-> below, mayStop |-> FALSE]
          ELSE NoExp

Flipped(Ta, Tb, s) == IdxOf(Ta, s) # 0 /\ IdxOf(Tb, s) # 0 /\ Ta[IdxOf(Ta, s)].e # Tb[IdxOf(Tb, s)].e

(* send(True) "walks the child node and ALL its children unconditionally": judged, on walks that have not been  *)
(* mutated so far, at the moment the walk leaves the subtree of an opened node (or ends inside it): every     *)
(* eligible node below it that is not below a node closed by send(False) has been entered.                    *)
OpenedWalkedFully(ys) ==        \* ys = serial of the node now yielded, 0 at the end of the walk
  LET T == SnapAt(Ti)  pi == IdxOf(T, cur)  yi == IdxOf(T, ys) IN
  \A o \in Op1 :
    LET oi == IdxOf(T, o) IN
    (oi # 0 /\ pi # 0 /\ pi \in Desc(T, oi) \cup {oi} /\ (ys = 0 \/ yi \notin Desc(T, oi)))
      => \A d \in Desc(T, oi) :
           (T[d].e /\ ~\E a \in Anc(T, d) : T[a].s \in Cl1) => (T[d].s \in entered \/ T[d].s = ys)
DeepSend(ys) == IF parked /\ nmut = 0 /\ ~rewalk /\ Cfg.exact /\ Op1 # {}
                THEN {Cl("SendHonoured", OpenedWalkedFully(ys))} ELSE {}

Reenter(e) == ~(e.lv /\ Cfg.on = "both")

YieldClauses(e) ==
  LET x == Exp IN
  {Cl("YieldedAlive", e.alive),
   Cl("YieldedInTree", e.s # 0 /\ e.s \in Serials(SnapAt(e.t))),
   Cl("Terminates", nyield + 1 <= YieldBound(Tr.n0, nins))}
  \cup (IF rewalk THEN {} ELSE {Cl("NoDoubleEnter", Reenter(e) => e.s \notin entered)})
  \cup (IF x.on THEN {Cl(x.clause, [s |-> e.s, lv |-> e.lv] \in x.allowed)} ELSE {})
  \cup (IF Cl1 # {} /\ ~rewalk THEN {Cl("SendHonoured", ~UnderClosed(SnapAt(e.t), e.s, Cl1))} ELSE {})
  \cup DeepSend(e.s)

StopClauses(e) ==
  LET x == Exp IN
  {Cl("NoException", e.why # "exception"),
   Cl("Terminates", e.why # "cutoff")}
  \cup (IF x.on /\ e.why = "exhausted" THEN {Cl(x.clause, x.mayStop)} ELSE {})
  \cup (IF e.why = "exhausted" THEN DeepSend(0) ELSE {})
  \cup (IF Tr.init.parsed /\ Tr.init.liveP = Tr.init.srcP
        THEN {Cl("FinalSync", Tr.final.parsed /\ Tr.final.liveP = Tr.final.srcP)} ELSE {})

Clauses(e) ==
  CASE e.k = "yield" -> YieldClauses(e)
    [] e.k = "stop"  -> StopClauses(e)
    [] e.k = "mut"   -> {}
    [] e.k = "send"  -> {}
    [] OTHER -> {Cl("UnknownEvent", FALSE)}

Setting == Cfg.api \o "." \o Cfg.on \o (IF Cfg.back THEN ".back" ELSE ".fwd") \o (IF Cfg.recurse THEN ".rec" ELSE ".norec")
           \o (IF Cfg.scope THEN ".scope" ELSE "") \o (IF Cfg.self THEN "" ELSE ".noself")
(* case class of a failed clause: settings | last mutation (relation-operation) | what was done to the current   *)
(* node during the pending park | for a stop: exception class and the slot the current node hangs in             *)
ClassOf(e) == Setting \o "|" \o lastRel \o "|cur=" \o curMut
              \o (IF e.k = "stop" THEN "|" \o e.exc \o "|at " \o curSlot ELSE "")

Init == /\ tid \in 1..Len(Traces)
        /\ l = 1 /\ parked = FALSE /\ cur = 0 /\ lv = FALSE /\ T0i = 1 /\ Ti = 1
        /\ lastSend = "none" /\ replacedCur = FALSE
        /\ entered = {} /\ stale = {} /\ closed = {} /\ opened = {}
        /\ nyield = 0 /\ nins = 0 /\ rewalk = FALSE /\ stopped = FALSE /\ lastRel = "none" /\ curSlot = "none" /\ curMut = "none" /\ nmut = 0
        /\ bad = {} /\ seen = {}

OnYield(e) ==
  /\ parked' = TRUE /\ cur' = e.s /\ lv' = e.lv /\ T0i' = e.t /\ Ti' = e.t
  /\ lastSend' = "none" /\ replacedCur' = FALSE
  /\ entered' = IF Reenter(e) THEN entered \cup {e.s} ELSE entered
  /\ opened' = Op1 /\ closed' = Cl1
  /\ nyield' = nyield + 1 /\ curSlot' = e.slot /\ curMut' = "none"
  /\ UNCHANGED <<stale, nins, rewalk, stopped, lastRel, nmut>>

OnMut(e) ==
  LET T0 == SnapAt(T0i)  ci == IdxOf(T0, cur)  ti == IdxOf(T0, e.s) IN
  /\ Ti' = e.t /\ nins' = nins + e.ins /\ lastRel' = e.rel \o "-" \o e.op
  /\ stale' = IF e.op = "replace" /\ parked /\ ci # 0 /\ ti # 0 /\ ti \in Frontier(T0, ci, Cfg.back)
              THEN stale \cup {e.ns}
              ELSE IF e.op = "replace" /\ e.ns = e.s /\ Flipped(SnapAt(Ti), SnapAt(e.t), e.s)
              THEN stale \cup {e.s}            \* kept object changed kind across the filter: its yields are optional
              ELSE stale
  /\ replacedCur' = IF e.op = "replace" /\ parked /\ e.s = cur THEN e.ns = cur ELSE replacedCur
  /\ curMut' = IF parked /\ e.s = cur THEN e.op ELSE curMut
  /\ nmut' = nmut + 1
  /\ UNCHANGED <<parked, cur, lv, T0i, lastSend, entered, closed, opened, nyield, rewalk, stopped, curSlot>>

OnSend(e) ==
  /\ lastSend' = IF e.v THEN "T" ELSE "F"
  /\ rewalk' = (rewalk \/ (lv /\ e.v))                  \* NoRewalk left
  /\ UNCHANGED <<parked, cur, lv, T0i, Ti, replacedCur, entered, stale, closed, opened, nyield, nins, stopped, lastRel, curSlot, curMut, nmut>>

OnStop(e) ==
  /\ stopped' = TRUE /\ parked' = FALSE
  /\ UNCHANGED <<cur, lv, T0i, Ti, lastSend, replacedCur, entered, stale, closed, opened, nyield, nins, rewalk, lastRel, curSlot, curMut, nmut>>

Next == /\ l <= Len(Steps)
        /\ LET e == Steps[l]  cs == Clauses(e) IN
             /\ bad' = bad \cup {<<l, r.c, ClassOf(e)>> : r \in {q \in cs : ~q.ok}}
             /\ seen' = seen \cup {r.c : r \in cs}
             /\ CASE e.k = "yield" -> OnYield(e)
                  [] e.k = "mut"   -> OnMut(e)
                  [] e.k = "send"  -> OnSend(e)
                  [] OTHER         -> OnStop(e)
        /\ l' = l + 1
        /\ UNCHANGED tid

Spec == Init /\ [][Next]_vars
Report == (l = Len(Steps) + 1) => PrintT(<<"VERDICT", Tr.id, bad, seen>>)
=============================================================================
