--------------------------- MODULE WalkShapeCases ---------------------------
(* C14, direction spec -> code, second table: the node shapes whose AST       *)
(* *field* order differs from the order of their text.  TLC enumerates, within *)
(* the bounds, EVERY pattern the Python grammar accepts (the grammar rules are *)
(* the predicates below; checks/c14_shapes.py re-judges every pattern with     *)
(* CPython's parser, accepted AND rejected ones, so the predicates are tested) *)
(* and writes them as JSON.  Each pattern is concretised as real source and    *)
(* goes through the (V) pipeline: pfst's answers are judged by WalkTrace.tla   *)
(* against the order of ast/tokenize positions and against each other.         *)
(* No variables: the module is a family of constants.                          *)
EXTENDS Integers, Sequences, FiniteSets, TLC, Json, IOUtils

CONSTANTS MaxArgs,      \* Call / ClassDef: number of arguments
          MaxPar,       \* arguments: positional-only and plain parameters (each)
          MaxKwOnly,    \* arguments: keyword-only parameters
          MaxDict,      \* Dict / MatchMapping / MatchClass sizes
          MaxGens       \* comprehension generators

SeqsUpTo(S, n) == UNION {[1..k -> S] : k \in 0..n}

(* ---- Call arguments / ClassDef bases: P positional, S *starred, K keyword, D **kwargs ---- *)
(* grammar: no positional after a keyword or **; no *starred after **                        *)
ArgValid(s) == \A i, j \in 1..Len(s) : i < j =>
                  /\ ~(s[j] = "P" /\ s[i] \in {"K", "D"})
                  /\ ~(s[j] = "S" /\ s[i] = "D")
ArgPats == {s \in SeqsUpTo({"P", "S", "K", "D"}, MaxArgs) : ArgValid(s)}
ArgRejected == SeqsUpTo({"P", "S", "K", "D"}, MaxArgs) \ ArgPats
(* field order (args, then keywords) differs from text order *)
ArgMixed(s) == \E i, j \in 1..Len(s) : i < j /\ s[i] \in {"K", "D"} /\ s[j] = "S"

(* ---- Dict: E `k: v`, U `**u` ------------------------------------------------------------ *)
DictPats == SeqsUpTo({"E", "U"}, MaxDict)

(* ---- arguments: po / ar = has-default flags of positional-only / plain parameters,         *)
(* star: none | bare `*` | `*vararg`, ko = has-default flags of keyword-only parameters, kw = `**kwarg` *)
(* grammar: defaults of po ++ ar form a suffix; a bare `*` needs a keyword-only parameter;    *)
(* keyword-only parameters need `*` or `*vararg`                                              *)
SuffixDefaults(s) == \A i, j \in 1..Len(s) : (i < j /\ s[i]) => s[j]
ParValid(r) == /\ SuffixDefaults(r.po \o r.ar)
               /\ (r.star = "bare" => r.ko # <<>>)
               /\ (r.ko # <<>> => r.star # "none")
ParAll  == [po : SeqsUpTo(BOOLEAN, MaxPar), ar : SeqsUpTo(BOOLEAN, MaxPar), star : {"none", "bare", "var"},
            ko : SeqsUpTo(BOOLEAN, MaxKwOnly), kw : BOOLEAN]
ParPats == {r \in ParAll : ParValid(r)}
ParRejected == ParAll \ ParPats

(* ---- patterns: MatchMapping {k: p, ..., **rest}; MatchClass C(p, ..., k=p, ...) ----------- *)
MMapPats   == [n : 0..MaxDict, rest : BOOLEAN]
MClassPats == [np : 0..MaxDict, nk : 0..MaxDict]

(* ---- Compare chains and comprehensions (ifs per generator) -------------------------------- *)
CmpPats  == [n : 1..(MaxDict + 1)]
CompPats == {g \in SeqsUpTo(0..2, MaxGens) : g # <<>>}

RECURSIVE SetToSeq(_)
SetToSeq(S) == IF S = {} THEN <<>> ELSE LET x == CHOOSE x \in S : TRUE IN <<x>> \o SetToSeq(S \ {x})

Table ==
  [call      |-> SetToSeq({[pat |-> s, mixed |-> ArgMixed(s)] : s \in ArgPats}),
   call_rej  |-> SetToSeq(ArgRejected),
   dict      |-> SetToSeq(DictPats),
   args      |-> SetToSeq(ParPats),
   args_rej  |-> SetToSeq(ParRejected),
   mmap      |-> SetToSeq(MMapPats),
   mclass    |-> SetToSeq(MClassPats),
   compare   |-> SetToSeq(CmpPats),
   comp      |-> SetToSeq(CompPats)]

ASSUME PrintT(<<"SHAPES", Cardinality(ArgPats), Cardinality(ParPats), Cardinality(DictPats)>>)
ASSUME JsonSerialize(IOEnv.OUT_FILE, Table)
=============================================================================
