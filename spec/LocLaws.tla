------------------------------- MODULE LocLaws -------------------------------
(* C06 - every reported location denotes exactly the text of its node.        *)
(*                                                                            *)
(* Laws over one recorded snapshot T of a source text:                        *)
(*   T.text  : Seq(Seq(code point))        the lines                          *)
(*   T.toks  : Seq(<<type, s, srow, scol, erow, ecol>>)  the NON-TRIVIA       *)
(*             tokens of `tokenize` (1-based rows, CHARACTER columns); s is   *)
(*             the token text for operators / keyword-like names, "" else     *)
(*   T.cmts  : Seq(<<srow, scol, erow, ecol>>)  the COMMENT tokens            *)
(*   T.nodes : Seq(node), syntax (pre-)order; oracle facts per node           *)
(*               k, par, fld, fi, ch (children in syntax order), x (flag),    *)
(*               cp  = CPython's <<lineno, col_offset, end_lineno,            *)
(*                     end_col_offset>> (BYTE columns) or <<>>,               *)
(*               ts, te = witness token indices of the first / last token of  *)
(*                     cp (re-verified here, never trusted)                   *)
(*             and pfst's recorded answers                                    *)
(*               loc, bloc (<<ln, col, end_ln, end_col>> | <<>>),             *)
(*               lc  = <<ln, col, end_ln, end_col>> accessors,                *)
(*               at  = <<lineno, col_offset, end_lineno, end_col_offset>>,    *)
(*               pT, pF = pars(shared=True / False) ++ <<n>>                  *)
(*                                                                            *)
(* Positions are compared as integers P(line, col) = line * W + col.          *)
(* Every operator is total: malformed data fails a clause, never TLC.         *)
EXTENDS Integers, Sequences, FiniteSets

W == 100000
P(ln, col) == ln * W + col
Cl(name, ok) == [c |-> name, ok |-> ok]
Min2(a, b) == IF a <= b THEN a ELSE b

(* ------------------------------------------------------------------------- *)
(* Text: the UTF-8 map defined by the spec (byte length per code point)        *)
U8(cp) == IF cp < 128 THEN 1 ELSE IF cp < 2048 THEN 2 ELSE IF cp < 65536 THEN 3 ELSE 4

Line(T, ln) == IF ln + 1 \in 1..Len(T.text) THEN T.text[ln + 1] ELSE <<>>

(* prefix sums: PrefixOf(L)[c + 1] = number of bytes of the first c characters of L *)
RECURSIVE PrefixFrom(_, _, _)
PrefixFrom(L, i, acc) == IF i > Len(L) THEN acc ELSE PrefixFrom(L, i + 1, Append(acc, acc[Len(acc)] + U8(L[i])))
PrefixOf(L) == PrefixFrom(L, 1, <<0>>)

(* T.m.pre[ln + 1] is PrefixOf(line ln) (memoised once per snapshot, see Memo below)  *)
Pre(T, ln) == IF ln + 1 \in 1..Len(T.m.pre) THEN T.m.pre[ln + 1] ELSE <<0>>

RECURSIVE B2CScan(_, _, _)
B2CScan(pr, c, b) == IF c < 0 THEN -1 ELSE IF pr[c + 1] = b THEN c ELSE IF pr[c + 1] < b THEN -1 ELSE B2CScan(pr, c - 1, b)
(* byte offset -> character column on line ln; -1 when b is not on a character boundary *)
B2C(T, ln, b) ==
  LET pr == Pre(T, ln) IN
  IF b < 0 THEN -1
  ELSE IF b + 1 <= Len(pr) /\ pr[b + 1] = b THEN b            \* the first b characters are one byte each
  ELSE B2CScan(pr, Min2(b, Len(pr) - 1), b)
(* character column -> byte offset *)
C2B(T, ln, c) == LET pr == Pre(T, ln) IN IF c < 0 \/ c + 1 > Len(pr) THEN -1 ELSE pr[c + 1]

IsSpaceAt(T, ln, col) ==                  \* str.isspace() of the character at (ln, col), False at end of line
  LET L == Line(T, ln) IN col + 1 \in 1..Len(L) /\ L[col + 1] \in {32, 9, 12, 11, 13, 28, 29, 30, 31, 133, 160}

(* ------------------------------------------------------------------------- *)
(* Tokens                                                                      *)
NT(T) == Len(T.toks)
TokOK(T, i) == i \in 1..NT(T)
TStr(T, i) == IF TokOK(T, i) THEN T.toks[i][2] ELSE ""
TS(T, i) == IF TokOK(T, i) THEN P(T.toks[i][3] - 1, T.toks[i][4]) ELSE -1
TE(T, i) == IF TokOK(T, i) THEN P(T.toks[i][5] - 1, T.toks[i][6]) ELSE -1

RECURSIVE RunBack(_, _, _)                \* number of consecutive tokens s at i, i-1, ...
RunBack(T, i, s) == IF TokOK(T, i) /\ TStr(T, i) = s THEN 1 + RunBack(T, i - 1, s) ELSE 0
RECURSIVE RunFwd(_, _, _)
RunFwd(T, i, s) == IF TokOK(T, i) /\ TStr(T, i) = s THEN 1 + RunFwd(T, i + 1, s) ELSE 0

RECURSIVE NextTok(_, _, _)                \* first index >= i whose text is s (0 if none)
NextTok(T, i, s) == IF ~TokOK(T, i) THEN 0 ELSE IF TStr(T, i) = s THEN i ELSE NextTok(T, i + 1, s)

Openers == {"(", "[", "{"}
Closers == {")", "]", "}"}
RECURSIVE MatchClose(_, _, _)             \* the closer matching an opener whose inside starts at i
MatchClose(T, i, d) ==
  IF ~TokOK(T, i) THEN 0
  ELSE IF TStr(T, i) \in Openers THEN MatchClose(T, i + 1, d + 1)
  ELSE IF TStr(T, i) \in Closers THEN (IF d = 0 THEN i ELSE MatchClose(T, i + 1, d - 1))
  ELSE MatchClose(T, i + 1, d)

(* ------------------------------------------------------------------------- *)
(* Nodes                                                                       *)
NN(T) == Len(T.nodes)
Nd(T, n) == T.nodes[n]
K(T, n) == IF n \in 1..NN(T) THEN T.nodes[n].k ELSE "None"
Par(T, n) == T.nodes[n].par
Ch(T, n) == T.nodes[n].ch
Positioned(T, n) == T.nodes[n].cp # <<>>
LastCh(T, n) == Ch(T, n)[Len(Ch(T, n))]
ChOf(T, n, flds) == {c \in {Ch(T, n)[i] : i \in 1..Len(Ch(T, n))} : T.nodes[c].fld \in flds}

ExprKinds == {"BoolOp", "NamedExpr", "BinOp", "UnaryOp", "Lambda", "IfExp", "Dict", "Set", "ListComp", "SetComp",
              "DictComp", "GeneratorExp", "Await", "Yield", "YieldFrom", "Compare", "Call", "FormattedValue",
              "JoinedStr", "Constant", "Attribute", "Subscript", "Starred", "Name", "List", "Tuple", "Slice"}
PatternKinds == {"MatchValue", "MatchSingleton", "MatchSequence", "MatchMapping", "MatchClass", "MatchStar",
                 "MatchAs", "MatchOr"}
BlockKinds == {"FunctionDef", "AsyncFunctionDef", "ClassDef", "For", "AsyncFor", "While", "If", "With", "AsyncWith",
               "Match", "Try", "TryStar", "ExceptHandler", "match_case"}
BoolOps == {"And", "Or"}
OpLex == [Add |-> <<"+">>, Sub |-> <<"-">>, Mult |-> <<"*">>, MatMult |-> <<"@">>, Div |-> <<"/">>, Mod |-> <<"%">>,
          Pow |-> <<"**">>, LShift |-> <<"<<">>, RShift |-> <<">>">>, BitOr |-> <<"|">>, BitXor |-> <<"^">>,
          BitAnd |-> <<"&">>, FloorDiv |-> <<"//">>, Invert |-> <<"~">>, Not |-> <<"not">>, UAdd |-> <<"+">>,
          USub |-> <<"-">>, Eq |-> <<"==">>, NotEq |-> <<"!=">>, Lt |-> <<"<">>, LtE |-> <<"<=">>, Gt |-> <<">">>,
          GtE |-> <<">=">>, Is |-> <<"is">>, IsNot |-> <<"is", "not">>, In |-> <<"in">>, NotIn |-> <<"not", "in">>]
OpKinds == DOMAIN OpLex

(* expressions inside patterns cannot be parenthesized (MatchValue.value, ...)  *)
RECURSIVE InPattern(_, _)
InPattern(T, n) ==
  LET p == Par(T, n) IN
  IF p = 0 THEN FALSE
  ELSE IF K(T, p) \in PatternKinds THEN TRUE
  ELSE IF K(T, p) \in ExprKinds THEN InPattern(T, p)
  ELSE FALSE

(* ---- f-strings (CPython 3.12: the parts of an f-string are tokens and positioned nodes) ---- *)
(* FStrPart: a literal part of an f-string, i.e. a Constant in JoinedStr.values.  Its text is what  *)
(* lies between the structural tokens around it (`f"` / `}` before, `{` / closing quote after);     *)
(* implicit concatenation merges it with neighbouring plain string tokens.  tokenize's own          *)
(* FSTRING_MIDDLE tokens are NOT used for it: they drop the doubled brace of `{{` / `}}`.           *)
FStrPart(T, n) == K(T, n) = "Constant" /\ Par(T, n) # 0 /\ K(T, Par(T, n)) = "JoinedStr"

ChIdx(T, n) == LET c == Ch(T, Par(T, n)) IN CHOOSE i \in 1..Len(c) : c[i] = n
NextSib(T, n) == LET c == Ch(T, Par(T, n)) i == ChIdx(T, n) IN IF i < Len(c) THEN c[i + 1] ELSE 0
CpBefore(a, b) == a[1] < b[1] \/ (a[1] = b[1] /\ a[2] < b[2])      \* raw (line, byte column) order

(* DebugText (CPython 3.12 quirk, named domain predicate): the text of a self-documenting field    *)
(* `{x = }` is a Constant placed BEFORE the field's FormattedValue in JoinedStr.values (merged with *)
(* a preceding literal part), but CPython positions it INSIDE the field: from the `{` (or the start *)
(* of the merged literal) to the first token after the `=`.  It therefore overlaps its next         *)
(* sibling; recognised from CPython's positions alone: it ends after its next sibling starts.       *)
DebugText(T, n) ==
  /\ FStrPart(T, n) /\ Positioned(T, n) /\ NextSib(T, n) # 0
  /\ LET s == NextSib(T, n) IN
       /\ K(T, s) = "FormattedValue" /\ Positioned(T, s)
       /\ CpBefore(<<T.nodes[s].cp[1], T.nodes[s].cp[2]>>, <<T.nodes[n].cp[3], T.nodes[n].cp[4]>>)

Parenthesizable(T, n) ==
  \/ K(T, n) \in PatternKinds
  \/ K(T, n) \in ExprKinds \ {"Slice", "FormattedValue"} /\ ~InPattern(T, n) /\ ~FStrPart(T, n)

(* ---- CPython's span through the spec's UTF-8 map ---------------------------- *)
CpLoc0(T, n) ==
  LET c == T.nodes[n].cp
  IN IF c = <<>> THEN <<>> ELSE <<c[1] - 1, B2C(T, c[1] - 1, c[2]), c[3] - 1, B2C(T, c[3] - 1, c[4])>>
CpLoc(T, n) == T.m.cl[n]

(* the witnesses really are the first / last token of CPython's span            *)
WitOK(T, n) == T.m.wit[n]
(* witness kinds: 0 = the span starts at the START of token ts / ends at the END of token te (every  *)
(* node); 1 = only for FStrPart: it starts at the END of `f"` or of a `}` / ends at the START of a    *)
(* `{`, of the closing quote or (in a format spec) of the field's `}`; a format spec as a whole also  *)
(* ends at that `}` (tokenize's multi-line FSTRING_MIDDLE ends are unusable); a DebugText may start at the END of its `{` (leading white space) and *)
(* ends at the start of the token that follows the `=`                                               *)
TType(T, i) == IF TokOK(T, i) THEN T.toks[i][1] ELSE ""
WitS(T, n) ==
  LET x == T.nodes[n] IN
  IF x.tsk = 0 THEN TS(T, x.ts)
  ELSE IF FStrPart(T, n) /\ (\/ TType(T, x.ts) = "FSTRING_START" \/ TStr(T, x.ts) = "}"
                             \/ DebugText(T, n) /\ TStr(T, x.ts) = "{") THEN TE(T, x.ts)
  ELSE -1
FStrSpec(T, n) == K(T, n) = "JoinedStr" /\ T.nodes[n].fld = "format_spec"     \* `:spec` of a field: ends at the field's `}`
WitE(T, n) ==
  LET x == T.nodes[n] IN
  IF x.tek = 0 THEN TE(T, x.te)
  ELSE IF FStrPart(T, n) /\ (IF DebugText(T, n) THEN TStr(T, x.te - 1) = "=" /\ TStr(T, x.te) \in {"}", "!", ":"}
                             ELSE TType(T, x.te) = "FSTRING_END" \/ TStr(T, x.te) \in {"{", "}"}) THEN TS(T, x.te)
  ELSE IF FStrSpec(T, n) /\ TStr(T, x.te) = "}" THEN TS(T, x.te)
  ELSE -1
WitOK0(T, n) ==
  LET x == T.nodes[n]  l == CpLoc(T, n)
  IN /\ Positioned(T, n) /\ TokOK(T, x.ts) /\ TokOK(T, x.te)
     /\ l[2] >= 0 /\ l[4] >= 0
     /\ WitS(T, n) = P(l[1], l[2]) /\ WitE(T, n) = P(l[3], l[4])

(* ---- grouping parentheses that BELONG to a node ----------------------------- *)
(* LP / RP: `(` tokens immediately before / `)` immediately after the node (only  *)
(* trivia between, since trivia are not in T.toks).  Parentheses are balanced and *)
(* the node is a complete phrase, so the i-th `(` outwards pairs with the i-th    *)
(* `)` for i <= min(LP, RP): that many pairs wrap exactly the node.               *)
LP(T, n) == RunBack(T, T.nodes[n].ts - 1, "(")
RP(T, n) == RunFwd(T, T.nodes[n].te + 1, ")")

(* Solo-argument sharing rule: the only positional element between the           *)
(* delimiters of a Call / class-bases list / MatchClass is wrapped by the         *)
(* DELIMITERS as well; the outermost `(` of its run is the construct's own (what  *)
(* precedes that one is the callee / class name / pattern class, never a `(`), so *)
(* exactly LP - 1 pairs are its own.                                              *)
Solo(T, n) ==
  LET p == Par(T, n) f == T.nodes[n].fld IN
  /\ p # 0
  /\ \/ K(T, p) = "Call" /\ f = "args" /\ Cardinality(ChOf(T, p, {"args", "keywords"})) = 1
     \/ K(T, p) = "ClassDef" /\ f = "bases" /\ Cardinality(ChOf(T, p, {"bases", "keywords"})) = 1
     \/ K(T, p) = "MatchClass" /\ f = "patterns" /\ Cardinality(ChOf(T, p, {"patterns", "kwd_patterns"})) = 1

Own(T, n) == T.m.own[n]
Own0(T, n) ==
  IF ~Parenthesizable(T, n) \/ ~WitOK(T, n) THEN 0
  ELSE IF Solo(T, n) THEN (IF LP(T, n) >= 1 THEN LP(T, n) - 1 ELSE 0)
  ELSE Min2(LP(T, n), RP(T, n))

(* a generator expression that is the solo call argument and has no parentheses   *)
(* of its own borrows the call's: CPython's span of it IS `( ... )` of the call   *)
SharedGenexp(T, n) == K(T, n) = "GeneratorExp" /\ Solo(T, n) /\ K(T, Par(T, n)) = "Call" /\ LP(T, n) = 0

ParsStart(T, n) == IF Own(T, n) = 0 THEN WitS(T, n) ELSE TS(T, T.nodes[n].ts - Own(T, n))   \* incl. its own parentheses
ParsEnd(T, n)   == IF Own(T, n) = 0 THEN WitE(T, n) ELSE TE(T, T.nodes[n].te + Own(T, n))

(* ------------------------------------------------------------------------- *)
(* Expected span <<start, end>> (integer positions) of every node; <<>> = none *)
NoSpan == <<>>
Bad == <<-1, -1>>                          \* "the oracle facts do not have the expected shape": fails every comparison

ExpPositioned(T, n) == LET l == CpLoc(T, n) IN
  IF l[2] < 0 \/ l[4] < 0 THEN Bad ELSE <<P(l[1], l[2]), P(l[3], l[4])>>

ExpModule(T) == <<0, P(Len(T.text) - 1, Len(T.text[Len(T.text)]))>>

(* comprehension: from `for` (`async` if asynchronous) to the last token of its last *)
(* `if` / iter, including the closing parentheses that belong to that last part      *)
ExpComprehension(T, n) ==
  LET c == Ch(T, n) IN
  IF Len(c) < 2 \/ ~WitOK(T, c[1]) \/ ~WitOK(T, LastCh(T, n)) THEN Bad
  ELSE LET for == T.nodes[c[1]].ts - Own(T, c[1]) - 1
           first == for - T.nodes[n].x
       IN IF TStr(T, for) # "for" \/ (T.nodes[n].x = 1 /\ TStr(T, first) # "async") THEN Bad
          ELSE <<TS(T, first), ParsEnd(T, LastCh(T, n))>>

(* withitem: first token (incl. parentheses) of context_expr to the last of optional_vars *)
ExpWithitem(T, n) ==
  LET c == Ch(T, n) IN
  IF Len(c) < 1 \/ ~WitOK(T, c[1]) \/ ~WitOK(T, LastCh(T, n)) THEN Bad
  ELSE <<ParsStart(T, c[1]), ParsEnd(T, LastCh(T, n))>>

(* match_case: `case` ... end of body.  CaseTrailingSemicolon: CPython ends a compound  *)
(* statement after the `;` that closes its last simple-statement line (the enclosing    *)
(* Match ends there), so the case does too.                                             *)
ExpMatchCase(T, n) ==
  LET c == Ch(T, n) IN
  IF Len(c) < 2 \/ ~WitOK(T, c[1]) \/ ~WitOK(T, LastCh(T, n)) THEN Bad
  ELSE LET case == T.nodes[c[1]].ts - Own(T, c[1]) - 1
           e == T.nodes[LastCh(T, n)].te
       IN IF TStr(T, case) # "case" THEN Bad
          ELSE <<TS(T, case), TE(T, IF TStr(T, e + 1) = ";" THEN e + 1 ELSE e)>>

(* arguments: exactly the text between the delimiters.                                  *)
(*   def f [T] ( ... ) :   between the `(` after the name / type parameters and its `)`  *)
(*   lambda ... :          between `lambda` and the `:` that ends the parameter list;    *)
(*   LambdaLeadingSpace (named deviation, fst_locs._loc_arguments): when parameters are  *)
(*   present, ONE white-space character after `lambda` counts as part of the delimiter   *)
ExpArguments(T, n) ==
  LET p == Par(T, n) IN
  IF p = 0 THEN ExpModule(T)
  ELSE IF K(T, p) \in {"FunctionDef", "AsyncFunctionDef"} THEN
    IF ~WitOK(T, p) THEN Bad
    ELSE LET tps == ChOf(T, p, {"type_params"})
             name == T.nodes[p].ts + (IF K(T, p) = "AsyncFunctionDef" THEN 2 ELSE 1)
             anchor == IF tps = {} THEN name
                       ELSE T.nodes[CHOOSE t \in tps : \A u \in tps : u <= t].te
             open == NextTok(T, anchor + 1, "(")
             close == MatchClose(T, open + 1, 0)
         IN IF open = 0 \/ close = 0 \/ TStr(T, close) # ")" THEN Bad ELSE <<TE(T, open), TS(T, close)>>
  ELSE IF K(T, p) = "Lambda" THEN
    IF ~WitOK(T, p) \/ TStr(T, T.nodes[p].ts) # "lambda" THEN Bad
    ELSE LET lam == T.nodes[p].ts
             has == Ch(T, n) # <<>>
             anchor == IF has THEN (IF WitOK(T, LastCh(T, n)) THEN T.nodes[LastCh(T, n)].te ELSE 0) ELSE lam
             colon == NextTok(T, anchor + 1, ":")
             e == TE(T, lam)
             ln == T.toks[lam][5] - 1
             col == T.toks[lam][6]
         IN IF anchor = 0 \/ colon = 0 THEN Bad
            ELSE <<IF has /\ IsSpaceAt(T, ln, col) THEN e + 1 ELSE e, TS(T, colon)>>
  ELSE Bad

(* operators: exactly the operator's lexeme.  The operator of `left op right` is what is *)
(* left between the operands once their parentheses are set aside; of a UnaryOp the first *)
(* token.  `is not` / `not in` are two tokens with only trivia between.  AugAssignOp: the *)
(* operator of `x += y` is the `+` of the `+=` token (documented in d02_locations).       *)
SibIdx(T, n) == LET c == Ch(T, Par(T, n)) IN CHOOSE i \in 1..Len(c) : c[i] = n
ExpOp(T, n) ==
  LET p == Par(T, n) lex == OpLex[K(T, n)] IN
  IF p = 0 \/ ~WitOK(T, p) THEN Bad
  ELSE IF K(T, p) = "UnaryOp" THEN
    LET i == T.nodes[p].ts IN IF TStr(T, i) = lex[1] THEN <<TS(T, i), TE(T, i)>> ELSE Bad
  ELSE IF K(T, p) \in {"BinOp", "Compare", "AugAssign"} THEN
    LET c == Ch(T, p)  j == SibIdx(T, n) IN
    IF j <= 1 \/ j >= Len(c) \/ ~WitOK(T, c[j - 1]) \/ ~WitOK(T, c[j + 1]) THEN Bad
    ELSE LET I == {i \in (T.nodes[c[j - 1]].te + 1)..(T.nodes[c[j + 1]].ts - 1) : TStr(T, i) \notin {"(", ")"}}
         IN IF I = {} THEN Bad
            ELSE LET lo == CHOOSE i \in I : \A m \in I : i <= m
                     hi == CHOOSE i \in I : \A m \in I : m <= i
                 IN IF K(T, p) = "AugAssign"
                    THEN (IF I = {lo} /\ Len(lex) = 1 /\ TStr(T, lo) = lex[1] \o "="
                          THEN <<TS(T, lo), TE(T, lo) - 1>> ELSE Bad)
                    ELSE IF Len(lex) = 1
                    THEN (IF I = {lo} /\ TStr(T, lo) = lex[1] THEN <<TS(T, lo), TE(T, lo)>> ELSE Bad)
                    ELSE (IF I = {lo, hi} /\ hi = lo + 1 /\ TStr(T, lo) = lex[1] /\ TStr(T, hi) = lex[2]
                          THEN <<TS(T, lo), TE(T, hi)>> ELSE Bad)
  ELSE Bad

Exp(T, n) ==
  LET k == K(T, n) IN
  IF Positioned(T, n) THEN ExpPositioned(T, n)
  ELSE IF k = "Module" THEN ExpModule(T)
  ELSE IF k = "comprehension" THEN ExpComprehension(T, n)
  ELSE IF k = "withitem" THEN ExpWithitem(T, n)
  ELSE IF k = "match_case" THEN ExpMatchCase(T, n)
  ELSE IF k = "arguments" THEN ExpArguments(T, n)
  ELSE IF k \in BoolOps THEN NoSpan          \* boolop: one node, several places - documented to have no location
  ELSE IF k \in OpKinds THEN ExpOp(T, n)
  ELSE Bad

(* bounding location: block statements start at the first `@` of their decorators and     *)
(* take in a line comment that trails their last line                                      *)
ExpBloc(T, n) ==
  LET e == Exp(T, n) IN
  IF e = NoSpan \/ e = Bad \/ K(T, n) \notin BlockKinds THEN e
  ELSE LET decos == ChOf(T, n, {"decorator_list"})
           d0 == CHOOSE d \in decos : \A u \in decos : d <= u
           at == T.nodes[d0].ts - Own(T, d0) - 1
           eln == e[2] \div W
           ecol == e[2] % W
           C == {i \in 1..Len(T.cmts) : T.cmts[i][1] - 1 = eln /\ T.cmts[i][2] >= ecol}
           start == IF decos = {} THEN e[1]
                    ELSE IF WitOK(T, d0) /\ TStr(T, at) = "@" THEN TS(T, at) ELSE -1
           end == IF C = {} THEN e[2]
                  ELSE LET i == CHOOSE i \in C : TRUE IN P(T.cmts[i][3] - 1, T.cmts[i][4])
       IN <<start, end>>

(* ------------------------------------------------------------------------- *)
(* recorded answers as spans                                                   *)
Span(l) == IF l = <<>> THEN NoSpan ELSE <<P(l[1], l[2]), P(l[3], l[4])>>
RLoc(T, n)  == Span(T.nodes[n].loc)
RBloc(T, n) == Span(T.nodes[n].bloc)

(* ---- clauses ---------------------------------------------------------------- *)
LocClauseName(T, n) ==
  LET k == K(T, n) IN
  IF Positioned(T, n) THEN "ByteCharAgree.loc"
  ELSE IF k = "Module" THEN "RootLoc"
  ELSE IF k \in BoolOps THEN "NoLoc"
  ELSE IF k \in OpKinds THEN "OpText"
  ELSE "Computed." \o k

(* byte-based accessors = the char-based location through the UTF-8 map (and, for        *)
(* positioned nodes, CPython's own numbers); ln/col accessors = loc                      *)
AttrsOK(T, n) ==
  LET x == T.nodes[n]  l == x.loc IN
  IF l = <<>> THEN x.at = <<>> /\ x.lc = <<>>
  ELSE /\ x.lc = l
       /\ x.at = <<l[1] + 1, C2B(T, l[1], l[2]), l[3] + 1, C2B(T, l[3], l[4])>>
       /\ Positioned(T, n) => x.at = x.cp

(* Tight: the span starts at the start of a non-trivia token and ends at the end of one *)
TightOK(T, n) ==
  LET x == T.nodes[n] IN
  /\ TokOK(T, x.ts) /\ TokOK(T, x.te)
  /\ RLoc(T, n) = <<WitS(T, n), WitE(T, n)>>

(* pars(): n pairs belonging to the node, the span from the outermost `(` to its `)`      *)
ExpParsT(T, n) ==
  IF Parenthesizable(T, n) /\ WitOK(T, n)
  THEN <<ParsStart(T, n), ParsEnd(T, n), Own(T, n)>>
  ELSE LET b == ExpBloc(T, n) IN IF b = NoSpan THEN NoSpan ELSE <<b[1], b[2], 0>>
ExpParsF(T, n) ==
  IF Parenthesizable(T, n) /\ WitOK(T, n) /\ SharedGenexp(T, n) /\ Own(T, n) = 0
  THEN LET e == Exp(T, n) IN <<e[1] + 1, e[2] - 1, -1>>     \* without the borrowed parentheses, count -1
  ELSE ExpParsT(T, n)
RPars(p) == IF p = <<>> THEN NoSpan ELSE <<P(p[1], p[2]), P(p[3], p[4]), p[5]>>

(* Nested: inside the parent (bounding locations: decorators precede `def`)               *)
NestedOK(T, n) ==
  LET p == Par(T, n)  a == RBloc(T, n)  b == RBloc(T, p)
  IN a # NoSpan /\ b # NoSpan => b[1] <= a[1] /\ a[2] <= b[2] /\ a[1] <= a[2]

(* Ordered: the children (those that have a location) follow each other in syntax order   *)
LocCh(T, n) == SelectSeq(Ch(T, n), LAMBDA c : T.nodes[c].bloc # <<>>)
(* (a DebugText overlaps the field it documents: it only has to end inside that field)        *)
OrderedOK(T, n) ==
  LET c == LocCh(T, n) IN
  \A i \in 1..(Len(c) - 1) :
    IF DebugText(T, c[i]) THEN RBloc(T, c[i])[2] < RBloc(T, c[i + 1])[2]
    ELSE RBloc(T, c[i])[2] <= RBloc(T, c[i + 1])[1]
(* the recorder's syntax order agrees with CPython's own positions (oracle consistency)   *)
PosCh(T, n) == SelectSeq(Ch(T, n), LAMBDA c : T.nodes[c].cp # <<>>)
OrderOracleOK(T, n) ==
  LET c == PosCh(T, n) IN
  \A i \in 1..(Len(c) - 1) :
    LET a == T.nodes[c[i]].cp  b == T.nodes[c[i + 1]].cp
    IN IF DebugText(T, c[i]) THEN CpBefore(<<a[3], a[4]>>, <<b[3], b[4]>>)
       ELSE a[3] < b[1] \/ (a[3] = b[1] /\ a[4] <= b[2])

NodeClauses(T, n) ==
  LET x == T.nodes[n] IN
  {Cl(LocClauseName(T, n), RLoc(T, n) = Exp(T, n)),
   Cl("ByteCharAgree.attrs", AttrsOK(T, n)),
   Cl("Bloc", RBloc(T, n) = ExpBloc(T, n)),
   Cl("HasOwnLoc", x.own = Positioned(T, n))}
  \cup (IF Positioned(T, n) THEN {Cl("Tight", TightOK(T, n)), Cl("OracleTokenBoundary", WitOK(T, n))} ELSE {})
  \cup (IF x.loc # <<>> THEN {Cl("Pars", RPars(x.pT) = ExpParsT(T, n)),
                              Cl("Pars.unshared", RPars(x.pF) = ExpParsF(T, n))}
        ELSE {Cl("Pars", x.pT = <<>> /\ x.pF = <<>>)})
  \cup (IF Par(T, n) # 0 THEN {Cl("Nested", NestedOK(T, n))} ELSE {})
  \cup (IF Len(Ch(T, n)) > 1 THEN {Cl("Ordered", OrderedOK(T, n)), Cl("OrderOracle", OrderOracleOK(T, n))} ELSE {})

(* ---- memo: per-snapshot tables, computed once (LocTrace keeps them in a variable) ----- *)
(* <<>> \o f  forces the function into a tuple (TLC would re-evaluate a lazy function)     *)
Memo(T) ==
  LET N == Len(T.nodes)
      T1 == [T EXCEPT !.m = [pre |-> <<>> \o [i \in 1..Len(T.text) |-> PrefixOf(T.text[i])]]]
      T2 == [T EXCEPT !.m = [pre |-> T1.m.pre, cl |-> <<>> \o [n \in 1..N |-> CpLoc0(T1, n)]]]
      T3 == [T EXCEPT !.m = [pre |-> T1.m.pre, cl |-> T2.m.cl, wit |-> <<>> \o [n \in 1..N |-> WitOK0(T2, n)]]]
      T4 == [T EXCEPT !.m = [pre |-> T1.m.pre, cl |-> T2.m.cl, wit |-> T3.m.wit,
                             own |-> <<>> \o [n \in 1..N |-> Own0(T3, n)]]]
      dbg == {<<Exp(T4, d), Exp(T4, NextSib(T4, d))>> : d \in {n \in 1..N : DebugText(T, n)}}
  IN [T EXCEPT !.m = [pre |-> T1.m.pre, cl |-> T2.m.cl, wit |-> T3.m.wit, own |-> T4.m.own,
                      dbg |-> {<<IF p[1][1] <= p[2][1] THEN p[1][1] ELSE p[2][1],
                                 IF p[1][2] >= p[2][2] THEN p[1][2] ELSE p[2][2]>> : p \in dbg},
                      par |-> <<>> \o [n \in 1..N |-> T.nodes[n].par],
                      sp  |-> <<>> \o [n \in 1..N |-> Span(T.nodes[n].loc)]]]

NodeClass(T, n) ==
  K(T, n) \o (IF Par(T, n) = 0 THEN "" ELSE "<" \o K(T, Par(T, n)) \o "." \o T.nodes[n].fld)
=============================================================================
