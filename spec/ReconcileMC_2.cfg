\* quick tier, part 2: two mutations in one round, one initial tree (S, B(S|))
SPECIFICATION Spec
CONSTANTS
  MaxObj = 24
  MaxPos = 18
  MaxMut = 2
  MaxRounds = 1
  MaxFst = 1
  InitShapes <- ShapesOne
VIEW View
CHECK_DEADLOCK FALSE
INVARIANT MarkNoAlias
INVARIANT NoChangeIffNoMut
INVARIANT UntouchedIntact
INVARIANT ResultUntouched
PROPERTY TouchedMonotone
PROPERTY InvalidatedRaises
PROPERTY ResultEqualsWork
PROPERTY NoChangeIdentity
