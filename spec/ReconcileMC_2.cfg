\* quick tier, part 2: two mutations in one round, one initial tree (S, B(S|S)), no FST edit (covered by part 1)
SPECIFICATION Spec
CONSTANTS
  MaxObj = 24
  MaxPos = 18
  MaxMut = 2
  MaxRounds = 1
  MaxFst = 0
  InitShapes <- ShapesTwo
VIEW View
CHECK_DEADLOCK FALSE
INVARIANT MarkNoAlias
INVARIANT NoChangeIffNoMut
INVARIANT UntouchedIntact
INVARIANT ResultUntouched
PROPERTY TouchedMonotone
PROPERTY InvalidatedRaises
PROPERTY ResultEqualsWork
PROPERTY NoChangeIdentity
