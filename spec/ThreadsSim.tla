------------------------------ MODULE ThreadsSim ------------------------------
(* Schedule generator (direction G): random complete behaviours of            *)
(* ThreadsMC; each is printed as one JSON line - the scripts the threads ran, *)
(* the schedule (thread, step) and the outcomes the model expects - for the   *)
(* step controller that replays it with real threads.                          *)
EXTENDS ThreadsMC, SequencesExt, Json

VARIABLE hist
svars == <<vars, hist>>

Pairs(m) == SetToSeq({<<ToString(n), ToString(m[n])>> : n \in DOMAIN m})
OpJ(op) ==
  CASE op.k = "edit" -> [k |-> "edit", r |-> ToString(op.r), n |-> ToString(op.n), o |-> ToString(op.o),
                         m |-> Pairs(op.ov), fault |-> op.fault, nest |-> op.nest, how |-> "-"]
    [] op.k = "exit" -> [k |-> "exit", r |-> "-", n |-> "-", o |-> "-", m |-> <<>>, fault |-> FALSE, nest |-> FALSE,
                         how |-> op.how]
    [] OTHER         -> [k |-> op.k, r |-> "-", n |-> "-", o |-> "-", m |-> Pairs(op.m), fault |-> FALSE,
                         nest |-> FALSE, how |-> "-"]
Log(t, act) == hist' = Append(hist, [t |-> ToString(t), act |-> act])

Step == \E t \in Threads :
          \/ (TSpawn(t) /\ Log(t, "spawn"))
          \/ (TSet(t) /\ Log(t, "set"))
          \/ (TEnterWith(t) /\ Log(t, "enter"))
          \/ (TExitWith(t) /\ Log(t, "exit"))
          \/ (TRead(t) /\ Log(t, "read"))
          \/ (TEnter(t) /\ Log(t, "enterreg"))
          \/ (TNestEnter(t) /\ Log(t, "nest"))
          \/ (TNestExit(t) /\ Log(t, "unnest"))
          \/ (TBody(t) /\ Log(t, "body"))
          \/ (TSuccess(t) /\ Log(t, "success"))
          \/ (TFail(t) /\ Log(t, "fail"))
Ended == hist # <<>> /\ hist[Len(hist)].act = "end"
SimNext == \/ (~AllDone /\ Step)
           \/ (AllDone /\ ~Ended /\ hist' = Append(hist, [t |-> "-", act |-> "end"]) /\ UNCHANGED vars)
SimInit == Init /\ hist = <<>>
SimSpec == SimInit /\ [][SimNext]_svars

Out == [scripts |-> SetToSeq({[t |-> ToString(t), ops |-> [i \in 1..Len(script[t]) |-> OpJ(script[t][i])]] : t \in Threads}),
        sched   |-> SubSeq(hist, 1, Len(hist) - 1),
        outs    |-> SetToSeq({[t |-> ToString(t), outs |-> [i \in 1..Len(res[t]) |-> res[t][i].out]] : t \in Threads})]
Emit == Ended => PrintT(<<"BEH", ToJson(Out)>>)
=============================================================================
