SPECIFICATION Spec
CONSTANTS
  t1 = t1
  t2 = t2
  t3 = t3
  o1 = o1
  o2 = o2
  o3 = o3
  v0 = v0
  v1 = v1
  v2 = v2
  c0 = c0
  c1 = c1
  c2 = c2
  cb = cb
  bad = bad
  unk = unk
  Threads = {t1, t2, t3}
  Main = t1
  Opts = {o1}
  Vals = {v0, v1}
  Cells = {c0, c1, cb}
  Mutable = {}
  Heap0 <- Heap2
  Default <- Def1
  Bad = bad
  Unknown = unk
  MaxNest <- NestTC
  MaxMap = 1
VIEW View
INVARIANT TypeOK
INVARIANT HeapUntouched
INVARIANT CallIsolation
INVARIANT RejectAtomic
INVARIANT SetExact
INVARIANT Restore
INVARIANT UnnamedKept
INVARIANT BlockTransparent
INVARIANT SavedIsEntry
INVARIANT NestedRestore
INVARIANT ThreadIsolation
INVARIANT FreshThreadDefaults
PROPERTY LawsOnEveryStep
