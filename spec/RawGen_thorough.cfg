CONSTANTS
  MaxFlat = 4
  MaxRepl = 2
