SPECIFICATION Spec
CONSTANTS
  GenNodes = 4
  GenLines = 2
  GenCols = 8
