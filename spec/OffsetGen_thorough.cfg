SPECIFICATION Spec
CONSTANTS
  GenNodes = 4
  GenLines = 2
  GenCols = 8
  GenWrapNodes = 3
