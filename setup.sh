#!/bin/sh
# Offline setup: nothing to build (pure Python + TLA+ interpreted by TLC). Verifies the tool chain is present.
set -e
cd "$(dirname "$0")"
test -x /venv/bin/python
test -f /opt/veriftools/tla/tla2tools.jar
java -version >/dev/null 2>&1
mkdir -p evidence replays
PYTHONPATH=/repo/src /venv/bin/python -c "import fst, ast; print('pfst importable, python', __import__('sys').version.split()[0])"
echo setup ok
