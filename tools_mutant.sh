#!/bin/sh
# usage: tools_mutant.sh <patch-file|-> <ID> [extra check args]   -- run a check against a scratch copy of /repo/src with a patch applied
# (patch paths relative to /repo, e.g. from `git diff`). The scratch copy lives under /tmp and is removed afterwards.
set -e
P="$1"; ID="$2"; shift 2
case "$P" in -|/*) ;; *) P="$(pwd)/$P";; esac
W=$(mktemp -d /tmp/mutant-XXXXXX)
cp -r /repo/src "$W/src"
if [ "$P" != "-" ]; then (cd "$W" && patch -p1 -s < "$P"); fi
cd /verif
# the evidence file must only ever come from a run against /repo itself: keep it aside and put it back afterwards
[ -f "evidence/$ID.json" ] && cp "evidence/$ID.json" "$W/evidence.keep"
set +e
PYTHONPATH="$W/src:/verif" PYTHONHASHSEED=0 PYTHONDONTWRITEBYTECODE=1 PFST_VERIF=1 /venv/bin/python -m checks.main "$ID" "$@"
RC=$?
[ -f "$W/evidence.keep" ] && cp "$W/evidence.keep" "evidence/$ID.json"
rm -rf "$W"
exit $RC
