"""C05 - parsing is lossless and agrees with Python's parser in every parse mode."""

from __future__ import annotations

import concurrent.futures as cf
import json
import multiprocessing as mp
import os

from checks import common
from harness import tlc

CLAUSES = ['TextKept', 'TreeIsSubtree.struct', 'TreeIsSubtree.pos', 'KindAdmitted', 'RejectedOnlyIfInvalid',
           'AcceptedOnlyIfValid', 'AltsAgree', 'ModeKnown', 'CleanOutcome', 'FromAst.accepts', 'FromAst.struct',
           'FromAst.sync', 'UnknownEvent']


def emit_table(ctx):
    """(M) model-check ParseModesMC (table totality, shift algebra, acceptance rule) and let TLC emit the mode table"""
    path = os.path.join(tlc.scratch(), 'c05_table.json')
    os.environ['OUT_FILE'] = path
    try:
        ctx.model('ParseModesMC', 'ParseModesMC' if ctx.quick else 'ParseModesMC_thorough',
                  required=('Pick', 'Embed', 'ParseFaithful', 'ParseDelimited', 'ParseEscape', 'Accept', 'Reject'),
                  heap='3g')
    finally:
        os.environ.pop('OUT_FILE', None)
    if not os.path.exists(path):
        raise common.Machinery('TLC did not emit the mode table')
    return path


def chunked(cases, size, base=0):
    return [(base + i // size + 1, cases[i:i + size]) for i in range(0, len(cases), size)]


def execute(ctx, table_path, cases, nproc=None, chunk=12):
    nproc = nproc or (6 if ctx.quick else 12)
    from harness import c05_driver as drv
    chunks = chunked(cases, chunk)
    nshards = max(1, min(nproc, len(chunks) // 4 or 1))
    shards = [(k, table_path, chunks[k::nshards], ctx.seed) for k in range(nshards)]
    if nshards == 1:
        batches = [drv.run_shard(shards[0])]
    else:
        with mp.get_context('fork').Pool(nshards) as pool:
            batches = pool.map(drv.run_shard, shards)
    out = []

    def one(b):
        slim = dict(b, traces=[{'id': t['id'], 'steps': [{k: v for k, v in s.items() if k not in ('embs', 'exc')}
                                                         for s in t['steps']]} for t in b['traces']])
        return b, ctx.validate(slim, module='ParseTrace', heap='3g')

    with cf.ThreadPoolExecutor(max_workers=min(6, len(batches))) as ex:
        for r in ex.map(one, batches):
            out.append(r)
    return chunks, out


def collect(ctx, chunks, validated, table):
    from harness import c05_frags as frags
    by_id = dict(chunks)
    covered = set()
    for batch, verd in validated:
        for tr in batch['traces']:
            cases = by_id[tr['id']]
            v = verd[tr['id']]
            for step, clause, klass in sorted(v['bad']):
                ev = tr['steps'][step - 1]
                case = cases[step - 1]
                detail = json.dumps(dict(frags.token_facts(case['text']), mode=ev['mode'], text=case['text'],
                                         api=ev.get('api'), outcome=ev['outcome'], exc=ev.get('exc', '')))
                if len(ctx.extra.setdefault('violation_briefs', [])) < 400:
                    ctx.extra['violation_briefs'].append([clause, klass, ev.get('api'), ev['outcome'], case['text'][:200]])
                ctx.violation(clause, klass, {'case': case, 'api': ev.get('api'), 'outcome': ev['outcome'],
                                              'exc': ev.get('exc', ''), 'embeddings': ev.get('embs', []),
                                              'failing_step': step}, detail=detail)
            for ev, case in zip(tr['steps'], cases):
                ctx.evals += 1
                if ev['call'] == 'parse':
                    fam = case['cat'].split(':')[0]
                    ctx.distinct.add((ev['mode'], case.get('kind', ''), case['cat'], ev['outcome']))
                    if ev['outcome'] == 'tree' and fam == 'node':
                        covered.add((ev['mode'], case.get('kind', '')))
                else:
                    ctx.distinct.add(('fromast', case['cat'], ev['outcome']))
    return covered


def run(ctx):
    from harness import c05_driver as drv
    ctx.rule = ('M: ParseModesMC.tla (mode table total for every Mode literal and AST class name; Shift o Unshift = id, '
                'order preserved, acceptance rule total; faithful / delimiter-swallowing / escaping parses on a grid). '
                'G: the mode table and the mode x kind matrix are emitted by TLC and concretised with every corpus node '
                'text of that kind in layout variants. V: every call (FST(src, mode), FST.fromsrc, fst.parse, '
                'FST.parse_ast, FST.fromast) is recorded with CPython\'s parse of the spec\'s embeddings and judged by TLC '
                '(ParseTrace.tla). distinct = distinct (mode, fragment kind, generator category/layout, outcome) tuples')
    ctx.assumptions += ['projection (harness/proj.py) and the embedding builder (harness/c05_embed.py: string '
                        'concatenation, ast.parse, tokenize) are trusted',
                        'f-string internals only as part of whole corpus nodes; CPython 3.12.1 only',
                        'guessing modes "all"/"strict"/None: the returned node is judged in the mode named by its own '
                        'class, a refusal only against "exec"; Load/Store/Del (accept anything, documented) are outside '
                        'the judged domain']
    table_path = emit_table(ctx)
    table, matrix = drv.load_table(table_path)
    pool = drv.build_pool(ctx.seed, 3 if ctx.quick else 8)
    cases = drv.plan(ctx.seed, table, matrix, ctx.quick, pool)
    chunks, validated = execute(ctx, table_path, cases)
    covered = collect(ctx, chunks, validated, table)
    want = {(m, k) for m, k in matrix if table[m]['shape'] in ('node', 'op', 'list')}
    missing = sorted(want - covered)
    ctx.extra['matrix_pairs'] = len(want)
    ctx.extra['matrix_pairs_accepted_at_least_once'] = len(want & covered)
    ctx.extra['matrix_pairs_missing'] = [list(x) for x in missing[:60]]
    ctx.extra['cases_by_family'] = _families(cases)
    for c in cases[:: max(1, len(cases) // 6)]:
        ctx.sample({'mode': c['mode'], 'cat': c['cat'], 'text': c['text'][:120]})
    ctx.require_clauses(['TextKept', 'TreeIsSubtree.struct', 'TreeIsSubtree.pos', 'KindAdmitted',
                         'RejectedOnlyIfInvalid', 'AcceptedOnlyIfValid', 'AltsAgree', 'FromAst.sync'])
    if len(want & covered) < 0.9 * len(want):
        raise common.Machinery(f'vacuity guard: only {len(want & covered)} of {len(want)} (mode, kind) pairs of the '
                               f'spec matrix were accepted at least once; missing e.g. {missing[:12]}')


def _families(cases):
    d = {}
    for c in cases:
        k = ('guess' if c['mode'] in ('all', 'strict') else 'fromast' if c.get('call') == 'fromast'
             else c['cat'].split(':')[0].split('-')[0])
        d[k] = d.get(k, 0) + 1
    return d


def replay(ctx, path):
    from harness import c05_driver as drv
    with open(path) as f:
        rp = json.load(f)
    table_path = emit_table(ctx)
    table, matrix = drv.load_table(table_path)
    case = rp['case']
    if rp.get('api'):
        case = dict(case, api=rp['api'])
    chunks, validated = execute(ctx, table_path, [case])
    collect(ctx, chunks, validated, table)
    for batch, verd in validated:
        for tr in batch['traces']:
            for ev in tr['steps']:
                print('mode', ev['mode'], 'api', ev.get('api'), 'outcome', ev['outcome'], ev.get('exc', ''))
                print('text', repr(case['text']))
                for e in ev.get('embs', []):
                    print('embedding', repr(e))
            print('verdict', sorted(verd[tr['id']]['bad']))
    return ctx.finish()


def selftest(ctx):
    """Binding demonstration: corrupt one recorded field of an accepted trace; TLC must reject it naming the clause."""
    import copy
    from harness import c05_driver as drv
    table_path = emit_table(ctx)
    cases = [{'mode': 'expr', 'text': 'a + b', 'cat': 'selftest', 'api': 'FST'},
             {'mode': 'keyword', 'text': 'k = "é" + v', 'cat': 'selftest', 'api': 'fromsrc'},
             {'mode': '_withitems', 'text': 'a as b, c', 'cat': 'selftest', 'api': 'FST'}]
    base = drv.run_shard((0, table_path, [(i + 1, [c]) for i, c in enumerate(cases)], ctx.seed))

    def slim(b):
        return dict(b, traces=[{'id': t['id'], 'steps': [{k: v for k, v in s.items() if k not in ('embs', 'exc')}
                                                         for s in t['steps']]} for t in b['traces']])

    ok = True
    v0 = ctx.validate(slim(base), module='ParseTrace', heap='3g')
    print('uncorrupted:', {k: v['bad'] for k, v in v0.items()})
    ok &= all(not v['bad'] for v in v0.values())

    def expect(name, mutate, tid, clause):
        nonlocal ok
        b = copy.deepcopy(base)
        mutate(b, b['traces'][tid - 1]['steps'][0])
        v = ctx.validate(slim(b), module='ParseTrace', heap='3g')
        got = sorted({c for _, c, _ in v[tid]['bad']})
        others = {k: x['bad'] for k, x in v.items() if k != tid and x['bad']}
        good = got == [clause] and not others
        ok &= good
        print(f'{name}: trace {tid} rejected with {got} (expected [{clause!r}]), other traces {others or "accepted"}'
              f' -> {"ok" if good else "BINDING FAILURE"}')

    def shift_col(b, ev):
        g = ev['got']['root']
        ent = copy.deepcopy(b['ptab'][g - 1])
        ent['p'][1] += 1
        b['ptab'].append(ent)
        ev['got']['root'] = len(b['ptab'])

    def shift_child(b, ev):  # one column of a grand-child of the returned keyword
        g = ev['got']['root']
        ent = copy.deepcopy(b['ptab'][g - 1])
        fi = next(i for i, f in enumerate(ent['f']) if f['n'] == 'value')
        c = copy.deepcopy(b['ptab'][ent['f'][fi]['c'][0] - 1])
        c['p'][3] += 1
        b['ptab'].append(c)
        ent['f'][fi]['c'][0] = len(b['ptab'])
        b['ptab'].append(ent)
        ev['got']['root'] = len(b['ptab'])

    def other_text(b, ev):
        b['ttab'].append(b['ttab'][ev['text'] - 1] + [[32]])
        ev['got']['src'] = len(b['ttab'])

    def say_reject(b, ev):
        ev['outcome'] = 'reject'

    def unbalance(b, ev):
        for a in ev['alts']:
            a['balanced'] = False

    def drop_item(b, ev):
        g = ev['got']['root']
        ent = copy.deepcopy(b['ptab'][g - 1])
        for f in ent['f']:
            if f['n'] == 'items':
                f['c'] = f['c'][:1]
        b['ptab'].append(ent)
        ev['got']['root'] = len(b['ptab'])

    expect('root column + 1', shift_col, 1, 'TreeIsSubtree.pos')
    expect('grand-child end line + 1 (byte columns, non-ASCII text)', shift_child, 2, 'TreeIsSubtree.pos')
    expect('kept source differs by one blank', other_text, 1, 'TextKept')
    expect('outcome logged as reject', say_reject, 2, 'RejectedOnlyIfInvalid')
    expect('oracle fact balanced := FALSE', unbalance, 1, 'AcceptedOnlyIfValid')
    b = copy.deepcopy(base)
    drop_item(b, b['traces'][2]['steps'][0])
    v = ctx.validate(slim(b), module='ParseTrace', heap='3g')
    got = sorted({c for _, c, _ in v[3]['bad']})
    good = got == ['TreeIsSubtree.pos', 'TreeIsSubtree.struct']
    ok &= good
    print(f'second with-item dropped from the returned container: {got} -> {"ok" if good else "BINDING FAILURE"}')
    ctx.evals += 7
    print('SELFTEST', 'PASS' if ok else 'FAIL')
    ctx.finish()
    return 0 if ok else 1
