"""C03 - edits follow Python container semantics and change nothing else in the tree."""

from checks import common, editcheck, views_part

PROPS = ('C03',)


def run(ctx):
    ctx.rule = ('G: ContainersGen.tla emits every abstract request (len <= 4, bounds -6..6/end, k <= 2, one/del forms, arglike '
                'category sequences) with its expected result; all rows are compared with Python list semantics and a '
                'sample (thorough: all) is replayed on 43 container templates x argument layouts. M: ContainersMC.tla (every entry point = Python list semantics; all lengths/bounds within constants). '
                'V: random edit histories (every list-valued/optional/single field reachable in the corpus x index '
                'class x code form x entry point x option set) on 45 corpus programs x 10 layout variants, each event '
                'validated by TLC against EditLaws (SliceLaw, NothingElse, OracleAgree, CarriedOutNotRefused). '
                'distinct = distinct (kind, field, form, entry point, code form, outcome, bound kinds) tuples executed')
    ctx.assumptions += ['projection (harness/proj.py) and pure-AST oracle (ast.unparse/ast.parse/compile) are trusted',
                        'f-string internals edited only through fv_replace events (format specs excluded); raw mode excluded (C10)']
    ctx.model('ContainersMC', 'ContainersMC' if ctx.quick else 'ContainersMC_thorough',
              required=('DoPutSlice', 'DoPutOne', 'DoDelOne', 'DoAppend', 'DoPrepend'))
    # sub-views: FSTView state machine (Views.tla) model-checked, TLC-simulated behaviours replayed on real views
    views_part.run_views(ctx)
    # (G) TLC-generated request table x container catalogue, replayed into pfst
    editcheck.run_sweep(ctx, per_template=45 if ctx.quick else 0, n_arg=400 if ctx.quick else 0, props=PROPS)
    if not ctx.quick:
        ctx.exhaustive = True  # the table (all lengths <= 4, bounds -6..6 + end, k <= 2) is replayed completely per template
    n_hist, n_steps = (1200, 8) if ctx.quick else (24000, 12)
    specs = editcheck.history_specs(ctx, n_hist, n_steps)
    # (F) systematic deletions of every node x field of the corpus (single-valued fields, tails / ends of list fields)
    editcheck.run_fieldsweep(ctx, variants=(0, 8) if ctx.quick else tuple(range(10)), per_class=2 if ctx.quick else 6,
                             props=PROPS)
    res = editcheck.generate(ctx, specs)
    val = editcheck.validate_all(ctx, res)
    editcheck.collect(ctx, val, PROPS)
    ctx.require_clauses(['SliceLaw', 'NothingElse', 'OracleAgree', 'CarriedOutNotRefused'])


def replay(ctx, path):
    import json
    with open(path) as f:
        rp = json.load(f)
    if rp.get('part') == 'views':
        views_part.replay_views(ctx, rp)
        return ctx.finish()
    return editcheck.replay(ctx, path, PROPS)
