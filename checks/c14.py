"""C14 - traversal visits every node once, in source order, consistently across APIs.

(M) spec/WalkMC.tla: all ordered trees <= MaxN nodes x all filter sets; a client iterating step_fwd/step_back (with and
    without top=), next/prev, next_child/prev_child, and the walk generator as a stack machine; theorems as invariants.
(G) spec/WalkGenCases.tla: TLC emits, for every ordered tree <= 5 nodes x every filter set x every walk parameter
    combination, the expected sequence (and the navigation tables); each case is concretised as real source in three
    shapes (nested displays, nested calls, nested blocks) and replayed into pfst.
(G') spec/WalkShapeCases.tla: TLC enumerates every pattern the grammar accepts (within bounds) of the node shapes whose
    field order differs from text order - Call / ClassDef argument interleavings up to 6, Dict with **, `arguments`
    mixtures, MatchMapping / MatchClass, Compare, comprehensions; checks/c14_shapes.py concretises them and they go
    through (V).
(V) harness/c14_rec.py records, for every program, what every traversal API of the real pfst answered, plus the
    stdlib description of the tree; spec/WalkTrace.tla (TLC) derives the source order from ast/tokenize positions and
    judges every answer with clause-named total verdicts.
"""

from __future__ import annotations

import ast
import concurrent.futures as cf
import glob
import json
import multiprocessing as mp
import os
import random
import textwrap

from checks import common

CLAUSES = [
    'LiveTreeIsParse',
    'Walk.NodesOfTree', 'Walk.EqSpec.body', 'Walk.EqSpec.self', 'Walk.SetOnce', 'Walk.ParentChild', 'Walk.SiblingOrder',
    'Walk.Bracket',
    'Nav.NodesOfTree', 'Nav.NextEqSpec', 'Nav.PrevEqSpec', 'Nav.NextPrevInverse', 'Nav.FirstLastEqSpec',
    'Nav.ChildIterEqWalk', 'Nav.ChildIterEqSpec', 'Nav.FirstLastAreEnds', 'Nav.ChildStepEqNext', 'Nav.ChildInverse',
    'Nav.StepEqSpec', 'Nav.StepIterIsWalk', 'Nav.WalkEqSpec', 'Nav.StepTopIterIsWalk',
    'Path.NodesOfTree', 'Path.EqSpec', 'Path.Inverse', 'Path.Distinct', 'Path.FromPathEqSpec', 'Path.Str',
    'Path.Relative',
]

MC_ACTIONS = ('Begin', 'DoStepFwd', 'DoStepBack', 'DoStepFwdTop', 'DoStepBackTop', 'DoNext', 'DoPrev', 'DoNextChild',
              'DoPrevChild', 'Finish', 'GenBegin', 'GenNext', 'GenFinish', 'GenClose')

NJVM = 12
BATCH_COST = 400_000   # ~ 3 k nodes of typical programs (~10 MB of JSON) per TLC batch


# ----------------------------------------------------------------------------------------------------------------------
# inputs

def _nodes(src, mode='exec'):
    try:
        return sum(1 for _ in ast.walk(ast.parse(src, mode=mode)))
    except (SyntaxError, ValueError, RecursionError):
        return -1


def repo_fragments(rng: random.Random, n: int, lo=25, hi=700):
    """Top-level functions / classes / methods of /repo/src/fst/*.py as stand-alone programs (inputs only)."""
    out = []
    for path in sorted(glob.glob('/repo/src/fst/*.py')):
        try:
            text = open(path, encoding='utf-8').read()
            tree = ast.parse(text)
        except (OSError, SyntaxError, ValueError):
            continue
        lines = text.split('\n')
        cands = []
        for st in tree.body:
            cands.append(st)
            if isinstance(st, ast.ClassDef):
                cands.extend(s for s in st.body if isinstance(s, (ast.FunctionDef, ast.AsyncFunctionDef)))
        for st in cands:
            start = min([st.lineno] + [d.lineno for d in getattr(st, 'decorator_list', [])])
            seg = textwrap.dedent('\n'.join(lines[start - 1:st.end_lineno])) + '\n'
            k = _nodes(seg)
            if lo <= k <= hi:
                out.append((os.path.basename(path), seg))
    rng.shuffle(out)
    return out[:n]


def tests_data_sources(rng: random.Random, n: int, lo=6, hi=400):
    """Source strings of the repository's recorded cases (inputs only; expected outputs are never looked at: a string
    is used iff CPython parses it as a module and it does not look like a tree dump)."""
    seen, out = set(), []
    for path in sorted(glob.glob('/repo/tests/data/*.py')):
        try:
            tree = ast.parse(open(path, encoding='utf-8').read())
        except (OSError, SyntaxError, ValueError):
            continue
        for nd in ast.walk(tree):
            if isinstance(nd, ast.Constant) and isinstance(nd.value, str):
                s = nd.value.strip('\n')
                if not s or s in seen or ' - ROOT ' in s or s.startswith('**') or len(s) > 6000:
                    continue
                seen.add(s)
                if lo <= _nodes(s) <= hi:
                    out.append((os.path.basename(path), s))
    rng.shuffle(out)
    return out[:n]


def build_specs(ctx):
    """[(tid, mode, src, pseed, label)] - deterministic in (tier, seed)."""
    from corpus.programs import PROGRAMS
    from harness import c14_corpus, layouts
    rng = random.Random(ctx.seed * 7919 + 14)
    specs, seen = [], set()

    def add(mode, src, label):
        if (mode, src) in seen:
            return
        seen.add((mode, src))
        specs.append((len(specs) + 1, mode, src, rng.randrange(1 << 30), label))

    lseeds = [ctx.seed] if ctx.quick else [ctx.seed, ctx.seed + 101, ctx.seed + 202]
    variants = (0, 1, 2, 3, 4, 6, 7) if ctx.quick else tuple(range(layouts.N_VARIANTS))
    for i, p in enumerate(PROGRAMS):
        for ls in lseeds:
            for v in variants:
                if ctx.quick and v and (i + v + ctx.seed) % 2:   # quick tier: half of the (program, variant) pairs
                    continue
                add('exec', layouts.variant(p, v, ls * 1000 + i), f'corpus[{i}]/v{v}')
    for i, (mode, p) in enumerate(c14_corpus.EXTRA):
        add(mode, p, f'extra[{i}]/v0')
        if mode == 'exec':
            for ls in lseeds:
                for v in ((1, 2, 3, 7) if ctx.quick else tuple(range(1, layouts.N_VARIANTS))):
                    add('exec', layouts.variant(p, v, ls * 1000 + 500 + i), f'extra[{i}]/v{v}')
    from checks import c14_shapes
    for mode, p, label in c14_shapes.build(ctx):   # TLC-enumerated field-order != source-order shapes
        add(mode, p, label)
    if not ctx.quick:
        for name, seg in repo_fragments(rng, 650):
            add('exec', seg, f'repo:{name}')
        for name, seg in tests_data_sources(rng, 1800):
            add('exec', seg, f'tests-data:{name}')
    return specs


# ----------------------------------------------------------------------------------------------------------------------
# recording (processes) and validation (JVMs)

def _shard(args):
    specs, light = args
    from harness import c14_rec
    traces, skipped = [], []
    for tid, mode, src, pseed, label in specs:
        try:
            traces.append(c14_rec.record(src, mode, pseed, tid, light=light, focus=label.startswith('shape:')))
        except c14_rec.OracleError as e:
            skipped.append((tid, label, 'oracle: ' + str(e)))
        except (SyntaxError, RecursionError) as e:   # pfst refused to parse the input: not a traversal question
            skipped.append((tid, label, 'parse: ' + repr(e)[:200]))
    return traces, skipped


NPROC = 15
CHUNK_NODES = 25000   # programs are recorded, validated and dropped chunk by chunk (bounded memory)


def record_all(ctx, specs, pool=None, nproc=NPROC):
    order = sorted(specs, key=lambda s: -len(s[2]))
    shards = [(order[k::nproc], ctx.quick) for k in range(nproc)]
    shards = [s for s in shards if s[0]]
    if pool is None:
        res = [_shard(s) for s in shards]
    else:
        res = pool.map(_shard, shards)
    traces = [t for r in res for t in r[0]]
    skipped = [s for r in res for s in r[1]]
    return traces, skipped


def chunks_of(specs, limit=CHUNK_NODES):
    out, cur, tot = [], [], 0
    for s in specs:
        k = max(1, _nodes(s[2], s[1] if s[1] in ('exec', 'eval', 'single') else 'exec'))
        if cur and tot + k > limit:
            out.append(cur)
            cur, tot = [], 0
        cur.append(s)
        tot += k
    if cur:
        out.append(cur)
    return out


def _cost(t):
    return t['n'] * (40 + t['n'] // 8) + 4000


def validate_all(ctx, traces, njvm=NJVM):
    """Balance traces over JVMs (largest first), validate in parallel."""
    total = sum(_cost(t) for t in traces)
    n = max(1, min(len(traces), max(njvm, -(-total // BATCH_COST))))   # more (smaller) batches than JVMs when there is a lot
    bins = [[0, []] for _ in range(n)]
    for t in sorted(traces, key=_cost, reverse=True):
        b = min(bins, key=lambda b: b[0])
        b[0] += _cost(t)
        b[1].append(t)
    out = {}

    def one(b):
        return ctx.validate({'traces': b[1]}, module='WalkTrace', heap='1536m')

    with cf.ThreadPoolExecutor(max_workers=min(n, njvm)) as ex:
        for verd in ex.map(one, [b for b in bins if b[1]]):
            out.update(verd)
    return out


def _item_brief(it):
    d = {k: v for k, v in it.items() if k in ('call', 'x', 'on', 'back', 'rec', 'self', 'flt', 'full')}
    if 'seq' in it:
        d['seq'] = it['seq'][:60]
        d['lv'] = it['lv'][:60]
    return d


def collect(ctx, specs, traces, verd):
    by = {s[0]: s for s in specs}
    for t in traces:
        tid = t['id']
        v = verd[tid]
        _, mode, src, pseed, label = by[tid]
        first = set()
        for step, clause, klass in sorted(v['bad']):
            if (clause, klass) in first:
                continue   # one report per (clause, class) per program
            first.add((clause, klass))
            if ctx.known(clause, klass) is None:
                percls = ctx.__dict__.setdefault('_c14_percls', {})
                percls[clause, klass] = percls.get((clause, klass), 0) + 1
                if percls[clause, klass] > 3:   # three replay files per (clause, class) are enough
                    continue
            it = t['items'][step - 1] if 0 < step <= len(t['items']) else {}
            ctx.violation(clause, klass, {'driver': 'c14_rec', 'mode': mode, 'src': src, 'pseed': pseed, 'label': label,
                                          'item': step, 'observed': _item_brief(it),
                                          'kinds': t['kind'][:200]},
                          detail=json.dumps({'label': label, 'call': it.get('call')}))
        # coverage accounting (not a verdict)
        n = t['n']
        ctx.__dict__.setdefault('_c14_kinds', set()).update(t['kind'])
        ctx.extra['nodes'] = ctx.extra.get('nodes', 0) + n
        for it in t['items']:
            ctx.evals += 1
            if it['call'] == 'walk':
                ctx.extra['api_answers'] = ctx.extra.get('api_answers', 0) + len(it['seq'])
                ctx.distinct.add(('walk', it['on'], it['back'], it['rec'], it['self'], it['flt']['k'], it['x'] == 1))
            elif it['call'] == 'nav':
                ctx.extra['api_answers'] = ctx.extra.get('api_answers', 0) + 14 * n
        # sibling-order shapes exercised: (parent kind, child fields in the order pfst walked them)
        w = next((it for it in t['items'] if it['call'] == 'walk' and it['x'] == 1 and it['on'] == 'enter'
                  and not it['back'] and it['rec'] and it['self'] and it['flt']['k'] == 'T'), None)
        if w:
            kids = {}
            for y in w['seq']:
                if 1 < y <= n:
                    kids.setdefault(t['par'][y - 1], []).append(t['pf'][y - 1]['f'])
            for p, fs in kids.items():
                if len(fs) > 1:
                    comp = [f for i, f in enumerate(fs) if i == 0 or fs[i - 1] != f]
                    ctx.distinct.add(('shape', t['kind'][p - 1], tuple(comp)))


def sample(ctx, specs, traces):
    by = {s[0]: s for s in specs}
    for t in traces[:200]:
        if 40 <= t['n'] <= 120 and len(ctx.samples) < 4:
            s = by[t['id']]
            w = next(it for it in t['items'] if it['call'] == 'walk' and it['on'] == 'both')
            ctx.sample({'label': s[4], 'mode': s[1], 'nodes': t['n'], 'src_head': s[2][:160], 'items': len(t['items']),
                        'first_both_walk': {'back': w['back'], 'flt': w['flt'], 'seq': w['seq'][:24]}})


def run(ctx):
    ctx.rule = ('M: WalkMC.tla - every ordered tree <= MaxN nodes (plain and mirrored) x every filter set; iteration '
                'idioms and the generator stack machine as actions; 13 theorems as invariants. '
                'G: every (tree <= 5 nodes, filter set, on, back, recurse, self_) case of WalkGenCases.tla concretised in 3 '
                'source shapes and replayed into pfst; every grammar-accepted pattern of WalkShapeCases.tla (Call/ClassDef '
                'argument interleavings <= 6, Dict **, arguments mixtures, MatchMapping/MatchClass, Compare, comprehensions) '
                'concretised and validated through V. '
                'V: every traversal API x parameter combination on corpus programs x layout variants (+ repository '
                'sources in the thorough tier), each answer judged by TLC (WalkTrace.tla) against Walk.tla on the '
                'tree of CPython\'s own parse, source order computed from ast/tokenize positions. '
                'distinct = distinct (parent kind, run-length-compressed child field names in walked order) with >= 2 '
                'children + distinct (on, back, recurse, self_, filter kind, root/inner) walk classes + G case classes')
    ctx.assumptions += [
        'oracle node table (harness/c14_rec.Oracle: ast.parse + tokenize anchors for operators / empty arguments) trusted',
        'children of JoinedStr / FormattedValue are taken in field order and excluded from the sibling-order clause '
        '(CPython positions of f-string pieces overlap); expression nodes inside f-strings are checked normally',
        'nodes without own text (expr_context; and/or, which own several tokens) are outside the sibling-order clause; the '
        'sequence-equality clauses place them by the named convention TextlessPlacement (boolean operator first, ctx last)',
        'scope=True walks are not judged (their content is C16\'s subject); asts= and send() are C15\'s',
    ]
    from checks import c14_gen
    specs = build_specs(ctx)
    chunks = chunks_of(specs)
    pool = mp.get_context('fork').Pool(NPROC)   # forked before any thread is started, reused for every chunk
    # (M) and (G) run next to (V): three independent pipelines, results are only read after all have finished
    side = cf.ThreadPoolExecutor(max_workers=2)
    fm = side.submit(lambda: ctx.model('WalkMC', 'WalkMC' if ctx.quick else 'WalkMC_thorough', required=MC_ACTIONS,
                                       workers=8, heap='2g'))
    fg = side.submit(c14_gen.run, ctx)
    nprog, skipped = 0, []
    try:
        for chunk in chunks:
            traces, sk = record_all(ctx, chunk, pool)
            skipped += sk
            nprog += len(traces)
            core_skipped = [x for x in sk if (x[1].startswith(('corpus', 'extra')) and x[1].endswith('/v0'))
                            or x[1].startswith('shape:')]   # layout variants are only counted
            if core_skipped:
                raise common.Machinery(f'oracle could not be built for corpus inputs: {core_skipped[:3]}')
            verd = validate_all(ctx, traces)
            collect(ctx, chunk, traces, verd)
            sample(ctx, chunk, traces)
            del traces, verd
    finally:
        pool.terminate()
        side.shutdown(wait=True)
    fm.result()
    fg.result()
    ctx.extra['programs'] = nprog
    ctx.extra['chunks'] = len(chunks)
    ctx.extra['skipped_inputs'] = len(skipped)
    ctx.extra['skipped_examples'] = [x[1:] for x in skipped[:5]]
    kinds = ctx.__dict__.get('_c14_kinds', set())
    allk = {n for n, c in vars(ast).items() if isinstance(c, type) and issubclass(c, ast.AST) and not c.__subclasses__() and n[:1] != '_'
            and c.__module__ in ('ast', '_ast')}
    never = {'AugLoad', 'AugStore', 'Param', 'Suite', 'ExtSlice', 'Index', 'TypeIgnore', 'FunctionType'}  # not produced by ast.parse(src) in 3.12
    ctx.extra['node_kinds_covered'] = len(kinds)
    ctx.extra['node_kinds_missing'] = sorted(allk - kinds - never)
    ctx.require_clauses(CLAUSES)


def replay(ctx, path):
    with open(path) as f:
        rp = json.load(f)
    if rp.get('driver') == 'c14_gen':
        from checks import c14_gen
        return c14_gen.replay(ctx, rp)
    specs = [(1, rp['mode'], rp['src'], rp['pseed'], rp.get('label', 'replay'))]
    traces, skipped = record_all(ctx, specs)
    if skipped:
        raise common.Machinery(f'replay input skipped: {skipped}')
    verd = validate_all(ctx, traces)
    collect(ctx, specs, traces, verd)
    print(rp['src'])
    for b in sorted(verd[1]['bad'])[:40]:
        it = traces[0]['items'][b[0] - 1]
        print('FAILED', b, json.dumps(_item_brief(it))[:400])
    return ctx.finish()


# ----------------------------------------------------------------------------------------------------------------------
# binding demonstration: corrupt one recorded field of an accepted trace, TLC must reject it naming the right clause

SELFTEST_SRC = 'def f(a, b=1, *c, d=2, **e):\n    return g(a, *c, k=d, *b, **e) + {**e, "k": a}[b] < a\n'


def selftest(ctx):
    import copy
    from harness import c14_rec
    base = c14_rec.record(SELFTEST_SRC, 'exec', 7, 1)

    def find(tr, pred):
        return next(i for i, it in enumerate(tr['items']) if pred(it))

    def root_walk(it, on='enter', back=False):
        return (it['call'] == 'walk' and it['x'] == 1 and it['on'] == on and it['back'] == back and it['rec']
                and it['self'] and it['flt']['k'] == 'T')

    call = base['kind'].index('Call') + 1
    ckids = base['fkids'][call - 1]
    cases = []

    def case(name, expect, fn):
        tr = copy.deepcopy(base)
        tr['id'] = len(cases) + 2
        fn(tr)
        cases.append((name, set(expect), tr))

    src_kids = sorted(ckids, key=lambda c: tuple(base['pos'][c - 1][:2]))   # g, a, *c, k=d, *b, **e

    def swap_sibs(tr):   # two adjacent sibling subtrees (`*c` and `k=d`) exchanged in the recorded enter walk
        it = tr['items'][find(tr, root_walk)]
        ia, ib, ic = (it['seq'].index(src_kids[k]) for k in (2, 3, 4))
        it['seq'] = it['seq'][:ia] + it['seq'][ib:ic] + it['seq'][ia:ib] + it['seq'][ic:]
    case('walk: two sibling subtrees exchanged', {'Walk.EqSpec.body', 'Walk.SiblingOrder'}, swap_sibs)

    def dup(tr):
        it = tr['items'][find(tr, lambda it: root_walk(it, 'leave'))]
        it['seq'][3] = it['seq'][2]
    case('walk: one node yielded twice, another never', {'Walk.EqSpec.body', 'Walk.SetOnce'}, dup)

    def child_first(tr):
        it = tr['items'][find(tr, root_walk)]
        i = it['seq'].index(call)
        it['seq'][i], it['seq'][i + 1] = it['seq'][i + 1], it['seq'][i]
    case('walk: child before its parent', {'Walk.EqSpec.body', 'Walk.ParentChild'}, child_first)

    def unbracket(tr):
        it = tr['items'][find(tr, lambda it: root_walk(it, 'both'))]
        i = next(k for k in range(len(it['seq']) - 1) if it['seq'][k] == it['seq'][k + 1])   # a leaf: enter, leave
        it['lv'][i], it['lv'][i + 1] = True, False
    case('walk(both): a leaf left before it is entered', {'Walk.EqSpec.body', 'Walk.Bracket'}, unbracket)

    def oracle_shift(tr):   # oracle side: the start of `*b` moved before its left neighbour `k=d`
        tr['pos'][src_kids[4] - 1][1] = tr['pos'][src_kids[3] - 1][1] - 1
    case('oracle: start column of an argument moved before its neighbour', {'Walk.EqSpec.body', 'Walk.SiblingOrder'},
         oracle_shift)

    def nav_next(tr):
        it = tr['items'][find(tr, lambda it: it['call'] == 'nav' and it['flt']['k'] == 'T')]
        it['next'][src_kids[1] - 1] = src_kids[3]
    case('nav: next() skips a sibling', {'Nav.NextEqSpec', 'Nav.NextPrevInverse', 'Nav.ChildStepEqNext'}, nav_next)

    def nav_step(tr):
        it = tr['items'][find(tr, lambda it: it['call'] == 'nav' and it['flt']['k'] == 'F')]
        it['sf'][call - 1] = it['sf'][it['sf'][call - 1] - 1]
    case('nav: step_fwd() skips a node', {'Nav.StepEqSpec', 'Nav.StepIterIsWalk'}, nav_step)

    def nav_child(tr):
        it = tr['items'][find(tr, lambda it: it['call'] == 'nav' and it['flt']['k'] == 'L')]
        it['pchild'][call - 1] = it['pchild'][call - 1][::-1]
    case('nav: prev_child() iteration in forward order', {'Nav.ChildIterEqWalk', 'Nav.ChildIterEqSpec',
                                                           'Nav.FirstLastAreEnds'}, nav_child)

    def path_back(tr):
        it = tr['items'][find(tr, lambda it: it['call'] == 'path')]
        it['back'][call - 1] = ckids[0]
    case('path: child_from_path(child_path(x)) is another node', {'Path.Inverse', 'Path.FromPathEqSpec'}, path_back)

    def path_idx(tr):
        it = tr['items'][find(tr, lambda it: it['call'] == 'path')]
        it['paths'][ckids[2] - 1][-1]['i'] += 1
    case('path: wrong index in child_path()', {'Path.EqSpec', 'Path.FromPathEqSpec'}, path_idx)

    verd = ctx.validate({'traces': [base] + [c[2] for c in cases]}, module='WalkTrace', heap='4g')
    ok = True
    b0 = {c for _, c, _ in verd[1]['bad']}
    print(f'accepted trace: failed clauses: {sorted(b0)}')
    ok &= not b0
    for name, expect, tr in cases:
        got = {c for _, c, _ in verd[tr['id']]['bad']}
        good = expect <= got
        ok &= good
        print(f'{"ok  " if good else "FAIL"} {name}: rejected by {sorted(got)}' + ('' if good else f' (expected {sorted(expect)})'))
    return 0 if ok else 1


def _desc(tr, x):
    out, todo = set(), [x]
    while todo:
        y = todo.pop()
        out.add(y)
        todo.extend(tr['fkids'][y - 1])
    return out
