"""Edit-history checks shared by C01 / C03 / C12 (and reused by C02 / C04): generate histories against the real code,
validate them with TLC against PfstTrace.tla, attribute failed clauses to properties."""

from __future__ import annotations

import concurrent.futures as cf
import json
import multiprocessing as mp
import os
import random

from checks import common

CLAUSES = {
    'C01': {'Sync', 'RootIdentity'},
    'C03': {'SliceLaw', 'NothingElse', 'OracleAgree', 'CarriedOutNotRefused', 'IllFormedAccepted', 'OpsLaw'},
    'C12': {'AtomicOnRaise.tree', 'AtomicOnRaise.text', 'AtomicOnRaise.srcparse', 'RegistryQuiescent',
            'NextEditAfterRaise'},
}


def _shard(args):
    """Worker: run a shard of histories in a fresh process; returns (batch, scripts)."""
    shard_id, specs, opts = args
    from harness import edits, histories, layouts
    from corpus.programs import PROGRAMS
    rec = edits.Recorder()
    traces, scripts = [], {}
    for tid, seed, prog, variant, nsteps in specs:
        src = layouts.variant(PROGRAMS[prog], variant, seed)
        tr = histories.run_history(rec, tid, seed, src, nsteps, mode=opts.get('mode', 'mixed'))
        scripts[tid] = {'driver': 'edit_history', 'prog': prog, 'variant': variant, 'seed': seed, 'nsteps': nsteps,
                        'mode': opts.get('mode', 'mixed'), 'script': tr.pop('script')}
        traces.append(tr)
    return dict(rec.tab.dump(), traces=traces), scripts


def history_specs(ctx, n_hist, n_steps, base=0):
    from corpus.programs import PROGRAMS
    from harness import layouts
    rng = random.Random(ctx.seed * 1000003 + 17)
    specs = []
    for i in range(n_hist):
        prog = i % len(PROGRAMS)
        variant = (i // len(PROGRAMS)) % layouts.N_VARIANTS
        specs.append((base + i + 1, rng.randrange(1 << 30), prog, variant, n_steps))
    return specs


def generate(ctx, specs, nproc=14, mode='mixed'):
    nshards = max(1, min(nproc, len(specs) // 20 or 1))
    shards = [(k, specs[k::nshards], {'mode': mode}) for k in range(nshards)]
    if nshards == 1:
        return [_shard(shards[0])]
    with mp.get_context('fork').Pool(nshards) as pool:
        return pool.map(_shard, shards)


def validate_all(ctx, results, module='PfstTrace'):
    """TLC-validate every shard batch (JVMs in parallel); returns [(batch, scripts, verdicts)]."""
    out = []

    def one(bs):
        b, s = bs
        return b, s, ctx.validate(b, module=module)

    # ctx.validate mutates counters: run sequentially in threads guarded by the GIL (counter updates are tiny)
    with cf.ThreadPoolExecutor(max_workers=min(6, len(results))) as ex:
        for r in ex.map(one, results):
            out.append(r)
    return out


def collect(ctx, validated, props):
    """Attribute failed clauses to the property being checked; returns counts."""
    mine = set().union(*(CLAUSES[p] for p in props))
    n_events = 0
    for batch, scripts, verd in validated:
        by_id = {t['id']: t for t in batch['traces']}
        for tid, v in verd.items():
            tr = by_id[tid]
            n_events += len(tr['steps'])
            first = {}
            for step, clause, klass in sorted(v['bad']):
                if clause not in mine:
                    continue
                if clause in first:
                    continue  # one report per clause per trace (later steps run on a damaged state)
                first[clause] = step
                ev = tr['steps'][step - 1]
                sc = scripts[tid]
                ctx.violation(clause, klass, {
                    'driver': sc['driver'], 'prog': sc['prog'], 'variant': sc['variant'], 'seed': sc['seed'],
                    'nsteps': sc['nsteps'], 'mode': sc['mode'], 'failing_step': step, 'i': sc.get('i', 0),
                    'per_class': sc.get('per_class', 2),
                    'event': {k: ev[k] for k in ev if k != 'post'},
                    'script': sc['script'][:step],
                }, detail=json.dumps({k: ev[k] for k in ('op', 'kind', 'field', 'exc', 'msg', 'codeform') if k in ev}))
        for tr in batch['traces']:
            for ev in tr['steps']:
                ctx.evals += 1
                if ev.get('call') == 'edit':
                    ctx.distinct.add((ev['kind'], ev['field'], ev['form'], ev['op'], ev['codeform'], ev['outcome'],
                                      ev['start']['k'], ev['stop']['k']))
        for tr in batch['traces'][:2]:
            if tr['steps']:
                ev = tr['steps'][0]
                ctx.sample({'program': scripts[tr['id']]['prog'], 'variant': scripts[tr['id']]['variant'],
                            'first_event': {k: ev[k] for k in ('op', 'form', 'kind', 'field', 'start', 'stop', 'idx',
                                                               'srcs', 'codeform', 'outcome', 'exc') if k in ev},
                            'steps': len(tr['steps'])})
    return n_events


def replay(ctx, path, props):
    with open(path) as f:
        rp = json.load(f)
    if rp.get('driver') == 'fieldsweep':
        item = (1 - rp['i'], rp['seed'], rp['prog'], rp['variant'], rp.get('per_class', 2))
        b, sc = _shard_fieldsweep((0, [item], None))
        b['traces'] = [t for t in b['traces'] if t['id'] == 1]
        res = [(b, {1: sc[1]})]
    elif rp.get('driver') == 'sweep':
        from harness import sweep
        tab = sweep.emit_table()
        item = (1, rp['seed'], rp['mode'], rp['prog'], rp['variant'], rp.get('i', 0))
        res = [_shard_sweep((0, [item], {'rows': tab['rows'], 'argrows': tab['argrows']}))]
    else:
        spec = (1, rp['seed'], rp['prog'], rp['variant'], rp['nsteps'])
        res = [_shard((0, [spec], {'mode': rp.get('mode', 'mixed')}))]
    validated = validate_all(ctx, res)
    collect(ctx, validated, props)
    for batch, scripts, verd in validated:
        for tid, v in verd.items():
            print('verdict', tid, sorted(v['bad']))
    for step in scripts[1]['script']:
        print('---', json.dumps(step['plan'], default=str))
        print(step['pre_src'])
        print('=>', step['exc'] or '')
        print(step['post_src'])
    return ctx.finish()


# ----------------------------------------------------------------------------------------------------------------------
# (G) systematic sweep: TLC-generated request table x container catalogue

def _shard_sweep(args):
    shard_id, items, tab = args
    import random
    from harness import edits, sweep, catalogue
    rec = edits.Recorder()
    traces, scripts = [], {}
    for tid, seed, kind, name, ridx, i in items:
        rng = random.Random(seed)
        if kind == 'row':
            src, plan = sweep.row_plan(catalogue.BY_NAME[name], tab['rows'][ridx], i, rng)
        else:
            src, plan = sweep.argrow_plan(tab['argrows'][ridx], i, name)
        tr = sweep.run_single(rec, tid, seed, src, plan)
        scripts[tid] = {'driver': 'sweep', 'prog': name, 'variant': ridx, 'seed': seed, 'nsteps': 1, 'mode': kind,
                        'i': i, 'script': tr.pop('script')}
        traces.append(tr)
    return dict(rec.tab.dump(), traces=traces), scripts


# ----------------------------------------------------------------------------------------------------------------------
# (F) field sweep: systematic deletions (single-valued fields, tails / ends of list fields) of every node x field of the
# corpus programs, each on a fresh tree

def _shard_fieldsweep(args):
    shard_id, items, _ = args
    import random
    from harness import edits, sweep, layouts
    from corpus.programs import PROGRAMS
    rec = edits.Recorder()
    traces, scripts = [], {}
    for tid0, seed, prog, variant, per_class in items:
        src = layouts.variant(PROGRAMS[prog], variant, seed)
        tree = edits.try_parse(src)
        if tree is None:
            continue
        plans = edits.plan_field_sweep(tree, random.Random(seed), per_class)
        for i, plan in enumerate(plans):
            tid = tid0 + i
            tr = sweep.run_single(rec, tid, seed + i, src, plan)
            scripts[tid] = {'driver': 'fieldsweep', 'prog': prog, 'variant': variant, 'seed': seed, 'nsteps': 1,
                            'mode': 'fieldsweep', 'i': i, 'per_class': per_class, 'script': tr.pop('script')}
            traces.append(tr)
        # primitive puts (Constant.value, identifiers) on every slot class of the program
        mplans = edits.plan_prim_sweep(tree, random.Random(seed + 1), per_class)
        for j, m in enumerate(mplans):
            i = len(plans) + j
            tid = tid0 + i
            tr = sweep.run_single_misc(rec, tid, seed + i, src, m)
            scripts[tid] = {'driver': 'fieldsweep', 'prog': prog, 'variant': variant, 'seed': seed, 'nsteps': 1,
                            'mode': 'fieldsweep', 'i': i, 'per_class': per_class, 'script': tr.pop('script')}
            traces.append(tr)
    return dict(rec.tab.dump(), traces=traces), scripts


def run_fieldsweep(ctx, variants, per_class, props, nproc=14, base=3000000):
    from corpus.programs import PROGRAMS
    rng = random.Random(ctx.seed * 13 + 11)
    items = [(base + 2000 * (len(PROGRAMS) * vi + pi), rng.randrange(1 << 30), pi, v, per_class)
             for vi, v in enumerate(variants) for pi in range(len(PROGRAMS))]
    nshards = max(1, min(nproc, len(items) // 4 or 1))
    shards = [(k, items[k::nshards], None) for k in range(nshards)]
    if nshards == 1:
        res = [_shard_fieldsweep(shards[0])]
    else:
        with mp.get_context('fork').Pool(nshards) as pool:
            res = pool.map(_shard_fieldsweep, shards)
    val = validate_all(ctx, res)
    collect(ctx, val, props)
    n = sum(len(b['traces']) for b, _ in res)
    ctx.extra['fieldsweep_requests_replayed'] = n
    return n


def sweep_items(ctx, tab, per_template, n_arg, base=1000000):
    import random
    from harness import catalogue
    rng = random.Random(ctx.seed * 7 + 3)
    items = []
    tid = base
    for t in catalogue.TEMPLATES:
        idxs = [k for k, r in enumerate(tab['rows']) if r['lo'] == t.lo and r['len'] - r['lo'] >= t.minlen]
        if per_template and per_template < len(idxs):
            # stratified: keep every ill-formed class represented, sample the rest
            idxs = rng.sample(idxs, per_template)
        for i, k in enumerate(idxs):
            tid += 1
            items.append((tid, rng.randrange(1 << 30), 'row', t.name, k, i))
    aidx = list(range(len(tab['argrows'])))
    if n_arg and n_arg < len(aidx):
        aidx = rng.sample(aidx, n_arg)
    for i, k in enumerate(aidx):
        for klass in ('Call', 'ClassDef'):
            tid += 1
            items.append((tid, rng.randrange(1 << 30), 'arg', klass, k, i))
    return items


def run_sweep(ctx, per_template, n_arg, props, nproc=14):
    """Emit the table with TLC, check spec = Python list on every row, replay the sample into pfst, validate."""
    from harness import sweep
    tab = sweep.emit_table()
    ctx.states += max(1, tab['_stats']['distinct'])
    ctx.transitions += len(tab['rows']) + len(tab['argrows'])
    bad = sweep.spec_agrees_with_python(tab)
    if bad:
        raise common.Machinery(f'ContainersGen.tla disagrees with Python list semantics on {len(bad)} rows, e.g. {bad[0]}')
    ctx.extra['table_rows'] = len(tab['rows'])
    ctx.extra['table_argrows'] = len(tab['argrows'])
    ctx.extra['table_rows_equal_python_list'] = len(tab['rows'])
    items = sweep_items(ctx, tab, per_template, n_arg)
    slim = {'rows': tab['rows'], 'argrows': tab['argrows']}
    nshards = max(1, min(nproc, len(items) // 50 or 1))
    shards = [(k, items[k::nshards], slim) for k in range(nshards)]
    if nshards == 1:
        res = [_shard_sweep(shards[0])]
    else:
        with mp.get_context('fork').Pool(nshards) as pool:
            res = pool.map(_shard_sweep, shards)
    val = validate_all(ctx, res)
    collect(ctx, val, props)
    ctx.extra['sweep_requests_replayed'] = len(items)
    return len(items)
