"""C15 - walking stays sound while the tree is being modified.

M  spec/WalkGen.tla   the walk generator transcribed (stack of AST nodes, a.f / f.a liveness tests, three `on` loops,
                      send, recurse, back, `yield from` frames) || a consumer replacing / removing nodes while the
                      generator is parked; judged by the property-shaped laws of spec/WalkLaws.tla; termination in
                      WalkGenLive.cfg (<>done under weak fairness).
G  harness/c15_replay model behaviours (exhaustive for small bounds, -simulate beyond) replayed on nested lists and
                      nested `if` blocks; yield sequences compared (MODEL-DIVERGENCE, evidence only).
V  harness/c15_walk   every real run (the replays, and random walk/search/sub runs over the corpus with all
                      on/back/recurse/self_/scope settings and filters) validated by spec/WalkAccept.tla = the same
                      WalkLaws operators on recorded snapshots.  The verdict comes from V only.
"""

from __future__ import annotations

import collections
import concurrent.futures as cf
import json
import multiprocessing as mp

from checks import common

CLAUSES = ['NoException', 'Terminates', 'YieldedAlive', 'YieldedInTree', 'NoDoubleEnter', 'ReplacedChildrenNext',
           'RemovedContinues', 'SendHonoured', 'FinalSync']
ACTIONS = ('Start', 'AfterSelf', 'Setup', 'Pop', 'AfterEnter', 'AfterLeave', 'TailYield', 'AfterTail',
           'Resume', 'DoRemove', 'DoReplace', 'Send')


# ----------------------------------------------------------------------------------------------------------------------
# workers (fresh processes)

def _meta(w, driver, **kw):
    d = {'driver': driver, 'src': w.src0, 'cfg': w.cfg, 'api': w.api, 'final_src': w.root.src,
         'exc': getattr(w, 'exc_detail', '')}
    d.update(kw)
    return d


def _shard_random(args):
    from harness import c15_walk as cw
    specs = args
    traces, meta, stats = [], {}, {}
    for tid, seed in specs:
        try:
            w = cw.random_case(tid, seed, stats)
        except RecursionError:
            w = None
        if w is None:
            continue
        traces.append(w.trace())
        meta[tid] = _meta(w, 'random', case_seed=seed, prog=getattr(w, 'prog', -1))
    return traces, meta, stats


def _shard_sweep(args):
    from harness import c15_walk as cw
    traces, meta = [], {}
    stats = collections.Counter()
    for tid, spec in args:
        w = cw.sweep_case(tid, spec)
        stats['sweep_planned'] += 1
        if w is None:
            stats['sweep_not_requestable'] += 1
            continue
        traces.append(w.trace())
        meta[tid] = _meta(w, 'sweep', spec=list(spec))
    return traces, meta, dict(stats)


def _shard_model(args):
    from harness import c15_replay as cr
    traces, meta = [], {}
    stats = collections.Counter()
    for tid, beh, mode in args:
        w, info = cr.replay(tid, beh, mode)
        stats['replays'] += 1
        for c in info.get('clauses', ()):
            stats['model_judged:' + c] += 1
        if w is None:
            stats['unconcretisable:' + mode] += 1
            continue
        dv = set(info['diverged'])
        if 'yields' in dv:
            stats['yield_divergence:' + mode + (':explained-by-keep-mismatch' if 'keep-mismatch' in dv else ':UNEXPLAINED')] += 1
            if 'keep-mismatch' not in dv and stats['_samples'] < 3:
                stats['_samples'] += 1
                stats.setdefault('_div', [])
        for d in dv - {'yields'}:
            stats[d + ':' + mode] += 1
        traces.append(w.trace())
        meta[tid] = _meta(w, 'model', beh=beh, mode=mode, diverged=sorted(dv))
    stats.pop('_samples', None)
    stats.pop('_div', None)
    return traces, meta, dict(stats)


def _retrying(fn, *a, **kw):
    """TLC runs killed from outside (rc=-9: the kernel's OOM killer on a crowded machine) are retried twice."""
    import time
    for attempt in range(3):
        try:
            return fn(*a, **kw)
        except (common.Machinery, Exception) as e:  # noqa: BLE001
            if 'rc=-9' in str(e) and attempt < 2:
                time.sleep(20 * (attempt + 1))
                continue
            raise


def _pool_map(fn, items, nproc, chunk):
    shards = [items[i:i + chunk] for i in range(0, len(items), chunk)]
    if not shards:
        return []
    if len(shards) == 1:
        return [fn(shards[0])]
    with mp.get_context('fork').Pool(min(nproc, len(shards))) as pool:
        return pool.map(fn, shards)


# ----------------------------------------------------------------------------------------------------------------------

def _validate(ctx, results, per_batch=3000):
    """TLC-validate all traces (several JVMs in parallel); returns [(trace, meta, verdict)]."""
    traces, meta = [], {}
    for tr, me, _ in results:
        traces += tr
        meta.update(me)
    batches = [traces[i:i + per_batch] for i in range(0, len(traces), per_batch)]

    def one(b):
        return b, _retrying(ctx.validate, {'traces': b}, module='WalkAccept', heap='2g')
    out = []
    with cf.ThreadPoolExecutor(max_workers=4) as ex:
        for b, verd in ex.map(one, batches):
            for t in b:
                out.append((t, meta[t['id']], verd[t['id']]))
    return out


def _collect(ctx, validated):
    for t, me, v in validated:
        cfg = t['cfg']
        muts = [e for e in t['steps'] if e['k'] == 'mut']
        for e in t['steps']:
            if e['k'] in ('yield', 'stop'):
                ctx.evals += 1
        lvs = {}
        last_lv = False
        for e in t['steps']:
            if e['k'] == 'yield':
                last_lv = e['lv']
            elif e['k'] == 'mut':
                ctx.distinct.add((cfg['api'], cfg['on'], cfg['back'], cfg['recurse'], cfg['scope'], cfg['self'],
                                  cfg['allform'], e['rel'], e['op'], e['ns'] == e['s'], last_lv))
            elif e['k'] == 'send':
                ctx.distinct.add((cfg['api'], cfg['on'], cfg['back'], cfg['recurse'], cfg['scope'], cfg['self'],
                                  cfg['allform'], 'send', e['v'], bool(muts), last_lv))
        first = {}
        for step, clause, klass in sorted(v['bad']):
            if clause in first:
                continue  # one report per clause per trace
            first[clause] = step
            slot = ''
            for e in t['steps'][:step][::-1]:
                if e['k'] == 'yield':
                    slot = e.get('slot', '')
                    break
            rp = dict(me, failing_step=step, steps=t['steps'][:step + 1], snaps=t['snaps'][:6])
            ctx.violation(clause, klass, rp, detail=f'curslot={slot} exc={me.get("exc", "")}')
    for t, me, v in validated[:3]:
        ctx.sample({'driver': me['driver'], 'cfg': t['cfg'], 'src': me['src'][:200], 'final_src': me['final_src'][:200],
                    'events': [{k: e[k] for k in e if k != 'slot'} for e in t['steps'][:8]]})


def run(ctx):
    ctx.rule = ('M: WalkGen.tla, all ordered trees <= N nodes x on x back x recurse x self_ x every interleaving of '
                'iteration steps with <= MaxMut replace(keep|new FST)/remove mutations of any live node and send(). '
                'G: model behaviours replayed on nested lists / nested ifs. V: all real runs (replays + random '
                'walk/search/sub over the corpus incl. scope=True, type/callable filters; systematic sweep: every yield position '
                'x every mutable ancestor x replace/remove x on x back x walk/search/sub on small constructs incl. the '
                'None-holding list fields Dict.keys / arguments.kw_defaults) judged by WalkAccept.tla. '
                'distinct = distinct (api, on, back, recurse, scope, self_, filter form, relation of the mutated node to '
                'the current node, operation, FST kept?, at leaving yield?) tuples actually executed against pfst')
    ctx.assumptions += [
        'snapshots: structure / source order / eligibility come from the stdlib `ast` view of the live tree; FST '
        'identity = recorder serial (strong references)',
        'domain: mutations are single-node replace / remove / one-element slice put, valid by construction, norm=True; a '
        'mutation that itself raises discards the run (C03/C12 matter); sends only at entering yields (NoRewalk); '
        'scope=True uses the weak form of RemovedContinues; walked subtrees whose stdlib source order differs from '
        'pfst\'s undisturbed walk order are skipped (C14 matter); f-string / pattern internals are never mutated',
        'named deviations in the spec: RootLeaveUnfiltered, NoFilter/NoScope in the model (bound through V only)',
    ]
    quick = ctx.quick
    # -- M -------------------------------------------------------------------------------------------------------------
    # (runs concurrently with G and V: the JVMs and the Python worker processes share the cores)
    mex = cf.ThreadPoolExecutor(max_workers=2)
    m_futs = [mex.submit(_retrying, ctx.model, 'WalkGen', 'WalkGenMC' if quick else 'WalkGenMC_thorough', required=ACTIONS,
                         timeout=3000, workers=8 if quick else 12, heap='2g' if quick else '4g'),
              mex.submit(_retrying, ctx.model, 'WalkGen', 'WalkGenLive', required=ACTIONS, timeout=1500, workers=2, heap='1g')]
    ctx.exhaustive = False

    # -- G -------------------------------------------------------------------------------------------------------------
    from harness import c15_replay as cr
    from harness import tlc
    try:
        if quick:
            gens = [({'N': 3, 'MaxMut': 1, 'MaxPark': 1, 'MaxSend': 1, 'Shapes': '1, 3'}, 0, 'alt'),
                    ({'N': 5, 'MaxMut': 2, 'MaxPark': 2, 'MaxSend': 2, 'Shapes': '1, 2, 3, 4'}, 150, 'both')]
        else:
            gens = [({'N': 3, 'MaxMut': 1, 'MaxPark': 1, 'MaxSend': 1, 'Shapes': '1, 2, 3, 4'}, 0, 'both'),
                    ({'N': 2, 'MaxMut': 2, 'MaxPark': 2, 'MaxSend': 1, 'Shapes': '1, 3'}, 0, 'both'),
                    ({'N': 5, 'MaxMut': 3, 'MaxPark': 2, 'MaxSend': 2, 'Shapes': '1, 2, 3, 4'}, 2000, 'both'),
                    ({'N': 6, 'MaxMut': 2, 'MaxPark': 2, 'MaxSend': 2, 'Shapes': '1, 2, 3, 4'}, 1000, 'both')]
        items = []
        tid = 0
        nbeh = 0

        def gen_one(g):
            params, sim, _ = g
            return _retrying(cr.behaviours, params, simulate=sim, seed=ctx.seed + 1, workers=4)
        with cf.ThreadPoolExecutor(max_workers=len(gens)) as ex:
            gen_res = list(ex.map(gen_one, gens))
        for (params, sim, modes), (behs, r) in zip(gens, gen_res):
            ctx.states += r.get('distinct', 0)
            ctx.transitions += r.get('generated', 0)
            ctx.models.append({'module': 'WalkGen', 'kind': 'generation' + ('-simulate' if sim else '-exhaustive'),
                               'params': params, 'behaviours': len(behs), 'distinct': r.get('distinct'),
                               'wall_s': r['wall_s']})
            nbeh += len(behs)
            for i, b in enumerate(behs):
                for mode in (('list', 'if') if modes == 'both' else (('list', 'if')[i % 2],)):
                    tid += 1
                    items.append((tid, b, mode))
    except tlc.TLCError as e:
        raise common.Machinery(str(e)) from e
    if nbeh < 100:
        raise common.Machinery('too few model behaviours generated')
    res_g = _pool_map(_shard_model, items, 10, max(50, len(items) // 28 + 1))
    gstats = collections.Counter()
    for _, _, st in res_g:
        gstats.update(st)

    # -- V random --------------------------------------------------------------------------------------------------------
    n_rand = 2500 if quick else 40000
    base = 1_000_000
    specs = [(base + i, ctx.seed * 1_000_003 + i) for i in range(n_rand)]
    res_r = _pool_map(_shard_random, specs, 10, max(50, n_rand // 28 + 1))
    rstats = collections.Counter()
    for _, _, st in res_r:
        rstats.update(st)

    # -- V systematic: every yield position x every mutable ancestor x replace/remove x on x back x walk/search/sub -----
    from harness import c15_walk as cw
    plan = cw.sweep_plan(quick, ctx.seed)
    res_s = _pool_map(_shard_sweep, [(2_000_000 + i, sp) for i, sp in enumerate(plan)], 10, max(50, len(plan) // 28 + 1))
    sstats = collections.Counter()
    for _, _, st in res_s:
        sstats.update(st)
    ctx.extra['ancestor_sweep'] = dict(sstats, constructs=cw.N_SWEEP, none_holding_constructs=len(cw.SWEEP_NONE_LISTS))
    if sstats['sweep_planned'] - sstats['sweep_not_requestable'] < 1000:
        raise common.Machinery('ancestor sweep produced too few runs')

    validated = _validate(ctx, res_g + res_r + res_s)
    _collect(ctx, validated)
    for fu in m_futs:
        fu.result()  # raises Machinery if the specification lost a property or an action was never taken
    mex.shutdown()
    ctx.extra['model_behaviours'] = nbeh
    ctx.extra['model_replay'] = dict(gstats)
    ctx.extra['MODEL-DIVERGENCE'] = {k: v for k, v in gstats.items() if k.startswith('yield_divergence')}
    ctx.extra['random_runs'] = {'requested': n_rand, **dict(rstats)}
    ctx.extra['mutations_executed'] = sum(1 for t, _, _ in validated for e in t['steps'] if e['k'] == 'mut')
    ctx.extra['sends_executed'] = sum(1 for t, _, _ in validated for e in t['steps'] if e['k'] == 'send')
    ctx.extra['runs_by_api'] = dict(collections.Counter(t['cfg']['api'] for t, _, _ in validated))
    ctx.extra['scope_runs'] = sum(1 for t, _, _ in validated if t['cfg']['scope'])
    for c in ('RemovedContinues', 'ReplacedChildrenNext', 'SendHonoured'):
        if not gstats.get('model_judged:' + c):
            raise common.Machinery(f'vacuity guard: the model never judged {c} in the generated behaviours')
    ctx.require_clauses(CLAUSES)


def replay(ctx, path):
    with open(path) as f:
        rp = json.load(f)
    if rp['driver'] == 'random':
        res = [_shard_random([(1, rp['case_seed'])])]
    elif rp['driver'] == 'sweep':
        res = [_shard_sweep([(1, tuple(rp['spec']))])]
    else:
        res = [_shard_model([(1, rp['beh'], rp['mode'])])]
    validated = _validate(ctx, res)
    _collect(ctx, validated)
    for t, me, v in validated:
        print('source:\n' + me['src'])
        print('settings:', t['cfg'])
        for i, e in enumerate(t['steps'], 1):
            print(i, {k: e[k] for k in e})
        print('final source:\n' + me['final_src'])
        print('verdict', sorted(v['bad']), me.get('exc', ''))
    return ctx.finish()


def selftest(ctx):
    """Binding demonstration: corrupt one recorded field of accepted traces; TLC must reject naming the right clause."""
    import copy
    from harness import c15_walk as cw
    src = '[a, [b, [c, d], e], [f, g], h]\n'
    path = [('body', 0), ('value', None)]
    cfg = {'on': 'enter', 'back': False, 'recurse': True, 'self': True, 'scope': False}

    class Script:
        """remove the node named `c` when it is yielded, replace `f` by a list when it is yielded, send(False) at [f, g]"""
        def park(self, w, g, lv, can_send=True):
            if g.is_Name and g.id == 'c':
                w.mutate('remove', g.a, None, 'cur')
            elif g.is_Name and g.id == 'g':
                w.mutate('replace', g.a, '[x, y]', 'cur')
            elif g.is_List and g.src == '[b, [d], e]':
                pass
            return
            yield
    w = cw.Walk(1, src, path, cfg)
    cw.drive_walk(w, Script())
    good = w.trace()
    ys = [i for i, e in enumerate(good['steps']) if e['k'] == 'yield']
    muts = [i for i, e in enumerate(good['steps']) if e['k'] == 'mut']

    def corrupt(tid, fn):
        t = copy.deepcopy(good)
        t['id'] = tid
        fn(t)
        return t
    after_rm = muts[0] + 1      # the yield after the removal of `c` (must be `d`)
    after_rp = muts[1] + 1      # the yield after replacing `g` (must be `x`)
    cases = [
        (2, 'YieldedAlive', lambda t: t['steps'][ys[3]].update(alive=False)),
        (3, 'NoDoubleEnter', lambda t: t['steps'][ys[4]].update(s=t['steps'][ys[1]]['s'])),
        (4, 'RemovedContinues', lambda t: t['steps'].pop(after_rm)),          # `d` skipped after removing `c`
        (5, 'ReplacedChildrenNext', lambda t: t['steps'].pop(after_rp)),      # new first child not walked next
        (6, 'FinalSync', lambda t: t['final'].update(srcP=t['final']['srcP'] + 1)),
        (7, 'NoException', lambda t: t['steps'][-1].update(why='exception', exc='AttributeError')),
        (8, 'YieldedInTree', lambda t: t['steps'][ys[2]].update(s=999)),
        (9, 'Terminates', lambda t: t['steps'][-1].update(why='cutoff')),
    ]
    batch = {'traces': [good] + [corrupt(tid, fn) for tid, _, fn in cases]}
    verd = ctx.validate(batch, module='WalkAccept')
    ok = not verd[1]['bad']
    print('accepted trace:', 'clean' if ok else verd[1]['bad'])
    for tid, clause, _ in cases:
        named = sorted({c for _, c, _ in verd[tid]['bad']})
        hit = clause in named
        ok = ok and hit
        print(f'corruption expecting {clause}: rejected with {named} -> {"ok" if hit else "MISSED"}')
    return 0 if ok else 2
