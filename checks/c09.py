"""C09 - replacing an operand never changes how the surrounding expression groups.

(M)  spec/PrecMC.tla: the level arithmetic of spec/Prec.tla (written from python.gram) agrees with an explicit derivation
     over the grammar's productions for every (slot, child kind); ladder laws; TLC emits the complete table as JSON.
(G1) spec <-> CPython: every row of the table is rendered with / without parentheses (and multi-line) and parsed by
     ast.parse; TLC (spec/PrecTrace.tla, Gram.* clauses) checks that Valid / NeedsPars / NeedsInner / NeedsParentPars /
     NeedsParsML say exactly what the parser does.  A disagreement is a bug of the specification -> machinery failure.
(G2) pfst <-> spec: the real replace / put / attribute assignment is executed for every valid row x target layout x child
     layout x code form x entry point; TLC judges Carried, Regroup.parse / .at / .rest, ParsWhenNeeded, NeededParsKept.
"""

from __future__ import annotations

import concurrent.futures as cf
import json
import multiprocessing as mp
import os
import random
import tempfile
import time

from checks import common
from harness import tlc

GRAM = ('Gram.bare', 'Gram.childpar', 'Gram.parentpar', 'Gram.bothpar', 'Gram.doublepar', 'Gram.blank', 'Gram.ml',
        'Gram.compile')
MINE = ('Carried', 'RefusedCleanly', 'Regroup.parse', 'Regroup.at', 'Regroup.rest', 'ParsWhenNeeded', 'NeededParsKept', 'UnknownCase',
        'UnknownEvent')
TLC_FIELDS = ('call', 'slot', 'child', 'tlay', 'clay', 'form', 'api', 'cls', 'preS', 'path', 'newS', 'depth', 'ml',
              'selfEnc', 'outcome', 'postS', 'sameText', 'ctxKept', 'outerPars', 'outerBr', 'innerPars', 'ctxSub')


def _table(ctx):
    """Start model checking of PrecMC; TLC writes the table while it evaluates the ASSUMEs (before the search), so the
    table is picked up as soon as it is complete and the search goes on in the background. Returns (rows, join)."""
    from harness import c09_cat as cat
    fd, path = tempfile.mkstemp(prefix='c09-table-', suffix='.json', dir=tlc.scratch())
    os.close(fd)
    os.environ['C09_TABLE'] = path
    ex = cf.ThreadPoolExecutor(max_workers=1)
    fut = ex.submit(ctx.model, 'PrecMC', 'PrecMC',
                    ('Produce', 'LexicalPars', 'BlankSep', 'InnerGroup', 'Descend', 'Group', 'Reject'), 8, 3600, None,
                    True, '2g')
    rows = None
    while rows is None:
        if fut.done():
            fut.result()  # raises Machinery when the model failed
        try:
            with open(path) as f:
                txt = f.read()
            rows = json.loads(txt) if txt.strip().endswith(']') else None
        except (OSError, ValueError):
            rows = None
        if rows is None:
            if fut.done():
                raise common.Machinery('PrecMC did not emit the table')
            time.sleep(0.3)
    slots = {r['slot'] for r in rows}
    kinds = {r['child'] for r in rows}
    if slots != cat.slot_ids() or kinds != set(cat.K):
        raise common.Machinery(f'catalogue and specification disagree on the case space: '
                               f'{sorted(slots ^ cat.slot_ids())} {sorted(kinds ^ set(cat.K))}')
    return rows, fut.result


def _gram(ctx, rows):
    """spec <-> CPython; any failing Gram.* clause is a specification bug."""
    from harness import c09_drv as drv
    from harness.proj import Tables
    tab = Tables()
    by = {}
    for r in rows:
        by.setdefault(r['slot'], []).append(drv.gram_event(tab, r['slot'], r['cls'], r['child']))
    traces = [{'id': n + 1, 'steps': evs} for n, (s, evs) in enumerate(sorted(by.items()))]
    verd = ctx.validate(dict(tab.dump(), traces=traces), module='PrecTrace', heap='4g')
    bad = [(c, k) for t in traces for _, c, k in verd[t['id']]['bad']]
    if bad:
        raise common.Machinery(f'specification disagrees with CPython on {len(bad)} rendering(s): {sorted(set(bad))[:8]}')
    ctx.evals += sum(len(t['steps']) for t in traces)
    return len(rows)


def _shard(args):
    """Worker process: execute a shard of cases against the real pfst, have TLC judge the recorded events, and return
    only the verdict summary (events that failed a clause, counts) - batches never travel back to the parent."""
    shard_id, cases = args
    from harness import c09_drv as drv
    from harness.proj import Tables
    tab = Tables()
    by = {}
    done = []
    for i, c in enumerate(cases):
        ev = drv.put_event(tab, *c)
        if ev is None:
            continue
        done.append(i)
        by.setdefault(ev['slot'], []).append(ev)
    traces, meta = [], {}
    for n, (slot, evs) in enumerate(sorted(by.items())):
        tid = shard_id * 1000 + n + 1
        traces.append({'id': tid, 'steps': [{k: e[k] for k in TLC_FIELDS} for e in evs]})
        meta[tid] = evs
    res = {'nev': sum(len(t['steps']) for t in traces), 'ntr': len(traces), 'bad': [], 'seen': {}, 'sample': None,
           'err': None, 'st': {}, 'shard': shard_id, 'done': done}
    if not traces:
        return res
    try:
        verd, st = tlc.run_traces(dict(tab.dump(), traces=traces), module='PrecTrace', heap='1500m')
    except tlc.TLCError as e:
        res['err'] = str(e)
        return res
    finally:
        tlc.cleanup()
    res['st'] = st
    keys = ('slot', 'child', 'tlay', 'clay', 'form', 'api', 'src', 'code', 'post', 'exc', 'outcome', 'cls')
    for tid, v in verd.items():
        for c in v['seen']:
            res['seen'][c] = res['seen'].get(c, 0) + 1
        for step, clause, klass in sorted(v['bad']):
            res['bad'].append((clause, klass, {k: meta[tid][step - 1][k] for k in keys}))
    e = meta[traces[0]['id']][0]
    res['sample'] = {k: e[k] for k in ('slot', 'child', 'tlay', 'clay', 'form', 'api', 'src', 'code', 'post')}
    return res


def _cases(ctx, rows):
    from harness import c09_drv as drv
    valid = [r for r in rows if r['valid'] or r['strict']]   # strict slots: the other kinds must be refused cleanly
    rng = random.Random(ctx.seed * 7919 + 9)
    full = [(tl, cl, fo) for tl in drv.TLAYS for cl in drv.CLAYS for fo in drv.FORMS if not (fo == 'ast' and cl != 'one')]
    cases = []
    if ctx.quick:
        for n, r in enumerate(valid):
            for k, fo in enumerate(drv.FORMS):      # every valid row, plain layout, all three code forms
                cases.append((r['slot'], r['cls'], r['child'], 'bare', 'one', fo, drv.APIS[(n + k + ctx.seed) % 3]))
            for tl, cl, fo in rng.sample(full, 5):  # plus a seeded sample of the other layouts
                cases.append((r['slot'], r['cls'], r['child'], tl, cl, fo, rng.choice(drv.APIS)))
    else:
        for n, r in enumerate(valid):                # the full layout x form product; every entry point on the
            for k, (tl, cl, fo) in enumerate(full):  # layouts without line breaks in the target, one (rotating) elsewhere
                apis = drv.APIS if tl in ('bare', 'tpar', 'tneed') else (drv.APIS[(n + k + ctx.seed) % 3],)
                for api in apis:
                    cases.append((r['slot'], r['cls'], r['child'], tl, cl, fo, api))
    return sorted(set(cases))


def _run_puts(ctx, cases, nproc=int(os.environ.get('C09_NPROC', '10'))):
    nsh = max(1, min(8 if ctx.quick else 6 * nproc, len(cases) // 200 or 1))
    shards = [(k + 1, cases[k::nsh]) for k in range(nsh)]
    with mp.get_context('spawn').Pool(min(nproc, nsh), maxtasksperchild=4) as pool:
        for res in pool.imap_unordered(_shard, shards):
            mine = shards[res['shard'] - 1][1]
            for i in res['done']:
                c = mine[i]
                ctx.distinct.add((c[0], c[2], c[3], c[4], c[5], c[6]))
            _collect(ctx, res)


def _collect(ctx, res):
    if res['err']:
        raise common.Machinery(res['err'])
    st = res['st']
    ctx.states += st.get('distinct', 0)
    ctx.transitions += st.get('generated', 0)
    ctx.traces += res['ntr']
    ctx.evals += res['nev']
    ctx.extra['put_events'] = ctx.extra.get('put_events', 0) + res['nev']
    if st:
        ctx.models.append({'module': 'PrecTrace', 'kind': 'trace-validation', 'traces': res['ntr'],
                           'distinct': st.get('distinct'), 'wall_s': st['wall_s'], 'batch_bytes': st['batch_bytes']})
    for c, n in res['seen'].items():
        ctx.clause_counts[c] = ctx.clause_counts.get(c, 0) + n
    for clause, klass, e in res['bad']:
        if clause not in MINE:
            raise common.Machinery(f'unexpected clause {clause} for {klass}')
        ctx.violation(clause, klass, {'driver': 'c09_put', 'case': [e[k] for k in ('slot', 'child', 'tlay', 'clay', 'form',
                                                                                   'api')],
                                      'src': e['src'], 'code': e['code'], 'post': e['post'], 'exc': e['exc']},
                      detail=json.dumps({'post': e['post'], 'exc': e['exc']}))
    if res['sample']:
        ctx.sample(res['sample'])


def run(ctx):
    ctx.rule = ('M: PrecMC.tla (derivation over python.gram productions == level arithmetic, every slot x child kind; '
                'ladder laws). G1: every table row rendered bare / parenthesised / multi-line and parsed by ast.parse, '
                'Gram.* clauses (spec <-> CPython). G2: real replace / put / attribute assignment on every valid row x '
                'target layout {bare, parenthesised, needed-parenthesised, backslash, enclosed multi-line, enclosed with '
                'comments} x child layout {one line, parenthesised, multi-line, multi-line with comment} x form {source, '
                'AST, FST} x entry point; thorough = full product, quick = plain layout for every row and form plus a '
                'seeded sample of 5 other layout combinations per row. Strict slots (literal patterns, annotation '
                'targets): the kinds the grammar does not admit are executed too and must be refused with the source '
                'unchanged (RefusedCleanly). '
                'distinct = distinct (slot, child kind, target layout, child layout, form, entry point) executed')
    ctx.assumptions += ['projection harness/proj.py (hash-consed ast.parse results) and tokenize facts are trusted',
                        'covered since the follow-up: FormattedValue.value in f-strings of every quoting (plain, conversion, '
                        'format spec, debug `{x = }` with its dependent text Constant, nested format-spec fields, operands '
                        'ending at depth 0 of a field), MatchValue.value / MatchMapping.keys (literal-pattern grammar, every '
                        'other kind must be refused cleanly: RefusedCleanly), AnnAssign.target (dependent `simple`) and the '
                        't_primary of an annotated target',
                        'not covered: t-strings / Interpolation (3.14), a debug field nested in a format spec (CPython 3.12.1 '
                        'itself raises ValueError on f"{x:{y=}}"), literal text of f-strings, conversion / format-spec '
                        'Constants as operands, more than one representative text per child kind',
                        'named deviations (spec, bound to stdlib facts by Gram.* clauses): CompilerRefuses (lone starred, '
                        'f-string as literal pattern), PegCommitsToParenthesisedTarget (`(t)[i]: int`), '
                        'RefuseArglikeSource, RefuseParenthesisedPatternExpr, Unrepresentable, format-spec `{{` quirk']
    rows, join_model = _table(ctx)
    ctx.exhaustive = True
    gram = cf.ThreadPoolExecutor(max_workers=1).submit(_gram, ctx, rows)
    ctx.extra['table_rows'] = len(rows)
    ctx.extra['valid_rows'] = sum(1 for r in rows if r['valid'])
    ctx.extra['rows_needing_pars'] = sum(1 for r in rows if r['needs'])
    cases = _cases(ctx, rows)
    _run_puts(ctx, cases)
    gram.result()
    join_model()
    ctx.require_clauses(list(GRAM[:3]) + ['Gram.ml', 'Gram.blank', 'Gram.compile', 'Carried', 'RefusedCleanly', 'Regroup.parse', 'Regroup.at', 'Regroup.rest',
                                          'ParsWhenNeeded', 'NeededParsKept'])


def replay(ctx, path):
    from harness import c09_drv as drv
    from harness.proj import Tables
    with open(path) as f:
        rp = json.load(f)
    slot, child, tlay, clay, form, api = rp['case']
    rows, join_model = _table(ctx)
    join_model()
    cls = next(r['cls'] for r in rows if r['slot'] == slot)
    res = _shard((1, [(slot, cls, child, tlay, clay, form, api)]))
    for clause, klass, e in res['bad'] or [(None, None, res['sample'])]:
        print('source :', repr(e['src']))
        print('code   :', repr(e['code']), f'({form}, {api})')
        print('result :', repr(e['post']), e.get('exc', ''))
        print('verdict:', clause, klass)
    _collect(ctx, res)
    return ctx.finish()


def selftest(ctx):
    """Binding demonstration: corrupt one recorded field of an accepted event; TLC must reject it naming the clause."""
    from harness import c09_drv as drv
    from harness.proj import Tables
    tab = Tables()
    base = drv.put_event(tab, 'BinOp.Mult.left', 'load', 'Add', 'bare', 'one', 'src', 'replace')    # `(a1 + a2) * rr`
    other = drv.put_event(tab, 'BinOp.Mult.left', 'load', 'Name', 'bare', 'one', 'src', 'replace')  # another post tree
    variants = [('accepted', {}, set()),
                ('postS := tree of a different edit', {'postS': other['postS']}, {'Regroup.at', 'Regroup.rest'}),
                ('postS := 0 (source does not parse)', {'postS': 0}, {'Regroup.parse'}),
                ('newS := another replacement', {'newS': other['newS']}, {'Regroup.at', 'Regroup.rest'}),
                ('outerPars := 0 (child not parenthesised)', {'outerPars': 0}, {'ParsWhenNeeded'}),
                ('ctxSub := false (a token of another operand vanished)', {'ctxSub': False}, {'NeededParsKept'}),
                ('outcome := raise', {'outcome': 'raise'}, {'Carried'})]
    refused = drv.put_event(tab, 'MatchValue.value', 'store', 'Name', 'bare', 'one', 'src', 'replace')      # `case nm:` refused
    debug = drv.put_event(tab, 'FormattedValue.value.debug', 'load', 'Add', 'bare', 'one', 'src', 'replace')  # f"{a1 + a2 = }"
    ann = drv.put_event(tab, 'AnnAssign.target', 'store', 'Attribute', 'bare', 'one', 'src', 'replace')      # simple 1 -> 0
    more = [(refused, 'refusal accepted', {}, set()),
            (refused, 'refusal: outcome := ok', {'outcome': 'ok'}, {'RefusedCleanly'}),
            (refused, 'refusal: sameText := false (source changed although it raised)', {'sameText': False},
             {'RefusedCleanly'}),
            (debug, 'debug field accepted (text Constant is a dependent)', {}, set()),
            (debug, 'debug field: slot := non-debug slot (changed text Constant not licensed)',
             {'slot': 'FormattedValue.value'}, {'Regroup.rest'}),
            (ann, 'annotation target accepted (simple is a dependent)', {}, set()),
            (ann, 'annotation target: slot := Assign.targets (changed `simple` not licensed)', {'slot': 'Assign.targets'},
             {'Regroup.rest'})]
    traces = []
    for n, (_, patch, _) in enumerate(variants):
        traces.append({'id': n + 1, 'steps': [dict({k: base[k] for k in TLC_FIELDS}, **patch)]})
    for ev, name, patch, want in more:
        variants.append((name, patch, want))
        traces.append({'id': len(traces) + 1, 'steps': [dict({k: ev[k] for k in TLC_FIELDS}, **patch)]})
    verd = ctx.validate(dict(tab.dump(), traces=traces), module='PrecTrace', heap='1500m')
    ok = True
    for n, (name, _, want) in enumerate(variants):
        got = {c for _, c, _ in verd[n + 1]['bad']}
        print(f'selftest {name}: rejected clauses {sorted(got)} expected {sorted(want)}', 'OK' if got == want else 'MISMATCH')
        ok &= got == want
    return 0 if ok else 2
