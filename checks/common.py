"""Shared check context: TLC runs, verdict collection, known findings, replay files, evidence."""

from __future__ import annotations

import json
import os
import re
import sys
import time

from harness import tlc

VERIF = os.path.dirname(os.path.dirname(os.path.abspath(__file__)))
EVID_DIR = os.path.join(VERIF, 'evidence')
REPLAY_DIR = os.path.join(VERIF, 'replays')
FINDINGS = os.path.join(VERIF, 'known_findings.json')


class Machinery(Exception):
    pass


def load_findings():
    """known_findings.json plus known_findings.d/*.json (one file per property, same format)."""
    import glob
    out = []
    for path in [FINDINGS] + sorted(glob.glob(os.path.join(VERIF, 'known_findings.d', '*.json'))):
        try:
            with open(path) as f:
                out += json.load(f).get('findings', [])
        except FileNotFoundError:
            pass
    return out


class Ctx:
    def __init__(self, prop: str, tier: str, seed: int):
        self.prop = prop
        self.tier = tier
        self.seed = seed
        self.t0 = time.time()
        self.states = 0
        self.transitions = 0
        self.traces = 0
        self.evals = 0
        self.distinct = set()
        self.samples = []
        self.models = []
        self.violations = []  # dicts
        self.known_hits = {}
        self.assumptions = []
        self.extra = {}
        self.clause_counts = {}
        self.findings = [f for f in load_findings() if f.get('property') == prop and f.get('status', 'open') == 'open']
        if os.environ.get('VERIF_IGNORE_FINDINGS'):  # triage aid only (never set by registered commands)
            self.findings = []
        self.rule = ''
        self.exhaustive = None
        os.makedirs(EVID_DIR, exist_ok=True)
        os.makedirs(REPLAY_DIR, exist_ok=True)

    @property
    def quick(self):
        return self.tier == 'quick'

    # -- (M) -----------------------------------------------------------------------------------------------------------
    def model(self, module, cfg=None, required=(), workers=16, timeout=3600, extra=None, coverage=True, heap='8g'):
        try:
            r = tlc.run_model(module, cfg, workers=workers, timeout=timeout, coverage=coverage, extra=extra, heap=heap)
        except tlc.TLCError as e:
            raise Machinery(str(e)) from e
        if r['violated']:
            # the *specification* lost a property it is supposed to have: the machinery is broken, not pfst
            raise Machinery(f'model {module}/{cfg}: {r["violated"]} violated\n' + r['out'][-2500:])
        cov = r.get('coverage') or {}
        for a in required:
            if cov.get(a, {}).get('taken', 0) == 0:
                raise Machinery(f'vacuity guard: action {a} of {module} never taken')
        self.states += r.get('distinct', 0)
        self.transitions += r.get('generated', 0)
        self.models.append({'module': module, 'cfg': cfg, 'distinct': r.get('distinct'), 'generated': r.get('generated'),
                            'depth': r.get('depth'), 'wall_s': r['wall_s'],
                            'actions': {k: v['taken'] for k, v in cov.items() if k[:1].isupper()}})
        return r

    # -- (V) -----------------------------------------------------------------------------------------------------------
    def validate(self, batch, module='PfstTrace', cfg=None, timeout=3600, heap='12g'):
        """Run trace validation; returns {trace id: verdict}. Counts states/transitions/traces."""
        try:
            verd, st = tlc.run_traces(batch, module=module, cfg=cfg, timeout=timeout, heap=heap)
        except tlc.TLCError as e:
            raise Machinery(str(e)) from e
        self.states += st.get('distinct', 0)
        self.transitions += st.get('generated', 0)
        self.traces += len(batch['traces'])
        self.models.append({'module': module, 'kind': 'trace-validation', 'traces': len(batch['traces']),
                            'distinct': st.get('distinct'), 'wall_s': st['wall_s'], 'batch_bytes': st['batch_bytes']})
        for v in verd.values():
            for c in v['seen']:
                self.clause_counts[c] = self.clause_counts.get(c, 0) + 1
        return verd

    def require_clauses(self, names):
        """Vacuity guard for trace validation: each named clause must have been evaluated in at least one trace."""
        missing = [n for n in names if not self.clause_counts.get(n)]
        if missing:
            raise Machinery(f'vacuity guard: clauses never evaluated: {missing}')

    # -- violations ----------------------------------------------------------------------------------------------------
    def known(self, clause, klass, detail=''):
        for f in self.findings:
            if f['clause'] != clause:
                continue
            if not re.fullmatch(f['class'], klass):
                continue
            if f.get('detail') and not re.search(f['detail'], detail):
                continue
            return f
        return None

    def violation(self, clause, klass, replay: dict, detail=''):
        f = self.known(clause, klass, detail)
        if f is not None:
            self.known_hits.setdefault(f['id'], [f, 0])[1] += 1
            return
        n = len(self.violations)
        path = os.path.join(REPLAY_DIR, f'{self.prop}-{self.seed}-{n}.json')
        if n < 25:
            with open(path, 'w') as fh:
                json.dump(dict({'seed': self.seed}, **dict(replay, property=self.prop, clause=clause, case_class=klass,
                                                           tier=self.tier, run_seed=self.seed)),
                          fh, indent=1, default=str)
        self.violations.append({'clause': clause, 'class': klass, 'replay': path})

    def sample(self, s):
        if len(self.samples) < 6:
            self.samples.append(s)

    # -- evidence ------------------------------------------------------------------------------------------------------
    def finish(self, level='model_checking') -> int:
        cov = {
            'states': self.states, 'transitions': self.transitions,
            'traces_validated_against_impl': self.traces,
            'evaluations': self.evals, 'distinct_nontrivial': len(self.distinct),
            'rule': self.rule, 'samples': self.samples or ['(none)'],
            'models': self.models, 'clauses_evaluated': self.clause_counts,
            'known_findings_hit': {k: v[1] for k, v in self.known_hits.items()},
        }
        if self.exhaustive is not None:
            cov['exhaustive'] = self.exhaustive
        cov.update(self.extra)
        ev = {
            'property_id': self.prop, 'tier': self.tier, 'seed': self.seed, 'level': level, 'coverage': cov,
            'assumptions': self.assumptions, 'wall_s': round(time.time() - self.t0, 2),
            'violations': len(self.violations),
        }
        if self.states < 1 or self.transitions < 1:
            raise Machinery('no TLC states explored')
        if not getattr(self, 'replaying', False):  # a --replay run covers one case: it must not replace the evidence of a full run
            with open(os.path.join(EVID_DIR, f'{self.prop}.json'), 'w') as f:
                json.dump(ev, f, indent=1, default=str)
        for fid, (f, n) in sorted(self.known_hits.items()):
            print(f'KNOWN-FINDING: property={self.prop} {fid}: {f["what"]} ({n} occurrence(s) this run)')
        seen = set()
        for v in self.violations:
            key = (v['clause'], v['class'])
            if key in seen and len(seen) > 0:
                continue
            seen.add(key)
            print(f'VIOLATION property={self.prop} replay={v["replay"]} clause={v["clause"]} class={v["class"]}')
        print(f'{self.prop} {self.tier}: {self.evals} evaluations, {self.traces} traces validated, '
              f'{self.states} states, {len(self.violations)} violation(s), {ev["wall_s"]} s')
        return 1 if self.violations else 0
