"""C10 - raw source edits are equivalent to re-parsing the whole file, or change nothing.

M  RawMC.tla      : Raw.tla (put_src(reparse) / raw node put / put_src(None) / reparse()) instantiated with the
                    flat-Python oracle of RawToy.tla, exhaustively: Sync, RootStable, StepLaw (every step satisfies the
                    clause conjunction of RawLaws), and the text operators against a character-wise reference.
G  RawGen.tla     : TLC emits the complete case table of the flat-Python instance with the spec's expectation; every
                    row is executed on pfst; the spec's oracle is cross-checked against ast.parse row by row.
   RawInlGen.tla  : TLC enumerates inline statement positions x rewrites of the simple statement into a compound one.
   RawHdrGen.tla  : TLC enumerates raw edits confined to block headers (every block kind with its elif/else/except/
                    finally tails, keyword changed to every other block keyword, several offsets) and builds the texts.
V  RawTrace.tla   : every recorded call (table rows and random raw-edit histories over the corpus) is validated by TLC:
                    clauses TextIsSplice, TreeIsFullParse.struct/.pos, AcceptIffValid.acceptedInvalid/.refusedValid,
                    AtomicOnRaise, RootIdentity; the edit class of every event is computed by the spec.
"""

from __future__ import annotations

import ast
import concurrent.futures as cf
import json
import multiprocessing as mp
import os
import random
import re
import threading
import time

from checks import common
from harness import tlc

CLAUSES = ['TextIsSplice', 'TreeIsFullParse.struct', 'TreeIsFullParse.pos', 'AcceptIffValid.acceptedInvalid',
           'AcceptIffValid.refusedValid', 'AtomicOnRaise', 'RootIdentity']


# ----------------------------------------------------------------------------------------------------------------------
# workers (fresh processes)

def _hist_shard(args):
    shard_id, specs = args
    from harness import c10_raw as R, layouts
    from corpus.programs import PROGRAMS
    rec = R.RawRecorder()
    traces, scripts = [], {}
    for tid, seed, prog, variant, nsteps, profile, mode in specs:
        if mode == 'exec' and variant < 0:
            src = R.INLINE_PROGRAMS[prog % len(R.INLINE_PROGRAMS)]  # as written: the layout is the point
        elif mode == 'exec':
            progs = PROGRAMS + R.EXTRA_PROGRAMS
            src = layouts.variant(progs[prog % len(progs)], variant, seed)
        else:
            src = R.MODE_SOURCES[mode][prog % len(R.MODE_SOURCES[mode])]
        tr = R.run_history(rec, tid, seed, src, nsteps, profile, mode)
        scripts[tid] = {'driver': 'history', 'prog': prog, 'variant': variant, 'seed': seed, 'nsteps': nsteps,
                        'profile': profile, 'mode': mode, 'src': src, 'script': tr.pop('script')}
        traces.append(tr)
    return dict(rec.dump(), traces=traces), scripts


def _table_shard(args):
    shard_id, rows, base = args
    from harness import c10_raw as R
    rec = R.RawRecorder()
    traces, scripts, mism = [], {}, []
    for k, row in enumerate(rows):
        tid = base + k + 1
        tr, sc, bad = R.run_table_row(rec, tid, row)
        if bad:
            mism.append(bad)
        traces.append(tr)
        scripts[tid] = sc
    return dict(rec.dump(), traces=traces), scripts, mism


def _hdr_shard(args):
    shard_id, rows, base = args
    from harness import c10_raw as R
    rec = R.RawRecorder()
    traces, scripts, mism = [], {}, []
    for k, row in enumerate(rows):
        tid = base + k + 1
        tr, sc, bad = R.run_hdr_row(rec, tid, row)
        if bad:
            mism.append(bad)
        traces.append(tr)
        scripts[tid] = sc
    return dict(rec.dump(), traces=traces), scripts, mism


def _inl_shard(args):
    shard_id, rows, base = args
    from harness import c10_raw as R
    rec = R.RawRecorder()
    traces, scripts, mism = [], {}, []
    for k, row in enumerate(rows):
        tid = base + k + 1
        tr, sc, bad = R.run_inl_row(rec, tid, row)
        if bad:
            mism.append(bad)
        traces.append(tr)
        scripts[tid] = sc
    return dict(rec.dump(), traces=traces), scripts, mism


def _pool_map(fn, shards):
    if len(shards) == 1:
        return [fn(shards[0])]
    with mp.get_context('fork').Pool(min(12, len(shards))) as pool:
        return pool.map(fn, shards)


# ----------------------------------------------------------------------------------------------------------------------
# validation

def validate(ctx, batch):
    """TLC trace validation with RawTrace; like ctx.validate, but `seen` also carries '@outcome/class' of every event."""
    try:
        verd, st = tlc.run_traces(batch, module='RawTrace', cfg='RawTrace', timeout=3000, heap='2g')
    except tlc.TLCError as e:
        raise common.Machinery(str(e)) from e
    with _LOCK:
        ctx.states += st.get('distinct', 0)
        ctx.transitions += st.get('generated', 0)
        ctx.traces += len(batch['traces'])
        ctx.models.append({'module': 'RawTrace', 'kind': 'trace-validation', 'traces': len(batch['traces']),
                           'distinct': st.get('distinct'), 'wall_s': st['wall_s'], 'batch_bytes': st['batch_bytes']})
        for v in verd.values():
            cl = [c for c in v['seen'] if not c.startswith('@')]
            v['classes'] = [c[1:] for c in v['seen'] if c.startswith('@')]
            v['seen'] = cl
            for c in cl:
                ctx.clause_counts[c] = ctx.clause_counts.get(c, 0) + 1
    return verd


_LOCK = threading.Lock()


def validate_all(ctx, results):
    out = []

    def one(r):
        return r[0], r[1], validate(ctx, r[0])

    with cf.ThreadPoolExecutor(max_workers=min(6, max(1, len(results)))) as ex:
        for r in ex.map(one, results):
            out.append(r)
    return out


def short_class(k: str) -> str:
    return k


def collect(ctx, validated, stats):
    for batch, scripts, verd in validated:
        by_id = {t['id']: t for t in batch['traces']}
        for tid, v in verd.items():
            tr = by_id[tid]
            sc = scripts[tid]
            first = set()
            for step, clause, klass in sorted(v['bad']):
                if clause.startswith('Machinery.'):
                    raise common.Machinery(f'{clause} failed in trace {tid} step {step}: harness oracle row is not the '
                                           f'row of the text the spec computed ({klass})')
                if clause in first:
                    continue
                first.add(clause)
                ev = tr['steps'][step - 1]
                stats['bad'][(clause, klass)] = stats['bad'].get((clause, klass), 0) + 1
                rp = dict(sc)
                rp['script'] = sc['script'][:step]
                rp['failing_step'] = step
                rp['event'] = {k: ev[k] for k in ev if k != 'post'}
                ctx.violation(clause, klass, rp,
                              detail=json.dumps(dict({k: ev[k] for k in ('call', 'gen', 'exc', 'msg') if k in ev},
                                                      rootKindAfter=ev['post']['rootKind'],
                                                      via=bool(sc['script'][step - 1]['plan'].get('via')))))
            for c in v['classes']:
                outcome, _, k = c.partition('/')
                ctx.distinct.add((outcome, k))
                stats['classes'][k] = stats['classes'].get(k, 0) + 1
            for ev in tr['steps']:
                ctx.evals += 1
                key = (ev['call'], ev['outcome'], bool(ev['valid']))
                stats['outcomes'][key] = stats['outcomes'].get(key, 0) + 1
                stats['gen'][ev['gen'].split('/')[0]] = stats['gen'].get(ev['gen'].split('/')[0], 0) + 1
        for tid in list(scripts)[:1]:
            sc = scripts[tid]
            if sc['script']:
                s0 = sc['script'][0]
                ctx.sample({'driver': sc['driver'], 'pre_src': s0['pre_src'][:160], 'plan': s0['plan'],
                            'exc': s0['exc'], 'post_src': s0['post_src'][:160]})


# ----------------------------------------------------------------------------------------------------------------------

def history_specs(ctx, n, nsteps, profile, base, mode='exec'):
    from corpus.programs import PROGRAMS
    from harness import layouts, c10_raw
    rng = random.Random(ctx.seed * 1000003 + 101 + base)
    nprog = len(PROGRAMS) + len(c10_raw.EXTRA_PROGRAMS)
    specs = []
    for i in range(n):
        prog = i % nprog
        variant = (i // nprog) % layouts.N_VARIANTS
        specs.append((base + i + 1, rng.randrange(1 << 30), prog, variant, nsteps, profile, mode))
    return specs


def shard(specs, n):
    n = max(1, min(n, len(specs) // 10 or 1))
    return [(k, specs[k::n]) for k in range(n)]


def gen_table(ctx, cfg, module='RawGen'):
    out = os.path.join(tlc.scratch(), f'rawgen-{cfg}.json')
    try:
        r = tlc.run_model(module, cfg, workers=1, coverage=False, timeout=1500, env={'OUT_FILE': out}, heap='2g')
    except tlc.TLCError as e:
        raise common.Machinery(str(e)) from e
    if r['violated']:
        raise common.Machinery(module + ': ' + str(r['violated']))
    with open(out) as f:
        rows = json.load(f)['rows']
    with _LOCK:
        ctx.models.append({'module': module, 'cfg': cfg, 'kind': 'case-table', 'rows': len(rows), 'wall_s': r['wall_s']})
    return rows


def run(ctx):
    ctx.rule = ('M: RawMC.tla exhaustive (flat-Python oracle; all valid texts with flat length <= MaxFlat, all rectangles '
                '+ clipping quadruples, all replacements of flat length <= MaxRepl, unbounded call sequences). '
                'G: RawGen.tla case table (text x rectangle x replacement with the spec-computed expectation) executed '
                'row by row on pfst, spec oracle cross-checked with ast.parse; RawHdrGen.tla table of header-confined '
                'edits (block kind x tail blocks x depth x target header x offsets in the header x keyword / header '
                'replacement), rows the block grammar predicts invalid cross-checked with ast.parse; RawInlGen.tla '
                'table of inline statement positions (one-line block bodies and clauses, ;-joined, backslash-continued, '
                'nested) x target kind x rectangle x simple->compound / control rewrites, likewise. '
                'V: histories of consecutive raw edits (put_src(reparse) via any node, raw node replace with/without '
                '`to`/`pars`, put_src(None)+reparse(), reparse() of nodes) on corpus programs x layout variants, on a '
                'family of inline statements after multi-byte text that hold multi-line nodes, and on '
                'Expression roots; every event validated by TLC (RawTrace). '
                'distinct = distinct (outcome, edit class) pairs, the class being computed by the spec from logged facts')
    ctx.assumptions += ['projection (harness/proj.py), ast.parse in the mode of the root kind and tokenize are trusted',
                        'f-string internals are never targeted by raw node puts (put_src rectangles may hit them)',
                        'the law is judged on calls made while source and tree are in step (InDomain), plus reparse(); '
                        'a history stops at the first step that leaves them out of step',
                        'raw node puts: the requested rectangle is the node span reported by CPython, used with '
                        'pars=False or when no parenthesis token is adjacent to the span',
                        'timings assume an otherwise idle 16-core machine']
    stats = {'bad': {}, 'classes': {}, 'outcomes': {}, 'gen': {}}
    ctx._c10_stats = stats

    # M in the background while the drivers run
    merr = []

    def model():
        try:
            # no -coverage (it slows this recursion-heavy model down by an order of magnitude): the vacuity guard is
            # the model's own POSTCONDITION AllKindsTaken (every call kind x outcome counted > 0), one worker
            r = ctx.model('RawMC', 'RawMC' if ctx.quick else 'RawMC_thorough', workers=1, coverage=False, timeout=2400, heap='2g')
            m = re.search(r'<<"CALLS", <<([\d, ]+)>>>>', r['out'])
            if not m:
                raise common.Machinery('RawMC: POSTCONDITION AllKindsTaken did not report')
            ctx.extra['model_calls'] = dict(zip(['put_src/ok', 'put_src/raise', 'raw_put/ok', 'raw_put/raise',
                                                 'reparse/ok', 'reparse/raise', 'put_none', 'clip_error'],
                                                [int(x) for x in m.group(1).split(',')]))
        except Exception as e:  # noqa: BLE001
            merr.append(e)

    mt = threading.Thread(target=model)
    mt.start()

    t0 = time.time()
    phase = {}

    # G (second table, generated concurrently): header-confined edits enumerated by RawHdrGen.tla
    hdr = {}

    def hdr_gen():
        try:
            hdr['rows'] = gen_table(ctx, 'RawHdrGen' if ctx.quick else 'RawHdrGen_thorough', module='RawHdrGen')
        except Exception as e:  # noqa: BLE001
            hdr['err'] = e

    ht = threading.Thread(target=hdr_gen)
    ht.start()

    # G (third table): inline statement positions x simple->compound rewrites, RawInlGen.tla; the quick tier takes
    # the third of the rows selected by the seed (the spec's own deterministic sample), thorough all of them
    inl = {}

    def inl_gen():
        try:
            inl['rows'] = gen_table(ctx, f'RawInlGen_q{ctx.seed % 3}' if ctx.quick else 'RawInlGen_thorough',
                                    module='RawInlGen')
        except Exception as e:  # noqa: BLE001
            inl['err'] = e

    it = threading.Thread(target=inl_gen)
    it.start()

    # G
    rows = gen_table(ctx, 'RawGen' if ctx.quick else 'RawGen_thorough')
    ctx.exhaustive = True
    per = max(1500, -(-len(rows) // 6))
    shards = [(k, rows[i:i + per], 10_000_000 + i) for k, i in enumerate(range(0, len(rows), per))]
    gres = _pool_map(_table_shard, shards)
    phase['table_gen+exec_s'] = round(time.time() - t0, 1)
    mism = [m for r in gres for m in r[2]]
    if mism:
        raise common.Machinery(f'flat-Python oracle of RawToy.tla disagrees with ast.parse on {len(mism)} rows, e.g. '
                               f'{mism[0]}')
    # merge table shards into fewer batches for TLC
    results = [(r[0], r[1]) for r in gres]

    ht.join()
    if 'err' in hdr:
        raise hdr['err']
    hrows = hdr['rows']
    per = max(1500, -(-len(hrows) // 6))
    hres = _pool_map(_hdr_shard, [(k, hrows[i:i + per], 20_000_000 + i) for k, i in enumerate(range(0, len(hrows), per))])
    hm = [m for r in hres for m in r[2]]
    if hm:
        raise common.Machinery(f'RawHdrGen.tla: {len(hm)} rows contradict CPython (program invalid, or a row predicted '
                               f'invalid by the block grammar parses), e.g. {hm[0]}')
    results += [(r[0], r[1]) for r in hres]
    it.join()
    if 'err' in inl:
        raise inl['err']
    irows = inl['rows']
    per = max(1500, -(-len(irows) // 5))
    ires = _pool_map(_inl_shard, [(k, irows[i:i + per], 30_000_000 + i) for k, i in enumerate(range(0, len(irows), per))])
    im = [m for r in ires for m in r[2]]
    if im:
        raise common.Machinery(f'RawInlGen.tla: {len(im)} rows contradict CPython (program invalid, or a row predicted '
                               f'invalid parses), e.g. {im[0]}')
    results += [(r[0], r[1]) for r in ires]
    ctx.extra['inline_table_rows'] = len(irows)
    ctx.extra['inline_rows_predicted_invalid'] = sum(1 for r in irows if r[3])
    ctx.extra['header_table_rows'] = len(hrows)
    ctx.extra['header_rows_predicted_invalid'] = sum(1 for r in hrows if r[3])
    phase['tables_done_s'] = round(time.time() - t0, 1)

    # V
    if ctx.quick:
        plan = [(400, 5, 'clean', 0), (560, 5, 'wild', 100_000)]
        other = 40
    else:
        plan = [(2500, 16, 'clean', 0), (6000, 20, 'wild', 100_000)]
        other = 400
    for n, steps, profile, base in plan:
        specs = history_specs(ctx, n, steps, profile, base)
        results += _pool_map(_hist_shard, shard(specs, 6 if ctx.quick else 12))
    # inline statements after multi-byte text with multi-line nodes (first-line column correction of fst_raw)
    n_inl, st_inl = (84, 5) if ctx.quick else (700, 12)
    specs = [(sp[0], sp[1], sp[2], -1, sp[4], sp[5], sp[6]) for sp in history_specs(ctx, n_inl, st_inl, 'inline', 300_000)]
    results += _pool_map(_hist_shard, shard(specs, 2 if ctx.quick else 6))
    for k, mode in enumerate(('eval',)):
        specs = history_specs(ctx, other, 5 if ctx.quick else 12, 'wild', 200_000 + k * 50_000, mode)
        results += _pool_map(_hist_shard, shard(specs, 1 if ctx.quick else 3))

    phase['drivers_done_s'] = round(time.time() - t0, 1)
    validated = validate_all(ctx, results)
    phase['validated_s'] = round(time.time() - t0, 1)
    collect(ctx, validated, stats)
    mt.join()
    phase['model_joined_s'] = round(time.time() - t0, 1)
    ctx.extra['phases'] = phase
    if merr:
        raise merr[0]
    ctx.require_clauses(CLAUSES)
    ctx.extra['table_rows'] = len(rows)
    ctx.extra['outcomes'] = {f'{c}/{o}/{"valid" if v else "invalid"}': n for (c, o, v), n in sorted(stats['outcomes'].items())}
    ctx.extra['generators'] = stats['gen']
    ctx.extra['failing_pairs'] = {f'{c} | {k}': n for (c, k), n in sorted(stats['bad'].items())}


def replay(ctx, path):
    from harness import c10_raw as R
    with open(path) as f:
        rp = json.load(f)
    rec = R.RawRecorder()
    plans = [s['plan'] for s in rp['script']]
    tr = R.run_history(rec, 1, rp.get('seed', 0), rp['src'], len(plans), rp.get('profile', 'wild'), rp.get('mode', 'exec'),
                       script_in=plans)
    script = tr.pop('script')
    batch = dict(rec.dump(), traces=[tr])
    verd = validate(ctx, batch)
    stats = {'bad': {}, 'classes': {}, 'outcomes': {}, 'gen': {}}
    sc = dict(rp, script=script)
    collect(ctx, [(batch, {1: sc}, verd)], stats)
    for s in script:
        print('---', json.dumps(s['plan'], default=str))
        print(s['pre_src'])
        print('=>', s['exc'] or 'ok')
        print(s['post_src'])
    print('verdict', sorted(verd[1]['bad']))
    ctx.states = max(ctx.states, 1)
    ctx.transitions = max(ctx.transitions, 1)
    return ctx.finish()


def selftest(ctx):
    """Binding demonstration: corrupt one recorded field of an accepted trace; TLC must reject it and name the clause."""
    import copy
    specs = history_specs(ctx, 40, 5, 'clean', 0)
    batch, scripts = _hist_shard((0, specs))
    verd = validate(ctx, batch)
    ok_tr = raise_tr = None
    for tr in batch['traces']:
        if verd[tr['id']]['bad']:
            continue
        for k, ev in enumerate(tr['steps']):
            if ev['call'] == 'put_src' and ev['outcome'] == 'ok' and ev['valid'] and ev['post']['text'] != \
                    (tr['init'] if k == 0 else tr['steps'][k - 1]['post'])['text'] and ok_tr is None:
                ok_tr = (tr, k)
            if ev['call'] == 'put_src' and ev['outcome'] == 'raise' and not ev['valid'] and raise_tr is None:
                raise_tr = (tr, k)
    if not ok_tr or not raise_tr:
        raise common.Machinery('selftest: no accepted trace with an ok and a raise step')

    def pre(tr, k):
        return tr['init'] if k == 0 else tr['steps'][k - 1]['post']

    cases = []
    tr, k = ok_tr
    p = pre(tr, k)
    for name, field, value, clause in [
            ('stale positions', 'liveP', p['liveP'], 'TreeIsFullParse.'),
            ('source not updated', 'text', p['text'], 'TextIsSplice'),
            ('root object replaced', 'rootObj', p['rootObj'] + 1000, 'RootIdentity')]:
        t2 = copy.deepcopy(tr)
        t2['steps'] = t2['steps'][:k + 1]
        t2['steps'][k]['post'][field] = value
        cases.append((name, t2, k + 1, clause))
    t2 = copy.deepcopy(tr)
    t2['steps'] = t2['steps'][:k + 1]
    t2['steps'][k]['valid'] = False
    cases.append(('oracle says invalid', t2, k + 1, 'AcceptIffValid.acceptedInvalid'))
    tr, k = raise_tr
    t2 = copy.deepcopy(tr)
    t2['steps'] = t2['steps'][:k + 1]
    t2['steps'][k]['post']['text'] = t2['steps'][k]['otext']
    cases.append(('source changed by a failed call', t2, k + 1, 'AtomicOnRaise'))
    t2 = copy.deepcopy(tr)
    t2['steps'] = t2['steps'][:k + 1]
    t2['steps'][k]['valid'] = True
    cases.append(('oracle says valid', t2, k + 1, 'AcceptIffValid.refusedValid'))
    for i, c in enumerate(cases):
        c[1]['id'] = 900 + i
    b2 = {k2: batch[k2] for k2 in batch if k2 != 'traces'}
    b2['traces'] = [c[1] for c in cases]
    v2 = validate(ctx, b2)
    rc = 0
    for i, (name, t2, step, clause) in enumerate(cases):
        bad = sorted(v2[900 + i]['bad'])
        hit = [b for b in bad if b[0] == step and b[1].startswith(clause)]
        print(f'selftest corruption "{name}": expected {clause}* at step {step}; TLC said '
              f'{[(s, c) for s, c, _ in bad]} -> {"rejected, right clause" if hit else "MISSED"}')
        if not hit:
            rc = 2
    return rc
