"""C11 - whitespace-only source edits in offset mode keep every node on its text.

M  spec/OffsetMC (Offset.tla over OffsetCore.tla / OffsetLaw.tla): every tree, layout and trivia splice within the constants.
G  spec/OffsetGen emits every instance that has a Python rendering; each (instance, splice) is rendered, replayed through the
   public put_src(action='offset') and judged by spec/OffsetTrace.tla (G.ModelAgree, G.OnText + the V clauses).
V  corpus programs x layout variants: token gaps x trivia-preserving replacements (do / undo on one tree, random walks),
   judged by spec/OffsetTrace.tla (OnText.*, Law.*, TextIsSplice, Accepted, SameStructure).
"""

from __future__ import annotations

import concurrent.futures as cf
import json
import multiprocessing as mp
import os
import random

from checks import common
from harness import tlc

CLAUSES = ('Accepted', 'TextIsSplice', 'OnText.struct', 'OnText.pos', 'SameStructure', 'Law.before', 'Law.after',
           'Law.contains', 'Law.shape', 'G.ModelAgree', 'G.OnText', 'Derived.loc', 'Derived.bloc', 'Derived.pars',
           'Derived.parsUnshared', 'Derived.flags', 'Derived.parsText')
ACTIONS = ('InsertSL', 'InsertML', 'DeleteSL', 'DeleteML', 'ReplaceSL', 'ReplaceML')
NPROC = 14


# ----------------------------------------------------------------------------------------------------------------------
# workers (fresh processes, fork)

CORE_REPL = ('', ' ', '\\\n ', ' # c\n', '\n', '# c\n')  # replacements used for "every gap" enumeration in the quick tier
EXPLODED = 8  # layout id: harness.c11_offset.explode (every bracketed construct in multi-line form)


def _source(prog, variant, seed):
    from corpus.programs import PROGRAMS
    from harness import c11_offset, layouts
    if prog <= -100:
        s = c11_offset.MULTILINE_SOURCES[-100 - prog]
        return c11_offset.explode(s) if variant == EXPLODED else s
    if prog < 0:
        return c11_offset.EXTRA_SOURCES[-1 - prog]
    if variant == EXPLODED:
        return c11_offset.explode(PROGRAMS[prog])
    return layouts.variant(PROGRAMS[prog], variant, seed)


def _shard_v(args):
    shard, jobs = args
    from harness import c11_offset as H
    rec = H.Rec()
    traces, scripts = [], {}
    tid = 0  # trace ids are unique within the batch (one batch per shard)
    for _, prog, variant, seed, ncand, nwalk, wsteps in jobs:
        src = _source(prog, variant, seed)
        S = H.Src(src)
        if not S.ok:
            continue
        rng = random.Random(seed)
        cands = H.all_candidates(S)
        if ncand == -1:  # every spot, core replacements
            cands = [x for x in cands if x[2] in CORE_REPL]
        elif ncand is not None:
            rng.shuffle(cands)
            # half of the draw from spots next to grouping parentheses / before comments (derived extents reach there)
            hot = H.hot_spots(S)
            hs = [x for x in cands if hot(x[0], x[1])]
            co = [x for x in cands if not hot(x[0], x[1])]
            cands = [x for pair in zip(hs, co) for x in pair] + hs[len(co):] + co[len(hs):]
            # candidates outside the domain are skipped by the driver: draw until ncand have been carried out
            picked, k = [], 0
            for c in cands:
                if k >= ncand:
                    break
                if H.prepare(S, c[0], c[1], c[2]) is not None:
                    picked.append(c)
                    k += 1
            cands = picked
        meta = {'driver': 'v', 'prog': prog, 'variant': variant, 'seed': seed}
        for tr, sc in H.run_source(rec, tid + 1, src, cands, rng):
            tid = tr['id']
            traces.append(tr)
            scripts[tr['id']] = dict(meta, mode='doundo', script=sc)
        for w in range(nwalk):
            tr, sc = H.run_walk(rec, tid + 1, src, wsteps, random.Random(seed * 7 + w))
            if tr['steps']:
                tid = tr['id']
                traces.append(tr)
                scripts[tr['id']] = dict(meta, mode='walk', script=sc)
    return dict(rec.tab.dump(), traces=traces), scripts


def _shard_g(args):
    shard, cases = args
    from harness import c11_offset as H
    rec = H.Rec()
    traces, scripts, skipped = [], {}, {}
    for tid, row, sp, salt in cases:
        tr, sc = H.model_case(rec, tid, row, sp, salt)
        if tr is None:
            skipped[sc] = skipped.get(sc, 0) + 1
            continue
        traces.append(tr)
        scripts[tid] = {'driver': 'g', 'mode': 'model', 'script': sc}
    return dict(rec.tab.dump(), traces=traces), scripts, skipped


def _pool_map(fn, shards):
    shards = [s for s in shards if s[1]]
    if not shards:
        return []
    if len(shards) == 1:
        return [fn(shards[0])]
    with mp.get_context('fork').Pool(min(NPROC, len(shards))) as pool:
        return pool.map(fn, shards)


# ----------------------------------------------------------------------------------------------------------------------

def _validate(ctx, results):
    out = []

    def one(r):
        for attempt in range(3):
            try:
                return r, ctx.validate(r[0], module='OffsetTrace', heap='3g')
            except common.Machinery as e:  # JVM killed from outside (see _model)
                if '(rc=-9)' not in str(e) or attempt == 2:
                    raise

    with cf.ThreadPoolExecutor(max_workers=min(6, max(1, len(results)))) as ex:
        for r in ex.map(one, [r for r in results if r[0]['traces']]):
            out.append(r)
    return out


def _collect(ctx, validated):
    n = 0
    for (batch, scripts, *_), verd in validated:
        by_id = {t['id']: t for t in batch['traces']}
        for tid, v in verd.items():
            tr = by_id[tid]
            first = set()
            for step, clause, klass in sorted(v['bad']):
                if clause.startswith('Domain.'):
                    sc = scripts[tid]['script'][step - 1]
                    raise common.Machinery(f'harness chose a node that does not strictly contain the spot: {sc}')
                if clause in first:
                    continue  # later steps of the same trace run on a damaged tree
                first.add(clause)
                sc = scripts[tid]
                ev = tr['steps'][step - 1]
                if clause.startswith('Derived.'):
                    klass = f"{klass}|{ev.get('dcls', '')}"  # which nodes / accessors went stale, spot vs comments
                ctx.violation(clause, klass, {
                    'driver': sc['driver'], 'mode': sc['mode'], 'prog': sc.get('prog'), 'variant': sc.get('variant'),
                    'srcseed': sc.get('seed'), 'failing_step': step,
                    'event': {k: ev[k] for k in ev if k not in ('post',)},
                    'script': sc['script'][:step],
                }, detail=json.dumps(sc['script'][step - 1], default=str))
        for tr in batch['traces']:
            if tr['init']['liveP'] != tr['init']['srcP']:
                ctx.extra['traces_not_in_sync_at_start'] = ctx.extra.get('traces_not_in_sync_at_start', 0) + 1
            for ev in tr['steps']:
                n += 1
                ctx.distinct.add(ev['cls'])
        for tr in batch['traces'][:1]:
            if tr['steps']:
                s0 = scripts[tr['id']]['script'][0]
                ctx.sample({'driver': scripts[tr['id']]['driver'], 'mode': scripts[tr['id']]['mode'],
                            'class': tr['steps'][0]['cls'], 'spot': [s0['p'], s0['q']], 'replacement': s0['r'],
                            'called_on_path': s0['path'], 'line': s0['src'].split('\n')[s0['p'][0]][:80],
                            'steps': len(tr['steps'])})
    ctx.evals += n
    return n


def _model(ctx, module, cfg, **kw):
    """ctx.model with two retries when the JVM was killed from outside (SIGKILL, e.g. the kernel's OOM killer on a crowded
    host): that is neither a verdict nor a property of the specification."""
    for attempt in range(3):
        try:
            return ctx.model(module, cfg, **kw)
        except common.Machinery as e:
            if '(rc=-9)' not in str(e) or attempt == 2:
                raise


def _gen_rows(ctx, cfg):
    """Run OffsetGen (TLC) and read the emitted instance table."""
    path = os.path.join(tlc.scratch(), f'c11-{cfg}.json')
    os.environ['C11_OUT'] = path
    try:
        _model(ctx, 'OffsetGen', cfg, workers=1, coverage=False, heap='4g')
    finally:
        os.environ.pop('C11_OUT', None)
    try:
        with open(path) as f:
            rows = json.load(f)
    except (OSError, ValueError) as e:
        raise common.Machinery(f'OffsetGen produced no table: {e}') from e
    os.unlink(path)
    if not rows:
        raise common.Machinery('OffsetGen produced an empty table')
    rows.sort(key=lambda r: json.dumps(r, sort_keys=True))
    return rows


def _g_cases(ctx, rows, limit):
    cases = [(r, sp) for r in rows for sp in r['sp']]
    total = len(cases)
    if limit is not None and total > limit:
        rng = random.Random(ctx.seed * 977 + 5)
        # deterministic spread over the table (stride) plus a seeded part
        stride = max(1, total // (limit // 2))
        idx = set(range(ctx.seed % stride, total, stride))
        idx |= set(rng.sample(range(total), limit - min(limit, len(idx)))) if len(idx) < limit else set()
        cases = [cases[i] for i in sorted(idx)]
    return [(i + 1, r, sp, (i * 7 + ctx.seed) % 12) for i, (r, sp) in enumerate(cases)], total


FULL_VARIANTS = (0, 1, 3, 6)  # as written, comments, backslash continuations, non-ASCII: every gap in the thorough tier


def _v_jobs(ctx, nsrc_variants, ncand, nwalk, wsteps):
    from corpus.programs import PROGRAMS
    from harness import layouts
    rng = random.Random(ctx.seed * 1000003 + 11)
    jobs = []
    k = 0
    for prog in range(len(PROGRAMS)):
        for variant in range(layouts.N_VARIANTS)[:nsrc_variants]:
            k += 1
            nc = ncand if (ncand is not None or variant in FULL_VARIANTS) else 200
            jobs.append((k * 1000, prog, variant, rng.randrange(1 << 30), nc, nwalk, wsteps))
    from harness import c11_offset
    for e in range(len(c11_offset.EXTRA_SOURCES)):  # 200 splices (+ undo) each in quick, every gap in thorough
        k += 1
        jobs.append((k * 1000, -1 - e, 0, rng.randrange(1 << 30), 200 if ctx.quick else None, 1, 10))
    # the constructs the offset walk special-cases, in multi-line form: EVERY gap in every tier (core replacements in quick)
    for e in range(len(c11_offset.MULTILINE_SOURCES)):
        k += 1
        jobs.append((k * 1000, -100 - e, 0, rng.randrange(1 << 30), -1 if ctx.quick else None, 1, 10))
        k += 1
        jobs.append((k * 1000, -100 - e, EXPLODED, rng.randrange(1 << 30), 100 if ctx.quick else None, 0, 0))
    # the exploded layout of every corpus program
    for prog in range(len(PROGRAMS)):
        k += 1
        jobs.append((k * 1000, prog, EXPLODED, rng.randrange(1 << 30), 6 if ctx.quick else 200, 0, 0))
    rng.shuffle(jobs)
    return jobs


def run(ctx):
    ctx.rule = ('M: OffsetMC (all trees <= MaxNodes nodes x kinds {tok,brk,pre,post,bare,zero-width} x layouts on a 2x8 grid '
                'x every [p,q) inside every gap x replacements): OnText, LawBefore/After/Contains, ChangedVisited. '
                'G: every OffsetGen instance with a Python rendering (sampled in quick) replayed through put_src(offset). '
                'V: token gaps (A between stream tokens, B across comments/newlines, C whole lines between statements) of '
                '40 corpus programs x 8 layouts (+ exploded multi-line layout) + edge sources (every gap of the multi-line forms of '
                'decorators / position-less nodes / interleaved fields) x replacements, do/undo and random walks. '
                'Before each edit the derived accessors are read on none / all / ancestors / children of the node called on; after it '
                'loc, bloc, pars(), pars(shared=False), delimiter flags of every node are compared with a freshly built tree. '
                'distinct = distinct (kind of the node called on, gap type, insert/delete/replace, single/multi-line, warm mode)')
    ctx.assumptions += [
        'projection (harness/proj.py), tokenize-based domain filter (same non-trivia token sequence) and str splice are trusted',
        'zero-width nodes exist only in the model (no from-scratch parse yields one): named deviation ZeroWidthAtOffsetPoint',
        'f-string literal text is never edited (it would change the token sequence); gaps inside replacement fields are; decorators are not modelled in Offset.tla (covered by V only)',
    ]
    # ---- M
    phases = os.environ.get('C11_PHASES', 'MGV')  # development switch (mutant screening on a crowded host); default = all
    if 'M' not in phases:
        ctx.assumptions.append('M phase skipped by C11_PHASES')
    elif ctx.quick:
        _model(ctx, 'OffsetMC', 'OffsetMC', required=ACTIONS, heap='6g')
        _model(ctx, 'OffsetMC', 'OffsetMC_cache', required=ACTIONS, heap='6g')
    else:
        _model(ctx, 'OffsetMC', 'OffsetMC_thorough', required=ACTIONS, timeout=2400, heap='6g')
        _model(ctx, 'OffsetMC', 'OffsetMC_n5', required=ACTIONS, timeout=3000, heap='6g')
        _model(ctx, 'OffsetMC', 'OffsetMC_cache_thorough', required=ACTIONS, timeout=2400, heap='6g')
    # ---- G
    gres, vres = [], []
    if 'G' in phases:
        rows = _gen_rows(ctx, 'OffsetGen' if ctx.quick else 'OffsetGen_thorough')
        cases, total = _g_cases(ctx, rows, 5000 if ctx.quick else 60000)
        ctx.extra['g_cases_in_table'] = total
        ctx.extra['g_cases_replayed'] = len(cases)
        nsh = NPROC if len(cases) > 200 else 1
        gres = _pool_map(_shard_g, [(k, cases[k::nsh]) for k in range(nsh)])
        skipped = {}
        for _, _, sk in gres:
            for k, v in sk.items():
                skipped[k] = skipped.get(k, 0) + v
        ctx.extra['g_skipped_not_renderable'] = skipped
    # ---- V
    if 'V' in phases:
        if ctx.quick:
            jobs = _v_jobs(ctx, 8, 14, 1, 8)
        else:
            jobs = _v_jobs(ctx, 8, None, 2, 25)
        per = max(1, len(jobs) // (NPROC * (1 if ctx.quick else 6)))
        vres = _pool_map(_shard_v, [(k, jobs[i:i + per]) for k, i in enumerate(range(0, len(jobs), per))])
    validated = _validate(ctx, gres + vres)
    n = _collect(ctx, validated)
    ctx.extra['events'] = n
    ctx.exhaustive = False
    if phases == 'MGV':
        ctx.require_clauses(list(CLAUSES))


def replay(ctx, path):
    from harness import c11_offset as H
    with open(path) as f:
        rp = json.load(f)
    rec = H.Rec()
    sc = rp['script']
    if rp['driver'] == 'g':
        s = sc[0]
        tr, script = H.model_case(rec, 1, dict(s['row'], sp=[s['sp']]), s['sp'], s['salt'])
        if tr is None:
            raise common.Machinery(f'replay: case no longer renderable ({script})')
        res = [(dict(rec.tab.dump(), traces=[tr]), {1: {'driver': 'g', 'mode': 'model', 'script': script}})]
    else:
        # re-execute the recorded splices in order on fresh trees (a new tree whenever the recorded source restarts)
        traces, scripts = [], {}
        root, tr, cur = None, None, None
        for s in sc:
            if root is None or cur != s['src']:
                root = H.fresh(s['src'])
                init, _ = rec.state(root)
                tr = {'id': len(traces) + 1, 'init': init, 'steps': []}
                traces.append(tr)
                scripts[tr['id']] = {'driver': 'v', 'mode': rp.get('mode'), 'prog': rp.get('prog'),
                                     'variant': rp.get('variant'), 'seed': rp.get('srcseed'), 'script': []}
            S = H.Src(s['src'])
            p, q = tuple(s['p']), tuple(s['q'])
            fact = H.prepare(S, p, q, s['r'])
            if fact is None:
                raise common.Machinery('replay: recorded splice is no longer in the domain')
            ev, post = H.do_splice(rec, root, S, p, q, s['r'], s['typ'], fact, warm=s.get('warm', 'all'))
            tr['steps'].append(ev)
            scripts[tr['id']]['script'].append(H._script(S, p, q, s['r'], s['typ'], fact, ev, post))
            cur = post
            print('---', s['typ'], p, q, repr(s['r']), 'on', fact['path'], '->', ev['outcome'], ev['exc'])
            print(post)
        res = [(dict(rec.tab.dump(), traces=traces), scripts)]
    validated = _validate(ctx, res)
    for _, verd in validated:
        for tid, v in verd.items():
            print('verdict', tid, sorted(v['bad']))
    _collect(ctx, validated)
    return ctx.finish()


def selftest(ctx):
    """Binding demonstration: an accepted batch is corrupted in one recorded field at a time; TLC must reject exactly the
    corrupted trace and name the clauses that depend on that field."""
    import copy
    from harness import c11_offset as H
    rec = H.Rec()
    src = H.EXTRA_SOURCES[1]
    S = H.Src(src)
    cands = [c for c in H.all_candidates(S) if c[0] != c[1] or c[2] == ' '][:12]
    traces = [t for t, _ in H.run_source(rec, 1, src, cands, random.Random(1))]
    rows = _gen_rows(ctx, 'OffsetGen')
    row = next(r for r in rows if r['n'] == 3 and r['kind'][0] == 'brk' and len(r['gaps']) >= 3)
    g, _ = H.model_case(rec, 900, row, row['sp'][3], 1)
    traces.append(g)
    base = dict(rec.tab.dump(), traces=traces)
    ok = ctx.validate(base, module='OffsetTrace', heap='3g')
    if any(v['bad'] for v in ok.values()):
        raise common.Machinery(f'selftest: pristine batch rejected: {ok}')

    def first_moving(tr):
        for i, ev in enumerate(tr['steps']):
            pre = tr['init'] if i == 0 else tr['steps'][i - 1]['post']
            if ev['post']['liveP'] != pre['liveP']:
                return i, pre
        raise common.Machinery('selftest: no step moves a node')

    expect = {
        'post.liveP := pre.liveP': {'OnText.pos'},
        'nl += 1': {'Law.after'},
        'expText := pre.text': {'TextIsSplice'},
        'm.obs[1].end_col += 1': {'G.ModelAgree', 'G.OnText'},
        'post.d.live.pars += 1': {'Derived.pars'},
    }
    rc = 0
    for what, must in expect.items():
        b = copy.deepcopy(base)
        if what.startswith('m.obs'):
            tr = b['traces'][-1]
            tr['steps'][0]['m']['obs'][0][3] += 1
            tid, step = tr['id'], 1
        else:
            tr = b['traces'][0]
            i, pre = first_moving(tr)
            ev = tr['steps'][i]
            if what.startswith('post.d.live'):
                ev['post']['d']['live']['pars'] += 1
            elif what.startswith('post.liveP'):
                ev['post']['liveP'] = pre['liveP']
            elif what.startswith('nl'):
                ev['nl'] += 1
            else:
                ev['expText'] = pre['text']
            tid, step = tr['id'], i + 1
        verd = ctx.validate(b, module='OffsetTrace', heap='3g')
        got = {c for s, c, _ in verd[tid]['bad'] if s == step}
        others = [t for t, v in verd.items() if v['bad'] and t != tid]
        good = must <= got and not others
        print(f'selftest corrupt [{what}] -> trace {tid} step {step} rejected with {sorted(got)}; '
              f'other traces rejected: {others}  {"OK" if good else "NOT DETECTED"}')
        rc |= 0 if good else 1
    return rc
