"""C07 - copying never disturbs the tree; extraction is faithful and loses nothing."""

import threading

from checks import c07_shared as sh
from checks import common


def run(ctx):
    ctx.rule = ('M: ExtractMC.tla (conservation / window laws accept the reference extraction and reject three defective '
                'ones, copy undisturbed, cut = copy + delete, cut + put-back = identity, all containers <= MaxLen x 4 '
                'shapes x all slices x all comment placements; embedding table total and emitted to the harness). '
                'V: every node and every slice (start, stop) of every list-like field (real and virtual) of 40 corpus '
                'programs x 8 layout variants x option sets over trivia / pars / norm* / docstr / pars_walrus / '
                'pars_arglike, through copy / get / get_slice / get(i, j) / view entry points; each Copy/Get/GetSlice and '
                'each Cut (cut, copy, delete on three clones) event validated by TLC against ExtractTrace.tla. '
                'distinct = distinct (event, entry point, container kind, field, slice?, option set, outcome) tuples')
    ctx.assumptions += ['projection (harness/proj.py), embedding parse + position shift (harness/c07_embed.py) and '
                        'tokenize-based token multisets / comment windows (harness/c07_extract.py) are trusted',
                        'inside f-strings (py3.12 positions): every expression of a replacement field and everything below it, nested '
                        'f-strings and fields in format specs included, is extracted like any other node; the FormattedValue '
                        'wrappers, literal text parts and format-spec JoinedStr are context only (their text does not stand alone); '
                        'expr_context nodes excluded; args_as conversions excluded',
                        'pars=False: only Undisturbed / Faithful / Cut clauses (documented as able to produce invalid trees)']
    err = []

    def model():
        try:
            sh.model_and_table(ctx, 'ExtractMC' if ctx.quick else 'ExtractMC_thorough')
        except BaseException as e:  # noqa: BLE001
            err.append(e)

    th = threading.Thread(target=model)
    conf = {'cases': 10, 'max_per_field': 15} if ctx.quick else {'cases': 10 ** 6, 'max_per_field': 15}
    specs = sh.trace_specs(ctx, 'c07', 1)
    res = sh.generate(specs, conf, nproc=6 if ctx.quick else 14)
    th.start()  # only after the fork pool is gone: forking with a live thread can deadlock the children
    val = sh.validate_all(ctx, res)
    th.join()
    if err:
        raise err[0]
    sh.collect(ctx, val, sh.C07_CLAUSES, conf)
    ctx.require_clauses(['Undisturbed.text', 'Undisturbed.tree', 'SelfContained.parses', 'SelfContained.sync',
                         'Faithful.struct', 'Cut.pieceIsCopy', 'Cut.remainderIsDelete', 'Conserve.tokens',
                         'Conserve.comment'])


def replay(ctx, path):
    return sh.replay(ctx, path, sh.C07_CLAUSES)


def selftest(ctx):
    return sh.selftest(ctx)
