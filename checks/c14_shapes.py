"""C14 - generated inputs for the node shapes whose AST field order differs from the order of their text.

TLC (spec/WalkShapeCases.tla) enumerates every pattern the grammar accepts within the bounds: Call / ClassDef argument
interleavings (positional, *starred, keyword, **kwargs; up to 6), Dict entries with `**`, `arguments` mixtures
(positional-only / plain parameters with suffix defaults, bare `*` / `*vararg`, keyword-only parameters with arbitrary
defaults, `**kwarg`), MatchMapping with rest, MatchClass with keyword patterns, Compare chains, comprehensions.
This module (a) re-judges every pattern - accepted and rejected - with CPython's parser (the spec's grammar predicates
must agree with `ast.parse`, else machinery failure), (b) concretises the accepted patterns as source, packed several to
a program, in a single-line and a one-element-per-line layout.  The programs then go through the ordinary (V) pipeline
(harness/c14_rec.py -> spec/WalkTrace.tla): what pfst answers is judged against the order of ast / tokenize positions and
against the step / next / prev functions.  Nothing is decided here.
"""

from __future__ import annotations

import ast
import json
import os

from checks import common
from harness import tlc

BOUNDS = {'MaxArgs': 6, 'MaxPar': 2, 'MaxKwOnly': 2, 'MaxDict': 4, 'MaxGens': 3}
CMPOPS = ['<', '<=', '==', '!=', '>', '>=', 'is', 'is not', 'in', 'not in']
PER_PROGRAM = 8


def gen_table(ctx):
    d = tlc.scratch()
    cfg = os.path.join(d, 'WalkShapeCases_run.cfg')
    out = os.path.join(d, 'walkshapes.json')
    with open(cfg, 'w') as f:
        f.write('CONSTANTS\n' + ''.join(f'  {k} = {v}\n' for k, v in BOUNDS.items()))
    try:
        r = tlc.run_model('WalkShapeCases', cfg, workers=1, env={'OUT_FILE': out}, heap='1g', timeout=900)
    except tlc.TLCError as e:
        raise common.Machinery(str(e)) from e
    if r['violated']:
        raise common.Machinery(f'WalkShapeCases: {r["violated"]}')
    with open(out) as f:
        table = json.load(f)
    ctx.models.append({'module': 'WalkShapeCases', 'kind': 'table-generation', 'bounds': BOUNDS,
                       'rows': {k: len(v) for k, v in table.items()}, 'wall_s': r['wall_s']})
    return table


# ----------------------------------------------------------------------------------------------------------------------
# concretisation

def _join(open_, parts, close, multi, indent=''):
    if not multi or not parts:
        return open_ + ', '.join(parts) + close
    return open_ + '\n' + ''.join(f'{indent}    {p},\n' for p in parts) + indent + close


def arg_elems(pat):
    return [{'P': f'p{i}', 'S': f'*s{i}', 'K': f'k{i}=v{i}', 'D': f'**d{i}'}[c] for i, c in enumerate(pat)]


def src_call(pat, n, multi=False, nested=False):
    call = _join(f'f{n}(', arg_elems(pat), ')', multi)
    return f'r{n} = g(h, {call}, 5)' if nested else call


def src_class(pat, n, multi=False):
    if not pat:
        return f'class C{n}: pass'
    return _join(f'class C{n}(', arg_elems(pat), '): pass', multi)


def src_dict(pat, n, multi=False):
    return _join(f'd{n} = {{', [f'k{i}: v{i}' if c == 'E' else f'**u{i}' for i, c in enumerate(pat)], '}', multi)


def par_elems(r, ann=False):
    out, i = [], 0

    def par(has_default):
        nonlocal i
        s = f'a{i}' + (f': t{i}' if ann and i % 2 else '') + ((' = ' if ann and i % 2 else '=') + f'x{i}' if has_default else '')
        i += 1
        return s

    out += [par(d) for d in r['po']]
    if r['po']:
        out.append('/')
    out += [par(d) for d in r['ar']]
    if r['star'] == 'bare':
        out.append('*')
    elif r['star'] == 'var':
        out.append('*va' + (': tv' if ann else ''))
    out += [par(d) for d in r['ko']]
    if r['kw']:
        out.append('**kw')
    return out


def src_def(r, n, multi=False, ann=False):
    return _join(f'def f{n}(', par_elems(r, ann), '): pass', multi)


def src_lambda(r, n):
    ps = ', '.join(par_elems(r))
    return f'l{n} = lambda{" " if ps else ""}{ps}: 0'


def src_compare(r, n, multi=False):
    k = r['n']
    parts = [f'a{n}']
    for j in range(k):
        parts.append(f'{CMPOPS[(n + j) % len(CMPOPS)]} b{j}')
    return f'c{n} = (' + ('\n    ' if multi else ' ').join(parts) + ')'


def src_comp(g, n, multi=False):
    sep = '\n    ' if multi else ' '
    gens = []
    for j, nifs in enumerate(g):
        gens.append(('async ' if (n + j) % 5 == 4 else '') + f'for t{j} in i{j}' + ''.join(f'{sep}if c{j}{m}' for m in range(nifs)))
    body = sep.join(gens)
    kind = n % 4
    s = (f'[e{n}{sep}{body}]', f'{{e{n}{sep}{body}}}', f'(e{n}{sep}{body})', f'{{k{n}: v{n}{sep}{body}}}')[kind]
    return f'q{n} = {s}'


def case_mmap(r, n):
    parts = [f'{j}: m{j}' for j in range(r['n'])] + (['**rest'] if r['rest'] else [])
    return f'    case {{{", ".join(parts)}}}: pass'


def case_mclass(r, n):
    parts = [f'p{j}' for j in range(r['np'])] + [f'k{j}=q{j}' for j in range(r['nk'])]
    return f'    case C{n}({", ".join(parts)}): pass'


def _parses(src):
    try:
        ast.parse(src)
        return True
    except SyntaxError:
        return False


def judge_grammar(table):
    """The spec's grammar predicates must agree with CPython on every enumerated pattern (accepted and rejected)."""
    for row in table['call']:
        if not (_parses(src_call(row['pat'], 0)) and _parses(src_class(row['pat'], 0))):
            raise common.Machinery(f'WalkShapeCases accepts an argument pattern CPython rejects: {row["pat"]}')
    for pat in table['call_rej']:
        if _parses(src_call(pat, 0)):
            raise common.Machinery(f'WalkShapeCases rejects an argument pattern CPython accepts: {pat}')
    for r in table['args']:
        if not (_parses(src_def(r, 0)) and _parses(src_lambda(r, 0))):
            raise common.Machinery(f'WalkShapeCases accepts a parameter pattern CPython rejects: {r}')
    for r in table['args_rej']:
        if r['star'] == 'none' and r['ko']:
            continue   # not a grammar rule but a constraint of the representation (no text distinguishes it)
        if _parses(src_def(r, 0)):
            raise common.Machinery(f'WalkShapeCases rejects a parameter pattern CPython accepts: {r}')


def _key(x):
    return json.dumps(x, sort_keys=True)


def programs(ctx, table):
    """[(mode, src, label)] - deterministic in (tier, seed)."""
    quick = ctx.quick
    stmts = {}   # family -> [statement source]

    def put(fam, s):
        stmts.setdefault(fam, []).append(s)

    calls = sorted(table['call'], key=lambda r: (len(r['pat']), r['pat']))
    for n, row in enumerate(calls):
        pat, mixed = row['pat'], row['mixed']
        multi = bool((n + ctx.seed) % 2)
        if quick and not mixed and len(pat) > 3:
            continue   # quick tier: every interleaved pattern, the non-interleaved ones only up to length 3
        put('call', src_call(pat, n, multi, nested=(n % 5 == 3)))
        if mixed or not quick:
            put('class', src_class(pat, n, not multi))
        if not quick:
            put('call', src_call(pat, n, not multi, nested=(n % 5 == 1)))
            put('class', src_class(pat, n, multi))
    for n, pat in enumerate(sorted(table['dict'], key=lambda p: (len(p), p))):
        put('dict', src_dict(pat, n, bool(n % 2)))
        if not quick:
            put('dict', src_dict(pat, n, not n % 2))
    pars = sorted(table['args'], key=_key)
    for n, r in enumerate(pars):
        if quick and len(r['ko']) > 1 and (n + ctx.seed) % 4:
            continue   # quick tier: a quarter of the patterns with two keyword-only parameters
        put('def', src_def(r, n, multi=(n % 3 == 0), ann=(n % 4 == 1)))
        if not quick or n % 3 == ctx.seed % 3:
            put('lambda', src_lambda(r, n))
    for n, r in enumerate(sorted(table['compare'], key=_key)):
        put('compare', src_compare(r, n, bool(n % 2)))
        put('compare', src_compare(r, n + 5, not n % 2))
    for n, g in enumerate(sorted(table['comp'], key=_key)):
        put('comp', src_comp(g, n, bool(n % 2)))
        if not quick:
            put('comp', src_comp(g, n + 1, not n % 2))
    out = []
    for fam, ss in stmts.items():
        for k in range(0, len(ss), PER_PROGRAM):
            out.append(('exec', '\n'.join(ss[k:k + PER_PROGRAM]) + '\n', f'shape:{fam}[{k}:{k + PER_PROGRAM}]'))
    mm = [case_mmap(r, n) for n, r in enumerate(sorted(table['mmap'], key=_key))]
    mc = [case_mclass(r, n) for n, r in enumerate(sorted(table['mclass'], key=_key))]
    for fam, cases in (('mmap', mm), ('mclass', mc)):
        for k in range(0, len(cases), PER_PROGRAM):
            out.append(('exec', 'match x:\n' + '\n'.join(cases[k:k + PER_PROGRAM]) + '\n', f'shape:{fam}[{k}:{k + PER_PROGRAM}]'))
    for mode, src, label in out:
        if not _parses(src):
            raise common.Machinery(f'concretised shape program does not parse: {label}\n{src}')
    ctx.extra['shape_programs'] = len(out)
    ctx.extra['shape_statements'] = {k: len(v) for k, v in stmts.items()} | {'mmap': len(mm), 'mclass': len(mc)}
    return out


def build(ctx):
    table = gen_table(ctx)
    judge_grammar(table)
    return programs(ctx, table)
