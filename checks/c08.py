"""C08 - putting back what was taken restores the tree; accessors read back writes."""

import threading

from checks import c07_shared as sh
from checks import common


def run(ctx):
    ctx.rule = ('M: ExtractMC.tla (cut + put-back at the same index is the identity for all containers <= MaxLen, all '
                'slices). V: for every node / slice of 40 corpus programs x 8 layout variants: CutPutBack (cut, then put '
                'the piece back at the same place), ReplaceBy own copy / own pure AST (copy_ast) / CPython re-parse of own '
                'source / own source text repeated 1-3 times on one clone, OwnSrc (CPython parse of own_src() through the '
                'embedding of the kind); seeded random docstring and line-comment texts (quotes, backslashes, control, '
                'non-ASCII, astral, triple-quote runs, trailing backslash / quote) written through put_docstr / '
                'put_line_comment (both `full` modes, block fields) and read back; every event validated by TLC against '
                'ExtractTrace.tla. distinct = distinct (event, form, kind, field, slice?, option set or text class, '
                'outcome) tuples')
    ctx.assumptions += ['projection (harness/proj.py) and embedding parse (harness/c07_embed.py) are trusted',
                        'nodes inside f-string replacement fields (nested f-strings, format-spec fields, self-documenting '
                        'fields) are round-tripped like any other node; named deviation DebugTextFollowsSource: a pure AST put '
                        'into a `{expr=}` field re-writes the field text, so only ReplaceBy.sync is owed there',
                        'structural equality is read up to loss of leading blanks in docstring continuation lines',
                        'CutPutBack domain: no DeleteDependent, no Compare operand slices (need the `op` option), no '
                        'interleaved Call args/keywords, no `_body` cut that changes which statement is the docstring',
                        'comment texts: one line, no NUL / CR; full=False texts are stripped; docstring texts: first '
                        'line does not start with whitespace']
    err = []

    def model():
        try:
            sh.model_and_table(ctx, 'ExtractMC' if ctx.quick else 'ExtractMC_thorough')
        except BaseException as e:  # noqa: BLE001
            err.append(e)

    th = threading.Thread(target=model)
    conf = {'cases': 6, 'texts': 8, 'max_per_field': 15} if ctx.quick else {'cases': 10 ** 6, 'texts': 110, 'max_per_field': 15}
    specs = sh.trace_specs(ctx, 'c08', 1)
    specs += sh.trace_specs(ctx, 'texts', 1 if ctx.quick else 2, base=len(specs))
    res = sh.generate(specs, conf, nproc=6 if ctx.quick else 14)
    th.start()  # only after the fork pool is gone: forking with a live thread can deadlock the children
    val = sh.validate_all(ctx, res)
    th.join()
    if err:
        raise err[0]
    sh.collect(ctx, val, sh.C08_CLAUSES, conf)
    ctx.require_clauses(['RoundTrip.struct', 'RoundTrip.sync', 'RoundTrip.putAccepted', 'ReplaceBy.struct',
                         'ReplaceBy.sync', 'OwnSrc.parses', 'OwnSrc.struct', 'Docstr.readback', 'Docstr.denotes',
                         'Docstr.sync', 'Comment.readback', 'Comment.sync'])


def replay(ctx, path):
    return sh.replay(ctx, path, sh.C08_CLAUSES)


def selftest(ctx):
    return sh.selftest(ctx)
