"""C02 - an edited tree is observationally identical to a fresh parse of its own source."""

import json
import multiprocessing as mp
import random

from checks import common, editcheck, views_part

CL = {'ObsEq', 'Links', 'ViewsFollow', 'HistoryIndependent.state', 'HistoryIndependent.answers', 'RootIdentity'}


def _shard(args):
    shard_id, specs, npat = args
    from harness import edits, obs, c02_hist, layouts
    from corpus.programs import PROGRAMS
    rec = edits.Recorder()
    intern = obs.Interner()
    traces, scripts = [], {}
    for tid, seed, prog, variant, nsteps in specs:
        sweep = variant >= 100   # 100 + v: systematic layout-only edits on layout variant v, every cache warm
        variant %= 100
        src = layouts.variant(PROGRAMS[prog], variant, seed)
        tight = variant in (2, 8)  # redundant-parentheses / tight layouts: exercise par()/unpar() much more
        tr = c02_hist.run_lockstep(rec, intern, tid, seed, src, nsteps, npat, misc_p=0.5 if tight else 0.2,
                                   unpar_p=0.7 if tight else 0.3, sweep=sweep)
        scripts[tid] = {'driver': 'c02_lockstep', 'prog': prog, 'variant': variant + (100 if sweep else 0),
                        'seed': seed, 'nsteps': nsteps, 'npat': npat, 'script': tr.pop('script')}
        traces.append(tr)
    return dict(rec.tab.dump(), traces=traces, queries=list(obs.QUERIES)), scripts


def _run(ctx, specs, npat):
    nshards = max(1, min(14, len(specs) // 8 or 1))
    shards = [(k, specs[k::nshards], npat) for k in range(nshards)]
    if nshards == 1:
        res = [_shard(shards[0])]
    else:
        with mp.get_context('fork').Pool(nshards) as pool:
            res = pool.map(_shard, shards)
    val = editcheck.validate_all(ctx, res, module='ObsTrace')
    nq = 0
    for batch, scripts, verd in val:
        by_id = {t['id']: t for t in batch['traces']}
        for tid, v in verd.items():
            tr = by_id[tid]
            first = {}
            for step, clause, klass in sorted(v['bad']):
                if clause not in CL or clause in first:
                    continue
                first[clause] = step
                ev = tr['steps'][step - 1]
                sc = scripts[tid]
                ctx.violation(clause, klass, {
                    'driver': sc['driver'], 'prog': sc['prog'], 'variant': sc['variant'], 'seed': sc['seed'],
                    'nsteps': sc['nsteps'], 'npat': sc['npat'], 'failing_step': step,
                    'obsDiff': ev.get('obsDiff', []), 'pattern': ev.get('pattern'),
                    'event': {k: ev[k] for k in ev if k not in ('post', 'obs')},
                    'script': sc['script'][:step]}, detail=json.dumps(ev.get('obsDiff', []))[:2000])
        for tr in batch['traces']:
            for ev in tr['steps']:
                ctx.evals += 1
                if ev.get('hasObs'):
                    nq += sum(len(o['live']) for o in ev['obs']) * len(batch['queries'])
                    ctx.distinct.add((ev['kind'], ev['field'], ev['form'], ev['op'], ev['pattern'], ev['outcome']))
        for tr in batch['traces'][:1]:
            if tr['steps']:
                ev = tr['steps'][0]
                ctx.sample({'program': scripts[tr['id']]['prog'], 'pattern': ev['pattern'], 'op': ev['op'],
                            'kind': ev['kind'], 'field': ev['field'], 'nodes_observed': len(ev['obs'][0]['live']) if ev['obs'] else 0,
                            'queries': len(batch['queries'])})
    ctx.extra['query_answers_compared'] = nq
    return val


def run(ctx):
    ctx.rule = ('V: edit histories executed in lock-step on K trees that differ only in the read-only queries made before '
                'each edit (cache-population patterns all/ancestors/siblings/target/half/subtree/after, views created '
                'before the edit); after every step ~85 public queries x every node are answered by each edited tree and '
                'by FST(source) built from scratch; TLC (ObsTrace/ObsLaws) checks ObsEq, Links, ViewsFollow, '
                'HistoryIndependent, RootIdentity. distinct = distinct (kind, field, form, entry point, pattern, outcome)')
    ctx.assumptions += ['correspondence between edited and fresh tree is by child path (pure-AST walk)',
                        'fresh tree built with the same root.indent (documented creation-time attribute)',
                        'f-string format specs are not edited (replacement fields are, by fv_replace events; all f-string nodes are observed)']
    # views: state machine of FSTView windows (re-clipping after foreign edits, extents after edits through the view)
    views_part.run_views(ctx, n_quick=150, n_thorough=800)
    from corpus.programs import PROGRAMS
    from harness import layouts
    n_hist, n_steps, npat = (240, 6, 2) if ctx.quick else (4000, 12, 3)
    rng = random.Random(ctx.seed * 7919 + 5)
    specs = [(i + 1, rng.randrange(1 << 30), i % len(PROGRAMS), (i // len(PROGRAMS) + i) % layouts.N_VARIANTS, n_steps)
             for i in range(n_hist)]
    # systematic layout-only edits (line comments on block-ending statements, docstrings) with every cache warm, on the
    # comment-bearing layouts (1) and as written (0); thorough: every layout variant
    sweep_variants = (1, 0) if ctx.quick else tuple(range(layouts.N_VARIANTS))
    for v in sweep_variants:
        for pi in range(len(PROGRAMS)):
            specs.append((len(specs) + 1, rng.randrange(1 << 30), pi, 100 + v, 7 if ctx.quick else 12))
    _run(ctx, specs, npat)
    ctx.require_clauses(['ObsEq', 'Links', 'ViewsFollow', 'HistoryIndependent.answers'])


def replay(ctx, path):
    with open(path) as f:
        rp = json.load(f)
    if rp.get('part') == 'views':
        views_part.replay_views(ctx, rp)
        return ctx.finish()
    val = _run(ctx, [(1, rp['seed'], rp['prog'], rp['variant'], rp['nsteps'])], rp.get('npat', 2))
    for batch, scripts, verd in val:
        print('verdict', verd)
    return ctx.finish()
