"""C19 - coercion yields a valid node of the requested kind with the same content.

(M)  spec/CoerceMC.tla: object life-cycle of coercion (identity / copy / consume / put-with-coercion) model-checked on a
     small kind x mode subset; totality of the full tables; the complete (source kind x mode) matrix, the per-mode
     admitted kinds + embeddings and the put-slot catalogue are EMITTED by TLC as JSON.
(G)  every cell of the emitted matrix is run against the real pfst with operands from a catalogue (shapes x layouts),
     hosted non-root operands and the inputs of tests/data/data_coerce.py.
(V)  every recorded call (as_(), FST(node, mode), FST(pure AST, mode), put with coerce on / off) is validated by TLC
     against spec/CoerceTrace.tla (clause-named total verdicts).
"""

from __future__ import annotations

import concurrent.futures as cf
import json
import multiprocessing as mp
import os
import random

from checks import common
from harness import tlc

CLAUSES = ['Standalone', 'KindInMode', 'ParsesInMode', 'ParsesInMode.ctx', 'Leaves', 'SameKindUnchanged',
           'SameKindIdentity', 'SameKindNotRefused', 'FormattedVsPure', 'CopyLeavesOperand', 'PutCoerceEquiv',
           'PutFailAtomic', 'CoerceDisabledRaises']
FULL = ('as_', 'as_copy', 'ctor', 'ctor_nocopy', 'ast')
FULL_Q = ('as_', 'as_copy', 'ctor', 'ast')
VAR_Q = ('as_', 'ast')
LIGHT = ('as_', 'as_copy', 'ast')
CHILD = ('as_', 'ctor')

_TABLE = None


def _shard(args):
    shard_id, cases = args
    from harness import c19_coerce as H
    rec = H.Recorder(_TABLE)
    traces, scripts = [], {}
    for tid, spec, mode, shape, lay, routes, puts in cases:
        out = rec.case(tid, tuple(spec), mode, shape, lay, routes, put_slots=puts)
        if out is None:
            continue
        traces.append(out[0])
        scripts[tid] = out[1]
    return rec.batch(traces), scripts


def load_table(ctx):
    global _TABLE
    path = os.path.join(tlc.scratch(), 'c19_table.json')
    os.environ['C19_TABLE'] = path
    ctx.model('CoerceMC', 'CoerceMC' if ctx.quick else 'CoerceMC_thorough',
              required=('DoCoerceSame', 'DoCoerceConvert', 'DoCoerceRaise', 'DoPutNative', 'DoPutCoerce', 'DoPutRaise'))
    try:
        with open(path) as f:
            _TABLE = json.load(f)
    except (OSError, ValueError) as e:
        raise common.Machinery(f'TLC did not emit the coercion tables: {e}') from e
    kinds = set(_TABLE['kinds'])
    for m in _TABLE['modes']:
        if set(m['same']) | set(m['doc']) | set(m['may']) != kinds:
            raise common.Machinery(f'matrix column {m["mode"]} is not total')
    return _TABLE


def operands(ctx, kinds, modes):
    """[(spec, shape, layout)] : catalogue x accepted layouts, hosted operands, repository inputs."""
    from harness import c19_coerce as H
    from harness.proj import Tables
    from fst import FST
    base, variants, hosted, repo = [], [], [], []
    for pm, src, shape in H.CATALOGUE:
        try:
            s0 = Tables().sid(FST(src, pm).a)
        except Exception as e:  # noqa: BLE001
            raise common.Machinery(f'catalogue operand does not build: {pm} {src!r}: {e}') from e
        base.append((('src', pm, src), shape, 'base'))
        for lay in H.LAYOUTS[1:]:
            v = H.layout(src, pm, lay)
            if v is None or v == src:
                continue
            try:
                if Tables().sid(FST(v, pm).a) != s0:   # a layout must not change the operand's structure
                    continue
            except Exception:  # noqa: BLE001
                continue
            variants.append((('src', pm, v), shape, lay))
    rnd = []
    rng = random.Random(ctx.seed * 104729 + 5)
    for pm, src, shape in H.random_operands(rng, 60 if ctx.quick else 500):
        if (pm, src) in {(b[0][1], b[0][2]) for b in base} | {(r[0][1], r[0][2]) for r in rnd}:
            continue
        try:
            if FST(src, pm).a.__class__.__name__ not in kinds:
                continue
        except Exception:  # noqa: BLE001
            continue
        rnd.append((('src', pm, src), shape, 'random'))
    for hsrc, path, shape in H.HOSTED:
        hosted.append((('host', hsrc, path), shape, 'hosted'))
    seen = {(s[1], s[2]) for s, _, _ in base + variants}
    for pm, src in H.repo_inputs():
        if (pm, src) in seen or 'f"' in src or "f'" in src:
            continue
        if pm not in modes:   # operands are built with the documented modes only ('_expr_arglikes' makes a Tuple that
            continue          # spans its whole source / has no comma: not a tree the Tuple mode itself would give)
        try:
            if FST(src, pm).a.__class__.__name__ not in kinds:   # expr_context operands are outside the matrix
                continue
        except Exception:  # noqa: BLE001
            continue
        repo.append((('src', pm, src), 'repo', 'repo'))
    return base, variants, hosted, repo, rnd


def build_cases(ctx, table):
    rng = random.Random(ctx.seed * 7919 + 19)
    kinds = sorted(table['kinds'])
    base, variants, hosted, repo, rnd = operands(ctx, set(kinds), {m['mode'] for m in table['modes']})
    named = sorted(m['mode'] for m in table['modes'] if m['cat'] == m['mode'])   # the literals of parsex.Mode
    classm = [k for k in kinds if k not in named]
    cases = []

    def add(spec, mode, shape, lay, routes, puts):
        cases.append([len(cases) + 1, list(spec), mode, shape, lay, routes, puts])

    for spec, shape, lay in base:
        for m in named:
            add(spec, m, shape, lay, FULL if not ctx.quick else FULL_Q, True)
        cm = classm if not ctx.quick else rng.sample(classm, 3) + ['List', 'Set', 'Dict', 'Name', 'MatchSequence']
        for m in cm:
            add(spec, m, shape, lay, LIGHT if ctx.quick else FULL, True)
    later = []
    for spec, shape, lay in variants:
        for m in named:
            if ctx.quick:
                later.append((spec, m, shape, lay))   # quick: only the cells where the base layout converted (phase 2)
            else:
                add(spec, m, shape, lay, FULL, True)
        if not ctx.quick:
            for m in classm:
                add(spec, m, shape, lay, LIGHT, False)
    for spec, shape, lay in rnd:
        for m in (named if ctx.quick else named + classm):
            add(spec, m, shape, lay, LIGHT if ctx.quick else FULL, not ctx.quick)
    for spec, shape, lay in hosted:
        for m in (named if ctx.quick else named + classm):
            add(spec, m, shape, lay, CHILD, True)
    rp = repo if not ctx.quick else rng.sample(repo, min(len(repo), 50))
    for spec, shape, lay in rp:
        for m in (named if ctx.quick else named + classm):
            add(spec, m, shape, lay, LIGHT, not ctx.quick)
    return cases, later, {'operands_catalogue': len(base), 'operands_layout_variants': len(variants),
                   'operands_hosted': len(hosted), 'operands_random': len(rnd), 'operands_repo_inputs': len(rp), 'modes_named': len(named),
                   'modes_class': len(classm)}


def generate(cases, nproc=12):
    n = max(1, min(nproc, len(cases) // 50 or 1))
    # interleave so that every shard gets a mix of cheap / expensive cases
    shards = [(k, cases[k::n]) for k in range(n)]
    if n == 1:
        return [_shard(shards[0])]
    with mp.get_context('fork').Pool(n) as pool:
        return pool.map(_shard, shards)


def validate_all(ctx, results):
    out = []

    def one(bs):
        b, s = bs
        return b, s, ctx.validate(b, module='CoerceTrace', cfg='CoerceTrace', heap='3g')

    with cf.ThreadPoolExecutor(max_workers=min(6, len(results))) as ex:
        for r in ex.map(one, results):
            out.append(r)
    return out


def collect(ctx, validated):
    stats = {'ok': 0, 'raise': 0, 'put_ok': 0, 'put_raise': 0, 'fst_ok_ast_raise': 0, 'fst_raise_ast_ok': 0,
             'putc_ok_explicit_raise': 0, 'putc_raise_explicit_ok': 0, 'doc_cells_ok': 0}
    doc = {(k, m['mode']) for m in _TABLE['modes'] for k in m['doc']}
    doc_ok = set()
    for batch, scripts, verd in validated:
        by_id = {t['id']: t for t in batch['traces']}
        for tid, v in verd.items():
            tr, sc = by_id[tid], scripts[tid]
            first = {}
            for step, clause, klass in sorted(v['bad']):
                if clause in first:
                    continue
                first[clause] = step
                ev = sc['events'][step - 1]
                detail = dict(ev, opsrc=sc['opsrc'], opkind=sc['opkind'], mode=sc['mode'], layout=sc['layout'])
                ctx.violation(clause, klass, {'driver': 'c19', 'case': sc, 'failing_step': step, 'event': ev},
                              detail=json.dumps(detail, default=str))
            fst_ok = ast_ok = None
            putc = None
            for ev in tr['steps']:
                ctx.evals += 1
                c = ev['call']
                if c in ('as_', 'ctor', 'ast'):
                    stats['ok' if ev['outcome'] == 'ok' else 'raise'] += 1
                    if c == 'ast':
                        ast_ok = ev['outcome'] == 'ok'
                    elif fst_ok is None:
                        fst_ok = ev['outcome'] == 'ok'
                    if ev['outcome'] == 'ok' and (tr['op']['kind'], tr['mode']) in doc:
                        doc_ok.add((tr['op']['kind'], tr['mode']))
                    if ev['outcome'] == 'ok' and ev['res']['kind'] != tr['op']['kind']:
                        ctx.distinct.add((tr['op']['kind'], tr['mode'], sc['layout'], c, ev['copy'], ev['res']['kind']))
                else:
                    stats['put_ok' if ev['outcome'] == 'ok' else 'put_raise'] += 1
                    if c == 'putc':
                        putc = ev['outcome'] == 'ok'
                    elif c == 'pute' and putc is not None:
                        if putc and ev['outcome'] != 'ok':
                            stats['putc_ok_explicit_raise'] += 1
                        if not putc and ev['outcome'] == 'ok':
                            stats['putc_raise_explicit_ok'] += 1
            if fst_ok is not None and ast_ok is not None and fst_ok != ast_ok:
                stats['fst_ok_ast_raise' if fst_ok else 'fst_raise_ast_ok'] += 1
        for tr in batch['traces'][:1]:
            sc = scripts[tr['id']]
            ctx.sample({'operand': sc['opsrc'], 'operand_kind': sc['opkind'], 'mode': sc['mode'], 'layout': sc['layout'],
                        'events': [{k: e.get(k) for k in ('call', 'copy', 'slot', 'result_src', 'post_src', 'exc')
                                    if e.get(k) is not None} for e in sc['events'][:4]]})
    stats['doc_cells_ok'] = len(doc_ok)
    stats['doc_cells'] = len(doc)
    return stats, doc - doc_ok


def run(ctx):
    ctx.rule = ('M: CoerceMC.tla (life-cycle of coercion: identity / copy / consume / put-with-coercion; tables total). '
                'G+V: every (source kind x mode) cell of the TLC-emitted matrix with operands of that kind from a '
                'catalogue (empty/one/many/nested/starred/defaults/as/dotted) x layouts + hosted non-root operands + '
                'inputs of tests/data/data_coerce.py, routes as_()/as_(copy)/FST(node)/FST(node,copy=False)/FST(pure AST) '
                'and puts (coerce on, explicit, off) in every slot of the mode; every event validated by TLC against '
                'CoerceTrace. distinct = distinct (operand kind, mode, layout, route, copy, result kind) with a result '
                'kind different from the operand kind (real conversions)')
    ctx.assumptions += ['projection (harness/proj.py) and the embedding parser (ast.parse of spec-defined embeddings) trusted',
                        'f-string operands excluded; CPython 3.12 grammar only',
                        'Leaves uses canonical source order per kind (Call: args before keywords)',
                        'FormattedVsPure / PutCoerceEquiv only judged when both routes succeed (asymmetries counted)']
    import time
    t0 = time.time()
    table = load_table(ctx)
    t1 = time.time()
    cases, later, info = build_cases(ctx, table)
    t2 = time.time()
    res = generate(cases)
    if later:
        # phase 2 (quick tier): layout variants in the cells where the base layout of the same shape was converted
        conv = set()
        for batch, scripts in res:
            for tr in batch['traces']:
                sc = scripts[tr['id']]
                if sc['layout'] == 'base' and any(e['outcome'] == 'ok' and e['res']['kind'] != tr['op']['kind']
                                                   for e in tr['steps'] if e['call'] in ('as_', 'ctor', 'ast')):
                    conv.add((sc['shape'], sc['mode']))
        n0 = len(cases)
        more = [[n0 + i + 1, list(spec), m, shape, lay, VAR_Q, False]
                for i, (spec, m, shape, lay) in enumerate(x for x in later if (x[2], x[1]) in conv)]
        cases += more
        info['variant_cells_skipped_not_converting'] = len(later) - len(more)
        res += generate(more)
    t3 = time.time()
    val = validate_all(ctx, res)
    ctx.extra['phase_s'] = {'model': round(t1 - t0, 1), 'cases': round(t2 - t1, 1), 'pfst': round(t3 - t2, 1),
                            'tlc_traces': round(time.time() - t3, 1)}
    stats, doc_missing = collect(ctx, val)
    ctx.extra['c19'] = dict(info, cases=len(cases), **stats)
    ctx.extra['matrix_cells'] = sum(len(m['same']) + len(m['doc']) + len(m['may']) for m in table['modes'])
    ctx.exhaustive = True   # the matrix is enumerated completely by TLC; operand shapes are a catalogue
    if doc_missing:
        # vacuity guard: conversions shown in docs/d08_coerce.py must be exercised successfully at least once
        raise common.Machinery(f'documented coercions never succeeded: {sorted(doc_missing)}')
    ctx.require_clauses(CLAUSES)


def replay(ctx, path):
    with open(path) as f:
        rp = json.load(f)
    sc = rp['case']
    load_table(ctx)
    res = [_shard((0, [[1, sc['spec'], sc['mode'], sc['shape'], sc['layout'], sc['routes'], True]]))]
    val = validate_all(ctx, res)
    collect(ctx, val)
    for batch, scripts, verd in val:
        for tid, v in verd.items():
            print('verdict', tid, sorted(v['bad']))
        for tid, s in scripts.items():
            print('operand', repr(s['opsrc']), s['opkind'], '->', s['mode'])
            for i, e in enumerate(s['events'], 1):
                print(' ', i, json.dumps(e, default=str))
    return ctx.finish()


def selftest(ctx):
    """Binding demonstration: corrupt one recorded field of an accepted trace; TLC must reject naming the right clause."""
    import copy
    load_table(ctx)
    spec = ['src', 'alias', 'a.b']
    batch, scripts = _shard((0, [[1, spec, 'expr', 'alias-dotted', 'base', FULL_Q, True]]))
    base = ctx.validate(batch, module='CoerceTrace', cfg='CoerceTrace')
    ok = base[1]['bad'] == []
    print('accepted trace:', 'no failed clause' if ok else base[1]['bad'])
    steps = batch['traces'][0]['steps']
    i_as = next(i for i, e in enumerate(steps) if e['call'] == 'as_' and not e['copy'] and e['outcome'] == 'ok')
    i_cp = next(i for i, e in enumerate(steps) if e['call'] == 'as_' and e['copy'] and e['outcome'] == 'ok')
    i_ast = next(i for i, e in enumerate(steps) if e['call'] == 'ast' and e['outcome'] == 'ok')
    i_pn = next(i for i, e in enumerate(steps) if e['call'] == 'putn' and e['outcome'] == 'raise')
    i_pe = next(i for i, e in enumerate(steps) if e['call'] == 'pute' and e['outcome'] == 'ok')

    def name_sid(b):   # sid of some Name node different from the result: the operand-independent `Name` of the embedding
        return next(i for i, e in enumerate(b['stab'], 1) if e['k'] == 'Name')

    def c_kind(b):
        b['traces'][0]['steps'][i_as]['res']['kind'] = 'alias'

    def c_pos(b):
        r = b['traces'][0]['steps'][i_as]['res']
        e = copy.deepcopy(b['ptab'][r['p'] - 1])
        e['p'][1] += 1                                 # shift one column of the result root
        b['ptab'].append(e)
        r['p'] = len(b['ptab'])

    def c_leaf(b):
        b['traces'][0]['steps'][i_as]['res']['s'] = name_sid(b)    # result structure lost the attribute part

    def c_same(b):
        b['traces'][0]['steps'][i_cp]['res']['same'] = True        # copy route handed back the operand

    def c_post(b):
        b['traces'][0]['steps'][i_cp]['post']['text'] = 0          # operand text changed by a copying coercion

    def c_ast(b):
        b['traces'][0]['steps'][i_ast]['res']['s'] = name_sid(b)   # pure-AST route gives another structure

    def c_putn(b):
        b['traces'][0]['steps'][i_pn]['outcome'] = 'ok'            # coerce=False accepted an alias as expression

    def c_atomic(b):
        b['traces'][0]['steps'][i_pn]['post']['text'] = 0          # failed put changed the target

    def c_equiv(b):
        b['traces'][0]['steps'][i_pe]['post']['s'] = name_sid(b)   # put of converted node gives another structure

    expect = [(c_kind, 'KindInMode'), (c_pos, 'ParsesInMode'), (c_leaf, 'Leaves'), (c_same, 'CopyLeavesOperand'),
              (c_post, 'CopyLeavesOperand'), (c_ast, 'FormattedVsPure'), (c_putn, 'CoerceDisabledRaises'),
              (c_atomic, 'PutFailAtomic'), (c_equiv, 'PutCoerceEquiv')]
    for fn, clause in expect:
        b = copy.deepcopy(batch)
        fn(b)
        v = ctx.validate(b, module='CoerceTrace', cfg='CoerceTrace')
        got = sorted({c for _, c, _ in v[1]['bad']})
        hit = clause in got
        ok = ok and hit
        print(f'corruption {fn.__name__[2:]:8s} -> rejected clauses {got}  expected {clause}: {"OK" if hit else "MISSED"}')
    return 0 if ok else 2
