"""C17 - matching depends only on structure; quantifiers behave like regular expressions.

(M)  spec/QuantMC.tla      self-consistency of the list-pattern semantics spec/Quant.tla (operational first match =
                           declarative lexicographic first, decompositions tile the word, greedy-independent language,
                           AtomicSubseq sound, known-finding classifiers are the identity off their domain).
(G)  spec/QuantGen.tla     TLC emits the table (instance, regular expression text, expected answer) - complete products
                           of the universe plus a seeded sample - as JSON.
(V1) spec/QuantTrace.tla   three-way agreement: TLC recomputes FirstMatch per row and compares Python's re.fullmatch on the
                           regex written by the spec, and the real pfst on several list fields / pure ASTs.
(V2) spec/MatchTrace.tla   structure-only, own-AST / one-leaf-mutant, history-free, search = filter of walk on corpus programs.
"""

from __future__ import annotations

import json
import os
import random
import time
from concurrent.futures import ThreadPoolExecutor

from checks import common
from harness import tlc, c17_quant as cq, c17_match as cm, c17_alg as ca

NFLAT, NITEMS, NWORDS = 95, 8411, 121  # mirrors of Quant.tla (checked against what QuantGen reports)
QUANT_CLAUSES = ['RowInDomain', 'ReAccept', 'ReSpans', 'PfstAccept', 'PfstCaptures']
ALG_CLAUSES = ['TermValid', 'NoException', 'MatchIsDenotation', 'SearchIsDenotedFilter']
ALG_NA, ALG_NMEMBERS, ALG_NCTX = 22, 2024, 10  # mirrors of SearchAlg.tla (checked against what SearchAlgGen reports)
MATCH_CLAUSES = ['NoException', 'StructureOnly', 'HistoryFree', 'OwnMatches', 'MutantRejected', 'SearchIsFilter', 'SearchTags']


# ----------------------------------------------------------------------------------------------------------------------
def validate_parallel(ctx, batches, module, nproc=8, heap='3g'):
    """Like ctx.validate for several batches at once (one JVM each). Returns [verdict dict per batch]."""
    def one(b):
        return tlc.run_traces(b, module=module, heap=heap)
    try:
        with ThreadPoolExecutor(max_workers=nproc) as ex:
            res = list(ex.map(one, batches))
    except tlc.TLCError as e:
        raise common.Machinery(str(e)) from e
    out = []
    agg = {'module': module, 'kind': 'trace-validation', 'traces': 0, 'distinct': 0, 'wall_s': 0.0, 'batch_bytes': 0, 'jvms': len(batches)}
    for b, (verd, st) in zip(batches, res):
        ctx.states += st.get('distinct', 0)
        ctx.transitions += st.get('generated', 0)
        ctx.traces += len(b['traces'])
        agg['traces'] += len(b['traces'])
        agg['distinct'] += st.get('distinct', 0)
        agg['wall_s'] = max(agg['wall_s'], st['wall_s'])
        agg['batch_bytes'] += st['batch_bytes']
        for v in verd.values():
            for c in v['seen']:
                ctx.clause_counts[c] = ctx.clause_counts.get(c, 0) + 1
        out.append(verd)
    ctx.models.append(agg)
    return out


# ----------------------------------------------------------------------------------------------------------------------
# quantifier part

def sample_ids(rng, n, shape):
    """seeded instance ids: shape 'flat2' / 'flat3' (atoms and single-body quantifiers), 'sub' (with sub-sequence bodies)"""
    out = []
    for _ in range(n):
        if shape == 'flat2':
            its = [rng.randint(1, NFLAT), rng.randint(1, NFLAT), 0]
        elif shape == 'flat3':
            its = [rng.randint(1, NFLAT) for _ in range(3)]
        else:
            k = rng.choice([1, 2, 2, 3, 3])
            its = [rng.randint(1, NFLAT) for _ in range(k)]
            for j in rng.sample(range(k), rng.choice([1, 1, 1, 2]) if k > 1 else 1):
                its[j] = rng.randint(NFLAT + 1, NITEMS)
            its += [0] * (3 - k)
        out.append(its + [rng.randrange(NWORDS)])
    return out


def quant_waves(ctx):
    """Lists of QuantGen jobs; each wave is generated, replayed and validated before the next one (bounds memory)."""
    rng = random.Random(ctx.seed * 7919 + 17)
    allw = list(range(NWORDS))
    if ctx.quick:
        single = [{'prods': [{'a': list(range(lo, min(lo + 12, NFLAT + 1))), 'b': [0], 'c': [0], 'w': allw}], 'ids': []}
                  for lo in range(0, NFLAT + 1, 12)]
        ids = sample_ids(rng, 9000, 'flat2') + sample_ids(rng, 7000, 'flat3') + sample_ids(rng, 12000, 'sub')
        rng.shuffle(ids)
        samp = [{'prods': [], 'ids': ids[i::8]} for i in range(8)]
        return [single + samp], {'exhaustive': 'pattern lists of length <= 1 over the 95 flat items x all 121 words',
                                 'sampled_ids': len(ids)}
    waves = []
    # exhaustive: every list of <= 2 flat items x every word
    firsts = list(range(0, NFLAT + 1))
    per = 2
    jobs = [{'prods': [{'a': firsts[i:i + per], 'b': list(range(0, NFLAT + 1)), 'c': [0], 'w': allw}], 'ids': []}
            for i in range(0, len(firsts), per)]
    for i in range(0, len(jobs), 12):
        waves.append(jobs[i:i + 12])
    n_s = 0
    for _ in range(4):
        ids = sample_ids(rng, 60000, 'flat3') + sample_ids(rng, 110000, 'sub')
        n_s += len(ids)
        rng.shuffle(ids)
        waves.append([{'prods': [], 'ids': ids[i::16]} for i in range(16)])
    return waves, {'exhaustive': 'pattern lists of length <= 2 over the 95 flat items x all 121 words', 'sampled_ids': n_s}


def run_quant(ctx):
    waves, info = quant_waves(ctx)
    ncont = 2 if ctx.quick else 3
    tot = {'asked': 0, 'rows': 0, 'obs': 0, 'accepted': 0, 'anon_obs': 0, 'gen_wall_s': 0.0, 'replay_wall_s': 0.0}
    conts_seen = {}
    chunk = 1500
    for wi, jobs in enumerate(waves):
        t0 = time.time()
        try:
            rows, items, st = cq.gen_tables(jobs, nproc=16, heap='1500m')
        except tlc.TLCError as e:
            raise common.Machinery(str(e)) from e
        tot['gen_wall_s'] += time.time() - t0
        if st['consts'] != [(NFLAT, NITEMS, NWORDS)]:
            raise common.Machinery(f'universe constants of Quant.tla changed: {st["consts"]}')
        tot['asked'] += st['asked']
        tot['rows'] += len(rows)
        if not rows:
            continue
        rows.sort(key=lambda r: r['id'])
        t0 = time.time()
        steps = cq.replay_rows(rows, items, ctx.seed, ncont, nproc=16)
        tot['replay_wall_s'] += time.time() - t0
        rowmap = {}
        for r, s in zip(rows, steps):
            assert r['id'] == s['id']
            ctx.evals += 1 + len(s['obs'])
            tot['obs'] += len(s['obs'])
            tot['accepted'] += bool(r['acc'])
            for o in s['obs']:
                conts_seen[o['cont']] = conts_seen.get(o['cont'], 0) + 1
                tot['anon_obs'] += o['anon']
            i1, i2, i3, wn = r['id']
            if wn and max(i1, i2, i3) > 5:
                ctx.distinct.add(((i1 * 8500 + i2) * 8500 + i3) * 128 + wn)
        if wi == 0:
            for r, s in list(zip(rows, steps))[:: max(1, len(rows) // 3)][:3]:
                ctx.sample({'id': r['id'], 'regex': r['rx'], 'word': r['word'], 'spec': {'acc': r['acc'], 'u': r['u'], 'ev': r['ev']},
                            're': s['re'], 'pfst': s['obs'][:1]})
        traces = [{'id': k + 1, 'steps': steps[i:i + chunk]} for k, i in enumerate(range(0, len(steps), chunk))]
        nb = min(16, max(1, len(traces) // 2))
        batches = [{'traces': traces[b::nb]} for b in range(nb)]
        verds = validate_parallel(ctx, batches, 'QuantTrace', nproc=16, heap='1500m')
        for verd in verds:
            for tid, v in verd.items():
                for (l, clause, klass) in v['bad']:
                    s = traces[tid - 1]['steps'][l - 1]
                    cont = klass.split('/', 1)[1] if '/' in klass else ''
                    o = [x for x in s['obs'] if x['cont'] == cont][:1]
                    ctx.violation(clause, klass,
                                  {'kind': 'quant', 'id': s['id'], 'ncont': ncont, 'observed': o, 're': s['re']},
                                  detail=json.dumps(o))
        del rows, steps, traces, batches
    ctx.extra['quant'] = dict(tot, **info, containers=conts_seen)
    if tot['rows'] < 1000 or tot['accepted'] < 100:
        raise common.Machinery(f'quantifier table too small: {tot}')


# ----------------------------------------------------------------------------------------------------------------------
# structural part

def _rec(args):
    pi, src, seed, nt, ns = args
    return cm.record_program(pi, src, seed, nt, ns)


def run_match(ctx):
    import multiprocessing as mp
    from corpus.programs import PROGRAMS
    PROGRAMS = list(PROGRAMS) + cm.EXTRA_PROGRAMS
    nt, ns = (10, 8) if ctx.quick else (30, 24)
    rounds = 1 if ctx.quick else 3
    jobs = [(pi, src, ctx.seed * 10 + r, nt, ns) for r in range(rounds) for pi, src in enumerate(PROGRAMS)]
    t0 = time.time()
    with mp.get_context('fork').Pool(16) as pool:
        res = pool.map(_rec, jobs, chunksize=1)
    traces = []
    kinds, leafkinds, npat = set(), set(), 0
    for k, ((tr, st), job) in enumerate(zip(res, jobs)):
        tr['id'] = k + 1
        tr['job'] = list(job[:1]) + list(job[2:])
        traces.append(tr)
        kinds |= st['kinds']
        leafkinds |= st['leafkinds']
        npat += st['patterns']
        for s in tr['steps']:
            ctx.evals += 1 if s['k'] == 'match' else 1 + len(s['walk'])
            ctx.distinct.add((s['k'], s['cls'], s['form'], s.get('on', ''), s.get('nested', '')))
    rec_wall = time.time() - t0
    st0 = traces[0]['steps']
    ctx.sample({'program': 0, 'event': {k: (v if not isinstance(v, list) else v[:8]) for k, v in next(s for s in st0 if s['k'] == 'search').items()}})
    ctx.sample({'program': 0, 'event': next(s for s in st0 if s['k'] == 'match' and s['acc'] and s['tags'] != '{}')})
    nb = min(16, len(traces))
    order = sorted(range(len(traces)), key=lambda i: -len(traces[i]['steps']))
    batches = [{'traces': [traces[i] for i in order[b::nb]]} for b in range(nb)]
    verds = validate_parallel(ctx, batches, 'MatchTrace', nproc=16, heap='2g')
    for verd in verds:
        for tid, v in verd.items():
            tr = traces[tid - 1]
            for (l, clause, klass) in v['bad']:
                s = tr['steps'][l - 1]
                ctx.violation(clause, klass, {'kind': 'match', 'job': tr['job'], 'step': l,
                                              'event': {k: (x if not isinstance(x, list) else x[:40]) for k, x in s.items()}},
                              detail=json.dumps(s)[:2000])
    ctx.extra['match'] = {'programs': len(set(j[0] for j in jobs)), 'traces': len(traces), 'patterns': npat,
                          'events': sum(len(t['steps']) for t in traces),
                          'searches': sum(1 for t in traces for s in t['steps'] if s['k'] == 'search'),
                          'combinators': sorted(kinds), 'leaf_mutations': sorted(leafkinds), 'record_wall_s': round(rec_wall, 1)}
    need = {'M', 'MNOT', 'MOR', 'MAND', 'MTYPES', 'MRE', 'MCB', 'quant', 'top:MTAG', 'top:backref', 'top:type', 'top:...',
            'top:str', 'top:re', 'top:prim', 'top:MNOT', 'top:MNOTx', 'top:MANDx', 'top:MOR3', 'backref-hit', 'unify', 'top:MOR', 'top:MAND', 'top:MTYPES', 'top:MRE', 'top:MCB', 'top:M'}
    if need - kinds:
        raise common.Machinery(f'vacuity guard: combinators never generated: {sorted(need - kinds)}')


# ----------------------------------------------------------------------------------------------------------------------
# pattern algebra: search == filter(walk, Match) and pfst.match == Match, Match defined denotationally in SearchAlg.tla

def run_alg(ctx):
    ca.self_check_trees()
    rng = random.Random(ctx.seed * 104729 + 5)

    def mem(a, wr):  # member number of atom a (1-based) with wrapper 0 plain / 1 NOT / 2 M / 3 NOT NOT (mirror of SearchAlg!MemberOf)
        return 4 * (a - 1) + wr + 1
    if ctx.quick:
        reps = [2, 6, 8, 10, 11, 15, 17, 20, 22]   # pure types (one, tuple, base) / field checks / callback, source / wildcard
        ms = [mem(a, wr) for a in reps for wr in (0, 1)]
        n_ids = 2500
    else:
        ms = [mem(a, wr) for a in range(1, ALG_NA + 1) for wr in (0, 1)]
        n_ids = 40000
    ctxs = list(range(1, ALG_NCTX + 1))
    jobs = [{'prods': [{'c': [c], 'o': [1, 2], 'm1': ms, 'm2': ms, 'm3': [0]}], 'ids': []} for c in ctxs]
    ids = [[rng.randint(1, ALG_NCTX), rng.randint(1, 2), rng.randint(1, ALG_NMEMBERS), rng.randint(1, ALG_NMEMBERS),
            rng.choice([0, rng.randint(1, ALG_NMEMBERS)])] for _ in range(n_ids)]
    jobs += [{'prods': [], 'ids': ids[i::6]} for i in range(6)]
    t0 = time.time()
    try:
        rows, st = ca.gen_terms(jobs, nproc=16)
    except tlc.TLCError as e:
        raise common.Machinery(str(e)) from e
    if st['consts'] != [(ALG_NA, ALG_NMEMBERS, ALG_NCTX)]:
        raise common.Machinery(f'universe constants of SearchAlg.tla changed: {st["consts"]}')
    gen_wall = time.time() - t0
    rows.sort(key=lambda r: r['id'])
    t0 = time.time()
    steps = ca.replay_terms(rows, ctx.seed, nproc=16, ntrees=2 if ctx.quick else 3)
    rep_wall = time.time() - t0
    classes = set()
    for r in rows:
        classes.add(r['cls'])
        ctx.distinct.add(('alg', r['cls']))
    for s in steps:
        ctx.evals += 1 + len(s['walk'])
    tables = ca.batch_tables()
    chunk = 400
    traces = [{'id': k + 1, 'steps': steps[i:i + chunk]} for k, i in enumerate(range(0, len(steps), chunk))]
    nb = min(16, len(traces))
    batches = [dict(tables, traces=traces[b::nb]) for b in range(nb)]
    verds = validate_parallel(ctx, batches, 'SearchAlgTrace', nproc=16, heap='1500m')
    rowmap = {tuple(r['id']): r for r in rows}
    for verd in verds:
        for tid, v in verd.items():
            for (l, clause, klass) in v['bad']:
                s = traces[tid - 1]['steps'][l - 1]
                ctx.violation(clause, klass, {'kind': 'alg', 'id': s['id'], 'tree': s['tree'], 'ntrees': 2 if ctx.quick else 3, 'observed': s,
                                              'term': rowmap[tuple(s['id'])]['term']}, detail=json.dumps(s)[:1500])
    ex = next((s for s in steps if s['found'] and len(s['found']) < len(s['walk'])), steps[0])
    ctx.sample({'algebra_term': rowmap[tuple(ex['id'])]['cls'], 'id': ex['id'], 'tree': ex['tree'], 'found': ex['found'][:12]})
    ctx.extra['algebra'] = {'terms': len(rows), 'asked': st['asked'], 'events': len(steps), 'classes': len(classes), 'trees': len(ca.TREES),
                            'exhaustive': f'contexts x {{OR, AND}} x pairs of {len(ms)} members (atoms plain / negated)', 'sampled_ids': n_ids,
                            'gen_wall_s': round(gen_wall, 1), 'replay_wall_s': round(rep_wall, 1)}
    need = {'NOT:OR(pt,fc)', 'NOT:OR(fc,pt)', 'NOT:OR(pt,ix)', 'NOT:AND(pt,fc)', 'NOTNOT:OR(pt,fc)', 'AND(pt,NOT):OR(pt,fc)', 'M(NOT):OR(pt,fc)',
            'NOT(M):OR(pt,fc)', 'bare:OR(!pt,fc)', 'NOT:OR(pt,!fc)', 'NOT:OR(w,fc)', 'OR(fc,NOT):AND(pt,pt)'}
    if need - classes:
        raise common.Machinery(f'vacuity guard: algebra classes never generated: {sorted(need - classes)}')


# ----------------------------------------------------------------------------------------------------------------------
def run(ctx):
    ctx.rule = ('quantifiers: distinct instances (pattern list of <= 3 items over 8411 decoded items, word over {a,b,c} of length '
                '<= 4) with at least one quantifier and a non-empty word, each replayed on 2-3 of 17 list fields / pure ASTs and '
                'against re.fullmatch; structure: distinct (event kind, pattern class, form, on, nested) tuples executed')
    ctx.assumptions += [
        'concretisation (abstract item -> M-pattern spelling, letter -> element source) and the canonical naming of tag values by '
        'child path are harness code (trusted); the regular expression text is written by the specification (Quant!Regex)',
        'domain of the three-way comparison: Quant!InDomain (non-empty sub-sequence bodies, one capture site, references after '
        'their definition, nesting depth 1); AtomicSubseq is the documented non-mixing of sub-sequence backtracking, (?>...) in re',
        'StructureOnly only for patterns without source-text sub-patterns (str / regex on nodes, MRE at node level are flagged src)',
        'SearchIsFilter with nested=False uses the documented pruning (PruneNested) and on=enter only']
    parts = os.environ.get('C17_PARTS', 'mc,quant,match,alg').split(',')  # development aid only; the default runs everything
    cfg = 'QuantMC' if ctx.quick else 'QuantMC_thorough'
    if 'mc' in parts:
        ctx.model('QuantMC', cfg, required=('Second', 'PickFlat', 'PickSubseq'), workers=16, heap='4g')
    if 'quant' in parts:
        run_quant(ctx)
        ctx.require_clauses(QUANT_CLAUSES)
    if 'match' in parts:
        run_match(ctx)
        ctx.require_clauses(MATCH_CLAUSES)
    if 'alg' in parts:
        ctx.model('SearchAlgMC', 'SearchAlgMC', required=('First', 'Pick'), workers=16, heap='4g')
        run_alg(ctx)
        ctx.require_clauses(ALG_CLAUSES)
    if not ctx.quick:
        ctx.exhaustive = False  # exhaustive sub-universe + samples, see coverage.quant.exhaustive


# ----------------------------------------------------------------------------------------------------------------------
def replay(ctx, path):
    with open(path) as f:
        rp = json.load(f)
    ctx.seed = rp.get('seed', ctx.seed)
    if rp['kind'] == 'quant':
        rows, items, _ = cq.gen_tables([{'prods': [], 'ids': [rp['id']]}], nproc=1)
        steps = cq.replay_rows(rows, items, ctx.seed, rp['ncont'], nproc=1)
        verd = ctx.validate({'traces': [{'id': 1, 'steps': steps}]}, module='QuantTrace')
        print('row', rows, '\nobserved', json.dumps(steps, indent=1)[:3000])
        for (l, clause, klass) in verd[1]['bad']:
            ctx.violation(clause, klass, rp)
    elif rp['kind'] == 'alg':
        rows, _ = ca.gen_terms([{'prods': [], 'ids': [rp['id']]}], nproc=1)
        steps = [s for s in ca.replay_terms(rows, ctx.seed, nproc=1, ntrees=rp.get('ntrees', 3)) if s['tree'] == rp['tree']]
        verd = ctx.validate(dict(ca.batch_tables(), traces=[{'id': 1, 'steps': steps}]), module='SearchAlgTrace')
        print('term', json.dumps(rows[0])[:1500], '\nobserved', json.dumps(steps)[:2000])
        for (l, clause, klass) in verd[1]['bad']:
            ctx.violation(clause, klass, rp)
    else:
        from corpus.programs import PROGRAMS
        PROGRAMS = list(PROGRAMS) + cm.EXTRA_PROGRAMS
        pi, seed, nt, ns = rp['job']
        tr, _ = cm.record_program(pi, PROGRAMS[pi], seed, nt, ns)
        tr['id'] = 1
        verd = ctx.validate({'traces': [tr]}, module='MatchTrace')
        for (l, clause, klass) in verd[1]['bad']:
            print('step', l, clause, klass, json.dumps(tr['steps'][l - 1])[:1500])
            ctx.violation(clause, klass, rp)
    return ctx.finish()


# ----------------------------------------------------------------------------------------------------------------------
def selftest(ctx):
    """Binding demonstration: corrupt ONE recorded field of an accepted trace; TLC must reject it naming the right clause."""
    import copy
    from corpus.programs import PROGRAMS
    ok = True
    ids = [[13, 3, 0, 14], [9, 1, 0, 5], [96 + 18 * 26 + 7, 0, 0, 50]]      # a* . on aab ; a? a on ab ; (a b){..} on abab
    rows, items, _ = cq.gen_tables([{'prods': [], 'ids': ids}], nproc=1)
    rows.sort(key=lambda r: r['id'])
    steps = cq.replay_rows(rows, items, 0, 2, nproc=1)
    base = ctx.validate({'traces': [{'id': 1, 'steps': steps}]}, module='QuantTrace')[1]
    known = {'elemstep', 'stalestatic'}
    clean = [b for b in base['bad'] if b[2].split('/')[0] not in known]
    print('quant base verdict:', clean or 'accepted')
    ok &= not clean
    acc_i = next(i for i, (r, s) in enumerate(zip(rows, steps)) if r['acc'] and any(o['acc'] and o['its'] for o in s['obs']))

    def corrupt(fn, expect):
        nonlocal ok
        st = copy.deepcopy(steps)
        fn(st[acc_i])
        v = ctx.validate({'traces': [{'id': 1, 'steps': st}]}, module='QuantTrace')[1]
        got = sorted({c for (l, c, k) in v['bad'] if l == acc_i + 1})
        print(f'quant corrupt -> expect {expect}: got {got}')
        ok &= expect in got

    def c_its(s):
        o = next(o for o in s['obs'] if o['acc'] and o['its'])
        o['its'][0][2] += 1
    corrupt(c_its, 'PfstCaptures')
    corrupt(lambda s: s['obs'][0].__setitem__('acc', False), 'PfstAccept')
    corrupt(lambda s: s['re'].__setitem__('acc', False), 'ReAccept')
    corrupt(lambda s: s['re']['spans'][0].__setitem__(2, s['re']['spans'][0][2] + 1), 'ReSpans')
    corrupt(lambda s: s['id'].__setitem__(0, 9999), 'RowInDomain')

    tr, _ = cm.record_program(1, PROGRAMS[1], 0, 6, 6)
    tr['id'] = 1
    base = ctx.validate({'traces': [tr]}, module='MatchTrace')[1]
    clean = [b for b in base['bad'] if not (b[1] == 'SearchIsFilter' and ('MNOTx' in b[2] or 'MANDx' in b[2] or b[2].endswith('compiter')))]
    print('match base verdict:', clean or 'accepted')
    ok &= not clean

    def corrupt_m(pick, fn, expect):
        nonlocal ok
        t2 = copy.deepcopy(tr)
        i = next(i for i, s in enumerate(t2['steps']) if pick(i, s, t2['steps']))
        fn(t2['steps'][i])
        v = ctx.validate({'traces': [t2]}, module='MatchTrace')[1]
        got = sorted({c for (l, c, k) in v['bad'] if l >= i + 1} - {c for (l, c, k) in base['bad']})
        print(f'match corrupt step {i + 1} -> expect {expect}: got {got}')
        ok &= expect in got

    def later_other_form(i, s, steps):
        return s['k'] == 'match' and not s['src'] and s['acc'] and any(
            x['k'] == 'match' and x['p'] == s['p'] and x['t'] == s['t'] and x['form'] != s['form'] for x in steps[:i])

    def later_same_form(i, s, steps):
        return s['k'] == 'match' and any(
            x['k'] == 'match' and x['p'] == s['p'] and x['t'] == s['t'] and x['form'] == s['form'] for x in steps[:i])
    corrupt_m(later_other_form, lambda s: s.__setitem__('tags', s['tags'] + ' '), 'StructureOnly')
    corrupt_m(later_same_form, lambda s: s.__setitem__('acc', not s['acc']), 'HistoryFree')
    corrupt_m(lambda i, s, st: s['k'] == 'match' and s['exp'] == 'own', lambda s: s.__setitem__('acc', False), 'OwnMatches')
    corrupt_m(lambda i, s, st: s['k'] == 'match' and s['exp'] == 'mut', lambda s: s.__setitem__('acc', True), 'MutantRejected')
    corrupt_m(lambda i, s, st: s['k'] == 'search' and len(s['found']) >= 2 and s['found'][0] != s['found'][1],
              lambda s: s['found'].__setitem__(slice(0, 2), s['found'][1::-1]), 'SearchIsFilter')
    corrupt_m(lambda i, s, st: s['k'] == 'search' and len(s['found']) >= 1, lambda s: s['found'].pop(), 'SearchIsFilter')
    corrupt_m(lambda i, s, st: s['k'] == 'search' and len(s['found']) >= 1,
              lambda s: s['ftags'].__setitem__(0, s['ftags'][0] + 'x'), 'SearchTags')
    print('SELFTEST', 'OK' if ok else 'FAILED')
    ctx.states = max(ctx.states, 1)
    ctx.transitions = max(ctx.transitions, 1)
    return 0 if ok else 2
