"""The FSTView state machine (part of C02 "no stale state in views" and C03 "sub-view operations = base operations at
shifted indices, Python list semantics").  Not a check of its own: `run_views(ctx)` is called from checks/c02.py and
checks/c03.py with their Ctx.

M  spec/ViewsMC.tla model-checks spec/Views.tla exhaustively within small constants (all interleavings of operations
   through two views, edits behind their back, uses) + operator theorems over the full index range (ASSUME).
G  spec/ViewsSim.tla (tlc -simulate) generates behaviours; harness/views_replay.py replays each on real FSTViews of several
   container kinds and records the observations.
V  the recorded traces are validated by TLC against spec/ViewsTrace.tla, which re-executes the actions of Views.tla on the
   recorded arguments.  Every verdict comes from there.

Standalone: `/venv/bin/python -m checks.views_part [--tier quick|thorough] [--seed N] [--replay PATH]`.
"""

from __future__ import annotations

import json
import random
import sys
import time

from checks import common
from harness import tlc
from harness import views_replay as R

REQUIRED_ACTIONS = ('DoSetSlice', 'DoDelSlice', 'DoSetIdx', 'DoDelIdx', 'DoInsert', 'DoAppend', 'DoExtend', 'DoPrepend',
                    'DoPrextend', 'DoReplaceOne', 'DoReplaceSeq', 'DoRemove', 'DoCut', 'DoUseClean', 'DoUseStale',
                    'MkFull', 'DoMkSub', 'DoBasePut', 'DoIndexError', 'DoInverted')
REQUIRED_CLAUSES = ['KnownEvent', 'Outcome', 'BaseIsPythonList', 'BaseUnchanged', 'LiveIsSource', 'ViewExtent',
                    'ReclipAfterForeignEdit', 'ViewLen', 'ViewContents', 'FullViewIsField', 'SubviewComposes',
                    'CutReturns', 'CopyReturns', 'G.ModelAgree']

RULE = ('views: distinct (container kind, action, outcome, number of new elements) executed on real FSTViews')


def kinds_for(i: int, quick: bool, rng: random.Random) -> list:
    """Container kinds behaviour number i is replayed on."""
    names = list(R.KINDS)
    core = R.QUICK_CORE[i % len(R.QUICK_CORE)]
    rest = [n for n in names if n != core]
    return [core] + rng.sample(rest, 2 if quick else 11)


def build_traces(behs, quick, seed):
    rng = random.Random(seed)
    traces, meta = [], {}
    for i, beh in enumerate(behs):
        for kn in kinds_for(i, quick, rng):
            tr = R.replay(beh, kn, len(traces) + 1)
            if tr is None:
                continue
            meta[tr['id']] = (i, kn)
            traces.append(tr)
    return traces, meta


def judge(ctx, traces, behs, meta, verd):
    for tr in traces:
        v = verd[tr['id']]
        bi, kn = meta.get(tr['id'], (None, tr['kind']))
        for (stepno, clause, klass) in v['bad']:
            st = tr['steps'][stepno - 1] if 0 < stepno <= len(tr['steps']) else {}
            ctx.violation(f'Views.{clause}', klass,
                          {'part': 'views', 'kind': kn, 'step': stepno, 'event': st,
                           'behaviour': behs[bi] if bi is not None else None, 'trace': tr},
                          detail=json.dumps({k: st.get(k) for k in ('op', 'a', 'b', 'new', 'outcome', 'obs', 'base')}))
        for st in tr['steps']:
            ctx.distinct.add(('views', kn, st['op'], st['outcome'], len(st['new'])))
        ctx.evals += len(tr['steps'])


def run_views(ctx, n_quick=250, n_thorough=1200, model=True):
    """Model-check the view state machine, generate behaviours, replay them on the real code, validate by TLC."""
    t0 = time.time()
    q = ctx.quick
    if model:      # the model does not depend on pfst; mutant runs of the standalone runner may skip it
        try:
            ctx.model('ViewsMC', 'ViewsMC' if q else 'ViewsMC_thorough', required=REQUIRED_ACTIONS, heap='2g')
        except common.Machinery as e:
            if '(rc=-9)' not in str(e):     # JVM killed from outside (OOM killer on a loaded host): one more try
                raise
            ctx.model('ViewsMC', 'ViewsMC' if q else 'ViewsMC_thorough', required=REQUIRED_ACTIONS, heap='2g', workers=4)
    t1 = time.time()
    num, depth = (n_quick, 9) if q else (n_thorough, 15)
    try:
        behs, r = R.simulate('ViewsSim' if q else 'ViewsSim_thorough', num, depth, ctx.seed, workers=2 if q else 8)
    except tlc.TLCError as e:
        raise common.Machinery(str(e)) from e
    if len(behs) < num // 2:
        raise common.Machinery(f'ViewsSim produced only {len(behs)} behaviours of {num}\n' + r['out'][-1500:])
    t2 = time.time()
    traces, meta = build_traces(behs, q, ctx.seed)
    t3 = time.time()
    verd = {}
    CH = 4000
    for i in range(0, len(traces), CH):
        verd.update(ctx.validate({'traces': traces[i:i + CH]}, module='ViewsTrace', heap='4g'))
    judge(ctx, traces, behs, meta, verd)
    ctx.require_clauses(REQUIRED_CLAUSES)
    t4 = time.time()
    kinds = sorted({t['kind'] for t in traces})
    ctx.extra['views_part'] = {
        'behaviours': len(behs), 'depth': depth, 'traces': len(traces), 'steps': sum(len(t['steps']) for t in traces),
        'kinds': kinds, 'wall_s': {'model': round(t1 - t0, 1), 'simulate': round(t2 - t1, 1), 'replay': round(t3 - t2, 1),
                                   'validate': round(t4 - t3, 1)}}
    if traces:
        t = traces[len(traces) // 2]
        ctx.sample({'views': t['kind'], 'init': t['init'],
                    'script': [(s['op'], s['v'], s['w'], R._py(s['a']), R._py(s['b']), s['new'], s['outcome'])
                               for s in t['steps']], 'final_src': t['src']})
    ctx.rule = (ctx.rule + '; ' if ctx.rule else '') + RULE
    ctx.assumptions += [
        'views: Views.tla models the field as a list of distinct ids; element ids are unique names e<k> in the real '
        'containers; containers with a grammatical minimum length are only driven down to that length (behaviour prefix)',
        'views: re-clipping after edits behind a view\'s back is the documented truncation (named rule Reclip), a view is '
        'not required to follow its elements; view[a:] of a whole-field view has a fixed stop (SliceStopIsFixed)']
    return ctx.extra['views_part']


def replay_views(ctx, rep: dict):
    """Re-execute a recorded views violation against the current pfst and re-validate it."""
    beh, kn = rep.get('behaviour'), rep.get('kind')
    if not beh or kn not in R.KINDS:
        raise common.Machinery('not a views replay file')
    tr = R.replay(beh, kn, 1)
    if tr is None:
        raise common.Machinery('behaviour does not apply to the container kind any more')
    verd = ctx.validate({'traces': [tr]}, module='ViewsTrace', heap='4g')
    judge(ctx, [tr], [beh], {1: (0, kn)}, verd)


def selftest(ctx, n=40):
    """Binding demonstration: corrupt ONE recorded field of an accepted trace; TLC must reject it naming the clause."""
    import copy
    behs, _ = R.simulate('ViewsSim', n, 9, ctx.seed)
    traces, _ = build_traces(behs, True, ctx.seed)
    verd = ctx.validate({'traces': traces}, module='ViewsTrace', heap='4g')
    good = [t for t in traces if not verd[t['id']]['bad']]

    def pick(pred):
        for t in good:
            for i, st in enumerate(t['steps']):
                if pred(st):
                    return copy.deepcopy(t), i
        raise common.Machinery('selftest: no suitable step')

    cases = []
    t, i = pick(lambda st: st['op'] == 'insert' and st['obs']['has'] and st['obs']['len'] >= 2)
    t['steps'][i]['obs']['stop'] += 1
    cases.append(('view.stop off by one after insert', t, i, {'ViewExtent', 'ReclipAfterForeignEdit'}))
    t, i = pick(lambda st: st['op'] in ('setslice', 'extend', 'prextend') and len(st['base']) >= 2)
    b = t['steps'][i]['base']
    b[0], b[1] = b[1], b[0]
    cases.append(('two field elements swapped', t, i, {'BaseIsPythonList'}))
    t, i = pick(lambda st: st['op'] == 'delidx' and st['outcome'] == 'IndexError')
    t['steps'][i]['outcome'] = 'ok'
    cases.append(('IndexError swallowed', t, i, {'Outcome'}))
    t, i = pick(lambda st: st['op'] == 'use' and st['obs']['has'] and st['obs']['len'] >= 1)
    t['steps'][i]['obs']['elems'] = t['steps'][i]['obs']['elems'][1:] + [99]
    cases.append(('items of the view shifted by one', t, i, {'ViewContents'}))
    t, i = pick(lambda st: st['op'] == 'mksub' and st['obs']['has'] and st['obs']['start'] >= 1)
    t['steps'][i]['obs']['start'] -= 1
    cases.append(('sub-view start offset dropped', t, i, {'ViewExtent', 'ReclipAfterForeignEdit'}))
    for k, (_, t, _, _) in enumerate(cases):
        t['id'] = k + 1
    verd = ctx.validate({'traces': [c[1] for c in cases]}, module='ViewsTrace', heap='4g')
    ok = True
    for k, (what, t, i, want) in enumerate(cases):
        got = {(s, c) for (s, c, _) in verd[k + 1]['bad']}
        hit = any(s == i + 1 and c in want for (s, c) in got)
        ok &= hit
        print(f'selftest: {what}: step {i + 1} -> {sorted(got)} {"REJECTED as expected" if hit else "NOT REJECTED"}')
    return ok


def main(argv):
    import argparse
    import os
    ap = argparse.ArgumentParser()
    ap.add_argument('--tier', default=os.environ.get('VERIF_TIER', 'quick'))
    ap.add_argument('--seed', type=int, default=int(os.environ.get('VERIF_SEED', '0')))
    ap.add_argument('--replay')
    ap.add_argument('--selftest', action='store_true')
    ap.add_argument('--no-model', action='store_true', help='skip the ViewsMC model-checking run')
    a = ap.parse_args(argv)
    ctx = common.Ctx('VIEWS', a.tier, a.seed)
    try:
        if a.selftest:
            return 0 if selftest(ctx) else 1
        if a.replay:
            with open(a.replay) as f:
                replay_views(ctx, json.load(f))
        else:
            print(json.dumps(run_views(ctx, model=not a.no_model)))
    except common.Machinery as e:
        print('MACHINERY:', str(e)[:3000])
        return 2
    finally:
        tlc.cleanup()
    seen = set()
    for v in ctx.violations:
        if (v['clause'], v['class']) not in seen:
            seen.add((v['clause'], v['class']))
            print(f'VIOLATION part=views replay={v["replay"]} clause={v["clause"]} class={v["class"]}')
    print(f'views {a.tier} seed={a.seed}: {ctx.evals} steps, {ctx.traces} traces validated, {ctx.states} states, '
          f'{len(ctx.distinct)} distinct, clauses={ctx.clause_counts}, {len(ctx.violations)} violation(s), '
          f'{round(time.time() - ctx.t0, 1)} s')
    return 1 if ctx.violations else 0


if __name__ == '__main__':
    sys.exit(main(sys.argv[1:]))
