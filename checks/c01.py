"""C01 - after any successful edit the source text still parses to exactly the live tree."""

from checks import common, editcheck

PROPS = ('C01',)


def run(ctx):
    ctx.rule = ('G: TLC-generated request table (ContainersGen) replayed on 43 container templates x argument layouts. V: random edit histories (every list-valued/optional/single field reachable x index class x code form '
                '{source, AST, FST} x entry point x option set, pars in {auto, True}, norm in {default, True}) on 45 '
                'corpus programs x 10 layout variants; (F) systematic deletions of every node x field of the corpus; after every step TLC evaluates Sync (pid of live tree = pid of '
                'ast.parse(source): types, values, ctx, all four positions of every node) and RootIdentity. '
                'distinct = distinct (kind, field, form, entry point, code form, outcome, bound kinds) tuples executed')
    ctx.assumptions += ['projection (harness/proj.py) is trusted; oracle = ast.parse of the whole source',
                        'domain: pars not False; request valid (pure-AST surgery unparses and re-parses); result '
                        'respects grammar minimum lengths unless norm=True; f-string internals are edited only through fv_replace events (format specs excluded); raw mode excluded (C10)']
    ctx.model('ContainersMC', 'ContainersMC', required=('DoPutSlice', 'DoPutOne', 'DoDelOne'))
    editcheck.run_sweep(ctx, per_template=20 if ctx.quick else 0, n_arg=150 if ctx.quick else 0, props=PROPS)
    # (F) systematic deletions (single-valued fields, tails / ends of every list field) of every node x field of the corpus
    editcheck.run_fieldsweep(ctx, variants=(1, 4, 6, 8) if ctx.quick else tuple(range(10)), per_class=2 if ctx.quick else 6,
                             props=PROPS)
    n_hist, n_steps = (1300, 10) if ctx.quick else (32000, 25)
    specs = editcheck.history_specs(ctx, n_hist, n_steps)
    res = editcheck.generate(ctx, specs, mode='valid')
    val = editcheck.validate_all(ctx, res)
    editcheck.collect(ctx, val, PROPS)
    ctx.require_clauses(['Sync', 'RootIdentity'])


def replay(ctx, path):
    return editcheck.replay(ctx, path, PROPS)
