"""C12 - a failed edit leaves the target tree untouched and still editable."""

from checks import common, editcheck

PROPS = ('C12',)


def run(ctx):
    ctx.rule = ('M: Registry.tla (enter/success/fail protocol with a fault after every step; Quiescent, Balanced). '
                'V: edit histories biased to failing requests (unparsable / wrong-category code, ordering rules, '
                'out-of-range and inverted indices, invalid options, consumed or non-root FST as code, own root as code, '
                'deletions below minimum length with norm=True) interleaved with valid edits; TLC evaluates '
                'AtomicOnRaise.{tree,text,srcparse}, RegistryQuiescent, NextEditAfterRaise on every event. '
                'distinct = distinct (kind, field, form, entry point, code form, failure kind) tuples that raised')
    ctx.assumptions += ['projection trusted; registry emptiness is an auxiliary observation of fst_core._MODIFYING; the '
                        'verdict also rests on the public next-edit-succeeds-and-syncs clause']
    ctx.model('RegistryMC', 'RegistryMC', required=('Enter', 'Success', 'Fault', 'Fail', 'Catch'))
    editcheck.run_sweep(ctx, per_template=20 if ctx.quick else 0, n_arg=150 if ctx.quick else 0, props=PROPS)
    # (F) systematic deletions (single-valued fields, tails / ends of every list field) of every node x field of the corpus
    editcheck.run_fieldsweep(ctx, variants=(0,) if ctx.quick else tuple(range(10)), per_class=2 if ctx.quick else 6,
                             props=PROPS)
    n_hist, n_steps = (1300, 10) if ctx.quick else (32000, 20)
    specs = editcheck.history_specs(ctx, n_hist, n_steps)
    res = editcheck.generate(ctx, specs, mode='failing')
    val = editcheck.validate_all(ctx, res)
    editcheck.collect(ctx, val, PROPS)
    ctx.require_clauses(['AtomicOnRaise.tree', 'AtomicOnRaise.text', 'RegistryQuiescent', 'NextEditAfterRaise'])


def replay(ctx, path):
    return editcheck.replay(ctx, path, PROPS)
