"""C16 - scope analysis agrees with Python's own symbol table.

(M) spec/ScopeMC.tla builds every abstract program within the bounds (scopes x site kinds x name sharing) and checks that
    Scope.tla is total and self-consistent on each (ownership partitions the sites, header expressions are never owned by
    their own scope, pfst's documented category algebra, free/local mapping to symtable flags).
(G) the state dump of that run is the case table: every well-formed program is rendered to source, CPython's symtable and
    pfst's walk(scope=True) / scope_symbols(full=True) are recorded, and spec/ScopeTrace.tla judges both against the
    spec (Spec.* clauses bind the spec to CPython - a failure there is a machinery failure; Walk.* / Symbols.* judge pfst).
(V) corpus programs (and pfst's own sources in the thorough tier): walk(scope=True) of every scope node against the AST
    ownership rules of spec/ScopeAst.tla (WalkAst.*), and scope_symbols() against symtable rows (Table.lower/upper.*).
"""

from __future__ import annotations

import glob
import json
import multiprocessing as mp
import os
import random
import re
import zlib

from checks import common

G_CLAUSES = ['Walk.all.missing', 'Walk.all.extra', 'Walk.filt.missing', 'Walk.back.extra', 'Symbols.load.missing',
             'Symbols.store.extra', 'Symbols.local.missing', 'Symbols.free.extra', 'Symbols.global.missing',
             'Symbols.nonlocal.extra', 'Symbols.del.missing', 'Spec.Rows', 'Spec.Tables', 'Spec.Accepted']
V_CLAUSES = ['WalkAst.missing', 'WalkAst.extra', 'Table.lower.load', 'Table.lower.store', 'Table.upper.load',
             'Table.upper.store', 'Table.upper.free', 'Table.lower.free', 'Table.upper.local', 'Table.lower.local']


def _fst():
    from fst import FST
    return FST


def _filt():
    from harness import c16_scope as H
    return set(H.NAME_BEARING)


def _variant(P, seed):
    return (zlib.crc32(json.dumps(P, sort_keys=True).encode()) + seed * 7919) % 100003


def _strip(P):
    return {'sc': P['sc'], 'st': P['st']}


def site_class(P, i):
    """Python mirror of Scope!SiteClass, used for the coverage statistics only (never for a verdict)."""
    def path(c):
        if c == 1:
            return 'module'
        h = P['st'][P['sc'][c - 1]['site'] - 1]
        return P['sc'][c - 1]['kind'] + '@' + h['k'] + '/' + path(h['c'])
    t = P['st'][i - 1]
    return t['k'] + ':' + path(t['c'])


def _validate(traces, heap='2g'):
    from harness import tlc
    # many validators run side by side: keep each JVM small (the default would start one GC thread per core)
    os.environ.setdefault('JAVA_TOOL_OPTIONS', '-XX:ParallelGCThreads=2 -XX:CICompilerCount=2')
    verd, st = tlc.run_traces({'traces': traces}, module='ScopeTrace', heap=heap)
    return verd, st


def _summarise(traces, verd, keep):
    """Compact result of one validated shard: counters + the traces that have failed clauses."""
    out = {'n': len(traces), 'evals': 0, 'clauses': {}, 'bad': []}
    for t in traces:
        v = verd[t['id']]
        out['evals'] += len(v['seen'])
        for c in v['seen']:
            out['clauses'][c] = out['clauses'].get(c, 0) + 1
        if v['bad']:
            out['bad'].append((keep(t), sorted(v['bad'])))
    return out


def _by_class(res, bad):
    """Keep, per distinct (clause, class), the number of failing traces and the first one as the example: results stay small
    however many traces fail, and no class can hide behind another."""
    by = res.setdefault('byclass', {})
    for info, entries in bad:
        seen = set()
        for step, clause, klass in entries:
            if (clause, klass) in seen:
                continue
            seen.add((clause, klass))
            slot = by.get((clause, klass))
            if slot is None:
                ex = {k: v for k, v in info.items() if k != 'steps'}
                ex['failing_step'] = step
                if 'steps' in info:
                    ex['recorded'] = info['steps'][step - 1]
                by[(clause, klass)] = [1, ex]
            else:
                slot[0] += 1


def _g_shard(args):
    """Worker: parse a byte range of the TLC state dump, render / record / validate its well-formed programs."""
    path, lo, hi, seed, shard, limit, deadline = args
    import time
    from harness import c16_scope as H, tlc
    tlc._SCRATCH = None  # forked from the parent: use an own scratch directory (cleanup() must not remove the parent's)
    FST, filt = _fst(), _filt()
    with open(path, 'rb') as f:
        f.seek(lo)
        data = f.read(hi - lo + (1 << 16))  # states are far smaller than 64 KiB: read past the end to finish the last one
    text = data.decode()
    starts = [m.start() for m in re.finditer(r'^State \d+:\s*$', text, flags=re.M)]
    mine = [s for s in starts if s < hi - lo]
    if not mine:
        return {'n': 0, 'states': 0, 'wf': 0, 'evals': 0, 'clauses': {}, 'bad': [], 'tlc': [], 'classes': [], 'samples': []}
    nxt = {s: e for s, e in zip(starts, starts[1:] + [len(text)])}
    rng = random.Random(seed * 1000 + shard)
    res = {'n': 0, 'states': 0, 'wf': 0, 'evals': 0, 'clauses': {}, 'bad': [], 'tlc': [], 'classes': [], 'samples': []}
    classes = set()
    CH = 5000

    def flush(traces):
        if not traces:
            return
        verd, st = _validate([{k: v for k, v in t.items() if k not in ('src', 'variant')} for t in traces])
        part = _summarise(traces, verd, lambda t: {'mode': 'prog', 'P': t['P'], 'variant': t['variant'], 'source': t['src'],
                                                   'steps': t['steps']})
        res['n'] += part['n']
        res['evals'] += part['evals']
        for c, n in part['clauses'].items():
            res['clauses'][c] = res['clauses'].get(c, 0) + n
        _by_class(res, part['bad'])
        res['tlc'].append(st)

    traces = []
    for s in mine:  # streaming: nothing but the current chunk is kept in memory
        block = text[s:nxt[s]]
        parts = re.split(r'^(?:/\\ )?([A-Za-z_][A-Za-z_0-9]*) = ', block, flags=re.M)
        st = {parts[k]: H.parse_tla(parts[k + 1]) for k in range(1, len(parts), 2)}
        res['states'] += 1
        if not st.get('wf'):
            continue
        res['wf'] += 1
        if deadline is not None and time.time() > deadline:
            res['truncated'] = res.get('truncated', 0) + 1  # out of budget: counted, not judged
            continue
        if limit is not None and rng.random() >= limit:
            continue
        P = _strip(st['prog'])
        var = _variant(P, seed)
        tr = H.record_program(P, var, FST, filt)
        tr.update(id=shard * 10000000 + res['wf'], mode='prog', variant=var)
        if not res['samples']:
            res['samples'].append({'program': tr['P'], 'source': tr['src']})
        traces.append(tr)
        for i in range(1, len(P['st']) + 1):
            classes.add(site_class(P, i))
        if len(traces) >= CH:
            flush(traces)
            traces = []
    flush(traces)
    res['classes'] = sorted(classes)
    tlc.cleanup()
    return res


def _v_shard(args):
    """Worker: record and validate a list of (name, source) programs."""
    items, shard, seed = args
    from harness import c16_corpus as C, tlc
    tlc._SCRATCH = None
    FST = _fst()
    traces, skipped, nnodes = [], 0, 0
    for k, (name, src) in enumerate(items, 1):
        steps = C.record_corpus(src, FST, back=(seed + k) % 2 == 1)
        if steps is None:
            skipped += 1
            continue
        nnodes += len(steps[0]['nodes'])
        traces.append({'id': shard * 100000 + k, 'mode': 'corpus', 'name': name, 'steps': steps})
    res = {'n': 0, 'skipped': skipped, 'nodes': nnodes, 'scopes': sum(len(t['steps']) - 1 for t in traces), 'evals': 0,
           'clauses': {}, 'bad': [], 'tlc': [], 'samples': []}
    if traces:
        verd, st = _validate([{k: v for k, v in t.items() if k != 'name'} for t in traces], heap='4g')

        def keep(t):
            return {'mode': 'corpus', 'name': t['name']}
        part = _summarise(traces, verd, keep)
        for t in traces:
            for step, clause, klass in verd[t['id']]['bad']:
                e = t['steps'][step - 1]
                part.setdefault('detail', {})[(t['id'], step)] = (
                    {k: e[k] for k in ('kind', 'line', 'rows', 'pf', 'compn') if k in e} if e['u'] == 'tab' else {})
        res.update(n=part['n'], evals=part['evals'], clauses=part['clauses'], tlc=[st])
        full = []
        for (info, bad), t in zip(part['bad'], [t for t in traces if verd[t['id']]['bad']]):
            full.append((dict(info, facts={f'{s}': part['detail'].get((t['id'], s), {}) for s, _, _ in bad}), bad))
        _by_class(res, full)
        res['samples'] = [{'program': traces[0]['name'], 'nodes': len(traces[0]['steps'][0]['nodes']),
                           'scopes': len(traces[0]['steps']) - 1}]
    tlc.cleanup()
    return res


def _absorb(ctx, res, kind):
    ctx.traces += res['n']
    ctx.evals += res['evals']
    for c, n in res['clauses'].items():
        ctx.clause_counts[c] = ctx.clause_counts.get(c, 0) + n
    for st in res['tlc']:
        ctx.states += st.get('distinct', 0)
        ctx.transitions += st.get('generated', 0)
    if res['tlc']:
        ctx.models.append({'module': 'ScopeTrace', 'kind': 'trace-validation/' + kind, 'traces': res['n'],
                           'distinct': sum(s.get('distinct', 0) for s in res['tlc']),
                           'wall_s': round(sum(s['wall_s'] for s in res['tlc']), 2),
                           'batch_bytes': sum(s['batch_bytes'] for s in res['tlc'])})


def _report(ctx, res):
    """Turn failed clauses into violations; Spec.* failures mean the specification disagrees with CPython."""
    spec_bad = []
    for (clause, klass), (count, ex) in sorted(res.get('byclass', {}).items()):
        what = ex.get('source', ex.get('name', ''))
        if clause.startswith('Spec.') or clause in ('UnknownEvent', 'Walk.scopeNode'):
            spec_bad.append((clause, klass, what))
            continue
        f = ctx.known(clause, klass, what)
        if f is not None:
            ctx.known_hits.setdefault(f['id'], [f, 0])[1] += count
            continue
        ctx.violation(clause, klass, ex, detail=what)
        vc = ctx.extra.setdefault('violating_traces_by_class', {})
        vc[f'{clause} {klass}'] = vc.get(f'{clause} {klass}', 0) + count
    if spec_bad:
        c, k, s = spec_bad[0]
        raise common.Machinery(f'the specification disagrees with CPython on {len(spec_bad)} class(es): {c} {k}\n{s}')


def corpus_items(ctx):
    from corpus.programs import PROGRAMS
    from harness import c16_programs
    items = [(f'corpus[{i}]', p) for i, p in enumerate(PROGRAMS)]
    items += [(f'c16[{i}]', p) for i, p in enumerate(c16_programs.PROGRAMS)]
    files = sorted(glob.glob('/repo/src/fst/*.py'))
    if ctx.quick:
        rng = random.Random(ctx.seed * 31 + 5)
        small = [p for p in files if os.path.getsize(p) < 120000]
        files = rng.sample(small, min(4, len(small)))
    else:
        files += sorted(glob.glob('/repo/tests/*.py'))
        import sysconfig
        lib = sysconfig.get_paths()['stdlib']
        std = sorted(p for p in glob.glob(lib + '/*.py') + glob.glob(lib + '/*/*.py')
                     if os.path.getsize(p) < 150000 and '/test' not in p and 'site-packages' not in p and '/idlelib/' not in p)
        files += random.Random(ctx.seed * 17 + 3).sample(std, min(80, len(std)))
    for p in files:
        try:
            with open(p, encoding='utf-8') as f:
                items.append((p, f.read()))
        except OSError:
            pass
    return items


def run(ctx):
    from harness import tlc
    ctx.rule = ('M: ScopeMC.tla enumerates every abstract program in canonical form within the bounds of the cfg (nesting '
                'depth <= 3, <= 4 scopes, <= 3 sites per scope; (scopes-1)+identifier sites <= 3 quick / 4 thorough; one '
                'shareable name + fresh names) over 43 site kinds, with 9 invariants. G: every well-formed program of the '
                'state dump is rendered (seed-dependent syntactic variants), symtable + pfst recorded, ScopeTrace.tla judges '
                'Spec.* (spec = CPython) and Walk.{all,dflt,back,filt}.*, Symbols.<cat>.* (pfst = spec). V: corpus + pfst '
                'sources: WalkAst.* on every AST node, Table.lower/upper.* on every symtable table matched to a scope node. '
                'distinct = distinct site classes (site kind + chain of enclosing scope kinds and holding positions) exercised in G '
                'plus distinct (clause) evaluated')
    ctx.assumptions += ['renderer, dump reader, attribution of AST nodes to sites (via a second rendering with one identifier '
                        'per site) and the symtable/ast fact collectors are trusted (stdlib only)',
                        'CPython 3.12.1 only: PEP 709 inlining and PEP 695 scopes as that version records them',
                        'TypeParamFold / CompRootWalrus / PfstFree / LocalByStore are documented pfst conventions, modelled '
                        'as named deviations; GlobalAtModule and AmbiguousInline are excluded from judgement']
    cfg = 'ScopeMC' if ctx.quick else 'ScopeMC_thorough'
    dump = os.path.join(tlc.scratch(), 'scope')
    if ctx.quick:
        r = ctx.model('ScopeMC', cfg, required=('DoAddName', 'DoAddExprScope', 'DoAddDef'), extra=['-dump', dump],
                      heap='2g', timeout=3000)
    else:
        # action coverage (vacuity guard) on the small constants; the big run without -coverage, which triples its cost
        ctx.model('ScopeMC', 'ScopeMC', required=('DoAddName', 'DoAddExprScope', 'DoAddDef'), heap='2g', timeout=3000)
        r = ctx.model('ScopeMC', cfg, extra=['-dump', dump], heap='6g', timeout=3000, coverage=False)
    path = dump + '.dump'
    if not os.path.exists(path):
        raise common.Machinery('TLC wrote no state dump')
    size = os.path.getsize(path)
    nsh = 12 if size > (4 << 20) else 4
    bounds = [size * k // nsh for k in range(nsh + 1)]
    import time
    # stop rendering new programs 13 min after the start, but give the (G) phase at least 8 min (slow / loaded machines)
    deadline = max(ctx.t0 + (1500 if ctx.quick else 780), time.time() + 480)
    g_args = [(path, bounds[k], bounds[k + 1], ctx.seed, k + 1, None, deadline) for k in range(nsh)]
    items = corpus_items(ctx)
    # big files first so that the pool stays busy
    items.sort(key=lambda it: -len(it[1]))
    nv = 6 if ctx.quick else 14
    v_args = [(items[k::nv], 50 + k, ctx.seed) for k in range(nv) if items[k::nv]]
    t1 = time.time()
    with mp.get_context('fork').Pool(8 if ctx.quick else 12) as pool:
        vres = pool.map_async(_v_shard, v_args, chunksize=1)
        gres = pool.map(_g_shard, g_args, chunksize=1)
        vres = vres.get()
    ctx.extra['phase_s'] = {'model': r['wall_s'], 'record_and_validate': round(time.time() - t1, 1)}
    nstates = sum(x['states'] for x in gres)
    if nstates != r.get('distinct'):
        raise common.Machinery(f'state dump has {nstates} states, TLC reported {r.get("distinct")}')
    for x in gres:
        _absorb(ctx, x, 'G')
        for c in x['classes']:
            ctx.distinct.add(c)
        for s in x['samples']:
            ctx.sample(s)
    for x in vres:
        _absorb(ctx, x, 'V')
        for s in x['samples']:
            ctx.sample(s)
    for c in ctx.clause_counts:
        ctx.distinct.add('clause:' + c)
    ctx.extra['G'] = {'programs_enumerated': nstates, 'well_formed_rendered': sum(x['wf'] for x in gres),
                      'validated': sum(x['n'] for x in gres)}
    ctx.extra['V'] = {'programs': sum(x['n'] for x in vres), 'skipped_not_compilable': sum(x['skipped'] for x in vres),
                      'ast_nodes': sum(x['nodes'] for x in vres), 'tables_matched': sum(x['scopes'] for x in vres)}
    ntrunc = sum(x.get('truncated', 0) for x in gres)
    ctx.extra['G']['not_judged_out_of_time_budget'] = ntrunc
    ctx.exhaustive = ntrunc == 0
    for x in gres + vres:
        _report(ctx, x)
    ctx.require_clauses(G_CLAUSES + V_CLAUSES)


def replay(ctx, path):
    with open(path) as f:
        rp = json.load(f)
    if rp.get('mode') == 'prog':
        from harness import c16_scope as H
        tr = H.record_program(rp['P'], rp['variant'], _fst(), _filt())
        tr.update(id=1, mode='prog')
        print(tr['src'])
        verd = ctx.validate({'traces': [{k: v for k, v in tr.items() if k != 'src'}]}, module='ScopeTrace')
        info = {'mode': 'prog', 'P': rp['P'], 'variant': rp['variant'], 'source': tr['src'], 'steps': tr['steps']}
    else:
        name = rp['name']
        src = dict(corpus_items_all()).get(name)
        if src is None:
            raise common.Machinery(f'unknown corpus item {name}')
        from harness import c16_corpus as C
        steps = C.record_corpus(src, _fst())
        verd = ctx.validate({'traces': [{'id': 1, 'mode': 'corpus', 'steps': steps}]}, module='ScopeTrace')
        info = {'mode': 'corpus', 'name': name}
    print('verdict', sorted(verd[1]['bad']))
    res = {}
    _by_class(res, [(info, sorted(verd[1]['bad']))] if verd[1]['bad'] else [])
    _report(ctx, res)
    return ctx.finish()


def corpus_items_all():
    class _C:
        quick = False
        seed = 0
    return corpus_items(_C())


def selftest(ctx):
    """Binding demonstration: corrupt one recorded field of an accepted trace; TLC must reject it naming the right clause."""
    from harness import c16_scope as H, c16_corpus as C
    P = {'sc': [{'kind': 'module', 'site': 0}, {'kind': 'function', 'site': 1}],
         'st': [{'c': 1, 'k': 'def', 'n': 'p', 'ch': 2, 'w': 1}, {'c': 2, 'k': 'default', 'n': 'u', 'ch': 0, 'w': 1},
                {'c': 2, 'k': 'param', 'n': 'u', 'ch': 0, 'w': 0}, {'c': 2, 'k': 'load', 'n': 'p', 'ch': 0, 'w': 1}]}
    good = H.record_program(P, 0, _fst(), _filt())
    good.update(id=1, mode='prog')
    cases = [(1, 'accepted as recorded', None, lambda t: None)]

    def drop_walk(t):  # the enclosing scope's walk no longer yields the default
        w = t['steps'][1]['walks'][0]
        w['sites'] = [i for i in w['sites'] if i != 2]

    def add_store(t):  # the function reports the default's name as its own store
        for y in t['steps'][2]['syms']:
            if y['cat'] == 'store':
                y['sites'] = sorted(set(y['sites']) | {2})

    def flip_flag(t):  # symtable row of the parameter loses its flag
        for tab in t['steps'][0]['tabs']:
            for row in tab['rows']:
                if 'par' in row['f']:
                    row['f'] = ['ref']
    cases += [(2, 'walk of module drops the default', 'Walk.all.missing', drop_walk),
              (3, 'function stores the default name', 'Symbols.store.extra', add_store),
              (4, 'symtable parameter flag flipped', 'Spec.Rows', flip_flag)]
    traces = []
    for tid, _, _, mut in cases:
        t = json.loads(json.dumps({k: v for k, v in good.items() if k != 'src'}))
        t['id'] = tid
        mut(t)
        traces.append(t)
    src = 'def f(a, b=d):\n    x = [y for y in a]\n    return lambda q=x: q\n'
    steps = C.record_corpus(src, _fst())
    cgood = {'id': 5, 'mode': 'corpus', 'steps': steps}
    c1 = json.loads(json.dumps(cgood))
    c1['id'] = 6
    c1['steps'][0]['yb'][0] = []  # nobody yielded the Module node
    c2 = json.loads(json.dumps(cgood))
    c2['id'] = 7
    tab = [e for e in c2['steps'] if e['u'] == 'tab' and e['kind'] == 'function'][0]
    tab['pf']['store'] = sorted(tab['pf']['store'] + ['d'])
    traces += [cgood, c1, c2]
    cases += [(5, 'corpus trace accepted as recorded', None, None), (6, 'module node yielded by no walk', 'WalkAst.missing', None),
              (7, "function 'store' gains the default's name", 'Table.upper.store', None)]
    verd = ctx.validate({'traces': traces}, module='ScopeTrace')
    ok = True
    for tid, what, clause, _ in cases:
        bad = sorted({c for _, c, _ in verd[tid]['bad']})
        good_ = (bad == []) if clause is None else (clause in bad)
        ok &= good_
        print(f'selftest {tid}: {what}: rejected clauses {bad} -> {"ok" if good_ else "UNEXPECTED"}')
    return 0 if ok else 2
