"""CLI: ./check <ID> [--tier quick|thorough] [--replay PATH]

exit 0  property held on everything explored (KNOWN-FINDING lines possible)
exit 1  VIOLATION property=<id> replay=<path>
exit 2  machinery failure (never a verdict)
"""

from __future__ import annotations

import argparse
import importlib
import os
import sys
import traceback


def main(argv=None):
    ap = argparse.ArgumentParser()
    ap.add_argument('prop')
    ap.add_argument('--tier', default=os.environ.get('VERIF_TIER', 'quick'), choices=('quick', 'thorough'))
    ap.add_argument('--seed', type=int, default=int(os.environ.get('VERIF_SEED', '0') or 0))
    ap.add_argument('--replay', default=None)
    ap.add_argument('--selftest', action='store_true')
    args = ap.parse_args(argv)
    pid = args.prop.upper()
    from checks import common
    try:
        mod = importlib.import_module('checks.' + pid.lower())
    except ImportError as e:
        print(f'no check for {pid}: {e}', file=sys.stderr)
        return 2
    ctx = common.Ctx(pid, args.tier, args.seed)
    try:
        if args.replay:
            ctx.replaying = True
            rc = mod.replay(ctx, args.replay)
        elif args.selftest:
            rc = mod.selftest(ctx)
        else:
            mod.run(ctx)
            rc = ctx.finish()
    except common.Machinery as e:
        print(f'MACHINERY-FAILURE property={pid}: {e}', file=sys.stderr)
        rc = 2
    except Exception:  # noqa: BLE001
        traceback.print_exc()
        print(f'MACHINERY-FAILURE property={pid}: unexpected exception', file=sys.stderr)
        rc = 2
    finally:
        from harness import tlc
        tlc.cleanup()
    return rc


if __name__ == '__main__':
    sys.exit(main())
