"""C04 - formatting and comments outside the edited element are preserved byte for byte.

(M) spec/TokenMC.tla: a line-level reference editor (delete / replace / insert of a statement under every trivia mode)
    on all small layouts of comments and blank lines must satisfy every clause of spec/TokenLaws.tla, and every
    single-fault damage of its result (lost / duplicated / moved comment, changed or reordered foreign line, lost blank
    line) must be rejected by the clause that the property names for it.
(V) random edit histories of the shared edit driver on large, comment-heavy layouts of the corpus; per successful edit
    the recorder harness/c04_tokens.py attaches tokenize / ast facts of the pre and post source, and TLC evaluates
    spec/TokenTrace.tla (clauses of TokenLaws) on every event.
"""

from __future__ import annotations

import concurrent.futures as cf
import json
import multiprocessing as mp
import random

from checks import common

CLAUSES = ('Facts', 'OutsideTokens.out', 'OutsideTokens.in', 'Comments.lost', 'Comments.dup', 'OutsideLines',
           'BlankLines')
VARIANTS = (1, 7, 1, 7, 4, 1, 7, 3)  # biased to comments (1: trailing + own-line comments, 7: random mix of three)
N_JOIN = 3


def make_source(seed: int, variant: int) -> tuple[str, list]:
    """A large-ish program: N_JOIN corpus programs concatenated, then a comment-heavy layout variant."""
    from corpus.programs import PROGRAMS
    from harness import layouts
    rng = random.Random(seed * 7919 + 11)
    for _ in range(8):
        ps = [rng.randrange(len(PROGRAMS)) for _ in range(N_JOIN)]
        src = '\n'.join(PROGRAMS[p].rstrip('\n') + '\n' for p in ps)
        try:
            compile(src, '<c04>', 'exec', flags=0x400, dont_inherit=True)  # PyCF_ONLY_AST: must parse as one module
        except SyntaxError:
            continue
        return layouts.variant(src, variant, seed), ps
    return layouts.variant(PROGRAMS[ps[0]], variant, seed), ps[:1]


def _shard(args):
    shard_id, specs = args
    from harness import edits, histories, c04_tokens
    rec = edits.Recorder()
    tt = c04_tokens.TokTables()
    hooks = c04_tokens.make_hooks(tt)
    traces, scripts = [], {}
    for tid, seed, variant, nsteps in specs:
        src, progs = make_source(seed, variant)
        tr = histories.run_history(rec, tid, seed, src, nsteps, hooks=hooks)
        scripts[tid] = {'driver': 'c04_history', 'progs': progs, 'variant': variant, 'seed': seed, 'nsteps': nsteps,
                        'script': tr.pop('script')}
        traces.append(tr)
    return dict(rec.tab.dump(), **tt.dump(), traces=traces), scripts


def history_specs(ctx, n_hist, n_steps):
    rng = random.Random(ctx.seed * 1000003 + 404)
    return [(i + 1, rng.randrange(1 << 30), VARIANTS[i % len(VARIANTS)], n_steps) for i in range(n_hist)]


def generate(specs, nproc=14):
    nshards = max(1, min(nproc, len(specs) // 8 or 1))
    shards = [(k, specs[k::nshards]) for k in range(nshards)]
    if nshards == 1:
        return [_shard(shards[0])]
    with mp.get_context('fork').Pool(nshards) as pool:
        return pool.map(_shard, shards)


def validate_all(ctx, results):
    def one(bs):
        b, s = bs
        return b, s, ctx.validate(b, module='TokenTrace')
    with cf.ThreadPoolExecutor(max_workers=min(7, len(results))) as ex:
        return list(ex.map(one, results))


def _in_domain(ev):
    return ev.get('call') == 'edit' and ev['outcome'] == 'ok' and ev['law'] and ev['tk']['ok']


def collect(ctx, validated):
    for batch, scripts, verd in validated:
        by_id = {t['id']: t for t in batch['traces']}
        for tid, v in verd.items():
            tr = by_id[tid]
            first = {}
            for step, clause, klass in sorted(v['bad']):
                if clause in first:
                    continue  # one report per clause per trace
                first[clause] = step
                ev = tr['steps'][step - 1]
                sc = scripts[tid]
                st = sc['script'][step - 1]
                ctx.violation(clause, klass, {
                    'driver': sc['driver'], 'variant': sc['variant'], 'seed': sc['seed'], 'nsteps': sc['nsteps'],
                    'failing_step': step, 'event': {k: ev[k] for k in ev if k not in ('post', 'tk')},
                    'plan': st['plan'], 'pre_src': st['pre_src'], 'post_src': st['post_src'],
                }, detail=json.dumps({k: ev[k] for k in ('op', 'kind', 'field', 'codeform') if k in ev}))
        for tr in batch['traces']:
            for ev in tr['steps']:
                if not _in_domain(ev):
                    continue
                ctx.evals += 1
                tk = ev['tk']
                shape = ('insert' if ev['form'] == 'slice' and ev['start'] == ev['stop'] else
                         'delete' if not ev['srcs'] else 'replace')
                ctx.distinct.add((ev['kind'], ev['field'], ev['form'], shape, ev['opts']['trivia'], tk['stmt'],
                                  bool(tk['newc'])))
        for tr in batch['traces'][:1]:
            for k, ev in enumerate(tr['steps']):
                if _in_domain(ev):
                    st = scripts[tr['id']]['script'][k]
                    pre, post = st['pre_src'].split('\n'), st['post_src'].split('\n')
                    import difflib
                    ctx.sample({'variant': scripts[tr['id']]['variant'], 'lines': len(pre),
                                'request': {q: ev[q] for q in ('op', 'form', 'kind', 'field', 'start', 'stop', 'idx',
                                                               'srcs', 'codeform') if q in ev},
                                'trivia': ev['opts']['trivia'],
                                'diff': [d for d in difflib.unified_diff(pre, post, lineterm='', n=0)][2:12]})
                    break


def run(ctx):
    ctx.rule = ('M: TokenMC.tla - reference edits on all layouts within the constants satisfy every clause of '
                'TokenLaws, every single-fault damage is rejected. V: random edit histories (all reachable list / '
                'optional / single fields x index classes x entry points x trivia / pep8space / elif_ / docstr option '
                'values) on 3 concatenated corpus programs in comment-heavy layouts (variants 1, 7, 4, 3); each '
                'successful edit in the Sync domain judged by TLC (TokenTrace.tla) on tokenize / ast facts. '
                'distinct = distinct (container kind, field, form, shape, trivia option, statement-level?, new code '
                'has comments?) tuples judged')
    ctx.assumptions += ['tokenize / ast.parse of the pre and post source are the only sources of extents (trusted)',
                        'domain: successful edits with a valid request inside the Sync domain (SyncDomain of EditLaws); '
                        'f-string internals and raw mode excluded',
                        'comments the trivia option selects may be removed or kept (the property only forbids losing '
                        'unselected ones); post-stream own-token flags come from ast.parse of the post source']
    ctx.model('TokenMC', 'TokenMC' if ctx.quick else 'TokenMC_thorough',
              required=('DoDelete', 'DoReplace', 'DoInsert', 'DropFarComment', 'DropNearComment', 'DupComment',
                        'DropLineComment', 'ReindentFarLine', 'SwapFarStatements', 'DropFarBlank', 'DropNearBlank',
                        'GlueComment'))
    n_hist, n_steps = (300, 8) if ctx.quick else (3600, 10)
    specs = history_specs(ctx, n_hist, n_steps)
    res = generate(specs)
    val = validate_all(ctx, res)
    collect(ctx, val)
    ctx.require_clauses(['OutsideTokens.out', 'OutsideTokens.in', 'Comments.lost', 'Comments.dup', 'OutsideLines',
                         'BlankLines'])


def replay(ctx, path):
    with open(path) as f:
        rp = json.load(f)
    res = [_shard((0, [(1, rp['seed'], rp['variant'], rp['nsteps'])]))]
    val = validate_all(ctx, res)
    collect(ctx, val)
    for batch, scripts, verd in val:
        for tid, v in verd.items():
            print('verdict', tid, sorted(v['bad']))
    step = rp.get('failing_step')
    if step:
        st = scripts[1]['script'][step - 1] if step <= len(scripts[1]['script']) else None
        if st:
            import difflib
            print('--- step', step, json.dumps(st['plan'], default=str))
            print('\n'.join(difflib.unified_diff(st['pre_src'].split('\n'), st['post_src'].split('\n'), lineterm='')))
    return ctx.finish()
