"""C04 - formatting and comments outside the edited element are preserved byte for byte.

(M) spec/TokenMC.tla: the line-level reference editor of spec/TokenRef.tla (delete / replace / insert of a statement
    under every leading x trailing trivia mode, written from the documentation) on all small layouts of comments and
    blank lines must satisfy every clause of spec/TokenLaws.tla (written on token indices), and every single-fault
    damage of its result (lost / duplicated / moved comment, changed or reordered foreign line, lost blank line) must be
    rejected by the clause that the property names for it.
(G) spec/TokenGen.tla: TLC emits the case table of the reference editor (layout x request -> expected lines); the rows
    are concretised as real source - the abstract list embedded as the body / orelse / finalbody / handler / case block
    of 12 block contexts and as the elements of 5 bracketed expression sequences - the request is performed by the real
    pfst, and TLC judges the result: all clauses of TokenLaws, and RefEdit.agree (exactly the documented lines are gone).
(V) random edit histories of the shared edit driver (1/3 as it is, 2/3 with targets biased to statement lists and to
    commented multi-line containers, harness/c04_history.py) on large, comment-heavy layouts of the corpus; per
    successful edit the recorder harness/c04_tokens.py attaches tokenize / ast facts of the pre and post source, and TLC
    evaluates spec/TokenTrace.tla (clauses of TokenLaws) on every event.
"""

from __future__ import annotations

import concurrent.futures as cf
import json
import multiprocessing as mp
import random

from checks import common

CLAUSES = ('Facts', 'OutsideTokens.out', 'OutsideTokens.in', 'OutsideTokens.moved', 'Comments.lost', 'Comments.dup', 'OutsideLines',
           'BlankLines')
VARIANTS = (1, 7, 1, 7, 4, 1, 7, 3)  # biased to comments (1: trailing + own-line comments, 7: random mix of three)
N_JOIN = 3


def make_source(seed: int, variant: int) -> tuple[str, list]:
    """A large-ish program: N_JOIN corpus programs concatenated, then a comment-heavy layout variant (shared mutators)
    and, for 3 of 5 sources, the C04 comment / blank-line structures of harness/c04_layouts.py."""
    from corpus.programs import PROGRAMS
    from harness import layouts, c04_layouts
    rng = random.Random(seed * 7919 + 11)
    for _ in range(8):
        ps = [rng.randrange(len(PROGRAMS)) for _ in range(N_JOIN)]
        src = '\n'.join(PROGRAMS[p].rstrip('\n') + '\n' for p in ps)
        try:
            compile(src, '<c04>', 'exec', flags=0x400, dont_inherit=True)  # PyCF_ONLY_AST: must parse as one module
        except SyntaxError:
            continue
        break
    else:
        src, ps = PROGRAMS[ps[0]], ps[:1]
    src = layouts.variant(src, variant, seed)
    if seed % 5 < 3:  # comment blocks separated by empty lines, trailing comment lines, comments inside brackets
        src = c04_layouts.inject(src, seed)
    return src, ps


def _shard(args):
    shard_id, specs = args
    from harness import edits, histories, c04_tokens, c04_history
    rec = edits.Recorder()
    tt = c04_tokens.TokTables()
    hooks = c04_tokens.make_hooks(tt)
    traces, scripts = [], {}
    for tid, seed, variant, nsteps in specs:
        src, progs = make_source(seed, variant)
        # 1 of 3 histories by the shared driver as it is, 2 of 3 with targets biased to statement lists / multi-line
        # containers (harness/c04_history.py)
        run = histories.run_history if tid % 3 == 0 else c04_history.run_history
        tr = run(rec, tid, seed, src, nsteps, hooks=hooks)
        scripts[tid] = {'driver': 'c04_history', 'progs': progs, 'variant': variant, 'seed': seed, 'nsteps': nsteps,
                        'script': tr.pop('script')}
        traces.append(tr)
    return dict(rec.tab.dump(), **tt.dump(), traces=traces), scripts


def history_specs(ctx, n_hist, n_steps):
    rng = random.Random(ctx.seed * 1000003 + 404)
    return [(i + 1, rng.randrange(1 << 30), VARIANTS[i % len(VARIANTS)], n_steps) for i in range(n_hist)]


def generate(specs, nproc=14):
    nshards = max(1, min(12, len(specs) // 8 or 1), len(specs) // 160)  # <= ~160 histories (~20 MB) per TLC run
    shards = [(k, specs[k::nshards]) for k in range(nshards)]
    if nshards == 1:
        return [_shard(shards[0])]
    with mp.get_context('fork').Pool(min(nproc, nshards)) as pool:
        return pool.map(_shard, shards)


def _retry(fn, tries=3):
    """A JVM killed from outside (SIGKILL by the kernel's OOM killer on a crowded machine) is retried; anything else is
    a machinery failure at once."""
    for k in range(tries):
        try:
            return fn()
        except common.Machinery as e:
            if 'rc=-9' not in str(e) or k == tries - 1:
                raise
            import time
            time.sleep(5 * (k + 1))


def validate_all(ctx, results, par=6):
    def one(bs):
        b, s = bs
        return b, s, _retry(lambda: ctx.validate(b, module='TokenTrace', heap='3g'))
    with cf.ThreadPoolExecutor(max_workers=min(par, len(results))) as ex:
        return list(ex.map(one, results))


def _in_domain(ev):
    return ev.get('call') == 'edit' and ev['outcome'] == 'ok' and ev['law'] and ev['tk']['ok']


def collect(ctx, validated, samples=6):
    for batch, scripts, verd in validated:
        by_id = {t['id']: t for t in batch['traces']}
        for tid, v in verd.items():
            tr = by_id[tid]
            first = {}
            for step, clause, klass in sorted(v['bad']):
                if clause in first:
                    continue  # one report per clause per trace
                first[clause] = step
                ev = tr['steps'][step - 1]
                sc = scripts[tid]
                st = sc['script'][step - 1]
                ctx.violation(clause, klass, {
                    'driver': sc['driver'], 'variant': sc['variant'], 'hseed': sc['seed'], 'nsteps': sc['nsteps'],
                    'failing_step': step, 'event': {k: ev[k] for k in ev if k not in ('post', 'tk')},
                    'plan': st['plan'], 'pre_src': st['pre_src'], 'post_src': st['post_src'], 'gen': sc.get('gen'),
                }, detail=json.dumps({k: ev[k] for k in ('op', 'kind', 'field', 'codeform') if k in ev}))
        for tr in batch['traces']:
            for ev in tr['steps']:
                if not _in_domain(ev):
                    continue
                ctx.evals += 1
                tk = ev['tk']
                shape = ('insert' if ev['form'] == 'slice' and ev['start'] == ev['stop'] else
                         'delete' if not ev['srcs'] else 'replace')
                tvc = (tk['tv']['n'],) + tuple((a['k'], a['b'], a['w'], a['sg'], a['hasn']) for a in tk['tv']['a'])
                ctx.distinct.add((ev['kind'], ev['field'], ev['form'], shape, tvc, tk['stmt'], bool(tk['newc'])))
        for tr in batch['traces'][:1]:
            for k, ev in enumerate(tr['steps']):
                if _in_domain(ev) and len(ctx.samples) < samples:
                    st = scripts[tr['id']]['script'][k]
                    pre, post = st['pre_src'].split('\n'), st['post_src'].split('\n')
                    import difflib
                    ctx.sample({'variant': scripts[tr['id']]['variant'], 'lines': len(pre),
                                'request': {q: ev[q] for q in ('op', 'form', 'kind', 'field', 'start', 'stop', 'idx',
                                                               'srcs', 'codeform') if q in ev},
                                'trivia': ev['opts']['trivia'],
                                'diff': [d for d in difflib.unified_diff(pre, post, lineterm='', n=0)][2:12]})
                    break


def run(ctx):
    ctx.rule = ('M: TokenMC.tla - reference edits on all layouts within the constants satisfy every clause of '
                'TokenLaws, every single-fault damage is rejected by the named clause. G: case table of the reference '
                'editor emitted by TLC (TokenGen.tla), a seed-dependent sample replayed into pfst inside 12 block '
                'contexts and 5 expression-sequence contexts, judged by TLC (clauses + RefEdit.agree). V: random edit '
                'histories (all reachable list / optional / single fields x index classes x entry points x every '
                'documented form of the trivia option incl. line numbers x pep8space / elif_ / docstr values) on 3 '
                'concatenated corpus programs in comment-heavy layouts (shared variants 1, 7, 4, 3 + comment blocks '
                'separated by blank lines, trailing comment lines, comments inside brackets); each successful edit in '
                'the Sync domain judged by TLC (TokenTrace.tla) on tokenize / ast facts. distinct = distinct '
                '(container kind, field, form, shape, trivia option form, statement-level?, new code has comments?) '
                'tuples judged')
    ctx.assumptions += ['tokenize / ast.parse of the pre and post source are the only sources of extents (trusted)',
                        'domain: successful edits with a valid request inside the Sync domain (SyncDomain of EditLaws); '
                        'f-string internals and raw mode excluded',
                        'comments the trivia option selects may be removed or kept (the property only forbids losing '
                        'unselected ones); post-stream own-token flags come from ast.parse of the post source']
    actions = ('DoDelete', 'DoReplace', 'DoInsert', 'DropFarComment', 'DropNearComment', 'DupComment', 'DropLineComment',
               'ReindentFarLine', 'SwapFarStatements', 'DropFarBlank', 'DropNearBlank', 'GlueComment')
    # quick: 2 statements, trivia modes none / block / all x none / line / block / all; thorough: 3 statements with
    # these modes, and 2 statements with the line-number forms of the option added
    for cfg in (('TokenMC',) if ctx.quick else ('TokenMC_thorough', 'TokenMC_ints')):
        _retry(lambda: ctx.model('TokenMC', cfg, required=actions, heap='3g'))
    n_hist, n_steps = (420, 8) if ctx.quick else (3600, 10)
    specs = history_specs(ctx, n_hist, n_steps)
    wave = 560  # histories generated and validated together (bounds memory in the thorough tier)
    collect(ctx, validate_all(ctx, generated_cases(ctx), par=12), samples=2)  # (tiny streams: JVM start dominates)
    for k in range(0, len(specs), wave):
        collect(ctx, validate_all(ctx, generate(specs[k:k + wave])))
    ctx.extra['histories'] = n_hist
    ctx.extra['steps_per_history'] = n_steps
    ctx.require_clauses(['OutsideTokens.out', 'OutsideTokens.in', 'Comments.lost', 'Comments.dup', 'OutsideLines',
                         'BlankLines', 'RefEdit.agree', 'OutsideTokens.moved'])


class _FixedChoice:
    """rng whose choice() prefers the recorded entry point (single-step replays)."""

    def __init__(self, rng, prefer):
        self._rng, self._prefer = rng, prefer

    def choice(self, seq):
        return self._prefer if self._prefer in seq else self._rng.choice(seq)

    def __getattr__(self, name):
        return getattr(self._rng, name)


def _tuplify(v):
    return tuple(_tuplify(x) for x in v) if isinstance(v, list) else v


def run_step(rec, tt, tid: int, pre_src: str, pl: dict, extra=None):
    """Execute one request (a plan description) on a tree freshly built from `pre_src` -> (trace, script entry)."""
    import ast
    from harness import edits, c04_tokens
    from harness.edits import FST
    hooks = c04_tokens.make_hooks(tt)
    plan = edits.Plan()
    for k in ('kind', 'field', 'form', 'start', 'stop', 'idx', 'et', 'srcs', 'codeform', 'corrupt'):
        setattr(plan, k, pl.get(k))
    plan.path = tuple((f, i) for f, i in pl['path'])
    plan.opts = {k: _tuplify(v) for k, v in (pl.get('opts') or {}).items()}
    plan.view = _tuplify(pl['view']) if pl.get('view') is not None else None
    plan.op = None
    tree = ast.parse(pre_src)
    node = edits.node_at(tree, plan.path)
    plan.kind = plan.kind or type(node).__name__
    plan.lo = 1 if plan.field == '_body' and edits.has_docstr(node) else 0
    if plan.form == 'opt':
        plan.length, plan.quant = 1, 'single'
    else:
        plan.quant = 'list'
        if plan.field == '_body':
            plan.length = len(node.body) - plan.lo
        elif plan.field == '_all' and plan.kind == 'Compare':
            plan.length = 1 + len(node.comparators)
        elif plan.field == '_all' and plan.kind == 'arguments':
            plan.length = len(node.posonlyargs) + len(node.args) + len(node.kwonlyargs) + bool(node.vararg) + \
                bool(node.kwarg)
        elif plan.field == '_all':
            plan.length = len(node.keys)
        elif plan.field in ('_args', '_bases'):
            plan.length = len(node.args if plan.kind == 'Call' else node.bases) + len(node.keywords)
        else:
            plan.length = len(getattr(node, plan.field))
    root = FST(pre_src, 'exec')
    init = rec.state(root)
    rng = _FixedChoice(random.Random(0), pl.get('op'))
    o = edits.oracle(plan, pre_src, rec.tab)
    exc = edits.execute(plan, root, o, rng)
    ev = edits.make_event(plan, o, exc, rec.state(root), edits.try_parse(pre_src))
    ev['hasClean'], ev['clean'] = False, {'outcome': '', 'text': 0}
    hooks['post'](root, plan, o, ev, pre_src)
    if extra:
        ev.update(extra(root.src))
    script = {'pre_src': pre_src, 'plan': plan.describe(), 'post_src': root.src,
              'exc': None if exc is None else f'{type(exc).__name__}: {exc}'}
    return {'id': tid, 'seed': 0, 'init': init, 'steps': [ev]}, script


def single_step_batch(pre_src: str, pl: dict, gen=None):
    """Re-execute one recorded request on a tree freshly built from the recorded pre source -> (batch, scripts)."""
    from harness import edits, c04_tokens
    rec = edits.Recorder()
    tt = c04_tokens.TokTables()
    tr, script = run_step(rec, tt, 1, pre_src, pl, extra=_gen_extra(tt, gen) if gen else None)
    scripts = {1: {'driver': 'c04_step', 'progs': [], 'variant': -1, 'seed': 0, 'nsteps': 1, 'script': [script],
                   'gen': gen}}
    return dict(rec.tab.dump(), **tt.dump(), traces=[tr]), scripts


# ----------------------------------------------------------------------------------------------------------------------
# (G) the case table of the reference editor (spec/TokenGen.tla), concretised and replayed into pfst

def _line_text(x, expr=False):
    """Concrete text of an abstract line of the table: comment `# c<id>`, blank, lone line continuation, or the
    statements `s<i> = <i>` of the line joined by `; ` (expression contexts: elements `e<i>,` joined by a blank) with
    the optional line comment."""
    if x['k'] == 'blank':
        return ''
    if x['k'] == 'cont':
        return '\\'
    if x['k'] == 'cmt':
        return f"# c{x['id']}"
    if expr:
        code = ' '.join(('new' if i == 9 else f'e{i}') + ',' for i in x['ids'])
    else:
        code = '; '.join('new = 0' if i == 9 else f's{i} = {i}' for i in x['ids'])
    return code + (f"  # c{x['tr']}" if x['tr'] else '')


# block contexts the abstract statement list of a table row is embedded in: (header lines, indentation, path of the
# container, field, footer lines).  The header and footer are foreign text: the reference result keeps them as they are.
CONTEXTS = [
    ([], '', [], 'body', []),
    (['if x:  # hc'], '    ', [['body', 0]], 'body', ['z = 0  # fc']),
    (['if x: a  # hc', 'else:  # ec'], '    ', [['body', 0]], 'orelse', ['z = 0']),
    (['try: a', 'finally:  # fc'], '    ', [['body', 0]], 'finalbody', ['z = 0']),
    (['try:', '    a', 'except E: b  # xc', 'else:'], '    ', [['body', 0]], 'orelse', ['z = 0']),
    (['def f():  # hc', "    '''doc'''"], '    ', [['body', 0]], '_body', ['', 'z = 0']),
    (['for i in j: a', 'else:'], '    ', [['body', 0]], 'orelse', []),
    (['class C:  # cc'], '    ', [['body', 0]], 'body', ['z = 0']),
    (['while x:', '    if y: a  # ac', '    else:'], '        ', [['body', 0], ['body', 0]], 'orelse', ['    w = 1  # wc']),
    (['match x:', '    case 1:  # kc'], '        ', [['body', 0], ['cases', 0]], 'body', ['    case _: pass']),
    (['with a as b:  # hc'], '   ', [['body', 0]], 'body', ['z = 0']),
    (['try: a', 'except E:  # xc'], '  ', [['body', 0], ['handlers', 0]], 'body', ['finally: c']),
]


# the same abstract lists as the elements of bracketed expression sequences (one element per line): slice operations
# take trivia by the same documented rules;  (header, indentation, path, field, footer)
EXPR_CONTEXTS = [
    (['x = [  # hc'], '    ', [['body', 0], ['value', None]], 'elts', [']  # fc']),
    (['f(  # hc'], '    ', [['body', 0], ['value', None]], 'args', [')']),
    (['x = (  # hc'], '    ', [['body', 0], ['value', None]], 'elts', [')']),
    (['x = {  # hc'], '  ', [['body', 0], ['value', None]], 'elts', ['}']),
    (['class C(  # hc'], '        ', [['body', 0]], 'bases', ['): pass']),
]


def _items(texts, expr, only_comments=False):
    """The text as a sequence of items - statements (elements) and comments - without layout: empty lines and lone line
    continuations are dropped, a `;`-joined line (expression contexts: a line of several elements) gives one item per
    statement, a line comment is an item of its own.  Where pfst breaks or joins lines, and whether an unselected line
    comment ends up behind its neighbour or on a line of its own, is not the reference editor's business (the clauses
    of TokenLaws judge that); RefEdit.agree says which statements and comments exist, in which order."""
    out = []
    for t in texts:
        code, h, com = t.partition('#')
        parts = [' '.join(c.split()) for c in code.split(',' if expr else ';')]
        if not only_comments:
            out += [c for c in parts if c and c != '\\']
        if h:
            out.append('# ' + com.strip())
    return out


def _option_part(mode, sp, p0):
    if mode.startswith('up'):
        return p0 - int(mode[2:])
    if mode.startswith('down'):
        return p0 + int(mode[4:])
    return mode + (sp['sg'] + str(sp['n']) if sp['n'] else '')


def _gen_shard(args):
    shard_id, rows = args
    from harness import edits, c04_tokens
    rec = edits.Recorder()
    tt = c04_tokens.TokTables()
    traces, scripts = [], {}
    for tid, row in rows:
        q = row['req']
        expr = row['ctx'] >= len(CONTEXTS)
        head, ind, path, field, foot = (EXPR_CONTEXTS[row['ctx'] - len(CONTEXTS)] if expr else CONTEXTS[row['ctx']])

        def text(lines):
            return head + [ind + t if t else '' for t in (_line_text(x, expr) for x in lines)] + foot

        pre_src = '\n'.join(text(row['pre'])) + '\n'
        # line-number forms of the option: relative to the line of the targeted statement in the concrete text
        p0 = len(head) + next((k for k, x in enumerate(row['pre']) if x['k'] == 'stmt' and q['i'] in x['ids']), 0)
        sp = row['sp']
        trivia = (_option_part(q['lm'], sp['lead'], p0), _option_part(q['tm'], sp['trail'], p0))
        pl = {'path': path, 'kind': '', 'field': field, 'start': None, 'stop': None, 'idx': None,
              'et': 'expr' if expr else 'stmt', 'srcs': [], 'codeform': 'src', 'corrupt': None, 'view': None,
              'opts': {'trivia': trivia}}
        new = 'new' if expr else 'new = 0'
        if q['op'] == 'insert':
            # expression sequences: leading trivia selected (an insertion must not take it), trailing trivia not
            # (known finding F-C04-expr-insert-overwrites-neighbour-trivia, trailing half)
            pl.update(form='slice', start=q['i'] - 1, stop=q['i'] - 1, srcs=[new], op='put_slice' if expr else 'insert',
                      opts={'trivia': ('all' + (sp['lead']['sg'] + str(sp['lead']['n']) if sp['lead']['n'] else ''),
                                       'none')} if expr else {})
        elif expr:
            pl.update(form='slice', start=q['i'] - 1, stop=q['i'], srcs=[new] if q['op'] == 'replace' else [],
                      op='put_slice')
        elif q['op'] == 'delete':
            pl.update(form='del', idx=q['i'] - 1, op='remove')
        else:
            pl.update(form='one', idx=q['i'] - 1, srcs=[new], op='replace')
        # for an insertion into an expression sequence only the comments are compared (order of the new element and
        # the separators around it are the container law's business, C03)
        only_comments = expr and q['op'] == 'insert'

        def lines_of(texts):
            return [tt.line(t) for t in _items(texts, expr, only_comments)]

        exp = list(row['expect'])
        g = {'op': q['op'], 'expect': lines_of(text(exp)), 'newline': tt.line(new)}
        tr, script = run_step(rec, tt, tid, pre_src, pl,
                              extra=lambda post_src: {'g': dict(g, got=lines_of(post_src.split('\n')))})
        scripts[tid] = {'driver': 'c04_gen', 'progs': [], 'variant': -2, 'seed': 0, 'nsteps': 1, 'script': [script],
                        'gen': {'op': q['op'], 'expr': expr, 'only_comments': only_comments,
                                'expect': text(exp), 'new': new}}
        traces.append(tr)
    return dict(rec.tab.dump(), **tt.dump(), traces=traces), scripts


def _gen_extra(tt, gen):
    """The `g` record of a generated case from its stored description (replays)."""
    def lines_of(texts):
        return [tt.line(t) for t in _items(texts, gen['expr'], gen['only_comments'])]
    g = {'op': gen['op'], 'expect': lines_of(gen['expect']), 'newline': tt.line(gen['new'])}
    return lambda post_src: {'g': dict(g, got=lines_of(post_src.split('\n')))}


def _elif_source(form, ind):
    """The source of a case of the `elif` table: the block that the edit moves (re-indents) holds a plain expression
    string, the docstring of a nested def, an assigned string and a string in a nested block, all multi-line."""
    i1, i2, i3 = ' ' * ind, ' ' * (2 * ind), ' ' * (3 * ind)
    block = ['"""top', 'cont"""', 'def g():', i1 + '"""doc', i1 + 'cont"""', i1 + 's = """as', 'signed"""', i1 + 'return s',
             'if c:  # cc', i1 + '"""nested', i1 + 'cont"""', 'y = 2  # cy']
    lines = ['if a:', i1 + 'x = 1  # cx']
    if form == 'elif':
        lines += ['elif b:  # ec'] + [(i1 + t if t != 'signed"""' else t) for t in block]
    else:
        lines += ['else:  # lc', i1 + 'q = 0', i1 + 'if b:  # ec'] + [(i2 + t if t != 'signed"""' else t) for t in block]
    return '\n'.join(lines + ['z = 0  # cz']) + '\n'


def _elif_shard(cases):
    from harness import edits, c04_tokens
    rec = edits.Recorder()
    tt = c04_tokens.TokTables()
    traces, scripts = [], {}
    for tid, case in cases:
        d = {'True': True, 'False': False, 'strict': 'strict'}[case['docstr']]
        pl = {'path': [['body', 0]], 'kind': 'If', 'field': 'orelse', 'start': None, 'stop': None, 'idx': None, 'et': 'stmt',
              'srcs': [], 'codeform': 'src', 'corrupt': None, 'view': None, 'opts': {'docstr': d}}
        if case['op'] == 'delete0':
            pl.update(form='del', idx=0, op='remove')
        else:
            k = int(case['op'][-1])
            pl.update(form='slice', start=k, stop=k, srcs=['new = 0'], op='put_slice')
        tr, script = run_step(rec, tt, tid, _elif_source(case['form'], case['ind']), pl)
        scripts[tid] = {'driver': 'c04_elif', 'progs': [], 'variant': -3, 'seed': 0, 'nsteps': 1, 'script': [script]}
        traces.append(tr)
    return dict(rec.tab.dump(), **tt.dump(), traces=traces), scripts


def generated_cases(ctx, nproc=14):
    """TLC emits the table (ASSUME JsonSerialize), the rows are concretised and run against pfst."""
    import os
    import tempfile
    from harness import tlc
    out = os.path.join(tempfile.mkdtemp(prefix='c04gen-', dir=tlc.scratch()), 'rows.json')
    cfg = 'TokenGen' if ctx.quick else 'TokenGen_thorough'
    try:
        r = _retry(lambda: _run_gen(cfg, out))
    except tlc.TLCError as e:
        raise common.Machinery(str(e)) from e
    ctx.models.append({'module': 'TokenGen', 'cfg': cfg, 'kind': 'case-table', 'wall_s': r['wall_s']})
    with open(out) as f:
        table = json.load(f)
    rows, spaces = table['rows'], table['spaces']
    ctx.extra['case_table_rows'] = len(rows)
    rng = random.Random(ctx.seed + 77)  # seed-dependent sample of the table (quick: NStmt = 2, thorough: NStmt = 3)
    rows = rng.sample(rows, min(len(rows), 3000 if ctx.quick else 10000))
    nctx = len(CONTEXTS) + len(EXPR_CONTEXTS)
    for k, row in enumerate(rows):  # each sampled row is replayed inside one context with one pair of space counts
        row['ctx'] = k % nctx       # (all contexts and all leading x trailing '+N' / '-N' counts in turn)
        row['sp'] = spaces[(k // nctx) % len(spaces)]
    ctx.extra['space_count_pairs'] = len(spaces)
    ctx.extra['generated_cases'] = len(rows)
    numbered = list(enumerate(rows, 1))
    nshards = max(1, min(12, len(numbered) // 200 or 1), len(numbered) // 1500)
    shards = [(k, numbered[k::nshards]) for k in range(nshards)]
    ctx.extra['elif_docstr_cases'] = len(table['elifs'])
    with mp.get_context('fork').Pool(min(nproc, nshards)) as pool:
        res = pool.map(_gen_shard, shards)
    return res + [_elif_shard([(900000 + k, c) for k, c in enumerate(table['elifs'], 1)])]


def _run_gen(cfg, out):
    from harness import tlc
    try:
        return tlc.run_model('TokenGen', cfg, workers=2, timeout=900, heap='3g', env={'OUT_FILE': out})
    except tlc.TLCError as e:
        raise common.Machinery(str(e)) from e


def replay(ctx, path):
    """Re-executes the recorded request on the recorded pre source against the current pfst and re-validates it."""
    import difflib
    with open(path) as f:
        rp = json.load(f)
    ctx.seed = f'{ctx.seed}r'  # (a still failing replay is written next to, not over, the recorded replays)
    batch, scripts = single_step_batch(rp['pre_src'], rp['plan'], rp.get('gen'))
    val = [(batch, scripts, ctx.validate(batch, module='TokenTrace'))]
    collect(ctx, val)
    for _, _, verd in val:
        for tid, v in verd.items():
            print('verdict', tid, sorted(v['bad']), 'clauses evaluated:', sorted(v['seen']))
    st = scripts[1]['script'][0]
    print('--- request', json.dumps(st['plan'], default=str), '=>', st['exc'] or 'ok')
    print('\n'.join(difflib.unified_diff(st['pre_src'].split('\n'), st['post_src'].split('\n'), lineterm='')))
    return ctx.finish()


SELFTEST_SRC = '''\
import os  # first
# about a
a = [
    1,  # one
    2,
]

# about f
def f(x):
    # body comment
    y = x + 1  # inc
    return y  # done

# tail comment
z = f(a)  # call
'''


def selftest(ctx):
    """Binding demonstration (DESIGN 2.9a): an accepted trace is corrupted in one recorded field and TLC must reject it
    naming the right clause."""
    import copy
    plan = {'path': [['body', 2]], 'kind': 'FunctionDef', 'field': 'body', 'form': 'one', 'start': None, 'stop': None,
            'idx': 0, 'et': 'stmt', 'srcs': ['new = 1'], 'codeform': 'src', 'op': 'put', 'opts': {}, 'corrupt': None,
            'view': None}
    batch, _ = single_step_batch(SELFTEST_SRC, plan)
    ev = batch['traces'][0]['steps'][0]
    assert ev['outcome'] == 'ok' and ev['tk']['ok'], ev
    ok = True

    def run(name, mutate, expect):
        nonlocal ok
        b = copy.deepcopy(batch)
        mutate(b, b['streams'][b['traces'][0]['steps'][0]['tk']['post'] - 1])
        v = ctx.validate(b, module='TokenTrace')[1]
        got = sorted({c for _, c, _ in v['bad']})
        good = set(expect) <= set(got) if expect else not got
        ok &= good
        print(f'selftest {name}: failed clauses {got} expected {sorted(expect)} -> {"ok" if good else "WRONG"}')

    def drop_token(text):
        def m(b, post):
            i = next(i for i, k in enumerate(post['k']) if b['ktab'][k - 1]['s'] == text)
            for f in ('k', 'sl', 'el', 'fol'):
                del post[f][i]
        return m

    def swap_lines(b, post):
        post['ln'][0], post['ln'][1] = post['ln'][1], post['ln'][0]

    def dup_comment(b, post):
        i = next(i for i, k in enumerate(post['k']) if b['ktab'][k - 1]['s'] == '# call')
        for f in ('k', 'sl', 'el', 'fol'):
            post[f].insert(i, post[f][i])

    run('unchanged', lambda b, post: None, [])
    run('drop far comment token (# one)', drop_token('# one'), ['OutsideTokens.out', 'Comments.lost'])
    run('drop comment of the container (# done)', drop_token('# done'), ['OutsideTokens.in', 'Comments.lost'])
    run('drop code token outside the container (import)', drop_token('import'), ['OutsideTokens.out'])
    run('swap two far lines', swap_lines, ['OutsideLines'])
    run('duplicate a comment token (# call)', dup_comment, ['Comments.dup'])
    print('selftest', 'passed' if ok else 'FAILED')
    return 0 if ok else 2
